import ReplicatModel.PathWalk
/-! helper lemmas and the declarative specification for the path-walk model -/
namespace Replicat.PathWalk

/-- p (with size s) is a file under the directory frame (start, es): a chain of entries passing the directory test,
ending in an entry passing the file test -/
inductive FileUnder (root : Node) (follow : Bool) : Frame → Found → Prop
  | here {start es name n s} : (name, n) ∈ es.toList → classify root follow (start ++ [name]) n = .ok (.isFile s) →
      FileUnder root follow (start, es) (start ++ [name], s)
  | deeper {start es name n es' f} : (name, n) ∈ es.toList → classify root follow (start ++ [name]) n = .ok (.isDir es') →
      FileUnder root follow (start ++ [name], es') f → FileUnder root follow (start, es) f

/-- the two outputs of `scan`, by membership -/
theorem scan_spec (root : Node) (follow : Bool) (start : Path) : ∀ (es : Entries) (ds : List Frame) (fs : List Found),
    scan root follow start es = .ok (ds, fs) →
    (∀ fr, fr ∈ ds ↔ ∃ name n es', (name, n) ∈ es.toList ∧ classify root follow (start ++ [name]) n = .ok (.isDir es') ∧
        fr = (start ++ [name], es')) ∧
    (∀ f, f ∈ fs ↔ ∃ name n s, (name, n) ∈ es.toList ∧ classify root follow (start ++ [name]) n = .ok (.isFile s) ∧
        f = (start ++ [name], s))
  | .nil, ds, fs, h => by
    simp [scan] at h
    obtain ⟨rfl, rfl⟩ := h
    simp [Entries.toList]
  | .cons name n rest, ds, fs, h => by
    simp only [scan] at h
    split at h
    · cases h
    · rename_i k hk
      split at h
      · cases h
      · rename_i ds' fs' hr
        have ih := scan_spec root follow start rest ds' fs' hr
        obtain ⟨ih1, ih2⟩ := ih
        cases k with
        | isDir es' =>
          simp at h; obtain ⟨rfl, rfl⟩ := h
          refine ⟨fun fr => ?_, fun f => ?_⟩
          · simp only [List.mem_cons, ih1, Entries.toList]
            constructor
            · rintro (rfl | ⟨a, b, c, h1, h2, h3⟩)
              · exact ⟨name, n, es', Or.inl rfl, hk, rfl⟩
              · exact ⟨a, b, c, Or.inr h1, h2, h3⟩
            · rintro ⟨a, b, c, h1 | h1, h2, h3⟩
              · cases h1; rw [hk] at h2; cases h2; exact Or.inl h3
              · exact Or.inr ⟨a, b, c, h1, h2, h3⟩
          · simp only [ih2, Entries.toList, List.mem_cons]
            constructor
            · rintro ⟨a, b, c, h1, h2, h3⟩; exact ⟨a, b, c, Or.inr h1, h2, h3⟩
            · rintro ⟨a, b, c, h1 | h1, h2, h3⟩
              · cases h1; rw [hk] at h2; cases h2
              · exact ⟨a, b, c, h1, h2, h3⟩
        | isFile s =>
          simp at h; obtain ⟨rfl, rfl⟩ := h
          refine ⟨fun fr => ?_, fun f => ?_⟩
          · simp only [ih1, Entries.toList, List.mem_cons]
            constructor
            · rintro ⟨a, b, c, h1, h2, h3⟩; exact ⟨a, b, c, Or.inr h1, h2, h3⟩
            · rintro ⟨a, b, c, h1 | h1, h2, h3⟩
              · cases h1; rw [hk] at h2; cases h2
              · exact ⟨a, b, c, h1, h2, h3⟩
          · simp only [List.mem_cons, ih2, Entries.toList]
            constructor
            · rintro (rfl | ⟨a, b, c, h1, h2, h3⟩)
              · exact ⟨name, n, s, Or.inl rfl, hk, rfl⟩
              · exact ⟨a, b, c, Or.inr h1, h2, h3⟩
            · rintro ⟨a, b, c, h1 | h1, h2, h3⟩
              · cases h1; rw [hk] at h2; cases h2; exact Or.inl h3
              · exact Or.inr ⟨a, b, c, h1, h2, h3⟩
        | neither =>
          simp at h; obtain ⟨rfl, rfl⟩ := h
          refine ⟨fun fr => ?_, fun f => ?_⟩
          · simp only [ih1, Entries.toList, List.mem_cons]
            constructor
            · rintro ⟨a, b, c, h1, h2, h3⟩; exact ⟨a, b, c, Or.inr h1, h2, h3⟩
            · rintro ⟨a, b, c, h1 | h1, h2, h3⟩
              · cases h1; rw [hk] at h2; cases h2
              · exact ⟨a, b, c, h1, h2, h3⟩
          · simp only [ih2, Entries.toList, List.mem_cons]
            constructor
            · rintro ⟨a, b, c, h1, h2, h3⟩; exact ⟨a, b, c, Or.inr h1, h2, h3⟩
            · rintro ⟨a, b, c, h1 | h1, h2, h3⟩
              · cases h1; rw [hk] at h2; cases h2
              · exact ⟨a, b, c, h1, h2, h3⟩

theorem mem_push {lifo : Bool} {ds stack : List Frame} {fr : Frame} : fr ∈ push lifo ds stack ↔ fr ∈ ds ∨ fr ∈ stack := by
  unfold push; cases lifo <;> simp [or_comm]

/-- a frame's files = the scan's files + the files under the scan's directories -/
theorem fileUnder_iff_scan {root follow start es ds fs} (h : scan root follow start es = .ok (ds, fs)) (f : Found) :
    FileUnder root follow (start, es) f ↔ f ∈ fs ∨ ∃ fr ∈ ds, FileUnder root follow fr f := by
  obtain ⟨h1, h2⟩ := scan_spec root follow start es ds fs h
  constructor
  · intro hf
    cases hf with
    | here hm hc => exact Or.inl ((h2 _).2 ⟨_, _, _, hm, hc, rfl⟩)
    | deeper hm hc hb => exact Or.inr ⟨_, (h1 _).2 ⟨_, _, _, hm, hc, rfl⟩, hb⟩
  · rintro (hf | ⟨fr, hfr, hb⟩)
    · obtain ⟨a, b, c, hm, hc, rfl⟩ := (h2 _).1 hf
      exact .here hm hc
    · obtain ⟨a, b, c, hm, hc, rfl⟩ := (h1 _).1 hfr
      exact .deeper hm hc hb

theorem walk_spec (root : Node) (follow lifo : Bool) : ∀ (n : Nat) (stack : List Frame) (ys : List Found),
    walk root follow lifo n stack = .ok ys → ∀ f, f ∈ ys ↔ ∃ fr ∈ stack, FileUnder root follow fr f := by
  intro n
  induction n with
  | zero =>
    intro stack ys h f
    cases stack with
    | nil => simp [walk] at h; subst h; simp
    | cons a t => simp [walk] at h
  | succ n ih =>
    intro stack ys h f
    cases stack with
    | nil => simp [walk] at h; subst h; simp
    | cons a t =>
      obtain ⟨start, es⟩ := a
      simp only [walk] at h
      split at h
      · cases h
      · rename_i ds fs hs
        split at h
        · cases h
        · rename_i rest hr
          cases h
          have := ih _ _ hr f
          simp only [List.mem_append, this, List.mem_cons, mem_push]
          constructor
          · rintro (hf | ⟨fr, hfr | hfr, hb⟩)
            · exact ⟨_, Or.inl rfl, (fileUnder_iff_scan hs f).2 (Or.inl hf)⟩
            · exact ⟨_, Or.inl rfl, (fileUnder_iff_scan hs f).2 (Or.inr ⟨fr, hfr, hb⟩)⟩
            · exact ⟨fr, Or.inr hfr, hb⟩
          · rintro ⟨fr, rfl | hfr, hb⟩
            · rcases (fileUnder_iff_scan hs f).1 hb with hf | ⟨fr, hfr, hb⟩
              · exact Or.inl hf
              · exact Or.inr ⟨fr, Or.inl hfr, hb⟩
            · exact Or.inr ⟨fr, Or.inr hfr, hb⟩

theorem walk_fuel_mono (root : Node) (follow lifo : Bool) (k : Nat) : ∀ (n : Nat) (stack : List Frame) (ys : List Found),
    walk root follow lifo n stack = .ok ys → walk root follow lifo (n + k) stack = .ok ys := by
  intro n
  induction n with
  | zero =>
    intro stack ys h
    cases stack with
    | nil => simp [walk] at h; subst h; cases k <;> simp [walk]
    | cons a t => simp [walk] at h
  | succ n ih =>
    intro stack ys h
    cases stack with
    | nil => simp [walk] at h; subst h; simp [walk]
    | cons a t =>
      obtain ⟨start, es⟩ := a
      rw [show n + 1 + k = (n + k) + 1 by omega]
      simp only [walk] at h ⊢
      split at h
      · cases h
      · rename_i ds fs hs
        split at h
        · cases h
        · rename_i rest hr
          cases h
          simp only [ih _ _ hr]

/-! ### dedupKeys -/
theorem dedupKeys_spec : ∀ (l : List Rec) (seen : List String),
    ((dedupKeys l seen).map Prod.fst).Nodup ∧ (∀ r ∈ dedupKeys l seen, r.1 ∉ seen ∧ r ∈ l) := by
  intro l
  induction l with
  | nil => intro seen; simp [dedupKeys]
  | cons r rs ih =>
    intro seen
    simp only [dedupKeys]
    split
    · obtain ⟨h1, h2⟩ := ih seen
      exact ⟨h1, fun x hx => ⟨(h2 x hx).1, List.mem_cons_of_mem _ (h2 x hx).2⟩⟩
    · rename_i hns
      obtain ⟨h1, h2⟩ := ih (r.1 :: seen)
      refine ⟨?_, ?_⟩
      · simp only [List.map_cons, List.nodup_cons]
        refine ⟨?_, h1⟩
        intro hm
        obtain ⟨x, hx, hxe⟩ := List.mem_map.1 hm
        have := (h2 x hx).1
        simp [hxe] at this
      · intro x hx
        rcases List.mem_cons.1 hx with rfl | hx
        · exact ⟨hns, List.mem_cons_self⟩
        · have := h2 x hx
          exact ⟨fun hh => this.1 (List.mem_cons_of_mem _ hh), List.mem_cons_of_mem _ this.2⟩

/-- every key of the input survives (first occurrence) -/
theorem dedupKeys_key_complete : ∀ (l : List Rec) (seen : List String) (r : Rec), r ∈ l → r.1 ∉ seen →
    r.1 ∈ (dedupKeys l seen).map Prod.fst := by
  intro l
  induction l with
  | nil => intro seen r hr; cases hr
  | cons x xs ih =>
    intro seen r hr hns
    simp only [dedupKeys]
    split
    · rename_i hx
      rcases List.mem_cons.1 hr with rfl | hr
      · exact absurd hx hns
      · exact ih seen r hr hns
    · rcases List.mem_cons.1 hr with rfl | hr
      · simp
      · by_cases he : r.1 = x.1
        · simp [he]
        · simp only [List.map_cons, List.mem_cons]
          right
          exact ih (x.1 :: seen) r hr (by simp [he, hns])

/-- when a key determines the record, every record survives -/
theorem dedupKeys_complete : ∀ (l : List Rec) (seen : List String), (∀ a ∈ l, ∀ b ∈ l, a.1 = b.1 → a = b) →
    ∀ r ∈ l, r.1 ∉ seen → r ∈ dedupKeys l seen := by
  intro l
  induction l with
  | nil => intro seen _ r hr; cases hr
  | cons x xs ih =>
    intro seen hf r hr hns
    have hf' : ∀ a ∈ xs, ∀ b ∈ xs, a.1 = b.1 → a = b :=
      fun a ha b hb => hf a (List.mem_cons_of_mem _ ha) b (List.mem_cons_of_mem _ hb)
    simp only [dedupKeys]
    split
    · rename_i hx
      rcases List.mem_cons.1 hr with rfl | hr
      · exact absurd hx hns
      · exact ih seen hf' r hr hns
    · rcases List.mem_cons.1 hr with rfl | hr'
      · exact List.mem_cons_self
      · by_cases he : r.1 = x.1
        · have := hf r hr x List.mem_cons_self he
          subst this; exact List.mem_cons_self
        · exact List.mem_cons_of_mem _ (ih (x.1 :: seen) hf' r hr' (by simp [he, hns]))

/-! ### flattenArgs -/
/-- what one argument contributes -/
def ArgYields (cfg : Cfg) (root : Node) (a : Path) (f : Found) : Prop :=
  ∃ p n l', resolveArg root cfg.argFuel a = .ok (p, n) ∧ flattenOne cfg root p n = .ok l' ∧ f ∈ l'

theorem flattenArgs_mem (cfg : Cfg) (root : Node) : ∀ (args : List Path) (l : List Found),
    flattenArgs cfg root args = .ok l → ∀ f, f ∈ l ↔ ∃ a ∈ args, ∃ p n l',
      resolveArg root cfg.argFuel a = .ok (p, n) ∧ flattenOne cfg root p n = .ok l' ∧ f ∈ l' := by
  intro args
  induction args with
  | nil => intro l h f; simp [flattenArgs] at h; subst h; simp
  | cons a as ih =>
    intro l h f
    simp only [flattenArgs] at h
    split at h
    · cases h
    · rename_i p n hr
      split at h
      · cases h
      · rename_i l1 h1
        split at h
        · cases h
        · rename_i r hrr
          cases h
          simp only [List.mem_append, ih r hrr f, List.mem_cons]
          constructor
          · rintro (hf | ⟨a', ha', rest⟩)
            · exact ⟨a, Or.inl rfl, p, n, l1, hr, h1, hf⟩
            · exact ⟨a', Or.inr ha', rest⟩
          · rintro ⟨a', rfl | ha', p', n', l', h1', h2', h3'⟩
            · rw [hr] at h1'; cases h1'; rw [h1] at h2'; cases h2'; exact Or.inl h3'
            · exact Or.inr ⟨a', ha', p', n', l', h1', h2', h3'⟩

/-- `flattenArgs` succeeds exactly when every argument resolves and walks without error -/
theorem flattenArgs_ok_iff (cfg : Cfg) (root : Node) : ∀ (args : List Path),
    (∃ l, flattenArgs cfg root args = .ok l) ↔ ∀ a ∈ args, ∃ p n l',
      resolveArg root cfg.argFuel a = .ok (p, n) ∧ flattenOne cfg root p n = .ok l' := by
  intro args
  induction args with
  | nil => simp [flattenArgs]
  | cons a as ih =>
    constructor
    · rintro ⟨l, h⟩
      simp only [flattenArgs] at h
      split at h
      · cases h
      · rename_i p n hr
        split at h
        · cases h
        · rename_i l1 h1
          split at h
          · cases h
          · rename_i r hrr
            intro a' ha'
            rcases List.mem_cons.1 ha' with rfl | ha'
            · exact ⟨p, n, l1, hr, h1⟩
            · exact ih.1 ⟨r, hrr⟩ a' ha'
    · intro hall
      obtain ⟨p, n, l1, hr, h1⟩ := hall a List.mem_cons_self
      obtain ⟨r, hrr⟩ := ih.2 (fun a' ha' => hall a' (List.mem_cons_of_mem _ ha'))
      exact ⟨l1 ++ r, by simp only [flattenArgs, hr, h1, hrr]⟩

/-- the arguments of `args'` are arguments of `args`: success transfers and nothing new is found -/
theorem flattenArgs_subset (cfg : Cfg) (root : Node) {args args' : List Path} {l : List Found}
    (hsub : ∀ a, a ∈ args' → a ∈ args) (h : flattenArgs cfg root args = .ok l) :
    ∃ l', flattenArgs cfg root args' = .ok l' ∧ ∀ f, f ∈ l' → f ∈ l := by
  have hall := (flattenArgs_ok_iff cfg root args).1 ⟨l, h⟩
  obtain ⟨l', hl'⟩ := (flattenArgs_ok_iff cfg root args').2 (fun a ha => hall a (hsub a ha))
  refine ⟨l', hl', fun f hf => ?_⟩
  obtain ⟨a, ha, rest⟩ := (flattenArgs_mem cfg root args' l' hl' f).1 hf
  exact (flattenArgs_mem cfg root args l h f).2 ⟨a, hsub a ha, rest⟩

/-! ### the sort key -/
theorem keyLe_trans (a b c : Rec) : keyLe a b = true → keyLe b c = true → keyLe a c = true := by
  simp only [keyLe, Bool.or_eq_true, Bool.and_eq_true, decide_eq_true_eq, beq_iff_eq]
  rintro (h1 | ⟨h1, h1'⟩) (h2 | ⟨h2, h2'⟩)
  · left; omega
  · left; omega
  · left; omega
  · right; exact ⟨by omega, String.le_trans h1' h2'⟩

theorem keyLe_total (a b : Rec) : (keyLe a b || keyLe b a) = true := by
  simp only [keyLe, Bool.or_eq_true, Bool.and_eq_true, decide_eq_true_eq, beq_iff_eq]
  rcases Nat.lt_trichotomy a.2 b.2 with h | h | h
  · exact Or.inl (Or.inl h)
  · rcases String.le_total a.1 b.1 with h' | h'
    · exact Or.inl (Or.inr ⟨h, h'⟩)
    · exact Or.inr (Or.inr ⟨h.symm, h'⟩)
  · exact Or.inr (Or.inl h)

theorem keyLe_antisymm (a b : Rec) : keyLe a b = true → keyLe b a = true → a = b := by
  simp only [keyLe, Bool.or_eq_true, Bool.and_eq_true, decide_eq_true_eq, beq_iff_eq]
  rintro (h1 | ⟨h1, h1'⟩) (h2 | ⟨h2, h2'⟩)
  · omega
  · omega
  · omega
  · exact Prod.ext (String.le_antisymm h1' h2') h1

theorem nodup_of_map_fst {l : List Rec} (h : (l.map Prod.fst).Nodup) : l.Nodup := by
  induction l with
  | nil => simp
  | cons x xs ih =>
    simp only [List.map_cons, List.nodup_cons] at h ⊢
    exact ⟨fun hm => h.1 (List.mem_map.2 ⟨x, hm, rfl⟩), ih h.2⟩

theorem sortFiles_canonical {l₁ l₂ : List Rec} (h1 : l₁.Nodup) (h2 : l₂.Nodup) (h : ∀ r, r ∈ l₁ ↔ r ∈ l₂) :
    sortFiles l₁ = sortFiles l₂ := by
  have hp : l₁.Perm l₂ := (List.perm_ext_iff_of_nodup h1 h2).2 h
  unfold sortFiles
  refine List.Perm.eq_of_pairwise (le := fun a b => keyLe a b = true) (fun a b _ _ => keyLe_antisymm a b)
    (List.pairwise_mergeSort keyLe_trans keyLe_total l₁) (List.pairwise_mergeSort keyLe_trans keyLe_total l₂) ?_
  exact ((List.mergeSort_perm l₁ keyLe).trans hp).trans (List.mergeSort_perm l₂ keyLe).symm

/-- decidable equality of results (for the kernel-checked witnesses) -/
instance instDecEqExcept {ε α : Type} [DecidableEq ε] [DecidableEq α] : DecidableEq (Except ε α)
  | .ok x, .ok y => if h : x = y then isTrue (h ▸ rfl) else isFalse (fun h' => by cases h'; exact h rfl)
  | .error x, .error y => if h : x = y then isTrue (h ▸ rfl) else isFalse (fun h' => by cases h'; exact h rfl)
  | .ok _, .error _ => isFalse (by intro h; cases h)
  | .error _, .ok _ => isFalse (by intro h; cases h)

/-! ### flattenResolve -/
/-- the string of a path determines the recorded size, among everything the arguments yield (true on a real file system:
one name per directory entry, no `/` inside a name) -/
def KeyFun (cfg : Cfg) (root : Node) (args : List Path) : Prop :=
  ∀ L, flattenArgs cfg root args = .ok L → ∀ f ∈ L, ∀ g ∈ L, pathStr f.1 = pathStr g.1 → f.2 = g.2

theorem flattenResolve_ok {cfg : Cfg} {root : Node} {args : List Path} {l : List Rec}
    (h : flattenResolve cfg root args = .ok l) :
    ∃ L, flattenArgs cfg root args = .ok L ∧
      l = (if cfg.dedup then dedupKeys (L.map toRec) [] else L.map toRec) := by
  cases hL : flattenArgs cfg root args with
  | error e => simp [flattenResolve, hL] at h
  | ok L => simp only [flattenResolve, hL] at h; cases h; exact ⟨L, rfl, rfl⟩

theorem flattenResolve_of_ok {cfg : Cfg} {root : Node} {args : List Path} {L : List Found}
    (h : flattenArgs cfg root args = .ok L) :
    flattenResolve cfg root args = .ok (if cfg.dedup then dedupKeys (L.map toRec) [] else L.map toRec) := by
  simp only [flattenResolve, h]

theorem dedup_mem_iff {L : List Rec} (hf : ∀ a ∈ L, ∀ b ∈ L, a.1 = b.1 → a = b) (r : Rec) :
    r ∈ dedupKeys L [] ↔ r ∈ L :=
  ⟨fun h => ((dedupKeys_spec L []).2 r h).2, fun h => dedupKeys_complete L [] hf r h (by simp)⟩

theorem flattenResolve_sound {cfg : Cfg} {root : Node} {args : List Path} {l : List Rec}
    (h : flattenResolve cfg root args = .ok l) :
    ∃ L, flattenArgs cfg root args = .ok L ∧ (∀ r, r ∈ l → r ∈ L.map toRec) ∧
      (∀ r, r ∈ L.map toRec → r.1 ∈ l.map Prod.fst) := by
  obtain ⟨L, hL, rfl⟩ := flattenResolve_ok h
  refine ⟨L, hL, ?_, ?_⟩
  · intro r hr
    by_cases hd : cfg.dedup = true
    · simp only [hd, if_true] at hr; exact ((dedupKeys_spec _ []).2 r hr).2
    · simp only [hd] at hr; exact hr
  · intro r hr
    by_cases hd : cfg.dedup = true
    · simp only [hd, if_true]; exact dedupKeys_key_complete _ [] r hr (by simp)
    · simp only [hd]; exact List.mem_map.2 ⟨r, hr, rfl⟩

theorem flattenResolve_mem {cfg : Cfg} {root : Node} {args : List Path} {l : List Rec}
    (h : flattenResolve cfg root args = .ok l) (hk : cfg.dedup = true → KeyFun cfg root args) :
    ∃ L, flattenArgs cfg root args = .ok L ∧ ∀ r, r ∈ l ↔ r ∈ L.map toRec := by
  obtain ⟨L, hL, rfl⟩ := flattenResolve_ok h
  refine ⟨L, hL, fun r => ?_⟩
  by_cases hd : cfg.dedup = true
  · simp only [hd, if_true]
    apply dedup_mem_iff
    intro a ha b hb hab
    obtain ⟨f, hf, rfl⟩ := List.mem_map.1 ha
    obtain ⟨g, hg, rfl⟩ := List.mem_map.1 hb
    have := hk hd L hL f hf g hg hab
    exact Prod.ext hab this
  · simp only [hd]; exact Iff.rfl

theorem flattenResolve_nodup {cfg : Cfg} {root : Node} {args : List Path} {l : List Rec}
    (h : flattenResolve cfg root args = .ok l) (hd : cfg.dedup = true) : (l.map Prod.fst).Nodup := by
  obtain ⟨L, hL, rfl⟩ := flattenResolve_ok h
  simp only [hd, if_true]
  exact (dedupKeys_spec _ []).1

/-- same argument SET (order, repetitions irrelevant) → same recorded set -/
theorem flattenResolve_congr {cfg : Cfg} {root : Node} {args args' : List Path} {l : List Rec}
    (hset : ∀ a, a ∈ args ↔ a ∈ args') (hk : cfg.dedup = true → KeyFun cfg root args)
    (h : flattenResolve cfg root args = .ok l) :
    ∃ l', flattenResolve cfg root args' = .ok l' ∧ ∀ r, r ∈ l ↔ r ∈ l' := by
  obtain ⟨L, hL, hmem⟩ := flattenResolve_mem h hk
  obtain ⟨L', hL', hsub⟩ := flattenArgs_subset cfg root (fun a ha => (hset a).2 ha) hL
  obtain ⟨L2, hL2, hsub2⟩ := flattenArgs_subset cfg root (fun a ha => (hset a).1 ha) hL'
  rw [hL] at hL2; cases hL2
  have hk' : cfg.dedup = true → KeyFun cfg root args' := by
    intro hd L'' hL'' f hf g hg hfg
    rw [hL'] at hL''; cases hL''
    exact hk hd L hL f (hsub f hf) g (hsub g hg) hfg
  obtain ⟨L3, hL3, hmem'⟩ := flattenResolve_mem (flattenResolve_of_ok hL') hk'
  rw [hL'] at hL3; cases hL3
  refine ⟨_, flattenResolve_of_ok hL', fun r => ?_⟩
  rw [hmem, hmem']
  simp only [List.mem_map]
  exact ⟨fun ⟨f, hf, e⟩ => ⟨f, hsub2 f hf, e⟩, fun ⟨f, hf, e⟩ => ⟨f, hsub f hf, e⟩⟩

/-! ### termination on link-free trees -/
/-- the fuel a stack needs: one per frame and one per directory below it -/
def stackMeasure (st : List Frame) : Nat := (st.map (fun fr => 1 + fr.2.dirCount)).sum

theorem stackMeasure_cons (fr : Frame) (st : List Frame) : stackMeasure (fr :: st) = 1 + fr.2.dirCount + stackMeasure st := by
  simp [stackMeasure]

theorem stackMeasure_push (lifo : Bool) (ds st : List Frame) :
    stackMeasure (push lifo ds st) = stackMeasure ds + stackMeasure st := by
  unfold push stackMeasure
  cases lifo <;> simp [List.sum_append, List.sum_reverse] <;> omega

theorem scan_nolinks (root : Node) (follow : Bool) (start : Path) : ∀ (es : Entries), es.noLinks = true →
    ∃ ds fs, scan root follow start es = .ok (ds, fs) ∧ (∀ fr ∈ ds, fr.2.noLinks = true) ∧
      stackMeasure ds = es.dirCount
  | .nil, _ => ⟨[], [], rfl, by simp, by simp [stackMeasure, Entries.dirCount]⟩
  | .cons name n rest, h => by
    simp only [Entries.noLinks, Bool.and_eq_true] at h
    obtain ⟨ds, fs, hs, hnl, hm⟩ := scan_nolinks root follow start rest h.2
    cases n with
    | file s =>
      exact ⟨ds, (start ++ [name], s) :: fs, by simp only [scan, classify, hs], hnl, by simp [Entries.dirCount, Node.dirCount, hm]⟩
    | other =>
      exact ⟨ds, fs, by simp only [scan, classify, hs], hnl, by simp [Entries.dirCount, Node.dirCount, hm]⟩
    | link ab t => simp [Node.noLinks] at h
    | dir es' =>
      refine ⟨(start ++ [name], es') :: ds, fs, by simp only [scan, classify, hs], ?_, ?_⟩
      · intro fr hfr
        rcases List.mem_cons.1 hfr with rfl | hfr
        · simpa [Node.noLinks] using h.1
        · exact hnl fr hfr
      · rw [stackMeasure_cons, hm]; simp [Entries.dirCount, Node.dirCount]

theorem walk_terminates_nolinks (root : Node) (follow lifo : Bool) : ∀ (n : Nat) (stack : List Frame),
    (∀ fr ∈ stack, fr.2.noLinks = true) → stackMeasure stack ≤ n → ∃ ys, walk root follow lifo n stack = .ok ys := by
  intro n
  induction n with
  | zero =>
    intro stack _ hm
    cases stack with
    | nil => exact ⟨[], rfl⟩
    | cons a t => rw [stackMeasure_cons] at hm; omega
  | succ n ih =>
    intro stack hnl hm
    cases stack with
    | nil => exact ⟨[], rfl⟩
    | cons a t =>
      obtain ⟨start, es⟩ := a
      obtain ⟨ds, fs, hs, hds, hdm⟩ := scan_nolinks root follow start es (hnl _ List.mem_cons_self)
      rw [stackMeasure_cons] at hm
      obtain ⟨rest, hr⟩ := ih (push lifo ds t)
        (fun fr hfr => by
          rcases mem_push.1 hfr with h | h
          · exact hds fr h
          · exact hnl fr (List.mem_cons_of_mem _ h))
        (by rw [stackMeasure_push, hdm]; simp at hm; omega)
      exact ⟨fs ++ rest, by simp only [walk, hs, hr]⟩

/-! ### symlinks -/
theorem flattenResolve_file_arg {cfg : Cfg} {root : Node} {a p : Path} {s : Nat}
    (h : resolveArg root cfg.argFuel a = .ok (p, .file s)) : flattenResolve cfg root [a] = .ok [(pathStr p, s)] := by
  simp only [flattenResolve, flattenArgs, h, flattenOne, List.append_nil]
  cases cfg.dedup <;> simp [dedupKeys, toRec]

theorem classify_link_file {root : Node} {p : Path} {ab : Bool} {t : List String} {s : Nat}
    (h : statFollow root p = .ok (.file s)) : classify root true p (.link ab t) = .ok (.isFile s) := by
  simp [classify, h]

end Replicat.PathWalk
