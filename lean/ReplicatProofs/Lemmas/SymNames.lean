import ReplicatProofs.Lemmas.SymAfterRun
/-! Names in removal-free histories: every emitted backend object is still stored under its name (so two emissions under one
name carry the same bytes); facts about the keys of a history used by the history-level theorems of C14. -/
namespace Replicat.Sym
open Term (pub sec nonce key nil pair mac kdf enc)

/-- every emitted entry is a key file or is what the store holds under its name -/
def NR (store log : Store) : Prop := ∀ e ∈ log, (∃ i, e.1 = keyLoc i) ∨ lookup store e.1 = some e.2

def Op.isRemove : Op → Bool
  | .remove _ => true
  | _ => false

theorem nr_key {store log : Store} (h : NR store log) (i : Nat) (t : Term) : NR store (log ++ [(keyLoc i, t)]) := by
  intro e he
  simp only [List.mem_append, List.mem_singleton] at he
  rcases he with he | he
  · exact h e he
  · subst he; exact Or.inl ⟨i, rfl⟩

theorem nr_append {store log : Store} (h : NR store log) (loc obj : Term) (hl : lookup store loc = none) :
    NR (store ++ [(loc, obj)]) (log ++ [(loc, obj)]) := by
  intro e he
  simp only [List.mem_append, List.mem_singleton] at he
  rcases he with he | he
  · rcases h e he with hk | hk
    · exact Or.inl hk
    · right
      rw [lookup_append, hk]
  · subst he
    right
    rw [lookup_append, hl]
    simp [lookup]

theorem nr_putChunk (p : Props) (s : St) (c : Term) (h : NR s.store s.log) : NR (putChunk p s c).store (putChunk p s c).log := by
  rcases putChunk_store p s c with ⟨hs, hl, _⟩ | ⟨hnone, hs, hl⟩
  · rw [hs, hl]; exact h
  · rw [hs, hl]; exact nr_append h _ _ hnone

theorem nr_putChunks (p : Props) (cs : List Term) (s : St) (h : NR s.store s.log) :
    NR (cs.foldl (putChunk p) s).store (cs.foldl (putChunk p) s).log := by
  induction cs generalizing s with
  | nil => exact h
  | cons c cs ih => exact ih _ (nr_putChunk p s c h)

theorem lookup_replace_self (store : Store) (loc obj : Term) :
    lookup (store.filter (fun e => e.1 ≠ loc) ++ [(loc, obj)]) loc = some obj := by
  rw [lookup_append]
  have := lookup_filter store (fun y => decide (y ≠ loc)) loc
  simp only [ne_eq, not_true_eq_false, decide_false, Bool.false_eq_true, if_false] at this
  have h2 : lookup (List.filter (fun e => decide (e.1 ≠ loc)) store) loc = none := this
  rw [h2]
  simp [lookup]

theorem lookup_replace_other (store : Store) (loc obj x : Term) (hx : x ≠ loc) :
    lookup (store.filter (fun e => e.1 ≠ loc) ++ [(loc, obj)]) x = lookup store x := by
  rw [lookup_append]
  have := lookup_filter store (fun y => decide (y ≠ loc)) x
  simp only [hx, ne_eq, not_false_eq_true, decide_true, if_true] at this
  have h2 : lookup (List.filter (fun e => decide (e.1 ≠ loc)) store) x = lookup store x := this
  rw [h2]
  cases lookup store x with
  | some o => rfl
  | none =>
    have hx' : ¬ loc = x := fun e => hx e.symm
    simp [lookup, hx']

theorem nr_snap {en users next cfg} {store log : Store} (hl : LInv en users next cfg log) (h : NR store log) (p : Props) (st : Term) :
    NR (store.filter (fun e => e.1 ≠ snapLoc p (snapshotName st)) ++ [(snapLoc p (snapshotName st), st)])
       (log ++ [(snapLoc p (snapshotName st), st)]) := by
  intro e he
  simp only [List.mem_append, List.mem_singleton] at he
  rcases he with he | he
  · by_cases hloc : e.1 = snapLoc p (snapshotName st)
    · right
      rw [hloc, lookup_replace_self]
      obtain ⟨_, _, _, hname, _⟩ := form_snapLoc (t := snapshotTag p (snapshotName st)) (n := snapshotName st)
        (hl.forms e he) hloc
      rw [Term.hash.inj hname]
    · rcases h e he with hk | hk
      · exact Or.inl hk
      · right
        rw [lookup_replace_other _ _ _ _ hloc]
        exact hk
  · subst he
    right
    exact lookup_replace_self _ _ _

theorem nr_step (cfg : Term) (s : St) (op : Op) (hi : HInv cfg s) (h : NR s.store s.log) (hop : op.isRemove = false) :
    NR (step s op).store (step s op).log := by
  cases op with
  | addKey base shared kdfcfg shcfg pw =>
    simp only [step]
    split
    · exact h
    · split
      · exact h
      · cases shared with
        | true => exact nr_key h _ _
        | false => exact nr_key h _ _
  | snapshot user chunks data =>
    cases hu : s.users[user]? with
    | none =>
      have : step s (.snapshot user chunks data) = s := by simp [step, hu]
      rw [this]; exact h
    | some u =>
      have hum : u ∈ s.users := List.mem_of_getElem? hu
      obtain ⟨_, _, _, _, fS, fL⟩ := step_snapshot_fields s user chunks data u hu
      rw [fS, fL]
      exact nr_snap (hinv_putChunks cfg u chunks s hum hi).hl (nr_putChunks _ chunks s h) _ _
  | remove locs => cases hop

theorem nr_init (a : InitArgs) : NR (initSt a).store (initSt a).log := by
  unfold initSt
  cases a.encrypted with
  | true =>
    simp only [if_true]
    intro e he
    simp only [List.mem_cons, List.not_mem_nil, or_false] at he
    rcases he with he | he
    · subst he; exact Or.inl ⟨0, rfl⟩
    · subst he; right; simp [lookup]
  | false =>
    simp only [Bool.false_eq_true, if_false]
    intro e he
    simp only [List.mem_singleton] at he
    subst he; right; simp [lookup]

theorem nr_run (a : InitArgs) (ops : List Op) (hops : ∀ op ∈ ops, op.isRemove = false) :
    NR (run a ops).store (run a ops).log := by
  unfold run
  suffices H : ∀ (s : St), HInv a.cfg s → NR s.store s.log → NR (ops.foldl step s).store (ops.foldl step s).log from
    H _ (hinv_init a) (nr_init a)
  induction ops with
  | nil => intro s _ h; exact h
  | cons op ops ih =>
    intro s hi h
    exact ih (fun o ho => hops o (List.mem_cons_of_mem _ ho)) _ (hinv_step a.cfg s op hi)
      (nr_step a.cfg s op hi h (hops op (by simp)))

/-! ## keys of a history -/
theorem run_encrypted (a : InitArgs) (ops : List Op) : (run a ops).encrypted = a.encrypted := by
  unfold run
  suffices H : ∀ (s : St), (ops.foldl step s).encrypted = s.encrypted by rw [H, initSt_encrypted]
  induction ops with
  | nil => intro s; rfl
  | cons op ops ih => intro s; rw [List.foldl_cons, ih, step_encrypted]

/-- two different keys of a history have different user keys (their KDF salts are distinct fresh values) -/
theorem userKey_ne {en : Bool} {users : List User} {next : Nat} (h : UInv en users next) {i j : Nat} {u v : User}
    (hi : users[i]? = some u) (hj : users[j]? = some v) (hne : i ≠ j) (en' : Bool) :
    (v.props en').userKey ≠ (u.props en').userKey := by
  intro hk
  simp only [User.props, userKeyOf] at hk
  injection hk with _ hs _
  exact hne (h.saltInj i j u v hi hj hs.symm)

/-- `recordedFiles` lists the files in recorded order with their recorded metadata -/
theorem recordedFiles_md (contents : List Term) (files : List FileRec) (out : List Restored)
    (h : recordedFiles contents files = some out) :
    out.map (fun w => (w.1, w.2.2)) = files.map (fun f => (f.path, f.md)) := by
  induction files generalizing out with
  | nil => simp [recordedFiles] at h; subst h; rfl
  | cons f fs ih =>
    unfold recordedFiles at h
    split at h
    · rename_i ps out' _ ho
      cases h
      simp [ih out' ho]
    · cases h

/-- … and every file's parts are the honest parts of its references in counter order -/
theorem recordedFiles_parts (contents : List Term) (files : List FileRec) (out : List Restored)
    (h : recordedFiles contents files = some out) :
    out.map (fun w => some w.2.1) = files.map (fun f => honestParts contents (isort refLE f.refs)) := by
  induction files generalizing out with
  | nil => simp [recordedFiles] at h; subst h; rfl
  | cons f fs ih =>
    unfold recordedFiles at h
    split at h
    · rename_i ps out' hp ho
      cases h
      simp [ih out' ho, hp]
    · cases h

theorem sameUpToNonce_spec {x y : Term} (h : sameUpToNonce x y = true) :
    x = y ∨ ∃ k n n' m, x = enc k n m ∧ y = enc k n' m := by
  unfold sameUpToNonce at h
  simp only [Bool.or_eq_true, decide_eq_true_eq] at h
  rcases h with h | h
  · exact Or.inl h
  · right
    split at h
    · rename_i k n m k' n' m'
      simp only [Bool.and_eq_true, decide_eq_true_eq] at h
      obtain ⟨h1, h2⟩ := h
      subst h1 h2
      exact ⟨k, n, n', m, rfl, rfl⟩
    · cases h

end Replicat.Sym
