import ReplicatProofs.Lemmas.RepoSafety
/-! Prefixes of the mutation plans of the destructive commands (`delete_snapshots`: snapshot objects, then chunks; `clean`: one
stage): an interrupted delete / clean leaves a consistent repository.  Used by C02 (`consistent_prefix_destructive`). -/
namespace Replicat.Repo
open List

/-! ## what `acceptsPrefix` accepts -/

theorem accepts_one_stage (B : List Mut) : ∀ (tr : List Mut), acceptsPrefix [B] tr = true → ∀ m ∈ tr, m ∈ B := by
  intro tr
  induction tr generalizing B with
  | nil => intro _ m hm; simp at hm
  | cons x xs ih =>
    intro hacc m hm
    have hunf : acceptsPrefix [B] (x :: xs) = (match normalizePlan [B] with
        | [] => false
        | stage :: rest => if stage.contains x then acceptsPrefix (stage.erase x :: rest) xs else false) := rfl
    rw [hunf] at hacc
    cases B with
    | nil => simp [normalizePlan] at hacc
    | cons b B' =>
      have hn : normalizePlan [b :: B'] = [b :: B'] := by simp [normalizePlan]
      rw [hn] at hacc
      simp only at hacc
      split at hacc
      · rename_i hx
        have hxm : x ∈ b :: B' := by simpa using hx
        rcases mem_cons.mp hm with rfl | hm'
        · exact hxm
        · exact mem_of_mem_erase (ih _ hacc m hm')
      · cases hacc

/-- two stages: everything accepted comes from `A` or `B`; once something outside `A` occurred, all of `A` has occurred -/
theorem accepts_stages (B : List Mut) : ∀ (tr A : List Mut), acceptsPrefix [A, B] tr = true →
    (∀ m ∈ tr, m ∈ A ∨ m ∈ B) ∧ ((∃ m ∈ tr, m ∉ A) → ∀ a ∈ A, a ∈ tr) := by
  intro tr
  induction tr with
  | nil => intro A _; exact ⟨by simp, by simp⟩
  | cons x xs ih =>
    intro A hacc
    have hunf : acceptsPrefix [A, B] (x :: xs) = (match normalizePlan [A, B] with
        | [] => false
        | stage :: rest => if stage.contains x then acceptsPrefix (stage.erase x :: rest) xs else false) := rfl
    cases A with
    | nil =>
      have hn : normalizePlan [[], B] = normalizePlan [B] := by simp [normalizePlan]
      have hsame : acceptsPrefix [[], B] (x :: xs) = acceptsPrefix [B] (x :: xs) := by
        rw [hunf, hn]; rfl
      rw [hsame] at hacc
      exact ⟨fun m hm => Or.inr (accepts_one_stage B _ hacc m hm), fun _ a ha => by simp at ha⟩
    | cons a A' =>
      rw [hunf] at hacc
      have hn : normalizePlan [a :: A', B] = [a :: A', B] := by simp [normalizePlan]
      rw [hn] at hacc
      simp only at hacc
      split at hacc
      · rename_i hx
        have hxm : x ∈ a :: A' := by simpa using hx
        obtain ⟨r1, r2⟩ := ih _ hacc
        refine ⟨?_, ?_⟩
        · intro m hm
          rcases mem_cons.mp hm with rfl | hm'
          · exact Or.inl hxm
          · rcases r1 m hm' with h | h
            · exact Or.inl (mem_of_mem_erase h)
            · exact Or.inr h
        · rintro ⟨m, hm, hmA⟩ y hy
          have hmx : m ≠ x := fun e => hmA (e ▸ hxm)
          have hm' : m ∈ xs := by
            rcases mem_cons.mp hm with h | h
            · exact absurd h hmx
            · exact h
          have hall := r2 ⟨m, hm', fun h => hmA (mem_of_mem_erase h)⟩
          by_cases hyx : y = x
          · subst hyx; simp
          · exact mem_cons_of_mem _ (hall y ((mem_erase_of_ne hyx).mpr hy))
      · cases hacc

/-! ## a trace of deletions -/
theorem applyDels_eq (names : List Name) (s : Store) : applyMuts s (names.map Mut.del) = delAll s names := by
  unfold applyMuts delAll
  induction names generalizing s with
  | nil => rfl
  | cons a as ih => simp only [map_cons, foldl_cons, applyMut]; exact ih _

theorem get_applyDels (names : List Name) (s : Store) (n : Name) :
    get (applyMuts s (names.map Mut.del)) n = if n ∈ names then none else get s n := by
  rw [applyDels_eq, get_delAll]

theorem dels_eq_map {tr : List Mut} {P : List Name} (h : ∀ m ∈ tr, m ∈ P.map Mut.del) :
    ∃ names : List Name, tr = names.map Mut.del ∧ ∀ n ∈ names, n ∈ P := by
  induction tr with
  | nil => exact ⟨[], rfl, by simp⟩
  | cons x xs ih =>
    obtain ⟨names, hn, hP⟩ := ih (fun m hm => h m (mem_cons_of_mem _ hm))
    obtain ⟨n, hnP, hx⟩ := mem_map.mp (h x (by simp))
    refine ⟨n :: names, by rw [map_cons, hx, hn], ?_⟩
    intro n' hn'
    rcases mem_cons.mp hn' with rfl | h'
    · exact hnP
    · exact hP n' h'

theorem wf_applyDels {s : Store} (h : WF s) (names : List Name) : WF (applyMuts s (names.map Mut.del)) := by
  rw [applyDels_eq]; exact h.delAll names

/-! ## membership in the deletion lists -/
theorem mem_deletePlan_snaps {enc : Bool} {u : User} {sids : List Nat} {s : Store} (h : WF s) {p : DeletePlan}
    (hp : deletePlan enc u sids s = .ok p) (n : Name) :
    n ∈ p.snaps ↔ ∃ f sid, n = .snap f sid ∧ (∃ b, get s (.snap f sid) = some (.snap f sid b)) ∧ visible enc u f = true ∧ sid ∈ sids := by
  obtain ⟨hsn, _, _, _⟩ := deletePlan_wf h hp
  rw [hsn]
  simp only [mem_map, mem_filter]
  constructor
  · rintro ⟨l, ⟨hl, hc⟩, rfl⟩
    obtain ⟨b, hg, hv, _⟩ := (mem_loadedAll h).mp hl
    exact ⟨l.fam, l.sid, rfl, ⟨b, hg⟩, hv, by simpa using hc⟩
  · rintro ⟨f, sid, rfl, ⟨b, hg⟩, hv, hs⟩
    exact ⟨toLoaded enc u f sid b, ⟨loaded_of_snap h hg hv, by simpa [toLoaded] using hs⟩, rfl⟩

theorem mem_deletePlan_chunks {enc : Bool} {u : User} {sids : List Nat} {s : Store} (h : WF s) {p : DeletePlan}
    (hp : deletePlan enc u sids s = .ok p) (n : Name) :
    n ∈ p.chunks → ∃ c, n = .chunk u.fam c ∧ ¬ RefBy enc u s (· ∉ sids) c := by
  obtain ⟨_, hch, _, _⟩ := deletePlan_wf h hp
  rw [hch]
  simp only [mem_map, mem_filter]
  rintro ⟨c, ⟨_, hc2⟩, rfl⟩
  refine ⟨c, rfl, ?_⟩
  intro hr
  have e2 := refBy_iff (enc := enc) (u := u) h (fun sid => !sids.contains sid) (· ∉ sids) (by simp) c
  have hm := e2.mpr hr
  rw [← contains_iff_mem] at hm
  rw [hm] at hc2
  cases hc2

/-! ## interrupted delete / clean -/
theorem delete_prefix_consistent {enc : Bool} {u : User} {sids : List Nat} {s : Store} (h : Consistent enc s) (hu : UserOk enc u)
    {tr : List Mut} (hacc : acceptsPrefix (deleteMutPlan enc u sids s) tr = true) : Consistent enc (applyMuts s tr) := by
  obtain ⟨hwf, hfam, href⟩ := h
  unfold deleteMutPlan at hacc
  split at hacc
  · -- refused: the plan is empty
    cases tr with
    | nil => exact ⟨hwf, hfam, href⟩
    | cons x xs =>
      have : acceptsPrefix [] (x :: xs) = false := by
        show (match normalizePlan [] with
          | [] => false
          | stage :: rest => if stage.contains x then acceptsPrefix (stage.erase x :: rest) xs else false) = false
        simp [normalizePlan]
      rw [this] at hacc; cases hacc
  · rename_i p hp
    obtain ⟨hmem, horder⟩ := accepts_stages _ tr _ hacc
    obtain ⟨names, rfl, hnames⟩ := dels_eq_map (P := p.snaps ++ p.chunks) (tr := tr) (by
      intro m hm
      rw [map_append, mem_append]
      exact hmem m hm)
    have hget := get_applyDels names s
    refine ⟨wf_applyDels hwf names, ?_, ?_⟩
    · intro he f sid o hg
      rw [hget] at hg
      split at hg
      · cases hg
      · exact hfam he f sid o hg
    · intro f sid b hg
      rw [hget] at hg
      split at hg
      · cases hg
      · rename_i hnot
        obtain ⟨h1, h2⟩ := href f sid b hg
        refine ⟨?_, h2⟩
        intro c hc
        rw [hget]
        split
        · rename_i hin
          exfalso
          -- the chunk's deletion was accepted, so it is in stage 2, so every stage-1 deletion happened
          have hch : Name.chunk f c ∈ p.chunks := by
            rcases mem_append.mp (hnames _ hin) with hs | hc'
            · obtain ⟨_, _, heq, _⟩ := (mem_deletePlan_snaps hwf hp _).mp hs
              cases heq
            · exact hc'
          obtain ⟨c', heq, hnr⟩ := mem_deletePlan_chunks hwf hp _ hch
          cases heq
          have hall := horder ⟨Mut.del (.chunk u.fam c), mem_map_of_mem hin, by
            intro hm
            obtain ⟨n, hn, hne⟩ := mem_map.mp hm
            cases hne
            obtain ⟨_, _, heq, _⟩ := (mem_deletePlan_snaps hwf hp _).mp hn
            cases heq⟩
          apply hnr
          refine ⟨u.fam, sid, b, hg, visible_own enc u, ?_, hc⟩
          intro hs
          have hsn : Name.snap u.fam sid ∈ p.snaps :=
            (mem_deletePlan_snaps hwf hp _).mpr ⟨u.fam, sid, rfl, ⟨b, hg⟩, visible_own enc u, hs⟩
          have := hall _ (mem_map_of_mem (f := Mut.del) hsn)
          obtain ⟨n, hn, hne⟩ := mem_map.mp this
          cases hne
          exact hnot hn
        · exact h1 c hc

theorem clean_prefix_consistent {enc : Bool} {u : User} {s : Store} (h : Consistent enc s) (hu : UserOk enc u)
    {tr : List Mut} (hacc : acceptsPrefix (cleanMutPlan enc u s) tr = true) : Consistent enc (applyMuts s tr) := by
  obtain ⟨hwf, hfam, href⟩ := h
  obtain ⟨ns, hns, mem⟩ := cleanPlan_wf (enc := enc) (u := u) hwf
  unfold cleanMutPlan at hacc
  rw [hns] at hacc
  simp only at hacc
  obtain ⟨names, rfl, hnames⟩ := dels_eq_map (P := ns) (tr := tr) (accepts_one_stage _ tr hacc)
  have hget := get_applyDels names s
  have hsnap : ∀ f sid, Name.snap f sid ∉ names := by
    intro f sid hin
    obtain ⟨_, _, heq, _⟩ := (mem _).mp (hnames _ hin)
    cases heq
  refine ⟨wf_applyDels hwf names, ?_, ?_⟩
  · intro he f sid o hg
    rw [hget, if_neg (hsnap f sid)] at hg
    exact hfam he f sid o hg
  · intro f sid b hg
    rw [hget, if_neg (hsnap f sid)] at hg
    obtain ⟨h1, h2⟩ := href f sid b hg
    refine ⟨?_, h2⟩
    intro c hc
    rw [hget]
    split
    · rename_i hin
      exfalso
      obtain ⟨f', c', heq, _, hcond⟩ := (mem _).mp (hnames _ hin)
      cases heq
      apply hcond
      by_cases hf : f = u.fam
      · subst hf
        exact Or.inl ⟨rfl, u.fam, sid, b, hg, visible_own enc u, trivial, hc⟩
      · cases enc with
        | true => exact Or.inr ⟨rfl, hf⟩
        | false => exact absurd ((hfam rfl f sid _ hg).trans (hu rfl).symm) hf
    · exact h1 c hc

end Replicat.Repo
