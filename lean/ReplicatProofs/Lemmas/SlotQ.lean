import ReplicatModel.SlotQ
/-! Helper lemmas for the slot-queue thread-affinity theorems (C09). -/
namespace Replicat.SlotQ

theorem run_append (σ : Q) (xs ys : List Ev) :
    run σ (xs ++ ys) = (run σ xs).bind (fun σ' => run σ' ys) := by
  induction xs generalizing σ with
  | nil => simp [run]
  | cons e es ih =>
    simp only [List.cons_append, run]
    cases step σ e with
    | none => simp
    | some σ' => simpa using ih σ'

/-- one action of the on-loop discipline preserves the invariant -/
theorem astep_inv (n : Nat) (σ σ' : Q) (a : Act) (hI : Inv n σ) (h : astep σ a = some σ') : Inv n σ' := by
  obtain ⟨hc, hs, hp, hz⟩ := hI
  cases a with
  | request =>
    simp only [astep, expand, run, step] at h
    injection h with h; subst h
    refine ⟨hc, hs, hp, ?_⟩
    intro h; simp at h
  | runFresh =>
    unfold astep expand at h
    by_cases hi : σ.items = 0
    · simp only [hi, if_true, run, step] at h
      by_cases hf : σ.fresh = 0 ∨ σ.asleep = true
      · simp [hf] at h
      · simp only [hf, if_false, hi, if_true] at h
        simp only [Nat.add_eq_zero_iff, Nat.succ_ne_zero, and_false, if_false] at h
        injection h with h; subst h
        refine ⟨by simp; omega, by simp [hs], ?_, ?_⟩
        · intro _; simp [hi]
        · intro ha
          have : σ.asleep = true := by simpa using ha
          exact absurd (Or.inr this) hf
    · simp only [hi, if_false, run, step] at h
      by_cases hf : σ.fresh = 0 ∨ σ.asleep = true
      · simp [hf] at h
      · simp only [hf, if_false, hi] at h
        injection h with h; subst h
        refine ⟨by simp; omega, hs, ?_, ?_⟩
        · intro hpk; have := hp hpk; simp; omega
        · intro ha
          have : σ.asleep = true := by simpa using ha
          exact absurd (Or.inr this) hf
  | runWoken =>
    unfold astep expand at h
    by_cases hi : σ.items = 0
    · simp only [hi, if_true, run, step] at h
      by_cases hf : σ.ready = 0 ∨ σ.asleep = true
      · simp [hf] at h
      · simp only [hf, if_false, hi, if_true] at h
        simp only [Nat.add_eq_zero_iff, Nat.succ_ne_zero, and_false, if_false] at h
        injection h with h; subst h
        refine ⟨by simp; omega, by simp [hs], ?_, ?_⟩
        · intro _; simp [hi]
        · intro ha
          have : σ.asleep = true := by simpa using ha
          exact absurd (Or.inr this) hf
    · simp only [hi, if_false, run, step] at h
      by_cases hf : σ.ready = 0 ∨ σ.asleep = true
      · simp [hf] at h
      · simp only [hf, if_false, hi] at h
        injection h with h; subst h
        have hr : σ.ready ≠ 0 := fun h0 => hf (Or.inl h0)
        refine ⟨by simp; omega, hs, ?_, ?_⟩
        · intro hpk; have := hp hpk; simp; omega
        · intro ha
          have : σ.asleep = true := by simpa using ha
          exact absurd (Or.inr this) hf
  | giveBack =>
    simp only [astep, expand, run, step] at h
    by_cases hh : σ.held = 0
    · simp [hh] at h
    · simp only [hh, if_false, if_true] at h
      by_cases hpk : σ.parked = 0
      · simp only [hpk, if_true] at h
        injection h with h; subst h
        refine ⟨by simp; omega, hs, ?_, ?_⟩
        · intro h0; simp [hpk] at h0
        · intro h0; simp at h0
      · simp only [hpk, if_false] at h
        injection h with h; subst h
        have := hp (Nat.pos_of_ne_zero hpk)
        refine ⟨by simp; omega, hs, ?_, ?_⟩
        · intro _; simp; omega
        · intro h0; simp at h0
  | idle =>
    simp only [astep, expand, run, step] at h
    by_cases hq : σ.fresh = 0 ∧ σ.ready = 0 ∧ σ.sawEmpty = 0
    · simp only [hq, and_self, if_true] at h
      injection h with h; subst h
      refine ⟨by simp; omega, by simp, ?_, ?_⟩
      · intro h0; have := hp (by simpa using h0); simp; omega
      · intro _; simp
    · simp [hq] at h

theorem arun_inv (n : Nat) (σ σ' : Q) (as : List Act) (hI : Inv n σ) (h : arun σ as = some σ') : Inv n σ' := by
  induction as generalizing σ with
  | nil => simp [arun] at h; subst h; exact hI
  | cons a as ih =>
    simp only [arun] at h
    cases ha : astep σ a with
    | none => simp [ha] at h
    | some σ₁ =>
      simp only [ha] at h
      exact ih σ₁ (astep_inv n σ σ₁ a hI ha) h

theorem init_inv (n : Nat) : Inv n (init n) := by
  refine ⟨by simp [init], rfl, ?_, ?_⟩
  · intro h; simp [init] at h
  · intro h; simp [init] at h

end Replicat.SlotQ
