import ReplicatProofs.Lemmas.Sched
/-!
Helper lemmas for C09, system S3/writers: `glock`, `flocks`, `flocks_refcounts` of `Repository.restore._write_chunk_ref`.
-/
namespace Replicat.Sched
open List

structure LocksInv (fileOf : Nat → Nat) (σ : Locks) : Prop where
  noerr : σ.err = false
  gl : ∀ j, holdsG (σ.pc j) = true → σ.glock = some (true, j)
  seen : ∀ j, σ.pc j = 2 → σ.seen j = σ.flocks (fileOf j)
  regs_iff : ∀ j, registered (σ.pc j) = true ↔ j ∈ σ.regs (fileOf j)
  regs_file : ∀ f j, j ∈ σ.regs f → fileOf j = f
  regs_nodup : ∀ f, (σ.regs f).Nodup
  refc : ∀ f, σ.refc f = (σ.regs f).length
  fl_none : ∀ f, σ.flocks f = none ↔ σ.regs f = []
  lk : ∀ j, registered (σ.pc j) = true → σ.lk j = σ.flocks (fileOf j)
  crit : ∀ j, inCrit (σ.pc j) = true → ∃ l, σ.lk j = some l ∧ σ.owner l = some j

theorem locks_init_inv (fileOf : Nat → Nat) : LocksInv fileOf Locks.init := by
  refine ⟨rfl, ?_, ?_, ?_, ?_, ?_, ?_, ?_, ?_, ?_⟩ <;> simp [Locks.init, holdsG, registered, inCrit]

theorem holdsG_cases {p : Nat} (h : holdsG p = true) : p = 1 ∨ p = 2 ∨ p = 3 ∨ p = 8 ∨ p = 9 := by
  simp only [holdsG, Bool.or_eq_true, beq_iff_eq] at h; omega

theorem registered_iff {p : Nat} : registered p = true ↔ 3 ≤ p ∧ p ≤ 8 := by
  simp [registered]

theorem inCrit_iff {p : Nat} : inCrit p = true ↔ p = 5 ∨ p = 6 := by
  simp [inCrit]

theorem holdsG_iff {p : Nat} : holdsG p = true ↔ p = 1 ∨ p = 2 ∨ p = 3 ∨ p = 8 ∨ p = 9 := by
  simp only [holdsG, Bool.or_eq_true, beq_iff_eq]; omega

/-- nobody else is inside a `with glock:` block while `j` is -/
theorem only_holder {fileOf : Nat → Nat} {σ : Locks} (h : LocksInv fileOf σ) {j j' : Nat}
    (hj : holdsG (σ.pc j) = true) (hj' : holdsG (σ.pc j') = true) : j' = j := by
  have h1 := h.gl j hj
  have h2 := h.gl j' hj'
  rw [h1] at h2
  simp only [Option.some.injEq, Prod.mk.injEq, true_and] at h2
  exact h2.symm

theorem length_one_of_nodup_mem {l : List Nat} {j : Nat} (hn : l.Nodup) (hm : j ∈ l) (hl : l.length - 1 = 0) : l = [j] := by
  match l, hn, hm, hl with
  | [a], _, hm, _ => simp only [mem_singleton] at hm; rw [hm]
  | a :: b :: t, _, _, hl => simp at hl

theorem locks_step_inv (fileOf : Nat → Nat) (σ : Locks) (e : LockEv) (σ' : Locks)
    (h : LocksInv fileOf σ) (hs : Locks.step true fileOf σ e = some σ') : LocksInv fileOf σ' := by
  have H := h
  obtain ⟨hne, hgl, hseen, hri, hrf, hrn, hrc, hfn, hlk, hcr⟩ := h
  cases e with
  | gAcq j =>
    simp only [Locks.step] at hs
    split at hs
    · rename_i hg
      obtain ⟨hpc, hgn⟩ := hg
      cases hs
      have hnoh : ∀ j', holdsG (σ.pc j') = false := by
        intro j'
        cases hh : holdsG (σ.pc j') with
        | false => rfl
        | true => have := hgl j' hh; rw [hgn] at this; cases this
      refine ⟨hne, ?_, ?_, ?_, hrf, hrn, hrc, hfn, ?_, ?_⟩
      · intro j' hh
        by_cases hjj : j' = j
        · rw [hjj]
        · simp only [setAt_other _ _ _ _ hjj] at hh
          rw [hnoh j'] at hh; cases hh
      · intro j' hp
        by_cases hjj : j' = j
        · subst hjj; simp only [setAt_same] at hp; omega
        · simp only [setAt_other _ _ _ _ hjj] at hp; exact hseen j' hp
      · intro j'
        by_cases hjj : j' = j
        · subst hjj
          simp only [setAt_same]
          rw [← hri j', registered_iff, registered_iff]; omega
        · simp only [setAt_other _ _ _ _ hjj]; exact hri j'
      · intro j' hr
        by_cases hjj : j' = j
        · subst hjj
          simp only [setAt_same] at hr
          exact hlk j' (by rw [registered_iff] at hr ⊢; omega)
        · simp only [setAt_other _ _ _ _ hjj] at hr; exact hlk j' hr
      · intro j' hc
        by_cases hjj : j' = j
        · subst hjj; simp only [setAt_same, inCrit_iff] at hc; omega
        · simp only [setAt_other _ _ _ _ hjj] at hc; exact hcr j' hc
    · cases hs
  | look j =>
    simp only [Locks.step] at hs
    split at hs
    · rename_i hpc
      cases hs
      refine ⟨hne, ?_, ?_, ?_, hrf, hrn, hrc, hfn, ?_, ?_⟩
      · intro j' hh
        by_cases hjj : j' = j
        · subst hjj; exact hgl j' (by rw [hpc]; rfl)
        · simp only [setAt_other _ _ _ _ hjj] at hh; exact hgl j' hh
      · intro j' hp
        by_cases hjj : j' = j
        · subst hjj; simp only [setAt_same]
        · simp only [setAt_other _ _ _ _ hjj] at hp ⊢; exact hseen j' hp
      · intro j'
        by_cases hjj : j' = j
        · subst hjj
          simp only [setAt_same]
          rw [← hri j', registered_iff, registered_iff]; omega
        · simp only [setAt_other _ _ _ _ hjj]; exact hri j'
      · intro j' hr
        by_cases hjj : j' = j
        · subst hjj; simp only [setAt_same, registered_iff] at hr; omega
        · simp only [setAt_other _ _ _ _ hjj] at hr; exact hlk j' hr
      · intro j' hc
        by_cases hjj : j' = j
        · subst hjj; simp only [setAt_same, inCrit_iff] at hc; omega
        · simp only [setAt_other _ _ _ _ hjj] at hc; exact hcr j' hc
    · cases hs
  | commit j =>
    simp only [Locks.step] at hs
    split at hs
    · rename_i hpc
      have hsj := hseen j hpc
      have hnotreg : j ∉ σ.regs (fileOf j) := by
        rw [← hri j, registered_iff]; omega
      split at hs
      · -- new lock
        rename_i hsn
        cases hs
        rw [hsn] at hsj
        have hempty : σ.regs (fileOf j) = [] := (hfn _).mp hsj.symm
        refine ⟨hne, ?_, ?_, ?_, ?_, ?_, ?_, ?_, ?_, ?_⟩
        all_goals (try dsimp only)
        · intro j' hh
          by_cases hjj : j' = j
          · subst hjj; exact hgl j' (by rw [hpc]; rfl)
          · simp only [setAt_other _ _ _ _ hjj] at hh; exact hgl j' hh
        · intro j' hp
          by_cases hjj : j' = j
          · subst hjj; simp only [setAt_same] at hp; omega
          · simp only [setAt_other _ _ _ _ hjj] at hp
            have := only_holder H (j := j) (j' := j') (by rw [hpc]; rfl) (by rw [hp]; rfl)
            exact absurd this hjj
        · intro j'
          by_cases hjj : j' = j
          · subst hjj; simp [registered]
          · simp only [setAt_other _ _ _ _ hjj]
            by_cases hf : fileOf j' = fileOf j
            · rw [hf, setAt_same, mem_cons, ← hf, ← hri j']
              simp [hjj]
            · rw [setAt_other _ _ _ _ hf]; exact hri j'
        · intro f j' hm
          by_cases hf : f = fileOf j
          · subst hf
            rw [setAt_same, mem_cons] at hm
            rcases hm with rfl | hm
            · rfl
            · exact hrf _ _ hm
          · rw [setAt_other _ _ _ _ hf] at hm; exact hrf _ _ hm
        · intro f
          by_cases hf : f = fileOf j
          · subst hf; rw [setAt_same]; exact nodup_cons.mpr ⟨hnotreg, hrn _⟩
          · rw [setAt_other _ _ _ _ hf]; exact hrn f
        · intro f
          by_cases hf : f = fileOf j
          · subst hf; simp [hempty]
          · rw [setAt_other _ _ _ _ hf, setAt_other _ _ _ _ hf]; exact hrc f
        · intro f
          by_cases hf : f = fileOf j
          · subst hf; simp
          · rw [setAt_other _ _ _ _ hf, setAt_other _ _ _ _ hf]; exact hfn f
        · intro j' hr
          by_cases hjj : j' = j
          · subst hjj; simp
          · simp only [setAt_other _ _ _ _ hjj] at hr ⊢
            have hm := (hri j').mp hr
            have hf : fileOf j' ≠ fileOf j := by
              intro hf; rw [hf, hempty] at hm; cases hm
            rw [setAt_other _ _ _ _ hf]; exact hlk j' hr
        · intro j' hc
          by_cases hjj : j' = j
          · subst hjj; simp only [setAt_same, inCrit_iff] at hc; omega
          · simp only [setAt_other _ _ _ _ hjj] at hc ⊢; exact hcr j' hc
      · -- existing lock
        rename_i l hsl
        cases hs
        rw [hsl] at hsj
        refine ⟨hne, ?_, ?_, ?_, ?_, ?_, ?_, ?_, ?_, ?_⟩
        all_goals (try dsimp only)
        · intro j' hh
          by_cases hjj : j' = j
          · subst hjj; exact hgl j' (by rw [hpc]; rfl)
          · simp only [setAt_other _ _ _ _ hjj] at hh; exact hgl j' hh
        · intro j' hp
          by_cases hjj : j' = j
          · subst hjj; simp only [setAt_same] at hp; omega
          · simp only [setAt_other _ _ _ _ hjj] at hp
            have := only_holder H (j := j) (j' := j') (by rw [hpc]; rfl) (by rw [hp]; rfl)
            exact absurd this hjj
        · intro j'
          by_cases hjj : j' = j
          · subst hjj; simp [registered]
          · simp only [setAt_other _ _ _ _ hjj]
            by_cases hf : fileOf j' = fileOf j
            · rw [hf, setAt_same, mem_cons, ← hf, ← hri j']
              simp [hjj]
            · rw [setAt_other _ _ _ _ hf]; exact hri j'
        · intro f j' hm
          by_cases hf : f = fileOf j
          · subst hf
            rw [setAt_same, mem_cons] at hm
            rcases hm with rfl | hm
            · rfl
            · exact hrf _ _ hm
          · rw [setAt_other _ _ _ _ hf] at hm; exact hrf _ _ hm
        · intro f
          by_cases hf : f = fileOf j
          · subst hf; rw [setAt_same]; exact nodup_cons.mpr ⟨hnotreg, hrn _⟩
          · rw [setAt_other _ _ _ _ hf]; exact hrn f
        · intro f
          by_cases hf : f = fileOf j
          · subst hf; simp [hrc]
          · rw [setAt_other _ _ _ _ hf, setAt_other _ _ _ _ hf]; exact hrc f
        · intro f
          by_cases hf : f = fileOf j
          · subst hf; simp [← hsj]
          · rw [setAt_other _ _ _ _ hf]; exact hfn f
        · intro j' hr
          by_cases hjj : j' = j
          · subst hjj; simp [hsj]
          · simp only [setAt_other _ _ _ _ hjj] at hr ⊢; exact hlk j' hr
        · intro j' hc
          by_cases hjj : j' = j
          · subst hjj; simp only [setAt_same, inCrit_iff] at hc; omega
          · simp only [setAt_other _ _ _ _ hjj] at hc ⊢; exact hcr j' hc
    · cases hs
  | gRel j =>
    simp only [Locks.step] at hs
    split at hs
    · rename_i hg
      obtain ⟨hpc, hgj⟩ := hg
      cases hs
      have hhold : holdsG (σ.pc j) = true := by rw [holdsG_iff]; omega
      refine ⟨hne, ?_, ?_, ?_, hrf, hrn, hrc, hfn, ?_, ?_⟩
      · intro j' hh
        by_cases hjj : j' = j
        · subst hjj; simp only [setAt_same, holdsG_iff] at hh; omega
        · simp only [setAt_other _ _ _ _ hjj] at hh
          exact absurd (only_holder H hhold hh) hjj
      · intro j' hp
        by_cases hjj : j' = j
        · subst hjj; simp only [setAt_same] at hp; omega
        · simp only [setAt_other _ _ _ _ hjj] at hp; exact hseen j' hp
      · intro j'
        by_cases hjj : j' = j
        · subst hjj
          simp only [setAt_same]
          rw [← hri j', registered_iff, registered_iff]; omega
        · simp only [setAt_other _ _ _ _ hjj]; exact hri j'
      · intro j' hr
        by_cases hjj : j' = j
        · subst hjj
          simp only [setAt_same] at hr
          exact hlk j' (by rw [registered_iff] at hr ⊢; omega)
        · simp only [setAt_other _ _ _ _ hjj] at hr; exact hlk j' hr
      · intro j' hc
        by_cases hjj : j' = j
        · subst hjj; simp only [setAt_same, inCrit_iff] at hc; omega
        · simp only [setAt_other _ _ _ _ hjj] at hc; exact hcr j' hc
    · cases hs
  | fAcq j =>
    simp only [Locks.step] at hs
    split at hs
    · rename_i hpc
      split at hs
      · rename_i l hl
        split at hs
        · rename_i hown
          cases hs
          refine ⟨hne, ?_, ?_, ?_, hrf, hrn, hrc, hfn, ?_, ?_⟩
          · intro j' hh
            by_cases hjj : j' = j
            · subst hjj; simp only [setAt_same, holdsG_iff] at hh; omega
            · simp only [setAt_other _ _ _ _ hjj] at hh; exact hgl j' hh
          · intro j' hp
            by_cases hjj : j' = j
            · subst hjj; simp only [setAt_same] at hp; omega
            · simp only [setAt_other _ _ _ _ hjj] at hp; exact hseen j' hp
          · intro j'
            by_cases hjj : j' = j
            · subst hjj
              simp only [setAt_same]
              rw [← hri j', registered_iff, registered_iff]; omega
            · simp only [setAt_other _ _ _ _ hjj]; exact hri j'
          · intro j' hr
            by_cases hjj : j' = j
            · subst hjj; exact hlk j' (by rw [registered_iff]; omega)
            · simp only [setAt_other _ _ _ _ hjj] at hr; exact hlk j' hr
          · intro j' hc
            by_cases hjj : j' = j
            · subst hjj; exact ⟨l, hl, by simp⟩
            · simp only [setAt_other _ _ _ _ hjj] at hc
              obtain ⟨l', hl', ho'⟩ := hcr j' hc
              refine ⟨l', hl', ?_⟩
              have : l' ≠ l := by
                intro hll; rw [hll, hown] at ho'; cases ho'
              dsimp only; rw [setAt_other _ _ _ _ this]; exact ho'
        · cases hs
      · cases hs
    · cases hs
  | write j =>
    simp only [Locks.step] at hs
    split at hs
    · rename_i hpc
      cases hs
      refine ⟨hne, ?_, ?_, ?_, hrf, hrn, hrc, hfn, ?_, ?_⟩
      · intro j' hh
        by_cases hjj : j' = j
        · subst hjj; simp only [setAt_same, holdsG_iff] at hh; omega
        · simp only [setAt_other _ _ _ _ hjj] at hh; exact hgl j' hh
      · intro j' hp
        by_cases hjj : j' = j
        · subst hjj; simp only [setAt_same] at hp; omega
        · simp only [setAt_other _ _ _ _ hjj] at hp; exact hseen j' hp
      · intro j'
        by_cases hjj : j' = j
        · subst hjj
          simp only [setAt_same]
          rw [← hri j', registered_iff, registered_iff]; omega
        · simp only [setAt_other _ _ _ _ hjj]; exact hri j'
      · intro j' hr
        by_cases hjj : j' = j
        · subst hjj; exact hlk j' (by rw [registered_iff]; omega)
        · simp only [setAt_other _ _ _ _ hjj] at hr; exact hlk j' hr
      · intro j' hc
        by_cases hjj : j' = j
        · subst hjj; exact hcr j' (by rw [inCrit_iff]; omega)
        · simp only [setAt_other _ _ _ _ hjj] at hc; exact hcr j' hc
    · cases hs
  | fRel j =>
    simp only [Locks.step] at hs
    split at hs
    · rename_i hpc
      split at hs
      · rename_i l hl
        cases hs
        obtain ⟨l0, hl0, ho0⟩ := hcr j (by rw [inCrit_iff]; omega)
        have hll : l0 = l := by rw [hl] at hl0; cases hl0; rfl
        subst hll
        refine ⟨hne, ?_, ?_, ?_, hrf, hrn, hrc, hfn, ?_, ?_⟩
        · intro j' hh
          by_cases hjj : j' = j
          · subst hjj; simp only [setAt_same, holdsG_iff] at hh; omega
          · simp only [setAt_other _ _ _ _ hjj] at hh; exact hgl j' hh
        · intro j' hp
          by_cases hjj : j' = j
          · subst hjj; simp only [setAt_same] at hp; omega
          · simp only [setAt_other _ _ _ _ hjj] at hp; exact hseen j' hp
        · intro j'
          by_cases hjj : j' = j
          · subst hjj
            simp only [setAt_same]
            rw [← hri j', registered_iff, registered_iff]; omega
          · simp only [setAt_other _ _ _ _ hjj]; exact hri j'
        · intro j' hr
          by_cases hjj : j' = j
          · subst hjj; exact hlk j' (by rw [registered_iff]; omega)
          · simp only [setAt_other _ _ _ _ hjj] at hr; exact hlk j' hr
        · intro j' hc
          by_cases hjj : j' = j
          · subst hjj; simp only [setAt_same, inCrit_iff] at hc; omega
          · simp only [setAt_other _ _ _ _ hjj] at hc
            obtain ⟨l', hl', ho'⟩ := hcr j' hc
            refine ⟨l', hl', ?_⟩
            have : l' ≠ l0 := by
              intro hll; rw [hll, ho0] at ho'; cases ho'; exact hjj rfl
            dsimp only; rw [setAt_other _ _ _ _ this]; exact ho'
      · cases hs
    · cases hs
  | unreg j =>
    simp only [Locks.step] at hs
    split at hs
    · rename_i hpc
      have hreg : j ∈ σ.regs (fileOf j) := (hri j).mp (by rw [registered_iff]; omega)
      have hhold : holdsG (σ.pc j) = true := by rw [holdsG_iff]; omega
      split at hs
      · rename_i hnone
        have := (hfn _).mp hnone
        rw [this] at hreg; cases hreg
      · rename_i l hsome
        have hmem_erase : ∀ j', j' ∈ (σ.regs (fileOf j)).erase j ↔ j' ≠ j ∧ j' ∈ σ.regs (fileOf j) :=
          fun j' => (hrn (fileOf j)).mem_erase_iff
        have common_gl : ∀ j', holdsG (setAt σ.pc j 9 j') = true → σ.glock = some (true, j') := by
          intro j' hh
          by_cases hjj : j' = j
          · subst hjj; exact hgl j' hhold
          · simp only [setAt_other _ _ _ _ hjj] at hh; exact hgl j' hh
        have common_seen_pc : ∀ j', setAt σ.pc j 9 j' = 2 → False := by
          intro j' hp
          by_cases hjj : j' = j
          · subst hjj; simp only [setAt_same] at hp; omega
          · simp only [setAt_other _ _ _ _ hjj] at hp
            exact hjj (only_holder H hhold (by rw [hp]; rfl))
        have common_regs_iff : ∀ j', registered (setAt σ.pc j 9 j') = true ↔
            j' ∈ setAt σ.regs (fileOf j) ((σ.regs (fileOf j)).erase j) (fileOf j') := by
          intro j'
          by_cases hjj : j' = j
          · subst hjj
            rw [setAt_same, setAt_same, hmem_erase]
            simp [registered]
          · simp only [setAt_other _ _ _ _ hjj]
            by_cases hf : fileOf j' = fileOf j
            · rw [hf, setAt_same, hmem_erase, ← hf, ← hri j']
              simp [hjj]
            · rw [setAt_other _ _ _ _ hf]; exact hri j'
        have common_regs_file : ∀ f j', j' ∈ setAt σ.regs (fileOf j) ((σ.regs (fileOf j)).erase j) f → fileOf j' = f := by
          intro f j' hm
          by_cases hf : f = fileOf j
          · subst hf
            rw [setAt_same, hmem_erase] at hm
            exact hrf _ _ hm.2
          · rw [setAt_other _ _ _ _ hf] at hm; exact hrf _ _ hm
        have common_nodup : ∀ f, (setAt σ.regs (fileOf j) ((σ.regs (fileOf j)).erase j) f).Nodup := by
          intro f
          by_cases hf : f = fileOf j
          · subst hf; rw [setAt_same]; exact (hrn _).erase j
          · rw [setAt_other _ _ _ _ hf]; exact hrn f
        have common_crit : ∀ j', inCrit (setAt σ.pc j 9 j') = true → ∃ l, σ.lk j' = some l ∧ σ.owner l = some j' := by
          intro j' hc
          by_cases hjj : j' = j
          · subst hjj; simp only [setAt_same, inCrit_iff] at hc; omega
          · simp only [setAt_other _ _ _ _ hjj] at hc; exact hcr j' hc
        have hlen : (σ.regs (fileOf j)).length = ((σ.regs (fileOf j)).erase j).length + 1 := by
          have := (perm_cons_erase hreg).length_eq
          simpa using this
        split at hs
        · rename_i hz
          cases hs
          simp only [Bool.not_true, Bool.false_or, beq_iff_eq] at hz
          rw [hrc] at hz
          have hone : σ.regs (fileOf j) = [j] := length_one_of_nodup_mem (hrn _) hreg hz
          have herase : (σ.regs (fileOf j)).erase j = [] := by rw [hone]; simp
          refine ⟨hne, common_gl, fun j' hp => (common_seen_pc j' hp).elim, common_regs_iff, common_regs_file, common_nodup, ?_, ?_, ?_, common_crit⟩
          all_goals (try dsimp only)
          · intro f
            by_cases hf : f = fileOf j
            · subst hf; simp [herase]
            · rw [setAt_other _ _ _ _ hf, setAt_other _ _ _ _ hf]; exact hrc f
          · intro f
            by_cases hf : f = fileOf j
            · subst hf; simp [herase]
            · rw [setAt_other _ _ _ _ hf, setAt_other _ _ _ _ hf]; exact hfn f
          · intro j' hr
            by_cases hjj : j' = j
            · subst hjj; simp [registered] at hr
            · simp only [setAt_other _ _ _ _ hjj] at hr
              have hm := (hri j').mp hr
              have hf : fileOf j' ≠ fileOf j := by
                intro hf
                rw [hf, hone, mem_singleton] at hm
                exact hjj hm
              rw [setAt_other _ _ _ _ hf]; exact hlk j' hr
        · rename_i hz
          cases hs
          simp only [Bool.not_true, Bool.false_or, beq_iff_eq] at hz
          refine ⟨hne, common_gl, fun j' hp => (common_seen_pc j' hp).elim, common_regs_iff, common_regs_file, common_nodup, ?_, ?_, ?_, common_crit⟩
          all_goals (try dsimp only)
          · intro f
            by_cases hf : f = fileOf j
            · subst hf; rw [setAt_same, setAt_same, hrc]; omega
            · rw [setAt_other _ _ _ _ hf, setAt_other _ _ _ _ hf]; exact hrc f
          · intro f
            by_cases hf : f = fileOf j
            · subst hf
              rw [setAt_same, hsome]
              rw [hrc] at hz
              constructor
              · intro h; cases h
              · intro h; rw [h] at hlen; simp at hlen; omega
            · rw [setAt_other _ _ _ _ hf]; exact hfn f
          · intro j' hr
            by_cases hjj : j' = j
            · subst hjj; simp [registered] at hr
            · simp only [setAt_other _ _ _ _ hjj] at hr; exact hlk j' hr
    · cases hs
  | extAcq a =>
    simp only [Locks.step] at hs
    split at hs
    · rename_i hgn
      cases hs
      refine ⟨hne, ?_, hseen, hri, hrf, hrn, hrc, hfn, hlk, hcr⟩
      intro j' hh
      have := hgl j' hh
      rw [hgn] at this; cases this
    · cases hs
  | extRel a =>
    simp only [Locks.step] at hs
    split at hs
    · rename_i hga
      cases hs
      refine ⟨hne, ?_, hseen, hri, hrf, hrn, hrc, hfn, hlk, hcr⟩
      intro j' hh
      have := hgl j' hh
      rw [hga] at this; cases this
    · cases hs

theorem locks_reach_inv (fileOf : Nat → Nat) (evs : List LockEv) (σ : Locks)
    (h : run (Locks.step true fileOf) Locks.init evs = some σ) : LocksInv fileOf σ :=
  run_inv _ (LocksInv fileOf) (fun s e s' hi hs => locks_step_inv fileOf s e s' hi hs) evs _ _ (locks_init_inv fileOf) h

end Replicat.Sched
