import ReplicatProofs.Lemmas.RepoConc
import ReplicatProofs.Lemmas.RepoStep
/-! The object map at the end of a complete concurrent execution of snapshot commands is determined by the start state and the
SET of commands (`IsFinal`): chunk payloads are functions of (family, content), a snapshot object is a function of its command.
The sequential run of the same commands in any order has the same characterisation.  Used by C02 (`concurrent_equals_sequential`)
and C07 (`Exact` at the end of a racy execution). -/
namespace Replicat.Repo
open List

theorem nodup_of_nodup_map {α β : Type} (f : α → β) {l : List α} (h : (l.map f).Nodup) : l.Nodup := by
  induction l with
  | nil => exact nodup_nil
  | cons a l ih =>
    simp only [map_cons, nodup_cons] at h ⊢
    exact ⟨fun ha => h.1 (mem_map_of_mem ha), ih h.2⟩

/-- two object maps with unique keys that answer every lookup alike hold the same objects -/
theorem perm_of_get_eq {a b : Store} (ha : WF a) (hb : WF b) (h : ∀ n, get a n = get b n) : a.Perm b := by
  rw [perm_ext_iff_of_nodup (nodup_of_nodup_map _ ha.1) (nodup_of_nodup_map _ hb.1)]
  rintro ⟨n, o⟩
  rw [mem_iff_get ha.1, mem_iff_get hb.1, h]

theorem run_wf (enc : Bool) (ops : List Op) (s : Store) (h : WF s) : WF (run enc s ops) := by
  unfold run
  induction ops generalizing s with
  | nil => exact h
  | cons op ops ih => exact ih _ (Replicat.P18.step_wf enc s op h)

/-- the name of a snapshot object is the digest of its stored bytes: two commands that produce the same name produce the same object -/
def NamesOk (cmds : List SnapCmd) : Prop := ∀ a ∈ cmds, ∀ b ∈ cmds, a.name = b.name → a.obj = b.obj

/-- `s'` is "`s` plus everything the commands `cmds` store" -/
structure IsFinal (s : Store) (cmds : List SnapCmd) (s' : Store) : Prop where
  chunk_old : ∀ f c o, get s (.chunk f c) = some o → get s' (.chunk f c) = some o
  chunk_new : ∀ f c, get s (.chunk f c) = none → (∃ cmd ∈ cmds, cmd.u.fam = f ∧ c ∈ cmd.stream) → get s' (.chunk f c) = some (.chunk f c)
  chunk_none : ∀ f c, get s (.chunk f c) = none → (¬ ∃ cmd ∈ cmds, cmd.u.fam = f ∧ c ∈ cmd.stream) → get s' (.chunk f c) = none
  snap_new : ∀ cmd ∈ cmds, get s' cmd.name = some cmd.obj
  snap_old : ∀ f sid, (∀ cmd ∈ cmds, cmd.name ≠ .snap f sid) → get s' (.snap f sid) = get s (.snap f sid)
  config : get s' .config = get s .config
  other : ∀ k, get s' (.other k) = get s (.other k)

/-- the characterisation determines the object map -/
theorem IsFinal.unique {s : Store} {cmds : List SnapCmd} {a b : Store} (ha : IsFinal s cmds a) (hb : IsFinal s cmds b) (n : Name) :
    get a n = get b n := by
  cases n with
  | config => rw [ha.config, hb.config]
  | other k => rw [ha.other, hb.other]
  | chunk f c =>
    cases hs : get s (.chunk f c) with
    | some o => rw [ha.chunk_old f c o hs, hb.chunk_old f c o hs]
    | none =>
      by_cases hex : ∃ cmd ∈ cmds, cmd.u.fam = f ∧ c ∈ cmd.stream
      · rw [ha.chunk_new f c hs hex, hb.chunk_new f c hs hex]
      · rw [ha.chunk_none f c hs hex, hb.chunk_none f c hs hex]
  | snap f sid =>
    by_cases hex : ∃ cmd ∈ cmds, cmd.name = .snap f sid
    · obtain ⟨cmd, hm, hn⟩ := hex
      rw [← hn, ha.snap_new cmd hm, hb.snap_new cmd hm]
    · have : ∀ cmd ∈ cmds, cmd.name ≠ .snap f sid := fun cmd hm hn => hex ⟨cmd, hm, hn⟩
      rw [ha.snap_old f sid this, hb.snap_old f sid this]

/-- only membership matters: the order (and multiplicity) of the commands is irrelevant -/
theorem IsFinal.of_mem_iff {s s' : Store} {cmds cmds' : List SnapCmd} (h : IsFinal s cmds s') (hm : ∀ x, x ∈ cmds' ↔ x ∈ cmds) :
    IsFinal s cmds' s' where
  chunk_old := h.chunk_old
  chunk_new := fun f c hs ⟨cmd, hc, hx⟩ => h.chunk_new f c hs ⟨cmd, (hm cmd).mp hc, hx⟩
  chunk_none := fun f c hs hne => h.chunk_none f c hs (fun ⟨cmd, hc, hx⟩ => hne ⟨cmd, (hm cmd).mpr hc, hx⟩)
  snap_new := fun cmd hc => h.snap_new cmd ((hm cmd).mp hc)
  snap_old := fun f sid hne => h.snap_old f sid (fun cmd hc => hne cmd ((hm cmd).mpr hc))
  config := h.config
  other := h.other

/-! ## the sequential run -/

theorem isFinal_nil (s : Store) : IsFinal s [] s where
  chunk_old := fun _ _ _ h => h
  chunk_new := fun _ _ _ ⟨_, hm, _⟩ => by simp at hm
  chunk_none := fun _ _ h _ => h
  snap_new := fun _ hm => by simp at hm
  snap_old := fun _ _ _ => rfl
  config := rfl
  other := fun _ => rfl

theorem isFinal_snapshot (s : Store) (a : SnapCmd) : IsFinal s [a] (snapshot a.u a.stream a.files a.ts a.sid s).1 where
  chunk_old := by
    intro f c o h
    rw [snapshot_get_chunk]
    exact fold_get_some a.u a.stream (s, []) h
  chunk_new := by
    rintro f c h ⟨cmd, hm, rfl, hc⟩
    simp only [mem_singleton] at hm
    subst hm
    rw [snapshot_get_chunk, fold_get_stream cmd.u cmd.stream (s, []) hc]
    simp [h]
  chunk_none := by
    intro f c h hne
    rw [snapshot_get_chunk, fold_get_other a.u a.stream (s, [])]
    · exact h
    · intro c' hc' heq
      cases heq
      exact hne ⟨a, by simp, rfl, hc'⟩
  snap_new := by
    intro cmd hm
    simp only [mem_singleton] at hm
    subst hm
    exact snapshot_get_snapname cmd.u cmd.stream cmd.files cmd.ts cmd.sid s
  snap_old := by
    intro f sid hne
    exact snapshot_get_snap_other a.u a.stream a.files a.ts a.sid s (fun e => hne a (by simp) e.symm)
  config := by
    rw [snapshot_get_other a.u a.stream a.files a.ts a.sid s (by intro h; cases h), fold_get_other]
    intro c _ h; cases h
  other := by
    intro k
    rw [snapshot_get_other a.u a.stream a.files a.ts a.sid s (by intro h; cases h), fold_get_other]
    intro c _ h; cases h

theorem IsFinal.comp {s s1 s2 : Store} {a : SnapCmd} {cs : List SnapCmd} (h1 : IsFinal s [a] s1) (h2 : IsFinal s1 cs s2)
    (hn : NamesOk (a :: cs)) : IsFinal s (a :: cs) s2 where
  chunk_old := fun f c o h => h2.chunk_old f c o (h1.chunk_old f c o h)
  chunk_new := by
    rintro f c h ⟨cmd, hm, hx⟩
    by_cases ha : ∃ cmd ∈ [a], cmd.u.fam = f ∧ c ∈ cmd.stream
    · exact h2.chunk_old f c _ (h1.chunk_new f c h ha)
    · rcases mem_cons.mp hm with rfl | hm'
      · exact absurd ⟨cmd, by simp, hx⟩ ha
      · exact h2.chunk_new f c (h1.chunk_none f c h ha) ⟨cmd, hm', hx⟩
  chunk_none := by
    intro f c h hne
    apply h2.chunk_none f c
    · apply h1.chunk_none f c h
      rintro ⟨cmd, hm, hx⟩
      simp only [mem_singleton] at hm
      subst hm
      exact hne ⟨cmd, by simp, hx⟩
    · rintro ⟨cmd, hm, hx⟩
      exact hne ⟨cmd, mem_cons_of_mem _ hm, hx⟩
  snap_new := by
    intro cmd hm
    rcases mem_cons.mp hm with rfl | hm'
    · by_cases hex : ∃ b ∈ cs, b.name = cmd.name
      · obtain ⟨b, hb, hbn⟩ := hex
        rw [← hbn, h2.snap_new b hb, hn b (mem_cons_of_mem _ hb) cmd (by simp) hbn]
      · have : ∀ b ∈ cs, b.name ≠ .snap cmd.u.fam cmd.sid := fun b hb hbn => hex ⟨b, hb, hbn⟩
        have e := h2.snap_old cmd.u.fam cmd.sid this
        have e1 := h1.snap_new cmd (by simp)
        exact e.trans e1
    · exact h2.snap_new cmd hm'
  snap_old := by
    intro f sid hne
    rw [h2.snap_old f sid (fun cmd hm => hne cmd (mem_cons_of_mem _ hm))]
    exact h1.snap_old f sid (fun cmd hm => by
      simp only [mem_singleton] at hm
      subst hm
      exact hne cmd (by simp))
  config := h2.config.trans h1.config
  other := fun k => (h2.other k).trans (h1.other k)

theorem NamesOk.tail {a : SnapCmd} {cs : List SnapCmd} (h : NamesOk (a :: cs)) : NamesOk cs :=
  fun x hx y hy => h x (mem_cons_of_mem _ hx) y (mem_cons_of_mem _ hy)

/-- the commands one after the other, in list order -/
theorem isFinal_run (enc : Bool) (cmds : List SnapCmd) (s : Store) (hn : NamesOk cmds) :
    IsFinal s cmds (run enc s (cmds.map SnapCmd.op)) := by
  unfold run
  induction cmds generalizing s with
  | nil => exact isFinal_nil s
  | cons a cs ih =>
    simp only [map_cons, foldl_cons]
    exact (isFinal_snapshot s a).comp (ih _ hn.tail) hn

/-! ## the concurrent run -/

/-- bookkeeping invariants of the progress records -/
structure ProgInv (cmds : List SnapCmd) (st : CState) : Prop where
  len : st.progs.length = cmds.length
  todo_sub : ∀ (i : Nat) cmd p, cmds[i]? = some cmd → st.progs[i]? = some p → ∀ c ∈ p.todo, c ∈ cmd.stream
  pending_sub : ∀ (i : Nat) cmd p, cmds[i]? = some cmd → st.progs[i]? = some p → ∀ c ∈ p.pending, c ∈ cmd.stream
  done_empty : ∀ (i : Nat) p, st.progs[i]? = some p → p.done = true → p.todo = [] ∧ p.pending = []

theorem mem_window {cmd : SnapCmd} {p : Prog} {c : Content} (h : c ∈ window cmd p) : c ∈ p.todo :=
  mem_of_mem_take h

theorem progInv_init (s : Store) (cmds : List SnapCmd) : ProgInv cmds (CState.init s cmds) where
  len := by simp [CState.init]
  todo_sub := by
    intro i cmd p hc hp c hm
    rw [init_lookup hc hp] at hm
    exact hm
  pending_sub := by
    intro i cmd p hc hp c hm
    rw [init_lookup hc hp] at hm
    cases hm
  done_empty := by
    intro i p hp hd
    simp only [CState.init, getElem?_map] at hp
    cases hci : cmds[i]? with
    | none => simp [hci] at hp
    | some cmd =>
      simp only [hci, Option.map_some] at hp
      cases hp
      cases hd

theorem progInv_step {cmds : List SnapCmd} {st st' : CState} {e : Ev} (hinv : ProgInv cmds st) (h : CStep cmds st e st') :
    ProgInv cmds st' := by
  obtain ⟨hlen, htodo, hpend, hdone⟩ := hinv
  cases h with
  | «exists» hc hp hw hr =>
    rename_i i c r cmd p
    refine ⟨by simpa using hlen, ?_, ?_, ?_⟩
    · intro j cmd' p' hc' hp' c' hm
      rcases set_lookup hp' with ⟨rfl, rfl⟩ | ⟨_, hold⟩
      · rw [hc] at hc'; cases hc'
        exact htodo j cmd p hc hp c' (mem_of_mem_erase hm)
      · exact htodo j cmd' p' hc' hold c' hm
    · intro j cmd' p' hc' hp' c' hm
      rcases set_lookup hp' with ⟨rfl, rfl⟩ | ⟨_, hold⟩
      · rw [hc] at hc'; cases hc'
        cases r with
        | true => exact hpend j cmd p hc hp c' hm
        | false =>
          simp only [Bool.false_eq_true, if_false, mem_append, mem_singleton] at hm
          rcases hm with hm | rfl
          · exact hpend j cmd p hc hp c' hm
          · exact htodo j cmd p hc hp c' (mem_window hw)
      · exact hpend j cmd' p' hc' hold c' hm
    · intro j p' hp' hd
      rcases set_lookup hp' with ⟨rfl, rfl⟩ | ⟨_, hold⟩
      · have := (hdone j p hp hd).1
        have hm := mem_window hw
        rw [this] at hm
        cases hm
      · exact hdone j p' hold hd
  | upload hc hp hm =>
    rename_i i c cmd p
    refine ⟨by simpa using hlen, ?_, ?_, ?_⟩
    · intro j cmd' p' hc' hp' c' hm'
      rcases set_lookup hp' with ⟨rfl, rfl⟩ | ⟨_, hold⟩
      · rw [hc] at hc'; cases hc'
        exact htodo j cmd p hc hp c' hm'
      · exact htodo j cmd' p' hc' hold c' hm'
    · intro j cmd' p' hc' hp' c' hm'
      rcases set_lookup hp' with ⟨rfl, rfl⟩ | ⟨_, hold⟩
      · rw [hc] at hc'; cases hc'
        exact hpend j cmd p hc hp c' (mem_of_mem_erase hm')
      · exact hpend j cmd' p' hc' hold c' hm'
    · intro j p' hp' hd
      rcases set_lookup hp' with ⟨rfl, rfl⟩ | ⟨_, hold⟩
      · have := (hdone j p hp hd).2
        rw [this] at hm
        cases hm
      · exact hdone j p' hold hd
  | commit hc hp ht hpe hd =>
    rename_i i cmd p
    refine ⟨by simpa using hlen, ?_, ?_, ?_⟩
    · intro j cmd' p' hc' hp' c' hm'
      rcases set_lookup hp' with ⟨rfl, rfl⟩ | ⟨_, hold⟩
      · cases hm'
      · exact htodo j cmd' p' hc' hold c' hm'
    · intro j cmd' p' hc' hp' c' hm'
      rcases set_lookup hp' with ⟨rfl, rfl⟩ | ⟨_, hold⟩
      · cases hm'
      · exact hpend j cmd' p' hc' hold c' hm'
    · intro j p' hp' hd'
      rcases set_lookup hp' with ⟨rfl, rfl⟩ | ⟨_, hold⟩
      · exact ⟨rfl, rfl⟩
      · exact hdone j p' hold hd'
  | read => exact ⟨hlen, htodo, hpend, hdone⟩

theorem progInv_run {cmds : List SnapCmd} {tr : List Ev} {st st' : CState} (hinv : ProgInv cmds st)
    (h : crun cmds st tr = some st') : ProgInv cmds st' :=
  crun_invariant (ProgInv cmds) (fun _ _ _ hi hs => progInv_step hi hs) tr st st' hinv h

/-- how the store of a concurrent execution relates to the start store `s0` -/
structure StoreInv (s0 : Store) (cmds : List SnapCmd) (st : CState) : Prop where
  chunk_old : ∀ f c o, get s0 (.chunk f c) = some o → get st.store (.chunk f c) = some o
  chunk_src : ∀ f c, get s0 (.chunk f c) = none → get st.store (.chunk f c) ≠ none → ∃ cmd ∈ cmds, cmd.u.fam = f ∧ c ∈ cmd.stream
  snap_done : ∀ (i : Nat) cmd p, cmds[i]? = some cmd → st.progs[i]? = some p → p.done = true →
    ∃ cmd' ∈ cmds, cmd'.name = cmd.name ∧ get st.store cmd.name = some cmd'.obj
  snap_old : ∀ f sid, (∀ cmd ∈ cmds, cmd.name ≠ .snap f sid) → get st.store (.snap f sid) = get s0 (.snap f sid)
  config : get st.store .config = get s0 .config
  other : ∀ k, get st.store (.other k) = get s0 (.other k)

theorem storeInv_init (s : Store) (cmds : List SnapCmd) : StoreInv s cmds (CState.init s cmds) where
  chunk_old := fun _ _ _ h => h
  chunk_src := fun _ _ h hne => absurd h hne
  snap_done := by
    intro i cmd p hc hp hd
    rw [init_lookup hc hp] at hd
    cases hd
  snap_old := fun _ _ _ => rfl
  config := rfl
  other := fun _ => rfl

theorem name_ne_chunk (cmd : SnapCmd) (f : Fam) (c : Content) : cmd.name ≠ .chunk f c := by
  intro h; cases h

theorem storeInv_step {s0 : Store} (hwf : WF s0) {cmds : List SnapCmd} {st st' : CState} {e : Ev}
    (hp0 : ProgInv cmds st) (hinv : StoreInv s0 cmds st) (h : CStep cmds st e st') : StoreInv s0 cmds st' := by
  obtain ⟨hold, hsrc, hdone, hsnap, hcfg, hoth⟩ := hinv
  cases h with
  | «exists» hc hp hw hr =>
    rename_i i c r cmd p
    refine ⟨hold, hsrc, ?_, hsnap, hcfg, hoth⟩
    intro j cmd' p' hc' hp' hd
    rcases set_lookup hp' with ⟨rfl, rfl⟩ | ⟨_, hpo⟩
    · rw [hc] at hc'; cases hc'
      exact hdone j cmd p hc hp hd
    · exact hdone j cmd' p' hc' hpo hd
  | upload hc hp hm =>
    rename_i i c cmd p
    refine ⟨?_, ?_, ?_, ?_, ?_, ?_⟩
    · intro f c' o ho
      by_cases hn : Name.chunk f c' = .chunk cmd.u.fam c
      · cases hn
        rw [get_put_same, hwf.get_chunk ho]
      · rw [get_put_other _ _ _ _ hn]; exact hold f c' o ho
    · intro f c' h0 hne
      by_cases hn : Name.chunk f c' = .chunk cmd.u.fam c
      · cases hn
        exact ⟨cmd, mem_of_getElem? hc, rfl, hp0.pending_sub i cmd p hc hp c hm⟩
      · rw [get_put_other _ _ _ _ hn] at hne; exact hsrc f c' h0 hne
    · intro j cmd' p' hc' hp' hd
      have hget : get (put st.store (.chunk cmd.u.fam c) (.chunk cmd.u.fam c)) cmd'.name = get st.store cmd'.name :=
        get_put_other _ _ _ _ (name_ne_chunk cmd' _ _)
      rw [hget]
      rcases set_lookup hp' with ⟨rfl, rfl⟩ | ⟨_, hpo⟩
      · rw [hc] at hc'; cases hc'
        exact hdone j cmd p hc hp hd
      · exact hdone j cmd' p' hc' hpo hd
    · intro f sid hne
      rw [get_put_other _ _ _ _ (by intro h; cases h)]; exact hsnap f sid hne
    · rw [get_put_other _ _ _ _ (by intro h; cases h)]; exact hcfg
    · intro k; rw [get_put_other _ _ _ _ (by intro h; cases h)]; exact hoth k
  | commit hc hp ht hpe hd =>
    rename_i i cmd p
    refine ⟨?_, ?_, ?_, ?_, ?_, ?_⟩
    · intro f c' o ho
      rw [get_put_other _ _ _ _ (fun h => name_ne_chunk cmd f c' h.symm)]; exact hold f c' o ho
    · intro f c' h0 hne
      rw [get_put_other _ _ _ _ (fun h => name_ne_chunk cmd f c' h.symm)] at hne; exact hsrc f c' h0 hne
    · intro j cmd' p' hc' hp' hd'
      by_cases hn : cmd'.name = cmd.name
      · exact ⟨cmd, mem_of_getElem? hc, hn.symm, by rw [hn, get_put_same]⟩
      · rw [get_put_other _ _ _ _ hn]
        rcases set_lookup hp' with ⟨rfl, rfl⟩ | ⟨_, hpo⟩
        · rw [hc] at hc'; cases hc'
          exact absurd rfl hn
        · exact hdone j cmd' p' hc' hpo hd'
    · intro f sid hne
      rw [get_put_other _ _ _ _ (fun h => hne cmd (mem_of_getElem? hc) h.symm)]; exact hsnap f sid hne
    · rw [get_put_other _ _ _ _ (by intro h; cases h)]; exact hcfg
    · intro k; rw [get_put_other _ _ _ _ (by intro h; cases h)]; exact hoth k
  | read => exact ⟨hold, hsrc, hdone, hsnap, hcfg, hoth⟩

theorem storeInv_run {s0 : Store} (hwf : WF s0) {cmds : List SnapCmd} {tr : List Ev} {st st' : CState}
    (hp0 : ProgInv cmds st) (hinv : StoreInv s0 cmds st) (h : crun cmds st tr = some st') : StoreInv s0 cmds st' :=
  (crun_invariant (fun x => ProgInv cmds x ∧ StoreInv s0 cmds x)
    (fun _ _ _ hi hs => ⟨progInv_step hi.1 hs, storeInv_step hwf hi.1 hi.2 hs⟩) tr st st' ⟨hp0, hinv⟩ h).2

theorem complete_done {st : CState} (h : st.complete = true) {i : Nat} {p : Prog} (hp : st.progs[i]? = some p) : p.done = true := by
  unfold CState.complete at h
  rw [all_eq_true] at h
  exact h p (mem_of_getElem? hp)

theorem prog_of_cmd {cmds : List SnapCmd} {st : CState} (hl : st.progs.length = cmds.length) {i : Nat} {cmd : SnapCmd}
    (hc : cmds[i]? = some cmd) : ∃ p, st.progs[i]? = some p := by
  have hi : i < cmds.length := by
    rcases List.getElem?_eq_some_iff.mp hc with ⟨h, _⟩
    exact h
  exact ⟨st.progs[i]'(hl ▸ hi), getElem?_eq_getElem (hl ▸ hi)⟩

/-- **the end of a complete concurrent execution is characterised by the start store and the set of commands** -/
theorem isFinal_conc {enc : Bool} {s : Store} {cmds : List SnapCmd} {tr : List Ev} {st' : CState}
    (hcons : Consistent enc s) (hok : ∀ cmd ∈ cmds, OpOk enc cmd.op) (hn : NamesOk cmds)
    (hrun : crun cmds (CState.init s cmds) tr = some st') (hdone : st'.complete = true) : IsFinal s cmds st'.store := by
  have hci := concInv_run hok (concInv_init cmds hcons) hrun
  have hpi := progInv_run (progInv_init s cmds) hrun
  have hsi := storeInv_run hcons.1 (progInv_init s cmds) (storeInv_init s cmds) hrun
  refine ⟨hsi.chunk_old, ?_, ?_, ?_, hsi.snap_old, hsi.config, hsi.other⟩
  · rintro f c h0 ⟨cmd, hm, rfl, hc⟩
    obtain ⟨i, hi⟩ := getElem?_of_mem hm
    obtain ⟨p, hp⟩ := prog_of_cmd hpi.len hi
    obtain ⟨ht, hpe⟩ := hpi.done_empty i p hp (complete_done hdone hp)
    rcases hci.2 i cmd p hi hp c hc with h1 | h1 | h1
    · rw [ht] at h1; cases h1
    · rw [hpe] at h1; cases h1
    · exact h1
  · intro f c h0 hne
    cases hg : get st'.store (.chunk f c) with
    | none => rfl
    | some o => exact absurd (hsi.chunk_src f c h0 (by rw [hg]; simp)) hne
  · intro cmd hm
    obtain ⟨i, hi⟩ := getElem?_of_mem hm
    obtain ⟨p, hp⟩ := prog_of_cmd hpi.len hi
    obtain ⟨cmd', hm', hnm, hg⟩ := hsi.snap_done i cmd p hi hp (complete_done hdone hp)
    rw [hg, hn cmd' hm' cmd hm hnm]

end Replicat.Repo
