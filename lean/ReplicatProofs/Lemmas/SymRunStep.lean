import ReplicatProofs.Lemmas.SymRun
/-! Every command of a well-formed history preserves the history invariant `HInv` (see `SymRun.lean`). -/
namespace Replicat.Sym
open Term (pub sec nonce key nil pair mac kdf enc)

/-! ## chunk uploads of one snapshot -/
theorem putChunk_present (p : Props) (s : St) (c : Term) :
    lookup (putChunk p s c).store (chunkLoc p (digest c)) ≠ none := by
  rcases putChunk_store p s c with ⟨hs, _, hp⟩ | ⟨_, hs, _⟩
  · rw [hs]; exact hp
  · rw [hs]; exact lookup_append_self _ _ _

theorem putChunk_keep (p : Props) (s : St) (c loc : Term) (h : lookup s.store loc ≠ none) :
    lookup (putChunk p s c).store loc ≠ none := by
  rcases putChunk_store p s c with ⟨hs, _, _⟩ | ⟨_, hs, _⟩
  · rw [hs]; exact h
  · rw [hs]; exact lookup_append_ne_none h

theorem hinv_putChunk (cfg : Term) (s : St) (u : User) (hu : u ∈ s.users) (c : Term)
    (h : HInv cfg s) : HInv cfg (putChunk (u.props s.encrypted) s c) := by
  have hU := putChunk_users (u.props s.encrypted) s c
  have hE := putChunk_encrypted (u.props s.encrypted) s c
  have hN := putChunk_next (u.props s.encrypted) s c
  rcases putChunk_store (u.props s.encrypted) s c with ⟨hs, hl, _⟩ | ⟨hnone, hs, hl⟩
  · refine ⟨?_, ?_, ?_⟩
    · rw [hE, hU]; exact h.hu.mono hN
    · rw [hE, hU, hl]; exact h.hl.mono hN
    · rw [hs, hl]; exact h.hs
  · refine ⟨?_, ?_, ?_⟩
    · rw [hE, hU]; exact h.hu.mono hN
    · rw [hE, hU, hl]; exact linv_chunk h.hl hN u hu _ c
    · rw [hs, hl]; exact sinv_append h.hs _ _ hnone

theorem ti_putChunk (p : Props) (s : St) (ts : List Taken) (c : Term) (h : TI s ts) : TI (putChunk p s c) ts := by
  have hU := putChunk_users p s c
  have hE := putChunk_encrypted p s c
  unfold TI
  rcases putChunk_store p s c with ⟨hs, _, _⟩ | ⟨_, hs, _⟩
  · rw [hE, hU, hs]; exact h
  · rw [hE, hU, hs]; exact tinv_append_chunk h _ _ _

theorem ti_putChunks (p : Props) (ts : List Taken) (cs : List Term) (s : St) (h : TI s ts) :
    TI (cs.foldl (putChunk p) s) ts := by
  induction cs generalizing s with
  | nil => exact h
  | cons c cs ih => exact ih _ (ti_putChunk p s ts c h)

theorem putChunks_users (p : Props) (cs : List Term) (s : St) : (cs.foldl (putChunk p) s).users = s.users := by
  induction cs generalizing s with
  | nil => rfl
  | cons c cs ih => rw [List.foldl_cons, ih, putChunk_users]

theorem putChunks_next (p : Props) (cs : List Term) (s : St) : s.next ≤ (cs.foldl (putChunk p) s).next := by
  induction cs generalizing s with
  | nil => exact Nat.le_refl _
  | cons c cs ih => exact Nat.le_trans (putChunk_next p s c) (ih _)

theorem putChunks_keep (p : Props) (cs : List Term) (s : St) (loc : Term) (h : lookup s.store loc ≠ none) :
    lookup (cs.foldl (putChunk p) s).store loc ≠ none := by
  induction cs generalizing s with
  | nil => exact h
  | cons c cs ih => exact ih _ (putChunk_keep p s c loc h)

theorem putChunks_present (p : Props) (cs : List Term) (s : St) :
    ∀ c ∈ cs, lookup (cs.foldl (putChunk p) s).store (chunkLoc p (digest c)) ≠ none := by
  induction cs generalizing s with
  | nil => intro c hc; cases hc
  | cons c0 cs ih =>
    intro c hc
    rw [List.foldl_cons]
    rcases List.mem_cons.mp hc with rfl | hc
    · exact putChunks_keep p cs _ _ (putChunk_present p s c)
    · exact ih _ c hc

theorem hinv_putChunks (cfg : Term) (u : User) (cs : List Term) (s : St) (hu : u ∈ s.users)
    (h : HInv cfg s) : HInv cfg (cs.foldl (putChunk (u.props s.encrypted)) s) := by
  induction cs generalizing s with
  | nil => exact h
  | cons c cs ih =>
    rw [List.foldl_cons]
    have h1 := hinv_putChunk cfg s u hu c h
    have hE := putChunk_encrypted (u.props s.encrypted) s c
    have hU := putChunk_users (u.props s.encrypted) s c
    have := ih (putChunk (u.props s.encrypted) s c) (by rw [hU]; exact hu) h1
    rw [hE] at this
    exact this

/-! ## the snapshot object -/
theorem linv_snap {en users next next' cfg log} (h : LInv en users next cfg log) (hn : next ≤ next')
    (hlt : en = true → next < next') (u : User) (hu : u ∈ users) (n2 tb d : Term) :
    LInv en users next' cfg
      (log ++ [(snapLoc (u.props en) (snapshotName (snapshotStored (u.props en) (nonce next) n2 tb d)),
                snapshotStored (u.props en) (nonce next) n2 tb d)]) := by
  have h' := h.mono hn
  -- an older entry under the same name carries the same tag
  have hold : ∀ e ∈ log, ∀ t1 n, e.1 = pair prefixSnap (pair t1 n) →
      n = snapshotName (snapshotStored (u.props en) (nonce next) n2 tb d) → t1 = snapshotTag (u.props en) n := by
    intro e he t1 n h1 hname
    obtain ⟨u', _, ht1, hn1, hfresh⟩ := form_snapLoc (h.forms e he) h1
    cases hen : en with
    | false =>
      subst hen
      rw [ht1]
      simp [snapshotTag]
    | true =>
      subst hen
      exfalso
      obtain ⟨k, n2', tb', d', hk, hst⟩ := hfresh rfl
      have hsame : e.2 = snapshotStored (u.props true) (nonce next) n2 tb d := by
        rw [hn1] at hname
        exact Term.hash.inj hname
      rw [hst] at hsame
      simp only [snapshotStored, props_encrypted, if_true] at hsame
      injection hsame with _ h2
      injection h2 with _ h2 _
      injection h2 with h2
      omega
  refine ⟨?_, ?_, ?_⟩
  · intro e he
    simp only [List.mem_append, List.mem_singleton] at he
    rcases he with he | he
    · exact h'.forms e he
    · subst he
      exact .snap u hu _ (fun he => ⟨next, n2, tb, d, hlt he, rfl⟩)
  · apply pairwise_append (fun (e1 e2 : Term × Term) => ∀ i, e1.1 = keyLoc i → e2.1 = keyLoc i → e1.2 = e2.2)
    · exact h.keyUniq
    · intro e _ i _ h2
      simp [snapLoc, keyLoc, prefixSnap, prefixKey] at h2
    · intro e _ i h1 _
      simp [snapLoc, keyLoc, prefixSnap, prefixKey] at h1
    · intro _ _ _; rfl
  · apply pairwise_append (fun (e1 e2 : Term × Term) => ∀ t1 t2 n,
      e1.1 = pair prefixSnap (pair t1 n) → e2.1 = pair prefixSnap (pair t2 n) → t1 = t2)
    · exact h.snapTag
    · intro e he t1 t2 n h1 h2
      simp only [snapLoc] at h2
      injection h2 with _ h2
      injection h2 with h2 h3
      rw [← h2, h3]
      exact hold e he t1 n h1 h3.symm
    · intro e he t1 t2 n h1 h2
      simp only [snapLoc] at h1
      injection h1 with _ h1
      injection h1 with h1 h3
      rw [← h1, h3]
      exact (hold e he t2 n h2 h3.symm).symm
    · intro t1 t2 n h1 h2
      simp only [snapLoc] at h1 h2
      injection h1 with _ h1
      injection h1 with h1 h3
      injection h2 with _ h2
      injection h2 with h2 h4
      rw [← h1, ← h2]

theorem sinv_replace {store log : Store} (h : SInv store log) (loc obj : Term) :
    SInv (store.filter (fun e => e.1 ≠ loc) ++ [(loc, obj)]) (log ++ [(loc, obj)]) := by
  refine ⟨?_, nodup_replace store loc obj h.nodup⟩
  intro e he
  simp only [List.mem_append, List.mem_singleton] at he ⊢
  rcases he with he | he
  · exact Or.inl (h.sub e (List.mem_filter.mp he).1)
  · exact Or.inr he

/-- replacing a snapshot object keeps every chunk object -/
theorem replace_keeps_chunk (store : Store) (loc obj : Term) (p q : Props) (n d : Term) (hl : loc = snapLoc p n)
    (h : lookup store (chunkLoc q d) ≠ none) :
    lookup (store.filter (fun e => e.1 ≠ loc) ++ [(loc, obj)]) (chunkLoc q d) ≠ none := by
  apply lookup_append_ne_none
  have := lookup_filter store (fun x => decide (x ≠ loc)) (chunkLoc q d)
  rw [this]
  have hne : chunkLoc q d ≠ loc := by rw [hl]; exact chunkLoc_ne_snapLoc q p d n
  simp [hne, h]

theorem replace_other (store : Store) (loc obj x : Term) (hx : x ≠ loc)
    (h : lookup (store.filter (fun e => e.1 ≠ loc) ++ [(loc, obj)]) x ≠ none) : lookup store x ≠ none := by
  rw [lookup_append] at h
  have hf := lookup_filter store (fun y => decide (y ≠ loc)) x
  simp only [hx, ne_eq, not_false_eq_true, decide_true, if_true] at hf
  intro hn
  apply h
  have : lookup (List.filter (fun e => decide (e.1 ≠ loc)) store) x = none := by rw [← hn]; exact hf
  rw [this]
  have hx' : ¬ loc = x := fun e => hx e.symm
  simp [lookup, hx']

theorem tinv_snapWrite {en users store ts} (h : TInv en users store ts) (t : Taken) (hok : TakenOk en users t) (obj : Term)
    (hpres : ∀ d ∈ t.table, lookup store (chunkLoc t.p d) ≠ none) :
    TInv en users (store.filter (fun e => e.1 ≠ t.loc) ++ [(t.loc, obj)]) (ts ++ [t]) := by
  constructor
  · intro t' ht'
    simp only [List.mem_append, List.mem_singleton] at ht'
    rcases ht' with ht' | ht'
    · exact h.ok t' ht'
    · subst ht'; exact hok
  · intro t' ht' hp d hd
    simp only [List.mem_append, List.mem_singleton] at ht'
    rcases ht' with ht' | ht'
    · by_cases hloc : t'.loc = t.loc
      · -- the same name was written again: same object, same table, same chunk locations
        obtain ⟨⟨u', _, hp'⟩, _⟩ := h.ok t' ht'
        obtain ⟨⟨u, _, hpt⟩, _⟩ := hok
        have he : t'.p.encrypted = t.p.encrypted := by rw [hp', hpt]; rfl
        obtain ⟨hname, hmac⟩ := snapLoc_inj he hloc
        have hst : t'.stored = t.stored := Term.hash.inj hname
        have htab : t'.table = t.table := snapshotStored_table he hst
        rw [chunkLoc_congr he hmac d]
        rw [htab] at hd
        exact replace_keeps_chunk store _ obj t.p t.p t.name d rfl (hpres d hd)
      · have := replace_other store t.loc obj t'.loc hloc hp
        exact replace_keeps_chunk store _ obj t.p t'.p t.name d rfl (h.pres t' ht' this d hd)
    · subst ht'
      exact replace_keeps_chunk store _ obj t'.p t'.p t'.name d rfl (hpres d hd)

/-! ## removals -/
theorem tinv_remove {en users store ts} (h : TInv en users store ts) (locs : List Term)
    (hok : (ts.all fun t => (lookup store t.loc).isNone || locs.contains t.loc ||
      t.table.all fun d => !locs.contains (chunkLoc t.p d)) = true) :
    TInv en users (store.filter (fun e => !locs.contains e.1)) ts := by
  refine ⟨h.ok, ?_⟩
  intro t ht hp d hd
  have hf := lookup_filter store (fun x => !locs.contains x)
  rw [hf] at hp ⊢
  have hto := List.all_eq_true.mp hok t ht
  by_cases hc : locs.contains t.loc = true
  · rw [hc] at hp
    simp at hp
  · have hc' : locs.contains t.loc = false := by simpa using hc
    simp only [hc', Bool.not_false, if_true] at hp
    have hsome : (lookup store t.loc).isNone = false := by
      cases hl : lookup store t.loc with
      | none => exact absurd hl hp
      | some o => rfl
    simp only [hsome, hc', Bool.false_or] at hto
    have hd' := List.all_eq_true.mp hto d hd
    simp only [hd', if_true]
    exact h.pres t ht hp d hd

theorem sinv_filter {store log : Store} (h : SInv store log) (f : Term × Term → Bool) : SInv (store.filter f) log :=
  ⟨fun e he => h.sub e (List.mem_filter.mp he).1, nodup_filter_keys store f h.nodup⟩

/-! ## the fields of `step` -/
theorem step_snapshot_fields (s : St) (user : Nat) (chunks : List Term) (data : Data) (u : User)
    (hu : s.users[user]? = some u) :
    (step s (.snapshot user chunks data)).users = s.users ∧
    (step s (.snapshot user chunks data)).encrypted = s.encrypted ∧
    (chunks.foldl (putChunk (u.props s.encrypted)) s).next ≤ (step s (.snapshot user chunks data)).next ∧
    (s.encrypted = true →
      (chunks.foldl (putChunk (u.props s.encrypted)) s).next < (step s (.snapshot user chunks data)).next) ∧
    (step s (.snapshot user chunks data)).store =
      (chunks.foldl (putChunk (u.props s.encrypted)) s).store.filter
        (fun e => e.1 ≠ snapLoc (u.props s.encrypted) (snapshotName (snapshotStored (u.props s.encrypted)
          (nonce (chunks.foldl (putChunk (u.props s.encrypted)) s).next)
          (nonce ((chunks.foldl (putChunk (u.props s.encrypted)) s).next + 1))
          (encTable (dedup (chunks.map digest) [])) (encData data)))) ++
      [(snapLoc (u.props s.encrypted) (snapshotName (snapshotStored (u.props s.encrypted)
          (nonce (chunks.foldl (putChunk (u.props s.encrypted)) s).next)
          (nonce ((chunks.foldl (putChunk (u.props s.encrypted)) s).next + 1))
          (encTable (dedup (chunks.map digest) [])) (encData data))),
        snapshotStored (u.props s.encrypted)
          (nonce (chunks.foldl (putChunk (u.props s.encrypted)) s).next)
          (nonce ((chunks.foldl (putChunk (u.props s.encrypted)) s).next + 1))
          (encTable (dedup (chunks.map digest) [])) (encData data))] ∧
    (step s (.snapshot user chunks data)).log =
      (chunks.foldl (putChunk (u.props s.encrypted)) s).log ++
      [(snapLoc (u.props s.encrypted) (snapshotName (snapshotStored (u.props s.encrypted)
          (nonce (chunks.foldl (putChunk (u.props s.encrypted)) s).next)
          (nonce ((chunks.foldl (putChunk (u.props s.encrypted)) s).next + 1))
          (encTable (dedup (chunks.map digest) [])) (encData data))),
        snapshotStored (u.props s.encrypted)
          (nonce (chunks.foldl (putChunk (u.props s.encrypted)) s).next)
          (nonce ((chunks.foldl (putChunk (u.props s.encrypted)) s).next + 1))
          (encTable (dedup (chunks.map digest) [])) (encData data))] := by
  simp only [step, hu]
  cases he : s.encrypted <;>
    simp [putChunks_users, putChunks_encrypted, he]

/-! ## every command preserves the invariant -/
theorem hinv_step (cfg : Term) (s : St) (op : Op) (h : HInv cfg s) : HInv cfg (step s op) := by
  cases op with
  | addKey base shared kdfcfg shcfg pw =>
    cases he : s.encrypted with
    | false =>
      have : step s (.addKey base shared kdfcfg shcfg pw) = s := by simp [step, he]
      rw [this]; exact h
    | true =>
      simp only [step, he, Bool.not_true, Bool.false_eq_true, if_false]
      split
      · exact h
      · rename_i b hb
        have hbm : b ∈ s.users := List.mem_of_getElem? hb
        have hu' : UInv true s.users s.next := by rw [← he]; exact h.hu
        have hl' : LInv true s.users s.next cfg s.log := by rw [← he]; exact h.hl
        cases shared with
        | true =>
          simp only [if_true]
          refine ⟨?_, ?_, ?_⟩
          · exact uinv_addUser rfl hu' ⟨kdfcfg, pw, nonce s.next, b.sh⟩ (next' := s.next + 2) (Nat.le_add_right _ 2) (Or.inl ⟨b, hbm, rfl⟩)
              ⟨s.next, Nat.le_refl _, Nat.lt_add_of_pos_right (by decide), rfl⟩
          · exact linv_addKey hl' _ _ (Nat.le_add_right _ 2)
          · exact sinv_log_append h.hs _
        | false =>
          simp only [Bool.false_eq_true, if_false]
          refine ⟨?_, ?_, ?_⟩
          · exact uinv_addUser rfl hu' ⟨kdfcfg, pw, nonce (s.next + 4), freshShared shcfg s.next⟩
              (next' := s.next + 4 + 2) (by omega) (Or.inr ⟨s.next + 2, by omega, by omega, rfl⟩)
              ⟨s.next + 4, by omega, by omega, rfl⟩
          · exact linv_addKey hl' _ _ (next' := s.next + 4 + 2) (by omega)
          · exact sinv_log_append h.hs _
  | snapshot user chunks data =>
    cases hu : s.users[user]? with
    | none =>
      have : step s (.snapshot user chunks data) = s := by simp [step, hu]
      rw [this]; exact h
    | some u =>
      have hum : u ∈ s.users := List.mem_of_getElem? hu
      obtain ⟨fU, fE, fN, fN', fS, fL⟩ := step_snapshot_fields s user chunks data u hu
      have h1 := hinv_putChunks cfg u chunks s hum h
      have hU1 := putChunks_users (u.props s.encrypted) chunks s
      have hE1 := putChunks_encrypted (u.props s.encrypted) chunks s
      refine ⟨?_, ?_, ?_⟩
      · rw [fU, fE]
        have := h1.hu
        rw [hU1, hE1] at this
        exact this.mono fN
      · rw [fU, fE, fL]
        have := h1.hl
        rw [hU1, hE1] at this
        exact linv_snap this fN fN' u hum _ _ _
      · rw [fS, fL]
        exact sinv_replace h1.hs _ _
  | remove locs =>
    exact ⟨h.hu, h.hl, sinv_filter h.hs _⟩

theorem ti_step (s : St) (ts : List Taken) (op : Op) (h : TI s ts) (hok : opOk s ts op = true) :
    TI (step s op) (ts ++ takenBy s op) := by
  cases op with
  | addKey base shared kdfcfg shcfg pw =>
    simp only [takenBy, List.append_nil]
    cases he : s.encrypted with
    | false =>
      have : step s (.addKey base shared kdfcfg shcfg pw) = s := by simp [step, he]
      rw [this]; exact h
    | true =>
      simp only [step, he, Bool.not_true, Bool.false_eq_true, if_false]
      split
      · exact h
      · have h' : TInv true s.users s.store ts := by rw [← he]; exact h
        unfold TI
        cases shared with
        | true =>
          simp only [if_true]
          exact tinv_addUser h' _
        | false =>
          simp only [Bool.false_eq_true, if_false]
          exact tinv_addUser h' _
  | snapshot user chunks data =>
    cases hu : s.users[user]? with
    | none =>
      have : step s (.snapshot user chunks data) = s := by simp [step, hu]
      rw [this]
      simp only [takenBy, hu, List.append_nil]
      exact h
    | some u =>
      obtain ⟨fU, fE, _, _, fS, _⟩ := step_snapshot_fields s user chunks data u hu
      have h1 := ti_putChunks (u.props s.encrypted) ts chunks s h
      have hU1 := putChunks_users (u.props s.encrypted) chunks s
      have hE1 := putChunks_encrypted (u.props s.encrypted) chunks s
      unfold TI at h1 ⊢
      rw [hU1, hE1] at h1
      rw [fU, fE, fS]
      simp only [takenBy, hu]
      refine tinv_snapWrite h1 ⟨user, u.props s.encrypted, chunks, data, _, _⟩ ⟨⟨u, hu, rfl⟩, hok⟩ _ ?_
      intro d hd
      have hd' : d ∈ chunks.map digest := by
        have := (mem_dedup (chunks.map digest) [] d).mp hd
        simpa using this
      obtain ⟨c, hc, rfl⟩ := List.mem_map.mp hd'
      exact putChunks_present (u.props s.encrypted) chunks s c hc
  | remove locs =>
    simp only [takenBy, List.append_nil]
    exact tinv_remove h locs hok

/-! ## initial state and whole histories -/
theorem hinv_init (a : InitArgs) : HInv a.cfg (initSt a) := by
  unfold initSt
  cases a.encrypted with
  | true =>
    simp only [if_true]
    refine ⟨⟨?_, ?_, ?_, ?_⟩, ⟨?_, ?_, ?_⟩, ⟨?_, ?_⟩⟩
    · intro u hu v hv _
      simp only [List.mem_singleton] at hu hv
      rw [hu, hv]
    · intro _ u hu
      simp only [List.mem_singleton] at hu
      subst hu
      exact ⟨2, (by show 2 < 6; omega), rfl⟩
    · intro _ u hu
      simp only [List.mem_singleton] at hu
      subst hu
      exact ⟨4, (by show 4 < 6; omega), rfl⟩
    · intro i j u v hi hj _
      have h1 := getElem?_append_single [] _ u i hi
      have h2 := getElem?_append_single [] _ v j hj
      simp at h1 h2
      omega
    · intro e he
      simp only [List.mem_cons, List.not_mem_nil, or_false] at he
      rcases he with he | he
      · subst he; exact .key 0 _ (by simp)
      · subst he; exact .config
    · intro e1 h1 e2 h2 i k1 k2
      simp only [List.mem_cons, List.not_mem_nil, or_false] at h1 h2
      rcases h1 with h1 | h1 <;> rcases h2 with h2 | h2
      · rw [h1, h2]
      · subst h2; simp [configLoc, keyLoc] at k2
      · subst h1; simp [configLoc, keyLoc] at k1
      · rw [h1, h2]
    · intro e1 h1 e2 h2 t1 t2 n k1 k2
      simp only [List.mem_cons, List.not_mem_nil, or_false] at h1
      rcases h1 with h1 | h1
      · subst h1; simp [keyLoc, prefixKey, prefixSnap] at k1
      · subst h1; simp [configLoc] at k1
    · intro e he
      simp only [List.mem_singleton] at he
      subst he
      simp
    · simp
  | false =>
    simp only [Bool.false_eq_true, if_false]
    refine ⟨⟨?_, ?_, ?_, ?_⟩, ⟨?_, ?_, ?_⟩, ⟨?_, ?_⟩⟩
    · intro u hu v hv _
      simp only [List.mem_singleton] at hu hv
      rw [hu, hv]
    · intro h; cases h
    · intro h; cases h
    · intro i j u v hi hj _
      have h1 := getElem?_append_single [] _ u i hi
      have h2 := getElem?_append_single [] _ v j hj
      simp at h1 h2
      omega
    · intro e he
      simp only [List.mem_singleton] at he
      subst he; exact .config
    · intro e1 h1 e2 h2 i k1 k2
      simp only [List.mem_singleton] at h1 h2
      rw [h1, h2]
    · intro e1 h1 e2 h2 t1 t2 n k1 k2
      simp only [List.mem_singleton] at h1
      subst h1; simp [configLoc] at k1
    · intro e he
      exact he
    · simp

theorem runT_fst (a : InitArgs) (ops : List Op) : (runT a ops).1 = run a ops := by
  unfold runT run
  suffices H : ∀ (s : St) (ts : List Taken), (ops.foldl stepT (s, ts)).1 = ops.foldl step s from H _ _
  induction ops with
  | nil => intro s ts; rfl
  | cons op ops ih => intro s ts; exact ih _ _

theorem hinv_run (a : InitArgs) (ops : List Op) : HInv a.cfg (run a ops) := by
  unfold run
  suffices H : ∀ (s : St), HInv a.cfg s → HInv a.cfg (ops.foldl step s) from H _ (hinv_init a)
  induction ops with
  | nil => intro s hs; exact hs
  | cons op ops ih => intro s hs; exact ih _ (hinv_step a.cfg s op hs)

theorem ti_from (ops : List Op) : ∀ (s : St) (ts : List Taken), TI s ts → wfFrom s ts ops = true →
    TI (ops.foldl stepT (s, ts)).1 (ops.foldl stepT (s, ts)).2 := by
  induction ops with
  | nil => intro s ts h _; exact h
  | cons op ops ih =>
    intro s ts h hw
    simp only [wfFrom, Bool.and_eq_true] at hw
    exact ih _ _ (ti_step s ts op h hw.1) hw.2

theorem ti_run (a : InitArgs) (ops : List Op) (hwf : wfHist a ops = true) : TI (run a ops) (taken a ops) := by
  rw [← runT_fst]
  refine ti_from ops (initSt a) [] ?_ hwf
  refine ⟨?_, ?_⟩ <;> intro t ht <;> cases ht

end Replicat.Sym
