import ReplicatProofs.Lemmas.RepoConcSeq
import ReplicatProofs.Lemmas.RepoExact
/-! Counting the racy uploads of overlapping snapshot commands: every upload belongs to one worker that observed the chunk
absent, a command never uploads one chunk more often than it has workers (nor than the chunk occurs in its data), never
uploads a chunk stored before, and every new chunk is uploaded by somebody.  Used by C07 (`racy_upload_bounded`). -/
namespace Replicat.Repo
open List

/-! ## counting along a trace -/

theorem uploads_snoc (d : List Ev) (e : Ev) (i : Nat) (c : Content) :
    uploads (d ++ [e]) i c = uploads d i c + (if Ev.isUpload i c e = true then 1 else 0) := by
  simp [uploads, countP_append, countP_cons]

theorem absents_snoc (d : List Ev) (e : Ev) (i : Nat) (c : Content) :
    absents (d ++ [e]) i c = absents d i c + (if Ev.isAbsent i c e = true then 1 else 0) := by
  simp [absents, countP_append, countP_cons]

theorem mem_take_pos {α : Type} {l : List α} {n : Nat} {a : α} (h : a ∈ l.take n) : 0 < n := by
  cases n with
  | zero => simp at h
  | succ k => exact Nat.succ_pos k

theorem window_free {cmd : SnapCmd} {p : Prog} {c : Content} (h : c ∈ window cmd p) : p.pending.length < cmd.workers := by
  have := mem_take_pos h
  omega

/-! ## per-command facts -/

structure WorkerInv (s0 : Store) (d : List Ev) (s : Store) (i : Nat) (cmd : SnapCmd) (p : Prog) : Prop where
  /-- every absent observation is an upload made or an upload outstanding -/
  k1 : ∀ c, absents d i c = uploads d i c + p.pending.count c
  k2 : p.pending.length ≤ cmd.workers
  k3 : ∀ c, get s (.chunk cmd.u.fam c) = none → uploads d i c = 0
  k4 : ∀ c, absents d i c ≤ cmd.workers
  k5 : ∀ c, absents d i c + p.todo.count c ≤ cmd.stream.count c
  k6 : ∀ c, (get s0 (.chunk cmd.u.fam c)).isSome → absents d i c = 0

/-- a call of another command, or a read, leaves the facts of command `i` alone -/
theorem workerInv_frame {s0 s s' : Store} {d : List Ev} {e : Ev} {i : Nat} {cmd : SnapCmd} {p : Prog}
    (h : WorkerInv s0 d s i cmd p) (hu : ∀ c, Ev.isUpload i c e = false) (ha : ∀ c, Ev.isAbsent i c e = false)
    (hback : ∀ n, get s' n = none → get s n = none) : WorkerInv s0 (d ++ [e]) s' i cmd p where
  k1 := by intro c; rw [absents_snoc, uploads_snoc, hu, ha]; simpa using h.k1 c
  k2 := h.k2
  k3 := by intro c hn; rw [uploads_snoc, hu]; simpa using h.k3 c (hback _ hn)
  k4 := by intro c; rw [absents_snoc, ha]; simpa using h.k4 c
  k5 := by intro c; rw [absents_snoc, ha]; simpa using h.k5 c
  k6 := by intro c hs; rw [absents_snoc, ha]; simpa using h.k6 c hs

structure CountInv (s0 : Store) (cmds : List SnapCmd) (d : List Ev) (st : CState) : Prop where
  worker : ∀ (i : Nat) cmd p, cmds[i]? = some cmd → st.progs[i]? = some p → WorkerInv s0 d st.store i cmd p
  mono : ∀ n, (get s0 n).isSome → (get st.store n).isSome
  src : ∀ f c, get s0 (.chunk f c) = none → get st.store (.chunk f c) ≠ none →
    ∃ (j : Nat) (cmd' : SnapCmd), cmds[j]? = some cmd' ∧ cmd'.u.fam = f ∧ 1 ≤ uploads d j c
  payload : ∀ i n o, Ev.upload i n o ∈ d → ∃ f c, n = .chunk f c ∧ o = .chunk f c

theorem countInv_init (s : Store) (cmds : List SnapCmd) : CountInv s cmds [] (CState.init s cmds) where
  worker := by
    intro i cmd p hc hp
    rw [init_lookup hc hp]
    refine ⟨?_, ?_, ?_, ?_, ?_, ?_⟩ <;> simp [absents, uploads, Prog.init]
  mono := fun _ h => h
  src := fun _ _ h hne => absurd h hne
  payload := by intro i n o h; cases h

theorem isSome_of_back {s s' : Store} (hback : ∀ n, get s' n = none → get s n = none) {n : Name} (h : (get s n).isSome) :
    (get s' n).isSome := by
  cases hg : get s' n with
  | none => rw [hback n hg] at h; cases h
  | some o => rfl

theorem countInv_step {s0 : Store} {cmds : List SnapCmd} {d : List Ev} {st st' : CState} {e : Ev}
    (hinv : CountInv s0 cmds d st) (h : CStep cmds st e st') : CountInv s0 cmds (d ++ [e]) st' := by
  have hback : ∀ n, get st'.store n = none → get st.store n = none := fun n hn => h.get_none hn
  obtain ⟨hw, hmono, hsrc, hpay⟩ := hinv
  cases h with
  | «exists» hc hp hwin hr =>
    rename_i i c r cmd p
    refine ⟨?_, hmono, ?_, ?_⟩
    · intro j cmd' p' hc' hp'
      rcases set_lookup hp' with ⟨rfl, rfl⟩ | ⟨hne, hold⟩
      · rw [hc] at hc'; cases hc'
        have W := hw j cmd p hc hp
        have hctodo : c ∈ p.todo := mem_window hwin
        have hfree := window_free hwin
        have hcnt : 1 ≤ p.todo.count c := count_pos_iff.mpr hctodo
        cases r with
        | true =>
          refine ⟨?_, W.k2, ?_, ?_, ?_, ?_⟩
          · intro c'; rw [absents_snoc, uploads_snoc]; simpa [Ev.isAbsent, Ev.isUpload] using W.k1 c'
          · intro c' hn; rw [uploads_snoc]; simpa [Ev.isUpload] using W.k3 c' hn
          · intro c'; rw [absents_snoc]; simpa [Ev.isAbsent] using W.k4 c'
          · intro c'
            rw [absents_snoc]
            have := W.k5 c'
            have hle : (p.todo.erase c).count c' ≤ p.todo.count c' := (erase_sublist).count_le c'
            simp only [Ev.isAbsent, Bool.false_eq_true, if_false, Nat.add_zero]
            omega
          · intro c' hs; rw [absents_snoc]; simpa [Ev.isAbsent] using W.k6 c' hs
        | false =>
          have hnone : get st.store (.chunk cmd.u.fam c) = none := by
            cases hg : get st.store (.chunk cmd.u.fam c) with
            | none => rfl
            | some o => rw [hg] at hr; cases hr
          have hup0 := W.k3 c hnone
          refine ⟨?_, ?_, ?_, ?_, ?_, ?_⟩
          · intro c'
            rw [absents_snoc, uploads_snoc]
            have := W.k1 c'
            by_cases hcc : c = c'
            · subst hcc; simp [Ev.isAbsent, Ev.isUpload, count_append]; omega
            · simp [Ev.isAbsent, Ev.isUpload, count_append, hcc]; omega
          · simp; omega
          · intro c' hn; rw [uploads_snoc]; simpa [Ev.isUpload] using W.k3 c' hn
          · intro c'
            rw [absents_snoc]
            by_cases hcc : c = c'
            · subst hcc
              have h1 := W.k1 c
              have h2 : p.pending.count c ≤ p.pending.length := count_le_length
              simp [Ev.isAbsent]; omega
            · simpa [Ev.isAbsent, hcc] using W.k4 c'
          · intro c'
            rw [absents_snoc]
            have := W.k5 c'
            by_cases hcc : c = c'
            · subst hcc
              have : (p.todo.erase c).count c = p.todo.count c - 1 := count_erase_self
              simp [Ev.isAbsent]; omega
            · have : (p.todo.erase c).count c' = p.todo.count c' := count_erase_of_ne (fun e => hcc e.symm)
              simp [Ev.isAbsent, hcc]; omega
          · intro c' hs
            rw [absents_snoc]
            by_cases hcc : c = c'
            · subst hcc
              have := hmono _ hs
              rw [hnone] at this; cases this
            · simpa [Ev.isAbsent, hcc] using W.k6 c' hs
      · exact workerInv_frame (hw j cmd' p' hc' hold)
          (by intro c'; simp [Ev.isUpload])
          (by intro c'; cases r <;> simp [Ev.isAbsent]; exact fun e => absurd e.symm hne) hback
    · intro f c' h0 hne
      obtain ⟨j, cmd', hj, hf, hu⟩ := hsrc f c' h0 hne
      exact ⟨j, cmd', hj, hf, by rw [uploads_snoc]; omega⟩
    · intro i' n o hm
      rcases mem_append.mp hm with hm | hm
      · exact hpay i' n o hm
      · simp at hm
  | upload hc hp hm =>
    rename_i i c cmd p
    refine ⟨?_, fun n hs => isSome_of_back hback (hmono n hs), ?_, ?_⟩
    · intro j cmd' p' hc' hp'
      rcases set_lookup hp' with ⟨rfl, rfl⟩ | ⟨hne, hold⟩
      · rw [hc] at hc'; cases hc'
        have W := hw j cmd p hc hp
        have hcnt : 1 ≤ p.pending.count c := count_pos_iff.mpr hm
        refine ⟨?_, ?_, ?_, ?_, ?_, ?_⟩
        · intro c'
          rw [absents_snoc, uploads_snoc]
          have := W.k1 c'
          by_cases hcc : c = c'
          · subst hcc
            have : (p.pending.erase c).count c = p.pending.count c - 1 := count_erase_self
            simp [Ev.isAbsent, Ev.isUpload]; omega
          · have : (p.pending.erase c).count c' = p.pending.count c' := count_erase_of_ne (fun e => hcc e.symm)
            simp [Ev.isAbsent, Ev.isUpload, hcc]; omega
        · have : (p.pending.erase c).length ≤ p.pending.length := (erase_sublist).length_le
          have := W.k2
          simp only; omega
        · intro c' hn
          rw [uploads_snoc]
          by_cases hcc : c = c'
          · subst hcc; simp only [get_put_same] at hn; cases hn
          · have := W.k3 c' (hback _ hn)
            simp [Ev.isUpload, hcc]; omega
        · intro c'; rw [absents_snoc]; simpa [Ev.isAbsent] using W.k4 c'
        · intro c'; rw [absents_snoc]; simpa [Ev.isAbsent] using W.k5 c'
        · intro c' hs; rw [absents_snoc]; simpa [Ev.isAbsent] using W.k6 c' hs
      · exact workerInv_frame (hw j cmd' p' hc' hold)
          (by intro c'; simp [Ev.isUpload]; exact fun e => absurd e.symm hne)
          (by intro c'; simp [Ev.isAbsent]) hback
    · intro f c' h0 hne
      by_cases hn : Name.chunk f c' = .chunk cmd.u.fam c
      · cases hn
        refine ⟨i, cmd, hc, rfl, ?_⟩
        rw [uploads_snoc]; simp [Ev.isUpload]
      · rw [get_put_other _ _ _ _ hn] at hne
        obtain ⟨j, cmd', hj, hf, hu⟩ := hsrc f c' h0 hne
        exact ⟨j, cmd', hj, hf, by rw [uploads_snoc]; omega⟩
    · intro i' n o hm'
      rcases mem_append.mp hm' with hm' | hm'
      · exact hpay i' n o hm'
      · simp only [mem_singleton] at hm'
        cases hm'
        exact ⟨_, _, rfl, rfl⟩
  | commit hc hp ht hpe hd =>
    rename_i i cmd p
    refine ⟨?_, fun n hs => isSome_of_back hback (hmono n hs), ?_, ?_⟩
    · intro j cmd' p' hc' hp'
      rcases set_lookup hp' with ⟨rfl, rfl⟩ | ⟨hne, hold⟩
      · rw [hc] at hc'; cases hc'
        have W := hw j cmd p hc hp
        obtain ⟨todo, pending, done⟩ := p
        simp only at ht hpe
        subst ht hpe
        have W' : WorkerInv s0 d st.store j cmd ⟨[], [], true⟩ := ⟨W.k1, W.k2, W.k3, W.k4, W.k5, W.k6⟩
        exact workerInv_frame W' (by intro c'; simp [Ev.isUpload]) (by intro c'; simp [Ev.isAbsent]) hback
      · exact workerInv_frame (hw j cmd' p' hc' hold) (by intro c'; simp [Ev.isUpload]) (by intro c'; simp [Ev.isAbsent]) hback
    · intro f c' h0 hne
      rw [get_put_other _ _ _ _ (fun h => name_ne_chunk cmd f c' h.symm)] at hne
      obtain ⟨j, cmd', hj, hf, hu⟩ := hsrc f c' h0 hne
      exact ⟨j, cmd', hj, hf, by rw [uploads_snoc]; omega⟩
    · intro i' n o hm
      rcases mem_append.mp hm with hm | hm
      · exact hpay i' n o hm
      · simp at hm
  | read =>
    rename_i q
    refine ⟨?_, hmono, ?_, ?_⟩
    · intro j cmd' p' hc' hp'
      exact workerInv_frame (hw j cmd' p' hc' hp') (by intro c'; simp [Ev.isUpload]) (by intro c'; simp [Ev.isAbsent]) (fun _ h => h)
    · intro f c' h0 hne
      obtain ⟨j, cmd', hj, hf, hu⟩ := hsrc f c' h0 hne
      exact ⟨j, cmd', hj, hf, by rw [uploads_snoc]; omega⟩
    · intro i' n o hm
      rcases mem_append.mp hm with hm | hm
      · exact hpay i' n o hm
      · simp at hm

theorem countInv_run {s : Store} {cmds : List SnapCmd} {tr : List Ev} {st' : CState}
    (h : crun cmds (CState.init s cmds) tr = some st') : CountInv s cmds tr st' := by
  have := crun_invariant_tr (CountInv s cmds) (fun _ _ _ _ hi hs => countInv_step hi hs) tr [] _ st' (countInv_init s cmds) h
  simpa using this

/-! ## `RunOk` of the sequential run under fresh, pairwise distinct snapshot names -/

/-- the commands write pairwise different snapshot names, none of which exists at the start -/
def FreshCmds (s : Store) : List SnapCmd → Prop
  | [] => True
  | a :: cs => get s a.name = none ∧ (∀ b ∈ cs, b.name ≠ a.name) ∧ FreshCmds s cs

theorem FreshCmds.namesOk {s : Store} {cmds : List SnapCmd} (h : FreshCmds s cmds) : NamesOk cmds := by
  induction cmds with
  | nil => intro a ha; cases ha
  | cons x xs ih =>
    obtain ⟨_, hne, hrest⟩ := h
    intro a ha b hb hab
    rcases mem_cons.mp ha with rfl | ha'
    · rcases mem_cons.mp hb with rfl | hb'
      · rfl
      · exact absurd hab.symm (hne b hb')
    · rcases mem_cons.mp hb with rfl | hb'
      · exact absurd hab (hne a ha')
      · exact ih hrest a ha' b hb' hab

theorem runOk_of_fresh {enc : Bool} (cmds : List SnapCmd) (s : Store) (hok : ∀ cmd ∈ cmds, OpOk enc cmd.op) (hf : FreshCmds s cmds) :
    RunOk enc s (cmds.map SnapCmd.op) := by
  induction cmds generalizing s with
  | nil => trivial
  | cons a cs ih =>
    obtain ⟨h0, hne, hrest⟩ := hf
    refine ⟨hok a (by simp), h0, ?_⟩
    apply ih _ (fun cmd hm => hok cmd (mem_cons_of_mem _ hm))
    -- the names of the remaining commands are still absent after `a`'s snapshot
    clear ih
    induction cs with
    | nil => trivial
    | cons b bs ihb =>
      obtain ⟨hb0, hbne, hbrest⟩ := hrest
      refine ⟨?_, hbne, ?_⟩
      · show get (snapshot a.u a.stream a.files a.ts a.sid s).1 (.snap b.u.fam b.sid) = none
        rw [snapshot_get_snap_other a.u a.stream a.files a.ts a.sid s (hne b (by simp))]
        exact hb0
      · exact ihb (fun cmd hm => hok cmd (by
          rcases mem_cons.mp hm with rfl | hm
          · simp
          · simp [hm])) (fun x hx => hne x (mem_cons_of_mem _ hx)) hbrest

/-- `Exact` only depends on the object map -/
theorem exact_of_get_eq {f : Fam} {a b : Store} (h : ∀ n, get a n = get b n) (hb : Exact f b) : Exact f a := by
  intro c
  rw [h, hb c]
  constructor
  · rintro ⟨sid, body, hg, hc⟩; exact ⟨sid, body, by rw [h]; exact hg, hc⟩
  · rintro ⟨sid, body, hg, hc⟩; exact ⟨sid, body, by rw [← h]; exact hg, hc⟩

end Replicat.Repo
