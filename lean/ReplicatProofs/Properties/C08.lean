import ReplicatProofs.Lemmas.RepoExact
import ReplicatProofs.Lemmas.Format
import ReplicatProofs.Lemmas.LocalClean
/-!
# C08 — garbage collection is complete and confined to the caller's own data

Property theorems only.  `delete_snapshots` and `clean` of `ReplicatModel/Repo.lean` on ANY well-formed object map (orphaned
chunks from interrupted commands, several key families, encrypted or not), and the location format of
`ReplicatModel/Format.lean` (what lets `clean` recognise its own chunks from the listing).

An unencrypted repository has one family, number 0 (`UserOk` / `FamOk`, see C02): without keys there is no tag check and every
object under `data/` is "own".
-/
namespace Replicat.C08
open Replicat.Repo Replicat.Format List

/-- **delete is complete.**  After a successful `delete_snapshots(sids)` by `u`: every requested snapshot object is gone, and
every chunk referenced by a deleted snapshot and by no remaining snapshot of the family is gone. -/
theorem delete_complete (enc : Bool) (u : User) (sids : List Nat) (s s' : Store) (hwf : WF s) (hfam : FamOk enc s) (hu : UserOk enc u)
    (hd : deleteSnapshots enc u sids s = .ok s') :
    (∀ sid ∈ sids, get s' (.snap u.fam sid) = none) ∧
    ∀ sid ∈ sids, ∀ b, get s (.snap u.fam sid) = some (.snap u.fam sid b) → ∀ c ∈ b.chunks,
      (∀ sid' b', get s' (.snap u.fam sid') = some (.snap u.fam sid' b') → c ∉ b'.chunks) →
      get s' (.chunk u.fam c) = none := by
  have sp := delete_spec hwf hd
  refine ⟨fun sid hs => sp.snap_gone u.fam sid hs (visible_own enc u), ?_⟩
  intro sid hs b hg c hc honly
  apply sp.chunk_gone c ⟨u.fam, sid, b, hg, visible_own enc u, hs, hc⟩
  rintro ⟨f1, sid1, b1, hg1, hv1, hs1, hc1⟩
  have hf1 := visible_fam hu hfam hg1 hv1
  subst hf1
  refine honly sid1 b1 ?_ hc1
  rw [sp.snap_keep _ sid1 (fun hh => hs1 hh.1)]
  exact hg1

/-- **delete removes nothing that is still needed, and nothing else**: a chunk object that disappears was referenced by a
deleted snapshot; snapshot objects that disappear were requested. -/
theorem delete_only_requested (enc : Bool) (u : User) (sids : List Nat) (s s' : Store) (hwf : WF s)
    (hd : deleteSnapshots enc u sids s = .ok s') :
    (∀ f sid, get s (.snap f sid) ≠ none → get s' (.snap f sid) = none → sid ∈ sids ∧ visible enc u f = true) ∧
    (∀ f c, get s (.chunk f c) ≠ none → get s' (.chunk f c) = none → f = u.fam ∧ RefBy enc u s (· ∈ sids) c ∧ ¬ RefBy enc u s (· ∉ sids) c) := by
  have sp := delete_spec hwf hd
  constructor
  · intro f sid h1 h2
    by_cases hc : sid ∈ sids ∧ visible enc u f = true
    · exact hc
    · rw [sp.snap_keep f sid hc] at h2; exact absurd h2 h1
  · intro f c h1 h2
    by_cases hc : f = u.fam ∧ RefBy enc u s (· ∈ sids) c ∧ ¬ RefBy enc u s (· ∉ sids) c
    · exact hc
    · rw [sp.chunk_keep f c (by
        by_cases a : f = u.fam
        · by_cases b : RefBy enc u s (· ∈ sids) c
          · by_cases d : RefBy enc u s (· ∉ sids) c
            · exact Or.inr (Or.inr d)
            · exact absurd ⟨a, b, d⟩ hc
          · exact Or.inr (Or.inl b)
        · exact Or.inl a)] at h2
      exact absurd h2 h1

/-- **clean from ANY well-formed state** (orphans of interrupted commands, even missing chunks): it succeeds, and afterwards an
own-family chunk object exists iff it existed before and a remaining snapshot of the family references it — no orphan survives,
nothing referenced is removed. -/
theorem clean_no_orphans (enc : Bool) (u : User) (s : Store) (hwf : WF s) (hfam : FamOk enc s) (hu : UserOk enc u) :
    ∃ s', clean enc u s = .ok s' ∧ ∀ c,
      ((get s' (.chunk u.fam c)).isSome ↔
        (get s (.chunk u.fam c)).isSome ∧ ∃ sid b, get s' (.snap u.fam sid) = some (.snap u.fam sid b) ∧ c ∈ b.chunks) := by
  obtain ⟨s', hs', _⟩ := clean_spec (enc := enc) (u := u) hwf
  exact ⟨s', hs', clean_own_chunks hwf hfam hu hs'⟩

/-- **clean is exact.**  From any consistent state — arbitrary orphans allowed — after `clean` by `u` the chunk objects of the
caller's family are exactly the chunks referenced by the remaining snapshots of the family. -/
theorem clean_exact (enc : Bool) (u : User) (s : Store) (h : Consistent enc s) (hu : UserOk enc u) :
    ∃ s', clean enc u s = .ok s' ∧ Exact u.fam s' := by
  obtain ⟨s', hs', _⟩ := clean_spec (enc := enc) (u := u) h.1
  exact ⟨s', hs', clean_exact_own h hu hs'⟩

/-- names that are not the caller's: the config, everything outside the two areas, and — in an encrypted repository — the
chunk and snapshot objects of every other key family -/
def foreign (enc : Bool) (u : User) : Repo.Name → Bool
  | .config => true
  | .other _ => true
  | .chunk f _ => enc && f != u.fam
  | .snap f _ => enc && f != u.fam

/-- **Frame.**  delete and clean (successful or refused) leave every foreign object exactly as it was. -/
theorem gc_frame (enc : Bool) (u : User) (s : Store) (op : Op) (hop : (∃ sids, op = .delete u sids) ∨ op = .clean u)
    (hwf : WF s) (n : Repo.Name) (hn : foreign enc u n = true) : get (step enc s op) n = get s n := by
  rcases hop with ⟨sids, rfl⟩ | rfl
  · simp only [step]
    split
    · rename_i s' hd
      have sp := delete_spec hwf hd
      cases n with
      | config => exact sp.config_keep
      | other k => exact sp.other_keep k
      | chunk f c =>
        simp only [foreign, Bool.and_eq_true, bne_iff_ne, ne_eq] at hn
        exact sp.chunk_keep f c (Or.inl hn.2)
      | snap f sid =>
        simp only [foreign, Bool.and_eq_true, bne_iff_ne, ne_eq] at hn
        apply sp.snap_keep f sid
        rintro ⟨_, hv⟩
        rw [hn.1] at hv
        simp only [visible, Bool.not_true, Bool.false_or, beq_iff_eq] at hv
        exact hn.2 hv
    · rfl
  · simp only [step]
    split
    · rename_i s' hd
      obtain ⟨s'', hs'', sp⟩ := clean_spec (enc := enc) (u := u) hwf
      rw [hd] at hs''; cases hs''
      cases n with
      | config => exact sp.config_keep
      | other k => exact sp.other_keep k
      | chunk f c =>
        simp only [foreign, Bool.and_eq_true, bne_iff_ne, ne_eq] at hn
        exact sp.chunk_keep f c (Or.inr hn)
      | snap f sid => exact sp.snap_keep f sid
    · rfl

/-- clean never removes a snapshot object (of any family, encrypted or not) -/
theorem clean_keeps_snapshots (enc : Bool) (u : User) (s : Store) (hwf : WF s) (f : Fam) (sid : Nat) :
    get (step enc s (.clean u)) (.snap f sid) = get s (.snap f sid) := by
  simp only [step]
  split
  · rename_i s' hd
    obtain ⟨s'', hs'', sp⟩ := clean_spec (enc := enc) (u := u) hwf
    rw [hd] at hs''; cases hs''
    exact sp.snap_keep f sid
  · rfl

/-- **Location round trip (chunks)**: `parse_chunk_location(get_chunk_location(name, tag)) = (name, tag)` for hex strings with a
tag of at least 4 characters — with the prefix, slice points, separators, `maxsplit` and part indices the code has NOW. -/
theorem location_roundtrip (name tag : Str) (hname : name.all isHex = true) (htag : tag.all isHex = true) (hlen : 4 ≤ tag.length) :
    parseChunkLocation (getChunkLocation name tag) = .ok (name, tag) := by
  have hn : ∀ ch ∈ name, ch ≠ '-' := fun ch h => (isHex_ne ch (all_eq_true.mp hname ch h)).1
  have ht : ∀ ch ∈ tag, ch ≠ '/' := fun ch h => (isHex_ne ch (all_eq_true.mp htag ch h)).2
  have hpre : Gen.chunkPrefix.toList = Gen.chunkPrefix.toList.dropLast ++ ['/'] := by decide
  have hk : 0 < Gen.chunkLocSplit.1 ∧ Gen.chunkLocSplit.1 < Gen.chunkLocSplit.2 ∧ Gen.chunkLocSplit.1 < 4 := by decide
  unfold parseChunkLocation getChunkLocation
  rw [show Gen.chunkParseNameSep = '-' by decide, show Gen.chunkParseDirSep = '/' by decide,
    show Gen.chunkParseSplits = 3 by decide, show Gen.chunkParseIdx = [1, 2, 3] by decide,
    show Gen.chunkBuildNameSep = '-' by decide, hpre]
  exact roundtrip3 _ name tag _ _ ⟨hk.1, hk.2.1⟩ (by omega) hn ht

/-- **Location round trip (snapshots)**, tag of at least 2 characters. -/
theorem snapshot_location_roundtrip (name tag : Str) (hname : name.all isHex = true) (htag : tag.all isHex = true) (hlen : 2 ≤ tag.length) :
    parseSnapshotLocation (getSnapshotLocation name tag) = .ok (name, tag) := by
  have hn : ∀ ch ∈ name, ch ≠ '-' := fun ch h => (isHex_ne ch (all_eq_true.mp hname ch h)).1
  have ht : ∀ ch ∈ tag, ch ≠ '/' := fun ch h => (isHex_ne ch (all_eq_true.mp htag ch h)).2
  have hpre : Gen.snapshotPrefix.toList = Gen.snapshotPrefix.toList.dropLast ++ ['/'] := by decide
  have hk : 0 < Gen.snapLocSplit := by decide
  unfold parseSnapshotLocation getSnapshotLocation
  rw [show Gen.snapParseNameSep = '-' by decide, show Gen.snapParseDirSep = '/' by decide,
    show Gen.snapParseSplits = 2 by decide, show Gen.snapParseIdx = [1, 2] by decide,
    show Gen.snapBuildNameSep = '-' by decide, hpre]
  exact roundtrip2 _ name tag _ hk (by omega) hn ht

/-- the built location starts with the area prefix (what `list_files(CHUNK_PREFIX)` / the `startswith` guard rely on) and two
different (name, tag) pairs never share a location -/
theorem location_injective (name tag name' tag' : Str) (h1 : name.all isHex = true) (h2 : tag.all isHex = true) (h3 : 4 ≤ tag.length)
    (h1' : name'.all isHex = true) (h2' : tag'.all isHex = true) (h3' : 4 ≤ tag'.length)
    (heq : getChunkLocation name tag = getChunkLocation name' tag') : name = name' ∧ tag = tag' := by
  have a := location_roundtrip name tag h1 h2 h3
  have b := location_roundtrip name' tag' h1' h2' h3'
  rw [heq, b] at a
  injection a with a
  injection a with a1 a2
  exact ⟨a1.symm, a2.symm⟩

/-! ## the local backend: its post-deletion clean-up walks the WHOLE repository directory

`gc_frame` speaks about the object map.  On `replicat.backends.local.Local` a successful `clean` that deleted something also runs
`Local.clean()`, a walk over everything below the repository directory — the user's own files next to `data/` and `snapshots/`
included.  `ReplicatModel/LocalClean.lean` models the walk (`_find_deletable` flags, one `rmdir` per flagged entry, `rmdir` of a
non-empty directory fails); the three facts it relies on — nothing reachable from `Local.clean` can remove or rewrite a file, a
non-directory is only ever reported `False` — are read from the source on every run (`Gen.localCleanFileRemovers`,
`Gen.localCleanDirRemovers`, `Gen.localCleanNonDirFlags`) and discharged here by `decide`. -/
section localBackend
open Replicat.LocalFS Replicat.LocalClean

/-- **The clean-up never removes or changes a file**: with the code as it is NOW, `Local.clean()` succeeds on every directory
tree (no `ENOTEMPTY`: children are removed before their parents), the table of files is the same afterwards, hence so is the
object map the directory denotes (`FS.abs`) — in both areas and outside them, whatever the names look like. -/
theorem local_clean_keeps_files (fs : FS) :
    ∃ fs', LocalClean.clean fs = .ok fs' ∧ fs'.files = fs.files ∧ ∀ n, fs'.abs n = fs.abs n := by
  refine ⟨_, clean_eq fs (by decide), rfl, fun n => rfl⟩

/-- **It removes exactly the directories without a file below them** (that is its purpose: the fan-out directories emptied by
the deletions; empty directories of the user go too — a directory is not an object), never the repository directory itself. -/
theorem local_clean_removes_exactly_fileless_dirs (fs fs' : FS) (h : LocalClean.clean fs = .ok fs') (d : LocalFS.Path) :
    d ∈ fs'.dirs ↔ d ∈ fs.dirs ∧ (d = [] ∨ hasFileBelow fs d = true) := by
  rw [clean_eq fs (by decide)] at h
  injection h with h
  subst h
  simp only [List.mem_filter, decide_eq_true_eq, mem_plan, not_and, Bool.not_eq_false]
  constructor
  · rintro ⟨h1, h2⟩
    refine ⟨h1, ?_⟩
    by_cases e : d = []
    · exact Or.inl e
    · exact Or.inr (h2 h1 e)
  · rintro ⟨h1, h2⟩
    refine ⟨h1, fun _ hne => ?_⟩
    rcases h2 with e | e
    · exact absurd e hne
    · exact e

/-- every directory on the way to a file stays: a foreign object remains reachable under its name -/
theorem local_clean_keeps_ancestors (fs fs' : FS) (h : LocalClean.clean fs = .ok fs') (p : LocalFS.Path) (hp : fs.isFile p = true)
    (a : LocalFS.Path) (ha : a ∈ ancestors p) (hd : a ∈ fs.dirs) : a ∈ fs'.dirs := by
  rw [local_clean_removes_exactly_fileless_dirs fs fs' h a]
  refine ⟨hd, Or.inr ?_⟩
  obtain ⟨_, hpre, hne⟩ := (mem_ancestors a p).mp ha
  have hlen : a.length < p.length := by
    rcases Nat.lt_or_ge a.length p.length with hl | hl
    · exact hl
    · exact absurd (hpre.eq_of_length_le hl) hne
  simp only [FS.isFile, FS.get, Option.isSome_iff_exists] at hp
  obtain ⟨b, hb⟩ := hp
  simp only [hasFileBelow, List.any_eq_true]
  refine ⟨(p, b), alookup_mem _ _ _ hb, ?_⟩
  simp only [below, Bool.and_eq_true, decide_eq_true_eq]
  exact ⟨List.isPrefixOf_iff_prefix.mpr hpre, hlen⟩

/-- a second clean-up finds nothing to do -/
theorem local_clean_idempotent (fs fs' : FS) (h : LocalClean.clean fs = .ok fs') : LocalClean.clean fs' = .ok fs' := by
  have hfiles : fs'.files = fs.files := by
    rw [clean_eq fs (by decide)] at h
    injection h with h
    subst h
    rfl
  rw [clean_eq fs' (by decide)]
  congr 1
  have : fs'.dirs.filter (fun p => p ∉ plan fs') = fs'.dirs := by
    apply List.filter_eq_self.mpr
    intro d hd
    simp only [decide_eq_true_eq, mem_plan, not_and, Bool.not_eq_false]
    intro _ hne
    have := (local_clean_removes_exactly_fileless_dirs fs fs' h d).mp hd
    rcases this.2 with e | e
    · exact absurd e hne
    · simpa [hasFileBelow, hfiles] using e
  cases fs' with
  | mk f d => simp only at this ⊢; rw [this]

/-- **The order in which `os.scandir` reports entries does not matter**: every order of the file-less directories in which no
directory precedes one below it — all the recursive generator can produce — has the result of the model's own order. -/
theorem local_clean_scan_order_irrelevant (fs : FS) (l : List LocalFS.Path) (hpo : PostOrder fs l) (hall : ∀ d, d ∈ l ↔ d ∈ plan fs) :
    runPlan fs l = runPlan fs (plan fs) := by
  rw [runPlan_postorder l fs hpo, runPlan_postorder _ fs (plan_postorder fs)]
  congr 2
  apply List.filter_congr
  intro d _
  simp [hall d]

/-- **Frame on the directory.**  A destructive command on the local backend = `Local.delete` of the objects it chose (all of
them inside the two areas, by `gc_frame` / `delete_only_requested`), then — only if there was one — the clean-up.  It succeeds, and
every path it did not delete holds the same bytes afterwards: `exports/2024/report.tmp`, `data2/x`, `snapshots.bak/y`, `.tmp`. -/
theorem local_gc_frame (fs : FS) (dels : List LocalFS.Path) (q : LocalFS.Path) (hq : q ∉ dels) :
    ∃ fs', gcOnLocal fs dels = .ok fs' ∧ fs'.get q = fs.get q := by
  unfold gcOnLocal
  split
  · exact ⟨fs, rfl, rfl⟩
  · refine ⟨_, clean_eq _ (by decide), ?_⟩
    exact get_foldl_erase dels fs q hq

end localBackend

/-! ## non-vacuity and boundary witnesses -/

/-- orphans (chunk 1/77, left by an interrupted snapshot), two families, a stray object: clean by family 1 removes exactly the
orphan of family 1; family 2's orphan, the config and the stray object stay -/
example :
    let s : Store := [(.config, .config), (.other 1, .blob 1), (.snap 1 5, .snap 1 5 ⟨1, 1, [7], []⟩), (.chunk 1 7, .chunk 1 7),
      (.chunk 1 77, .chunk 1 77), (.chunk 2 88, .chunk 2 88)]
    (step true s (.clean ⟨1, 1⟩)).map (·.1) = [.config, .other 1, .snap 1 5, .chunk 1 7, .chunk 2 88] := by
  decide +kernel

/-- the length bound of the round trip is needed: with a 2-character tag the code builds a location with only two directory levels, which its own parser
rejects (IndexError) — model and code agree on that (tied in the harness); replicat's tags are MAC/digest outputs ≥ 16 bytes -/
example : (match parseChunkLocation (getChunkLocation "00ff".toList "ab".toList) with | .error .index => true | _ => false) = true := by
  decide +kernel

example : (parseChunkLocation (getChunkLocation "00ff".toList "abcdef".toList)).toOption = some ("00ff".toList, "abcdef".toList) := by
  decide +kernel

/-- the walk on a small directory: `data/ab/cd` lost its last chunk and goes with `data/ab`; `data/ef` still holds one;
the user's `exports/r.tmp`, the dot-file `.tmp` and `data2/x` stay, the user's empty `old` directory goes -/
example :
    let fs : LocalFS.FS := ⟨[(["data".toList, "ef".toList, "c1".toList], [1]), (["exports".toList, "r.tmp".toList], [2]), ([".tmp".toList], []),
        (["data2".toList, "x".toList], [3])],
      [["data".toList], ["data".toList, "ab".toList], ["data".toList, "ab".toList, "cd".toList], ["data".toList, "ef".toList], ["exports".toList],
        ["data2".toList], ["old".toList]]⟩
    (match LocalClean.clean fs with
      | .ok fs' => decide (fs'.files = fs.files ∧ fs'.dirs = [["data".toList], ["data".toList, "ef".toList], ["exports".toList], ["data2".toList]])
      | _ => false) = true := by
  decide +kernel

/-- `rmdir` in the wrong order fails (ENOTEMPTY): the post-order of the walk is needed -/
example :
    let fs : LocalFS.FS := ⟨[], [["a".toList], ["a".toList, "b".toList]]⟩
    LocalClean.runPlan fs [["a".toList], ["a".toList, "b".toList]] = .error .notEmpty ∧
    LocalClean.runPlan fs [["a".toList, "b".toList], ["a".toList]] = .ok ⟨[], []⟩ := by
  decide +kernel

end Replicat.C08
