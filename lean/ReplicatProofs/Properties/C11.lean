import ReplicatProofs.Lemmas.ChunkerLocal
import ReplicatProofs.Lemmas.ChunkerSyncBlocks
import ReplicatProofs.Lemmas.ChunkerSyncHist
import ReplicatModel.Clmul
import ReplicatProofs.Properties.C10
/-!
# C11 — chunk boundaries are content-defined and re-synchronise after edits

Property theorems only (helper lemmas: `Lemmas/ChunkerLocal.lean`, `Lemmas/ChunkerSyncBlocks.lean`, `Lemmas/ChunkerSyncHist.lean`).  Every statement holds for every hash function `h`
(hence every 16-byte key), every valid parameter pair and every segmentation of the streams into pieces.

`greedyFull p h S` is the segmentation-independent chunking of `S` by main-rule cuts while at least `2·max` bytes
remain; `chunkAll p h pieces` is the real adapter loop.  "Tail zone" = the last `2·max` bytes of a stream, where the
adapter's result depends on how the stream was split into pieces (C10) and nothing is claimed.

What is **not** proved here, because it is not a universally true statement (see the witnesses at the end):
* "boundaries re-synchronise within a bounded distance" — proved is the conditional part (once one boundary
  coincides all later ones do, `suffix_sync`; everything far enough before an edit is untouched,
  `edit_prefix_stable`); the existence of a first common boundary within `D = c·max` is a probabilistic statement
  about high-entropy data and is checked statistically on the implementation (`harness/props/c11.py`);
* "different keys lead to different boundaries" — proved is that the key acts only through the hash of 8-byte
  windows (`key_only_through_hash`) and that the hash does matter (`hash_matters_witness`); that random distinct keys
  cut random data differently is checked statistically on the implementation.
-/
namespace Replicat.C11
open Replicat Replicat.Sync

/-! ## locality of one cut -/

/-- **cut_local.** A main-rule cut is a function of the first `ceil4 max` bytes of the buffer only: truncating the
buffer to any `n ≥ ceil4 max` bytes does not change it (also not whether a window load leaves the buffer). -/
theorem cut_local (p : CParams) (h : Hash) (s : Bytes) (n : Nat) (hn : n ≤ s.length) (hl : ceil4 p.max ≤ n) :
    mainCut p h (s.take n) = mainCut p h s :=
  mainCut_take p h s n hn hl

/-- Two buffers that agree on their first `ceil4 max` bytes are cut at the same position, whatever follows. -/
theorem cut_local_congr (p : CParams) (h : Hash) (s t : Bytes)
    (hs : ceil4 p.max ≤ s.length) (ht : ceil4 p.max ≤ t.length)
    (he : s.take (ceil4 p.max) = t.take (ceil4 p.max)) : mainCut p h s = mainCut p h t :=
  mainCut_congr_take p h s t hs ht he

/-! ## the segmentation-independent chunking and the adapter loop -/

/-- `greedyFull` is total for valid parameters, is a prefix of the stream, stops only inside the tail zone, and all
its chunks are within bounds and aligned. -/
theorem greedy_defined (p : CParams) (hv : p.valid) (h : Hash) (s : Bytes) :
    ∃ g, greedyFull p h s = some g ∧ g.flatten ++ s.drop g.flatten.length = s ∧
      s.length < g.flatten.length + 2 * p.max ∧ ∀ c ∈ g, C10.Good p c := by
  obtain ⟨g, hg⟩ := Option.isSome_iff_exists.mp (greedyFull_isSome p hv h s.length s (Nat.le_refl _))
  obtain ⟨e1, _, e3⟩ := greedyFull_lossless p hv h g s hg
  refine ⟨g, hg, e1, e3, ?_⟩
  intro c hc
  have := greedyFull_good p hv h g s hg c hc
  unfold C10.Good
  rw [Gen.align_eq]
  exact this

/-- **chunk_split_indep.** For every segmentation of a stream the adapter's result starts with the greedy chunking of
the stream, and that prefix covers every chunk that starts at least `2·max` before the end. -/
theorem chunk_split_indep (p : CParams) (hv : p.valid) (h : Hash) (pieces : List Bytes) (cs : List Bytes)
    (hc : chunkAll p h pieces = some cs) :
    ∃ g tail, greedyFull p h pieces.flatten = some g ∧ cs = g ++ tail ∧
      pieces.flatten.length < g.flatten.length + 2 * p.max := by
  obtain ⟨g, tail, hg, rfl⟩ := chunkAll_greedy p hv h pieces cs hc
  exact ⟨g, tail, hg, rfl, (greedyFull_lossless p hv h g _ hg).2.2⟩

/-- Two segmentations of one stream produce the same chunks up to the tail zone. -/
theorem chunk_split_indep_pair (p : CParams) (hv : p.valid) (h : Hash) (pieces pieces' : List Bytes)
    (cs cs' : List Bytes) (hs : pieces.flatten = pieces'.flatten)
    (hc : chunkAll p h pieces = some cs) (hc' : chunkAll p h pieces' = some cs') :
    ∃ g tail tail', cs = g ++ tail ∧ cs' = g ++ tail' ∧ pieces.flatten.length < g.flatten.length + 2 * p.max := by
  obtain ⟨g, tail, hg, rfl, hcov⟩ := chunk_split_indep p hv h pieces cs hc
  obtain ⟨g', tail', hg', rfl, _⟩ := chunk_split_indep p hv h pieces' cs' hc'
  rw [← hs, hg] at hg'
  simp only [Option.some.injEq] at hg'
  subst hg'
  exact ⟨g, tail, tail', rfl, rfl, hcov⟩

/-! ## input blocks of any size -/

/-- **adapter_takes_blocks_whole.** The code's loop appends every input block to its buffer whole, exactly like the model's
`feed`: the extractor finds no integer constant that `gclmulchunker.__call__` (or anything it hands its blocks to) compares
with, slices by or steps over a value derived from the input blocks (`Gen.adapterBlockThresholds = []`), so what reaches the
buffer (`adapterPieces`) are the caller's blocks.  An edit that makes the loop treat blocks by size (a threshold constant)
makes this stop compiling; the harness then searches with blocks below / at / above / several times every size constant. -/
theorem adapter_takes_blocks_whole (blocks : List Bytes) : adapterPieces blocks = blocks := rfl

/-- Every block threshold the extractor recognises is one of the size constants (`Gen.sizeConstants`: all integer constants of
adapters.py, repository.py, adapters.cpp) from which the harness derives the block sizes of its generated streams. -/
theorem block_thresholds_are_generated : ∀ t ∈ Gen.adapterBlockThresholds, t ∈ Gen.sizeConstants := by decide

/-- **block_resplit_indep.** Blocks of any size: cutting every block longer than `t` into pieces of `t` bytes (for any `t`, and
again for any list of thresholds) before the loop — with finality decided per *piece* by the look-ahead, as `feed` does —
changes nothing up to the tail zone.  In particular a stream handed over as ONE block is cut like the same stream in small
blocks. -/
theorem block_resplit_indep (p : CParams) (hv : p.valid) (h : Hash) (blocks : List Bytes) (ts : List Nat) (cs cs' : List Bytes)
    (hc : chunkAll p h blocks = some cs) (hc' : chunkAll p h (ts.foldl (fun ps t => resplit t ps) blocks) = some cs') :
    ∃ g tail tail', cs = g ++ tail ∧ cs' = g ++ tail' ∧ blocks.flatten.length < g.flatten.length + 2 * p.max :=
  chunk_split_indep_pair p hv h blocks _ cs cs' (foldl_resplit_flatten ts blocks).symm hc hc'

/-- Why the finality flag must belong to the *piece*: feeding the single 56-byte block below in pieces of 22 bytes while passing
the block's finality ("no further block") to `next_cut` after every piece (`feedBlockFinal`) applies the end-of-stream rule at
the piece border: the third chunk (start 8, far outside the tail zone) differs from the adapter's, and a boundary is forced at
the block-relative offset 22 — not a multiple of the alignment, contradicting `boundaries_aligned`.  Correct piecewise feeding
(`resplit`) gives the adapter's result. -/
theorem block_final_per_piece_witness :
    let p : CParams := ⟨4, 8⟩
    let hh : Hash := fun w => (w.headD 0).toNat
    let X : Bytes := [7, 1, 2, 3, 4, 5, 6, 7, 8, 9, 10, 11, 12, 13, 14, 15, 16, 17, 18, 19, 20, 21, 22, 23, 24, 3, 9, 4, 1, 5, 9, 2, 6, 5, 3, 5,
      8, 9, 7, 9, 3, 2, 3, 8, 4, 6, 2, 6, 4, 3, 3, 8, 3, 2, 7, 9]
    p.valid ∧
    (chunkAll p hh [X]).map (·.map List.length) = some [4, 4, 4, 4, 4, 4, 4, 4, 4, 4, 4, 8, 4] ∧
    (chunkAll p hh (resplit 22 [X])).map (·.map List.length) = some [4, 4, 4, 4, 4, 4, 4, 4, 4, 4, 4, 8, 4] ∧
    (feedBlockFinal p hh 22 [] [X]).map (·.map List.length) = some [4, 4, 8, 6, 4, 4, 8, 6, 8, 4] := by
  refine ⟨by decide, by decide +kernel, by decide +kernel, by decide +kernel⟩

/-! ## restart at a boundary -/

/-- **restart_at_boundary.** The chunks the adapter produces after any of its boundaries `b` are a chunking of
`S.drop b` that starts with the greedy chunking of `S.drop b` (which depends on nothing before `b`) and leaves
only the tail zone. -/
theorem restart_at_boundary (p : CParams) (hv : p.valid) (h : Hash) (pieces : List Bytes) (pre post : List Bytes)
    (hc : chunkAll p h pieces = some (pre ++ post)) :
    ∃ g tail, greedyFull p h (pieces.flatten.drop pre.flatten.length) = some g ∧ post = g ++ tail ∧
      post.flatten = pieces.flatten.drop pre.flatten.length ∧
      pieces.flatten.length - pre.flatten.length < g.flatten.length + 2 * p.max := by
  have hloss := C10.chunk_lossless p hv h pieces _ hc
  have hpost : post.flatten = pieces.flatten.drop pre.flatten.length := by
    rw [← hloss, List.flatten_append, List.drop_left]
  obtain ⟨g0, tail0, hg0, he, hcov⟩ := chunk_split_indep p hv h pieces _ hc
  rcases List.append_eq_append_iff.mp he with ⟨a', h1, h2⟩ | ⟨c', h1, h2⟩
  · -- g0 = pre ++ a' : the boundary lies inside the greedy zone
    subst h1
    have hr := greedyFull_restart p hv h pre a' _ hg0
    refine ⟨a', tail0, hr, h2, hpost, ?_⟩
    have := (greedyFull_lossless p hv h a' _ hr).2.2
    rw [List.length_drop] at this
    exact this
  · -- pre = g0 ++ c' : the boundary lies in the tail zone
    subst h1
    have hmax := valid_max_pos hv
    refine ⟨[], post, greedyFull_drop_beyond p hmax h _ _ ?_, rfl, hpost, ?_⟩
    · simp only [List.flatten_append, List.length_append]; omega
    · simp only [List.flatten_append, List.length_append, List.flatten_nil, List.length_nil]; omega

/-- The same for the segmentation-independent chunking itself: the chunks after a boundary are exactly the greedy
chunking of the rest of the stream. -/
theorem greedy_restart_at_boundary (p : CParams) (hv : p.valid) (h : Hash) (s : Bytes) (pre post : List Bytes)
    (hg : greedyFull p h s = some (pre ++ post)) : greedyFull p h (s.drop pre.flatten.length) = some post :=
  greedyFull_restart p hv h pre post s hg

/-! ## streams that share a suffix -/

/-- **suffix_sync.** Streams `P₁ ++ X` and `P₂ ++ X`, in any segmentation: if both results have a boundary at the same
offset `o` of `X`, then from there on both consist of the same chunks `g` (the greedy chunking of `X.drop o`, which
covers everything up to the tail zone), followed by tails that carry the same bytes. -/
theorem suffix_sync (p : CParams) (hv : p.valid) (h : Hash) (piecesA piecesB : List Bytes) (P1 P2 X : Bytes)
    (hA : piecesA.flatten = P1 ++ X) (hB : piecesB.flatten = P2 ++ X)
    (preA postA preB postB : List Bytes)
    (ha : chunkAll p h piecesA = some (preA ++ postA)) (hb : chunkAll p h piecesB = some (preB ++ postB))
    (o : Nat) (hoa : preA.flatten.length = P1.length + o) (hob : preB.flatten.length = P2.length + o) :
    ∃ g tailA tailB, greedyFull p h (X.drop o) = some g ∧ postA = g ++ tailA ∧ postB = g ++ tailB ∧
      tailA.flatten = tailB.flatten ∧ X.length - o < g.flatten.length + 2 * p.max := by
  obtain ⟨gA, tA, hgA, rfl, hfA, hcA⟩ := restart_at_boundary p hv h piecesA preA postA ha
  obtain ⟨gB, tB, hgB, rfl, hfB, _⟩ := restart_at_boundary p hv h piecesB preB postB hb
  have eA : piecesA.flatten.drop preA.flatten.length = X.drop o := by
    rw [hA, hoa, ← List.drop_drop, List.drop_left]
  have eB : piecesB.flatten.drop preB.flatten.length = X.drop o := by
    rw [hB, hob, ← List.drop_drop, List.drop_left]
  rw [eA] at hgA hfA
  rw [eB, hgA] at hgB
  rw [eB] at hfB
  simp only [Option.some.injEq] at hgB
  subst hgB
  refine ⟨gA, tA, tB, hgA, rfl, rfl, ?_, ?_⟩
  · have : (gA ++ tA).flatten = (gA ++ tB).flatten := by rw [hfA, hfB]
    simpa using this
  · rw [hA, hoa] at hcA
    simp only [List.length_append] at hcA
    omega

/-! ## streams that share a prefix; local edits -/

/-- **edit_prefix_stable.** Streams `U ++ Y` and `U ++ Y'` (an edit after `U`): the two results share a common prefix
of chunks lying inside `U` that extends until less than `ceil4 max` bytes of `U` are left — i.e. every chunk with
`start + ceil4 max ≤ |U|` is identical — unless one of the streams already ends there (its tail zone). -/
theorem edit_prefix_stable (p : CParams) (hv : p.valid) (h : Hash) (piecesA piecesB : List Bytes) (U Y Y' : Bytes)
    (hA : piecesA.flatten = U ++ Y) (hB : piecesB.flatten = U ++ Y') (ca cb : List Bytes)
    (ha : chunkAll p h piecesA = some ca) (hb : chunkAll p h piecesB = some cb) :
    ∃ common ra rb, ca = common ++ ra ∧ cb = common ++ rb ∧ common.flatten.length ≤ U.length ∧
      (U.length < common.flatten.length + ceil4 p.max ∨
       (U ++ Y).length < common.flatten.length + 2 * p.max ∨
       (U ++ Y').length < common.flatten.length + 2 * p.max) := by
  obtain ⟨ga, ta, hga, rfl, hca⟩ := chunk_split_indep p hv h piecesA ca ha
  obtain ⟨gb, tb, hgb, rfl, hcb⟩ := chunk_split_indep p hv h piecesB cb hb
  rw [hA] at hga hca
  rw [hB] at hgb hcb
  obtain ⟨common, ra, rb, rfl, rfl, hle, hor⟩ := greedyFull_common_prefix p hv h U.length U Y Y' ga gb (Nat.le_refl _) hga hgb
  refine ⟨common, ra ++ ta, rb ++ tb, by simp, by simp, hle, ?_⟩
  rcases hor with hor | rfl | rfl
  · exact Or.inl hor
  · right; left; simpa using hca
  · right; right; simpa using hcb

/-- **edit_suffix_stable.** A local edit `U ++ M ++ X` ↦ `U ++ M' ++ X` (insert / delete / overwrite of any lengths): once
both results have a boundary at the same offset of `X`, all later chunks are identical up to the tail zone. -/
theorem edit_suffix_stable (p : CParams) (hv : p.valid) (h : Hash) (piecesA piecesB : List Bytes) (U M M' X : Bytes)
    (hA : piecesA.flatten = U ++ M ++ X) (hB : piecesB.flatten = U ++ M' ++ X)
    (preA postA preB postB : List Bytes)
    (ha : chunkAll p h piecesA = some (preA ++ postA)) (hb : chunkAll p h piecesB = some (preB ++ postB))
    (o : Nat) (hoa : preA.flatten.length = U.length + M.length + o) (hob : preB.flatten.length = U.length + M'.length + o) :
    ∃ g tailA tailB, postA = g ++ tailA ∧ postB = g ++ tailB ∧ tailA.flatten = tailB.flatten ∧
      X.length - o < g.flatten.length + 2 * p.max := by
  obtain ⟨g, tA, tB, _, h1, h2, h3, h4⟩ := suffix_sync p hv h piecesA piecesB (U ++ M) (U ++ M') X hA hB preA postA preB postB ha hb o
    (by simpa using hoa) (by simpa using hob)
  exact ⟨g, tA, tB, h1, h2, h3, h4⟩

/-- **edit_window_partial** — the property's main sentence, *conditional* on re-synchronisation.
Hypothesis spelled out: both results have a boundary at the same offset `o` of the unchanged rest `X` (`hoa`, `hob`).  Then the
two chunk lists are `common ++ midA ++ g ++ tailA` and `common ++ midB ++ g ++ tailB`: identical chunks `common` up to less
than `ceil4 max` before the edit, identical chunks `g` from the common boundary to the tail zone; the differing chunks
`midA` / `midB` cover only the byte window `[|common|, |U| + |M| + o)` resp. `[|common|, |U| + |M'| + o)` around the edit.
MISSING (not a theorem, see `resync_not_universal_witness`): that such an `o` exists within a bounded distance of the edit —
checked statistically on the implementation for high-entropy data (`c11:resync-distance-exceeded(statistical)`). -/
theorem edit_window_partial (p : CParams) (hv : p.valid) (h : Hash) (piecesA piecesB : List Bytes) (U M M' X : Bytes)
    (hA : piecesA.flatten = U ++ M ++ X) (hB : piecesB.flatten = U ++ M' ++ X)
    (preA postA preB postB : List Bytes)
    (ha : chunkAll p h piecesA = some (preA ++ postA)) (hb : chunkAll p h piecesB = some (preB ++ postB))
    (o : Nat) (hoa : preA.flatten.length = U.length + M.length + o) (hob : preB.flatten.length = U.length + M'.length + o) :
    ∃ common midA midB g tailA tailB,
      preA ++ postA = common ++ midA ++ g ++ tailA ∧ preB ++ postB = common ++ midB ++ g ++ tailB ∧
      common.flatten.length ≤ U.length ∧
      (U.length < common.flatten.length + ceil4 p.max ∨
       (U ++ M ++ X).length < common.flatten.length + 2 * p.max ∨
       (U ++ M' ++ X).length < common.flatten.length + 2 * p.max) ∧
      (common ++ midA).flatten.length = U.length + M.length + o ∧
      (common ++ midB).flatten.length = U.length + M'.length + o ∧
      tailA.flatten = tailB.flatten ∧ X.length - o < g.flatten.length + 2 * p.max := by
  obtain ⟨common, ra, rb, hca, hcb, hle, hor⟩ :=
    edit_prefix_stable p hv h piecesA piecesB U (M ++ X) (M' ++ X) (by rw [hA, List.append_assoc]) (by rw [hB, List.append_assoc]) _ _ ha hb
  have hmm : p.min ≤ p.max := hv.2.1
  have neA := C10.chunk_nonempty p hmm h piecesA _ ha
  have neB := C10.chunk_nonempty p hmm h piecesB _ hb
  obtain ⟨midA, hmA⟩ := prefix_of_flatten_le common ra preA postA hca.symm
    (fun x hx => neA x (by rw [hca]; exact List.mem_append.mpr (Or.inl hx))) (by omega)
  obtain ⟨midB, hmB⟩ := prefix_of_flatten_le common rb preB postB hcb.symm
    (fun x hx => neB x (by rw [hcb]; exact List.mem_append.mpr (Or.inl hx))) (by omega)
  obtain ⟨g, tA, tB, hpA, hpB, ht, hcov⟩ :=
    edit_suffix_stable p hv h piecesA piecesB U M M' X hA hB preA postA preB postB ha hb o hoa hob
  refine ⟨common, midA, midB, g, tA, tB, ?_, ?_, hle, ?_, ?_, ?_, ht, hcov⟩
  · rw [hmA, hpA]; simp only [List.append_assoc]
  · rw [hmB, hpB]; simp only [List.append_assoc]
  · simpa [List.append_assoc] using hor
  · rw [← hmA]; exact hoa
  · rw [← hmB]; exact hob

/-- **shared_segment_sync.** The same byte string `F` embedded in two different streams (`P₁ ++ F ++ Q₁`, `P₂ ++ F ++ Q₂` —
e.g. one file in two snapshot streams): if both results have a boundary at the same offset `o` of `F`, the chunks
after it coincide until less than `ceil4 max` bytes of `F` are left (or a stream reaches its tail zone). -/
theorem shared_segment_sync (p : CParams) (hv : p.valid) (h : Hash) (piecesA piecesB : List Bytes) (P1 Q1 P2 Q2 F : Bytes)
    (hA : piecesA.flatten = P1 ++ F ++ Q1) (hB : piecesB.flatten = P2 ++ F ++ Q2)
    (preA postA preB postB : List Bytes)
    (ha : chunkAll p h piecesA = some (preA ++ postA)) (hb : chunkAll p h piecesB = some (preB ++ postB))
    (o : Nat) (ho : o ≤ F.length) (hoa : preA.flatten.length = P1.length + o) (hob : preB.flatten.length = P2.length + o) :
    ∃ common ra rb, postA = common ++ ra ∧ postB = common ++ rb ∧ common.flatten.length ≤ F.length - o ∧
      (F.length - o < common.flatten.length + ceil4 p.max ∨
       F.length - o + Q1.length < common.flatten.length + 2 * p.max ∨
       F.length - o + Q2.length < common.flatten.length + 2 * p.max) := by
  obtain ⟨gA, tA, hgA, rfl, _, _⟩ := restart_at_boundary p hv h piecesA preA postA ha
  obtain ⟨gB, tB, hgB, rfl, _, _⟩ := restart_at_boundary p hv h piecesB preB postB hb
  have eA : piecesA.flatten.drop preA.flatten.length = F.drop o ++ Q1 := by
    rw [hA, hoa, List.append_assoc, ← List.drop_drop, List.drop_left, List.drop_append_of_le_length ho]
  have eB : piecesB.flatten.drop preB.flatten.length = F.drop o ++ Q2 := by
    rw [hB, hob, List.append_assoc, ← List.drop_drop, List.drop_left, List.drop_append_of_le_length ho]
  rw [eA] at hgA
  rw [eB] at hgB
  obtain ⟨common, ra, rb, rfl, rfl, hle, hor⟩ :=
    greedyFull_common_prefix p hv h _ (F.drop o) Q1 Q2 gA gB (Nat.le_refl _) hgA hgB
  have lA := (greedyFull_lossless p hv h _ _ hgA).2.2
  have lB := (greedyFull_lossless p hv h _ _ hgB).2.2
  rw [List.length_drop] at hle hor
  simp only [List.length_append, List.length_drop] at lA lB
  refine ⟨common, ra ++ tA, rb ++ tB, by simp, by simp, hle, ?_⟩
  rcases hor with hor | rfl | rfl
  · exact Or.inl hor
  · right; left; simpa using lA
  · right; right; simpa using lB

/-! ## no cut is computed from earlier chunks (low-entropy content: runs of identical data) -/

/-- **adapter_cuts_native_only.** The code's loop takes every cut position from `next_cut` on the current buffer: the extractor
finds no value that reaches a slice bound of the reassembly buffer other than `<chunker>.next_cut(<that buffer>, …)`
(`Gen.adapterCutsNotFromNextCut = []`, `Gen.adapterNextCutOnCurrentBuffer`), so the loop with "whatever rule the Python code
evaluates before `next_cut`" (`chunkAllH … (adapterRule unknown)`, for EVERY `unknown`) is the model's `chunkAll`, and every
theorem of this file speaks about it.  An edit that computes a cut in Python (a remembered length, "the run of identical data
goes on", a counter) makes this stop compiling; the harness then searches on low-entropy streams (runs of one byte and periodic
data of every length class around `max + min` and `2·max`, followed by ordinary data) by re-chunking every stream from its own
boundaries. -/
theorem adapter_cuts_native_only (unknown : PyRule) (p : CParams) (h : Hash) (pieces : List Bytes) :
    chunkAllH p h (adapterRule unknown) pieces = chunkAll p h pieces := by
  rw [adapterRule_eq unknown]
  exact chunkAllH_agrees (noPyRule_agrees p h) pieces

/-- What a fast path may do: a rule evaluated in the loop — whatever it remembers about earlier chunks — is harmless iff each of
its answers is what `next_cut` answers on the same buffer and finality (for instance a correct memo of `next_cut`). -/
theorem agreeing_rule_harmless (p : CParams) (h : Hash) (rule : PyRule)
    (hr : ∀ (prev : Option Bytes) (buf : Bytes) (final : Bool) (pos : Nat), rule prev buf final = some pos → nextCut p h buf final = some pos)
    (pieces : List Bytes) : chunkAllH p h rule pieces = chunkAll p h pieces :=
  chunkAllH_agrees hr pieces

/-- **rechunk_from_boundary** — the direct oracle's statement.  Re-chunking a stream from any of its own boundaries `b` (the rest
of the stream handed over again, in any segmentation, to the loop as the code runs it) reproduces the chunks after `b` up to the
tail zone: cuts after a boundary are a function of the content after that boundary, never of the chunks before it. -/
theorem rechunk_from_boundary (unknown : PyRule) (p : CParams) (hv : p.valid) (h : Hash) (pieces pieces' : List Bytes)
    (pre post cs' : List Bytes)
    (hc : chunkAllH p h (adapterRule unknown) pieces = some (pre ++ post))
    (hs : pieces'.flatten = pieces.flatten.drop pre.flatten.length)
    (hc' : chunkAllH p h (adapterRule unknown) pieces' = some cs') :
    ∃ g tail tail', post = g ++ tail ∧ cs' = g ++ tail' ∧ pieces'.flatten.length < g.flatten.length + 2 * p.max := by
  rw [adapter_cuts_native_only] at hc hc'
  obtain ⟨g, tail, hg, hpost, _, _⟩ := restart_at_boundary p hv h pieces pre post hc
  obtain ⟨g', tail', hg', hcs', hcov⟩ := chunk_split_indep p hv h pieces' cs' hc'
  rw [hs, hg] at hg'
  simp only [Option.some.injEq] at hg'
  subst hg'
  exact ⟨g, tail, tail', hpost, hcs', hcov⟩

/-- The same for a WINDOW of the rest (what the harness does on multi-megabyte streams): re-chunking only the `K` bytes after the
boundary reproduces the chunks after it until less than `2·max` bytes of the window (or of the stream) are left. -/
theorem rechunk_window_from_boundary (unknown : PyRule) (p : CParams) (hv : p.valid) (h : Hash) (pieces pieces' : List Bytes)
    (pre post cs' : List Bytes) (K : Nat)
    (hc : chunkAllH p h (adapterRule unknown) pieces = some (pre ++ post))
    (hs : pieces'.flatten = (pieces.flatten.drop pre.flatten.length).take K)
    (hc' : chunkAllH p h (adapterRule unknown) pieces' = some cs') :
    ∃ common ra rb, post = common ++ ra ∧ cs' = common ++ rb ∧
      (pieces'.flatten.length < common.flatten.length + 2 * p.max ∨
       pieces.flatten.length - pre.flatten.length < common.flatten.length + 2 * p.max) := by
  rw [adapter_cuts_native_only] at hc hc'
  have hloss := C10.chunk_lossless p hv h pieces _ hc
  have hle : pre.flatten.length ≤ pieces.flatten.length := by
    rw [← hloss, List.flatten_append, List.length_append]; omega
  have hA : pieces.flatten = pieces.flatten.take pre.flatten.length ++ pieces'.flatten ++
      (pieces.flatten.drop pre.flatten.length).drop K := by
    rw [hs, List.append_assoc, List.take_append_drop, List.take_append_drop]
  have hB : pieces'.flatten = [] ++ pieces'.flatten ++ [] := by simp
  obtain ⟨common, ra, rb, h1, h2, _, hor⟩ :=
    shared_segment_sync p hv h pieces pieces' (pieces.flatten.take pre.flatten.length) ((pieces.flatten.drop pre.flatten.length).drop K)
      [] [] pieces'.flatten hA hB pre post [] cs' hc (by simpa using hc') 0 (Nat.zero_le _)
      (by rw [List.length_take]; omega) (by simp)
  refine ⟨common, ra, rb, h1, h2, ?_⟩
  have hc4 := valid_ceil_le hv
  have hlen : pieces'.flatten.length + ((pieces.flatten.drop pre.flatten.length).drop K).length =
      pieces.flatten.length - pre.flatten.length := by
    rw [hs]; simp only [List.length_take, List.length_drop]; omega
  simp only [List.length_nil, Nat.add_zero, Nat.sub_zero] at hor
  rcases hor with hor | hor | hor
  · left; omega
  · right; omega
  · left; exact hor

/-- Why the cut must come from `next_cut` on the current buffer: the "run of identical data" fast path (`repeatForced`: after a
forced cut, if the buffer starts with the same bytes again, cut at the forced length again) equals the native rule while the
whole scan window is uniform, but at the END of a run it keeps cutting `ceil4 min` pieces where the native rule picks the hash
maximum in the data that follows.  Stream: 24 zero bytes, then 56 ordinary bytes; `16` is a boundary of both loops.  The
fast-path loop cuts `4, 4, 8, …` after it, but re-chunking the same loop from that boundary gives `12, 12, 8, …` (first chunk after
the boundary, 64 bytes before the end; tail zone = last 32) — its cuts depend on the chunks before the boundary.  The adapter's
loop gives `12, 12, 8, …` both times. -/
theorem history_rule_breaks_restart_witness :
    let p : CParams := ⟨4, 16⟩
    let hh : Hash := fun w => (w.headD 0).toNat
    let S : Bytes := List.replicate 24 0 ++ [3, 1, 4, 1, 5, 9, 2, 6, 5, 3, 5, 8, 9, 7, 9, 3, 2, 3, 8, 4, 6, 2, 6, 4, 3, 3, 8, 3, 2, 7, 9, 5,
      1, 2, 3, 4, 5, 6, 7, 8, 9, 10, 11, 12, 13, 14, 15, 16, 17, 18, 19, 20, 21, 22, 23, 24]
    p.valid ∧
    (chunkAll p hh [S]).map (·.map List.length) = some [4, 4, 4, 4, 12, 12, 8, 4, 16, 12] ∧
    (chunkAll p hh [S.drop 16]).map (·.map List.length) = some [12, 12, 8, 4, 16, 12] ∧
    (chunkAllH p hh (repeatForced p) [S]).map (·.map List.length) = some [4, 4, 4, 4, 4, 4, 8, 8, 8, 4, 16, 12] ∧
    (chunkAllH p hh (repeatForced p) [S.drop 16]).map (·.map List.length) = some [12, 12, 8, 4, 16, 12] := by
  refine ⟨by decide, by decide +kernel, by decide +kernel, by decide +kernel, by decide +kernel⟩

/-! ## alignment: why equal data must sit at equal offsets modulo the alignment -/

/-- Every boundary outside the tail zone is a multiple of the alignment. -/
theorem boundaries_aligned (p : CParams) (hv : p.valid) (h : Hash) (pieces : List Bytes) (pre post : List Bytes)
    (hc : chunkAll p h pieces = some (pre ++ post)) (hz : pre.flatten.length + 2 * p.max ≤ pieces.flatten.length) :
    Gen.align ∣ pre.flatten.length := by
  obtain ⟨g0, tail0, hg0, he, hcov⟩ := chunk_split_indep p hv h pieces _ hc
  rw [Gen.align_eq]
  rcases List.append_eq_append_iff.mp he with ⟨a', h1, _⟩ | ⟨c', h1, _⟩
  · exact greedyFull_boundary_aligned p hv h _ g0 hg0 pre a' h1
  · subst h1
    simp only [List.flatten_append, List.length_append] at hz
    omega

/-- Consequently two streams `P₁ ++ X`, `P₂ ++ X` whose prefix lengths differ modulo the alignment have **no** common
boundary outside their tail zones — they never re-synchronise.  This is why the snapshot stream pads files. -/
theorem misaligned_never_sync (p : CParams) (hv : p.valid) (h : Hash) (piecesA piecesB : List Bytes) (P1 P2 X : Bytes)
    (hA : piecesA.flatten = P1 ++ X) (hB : piecesB.flatten = P2 ++ X)
    (hmis : P1.length % Gen.align ≠ P2.length % Gen.align)
    (preA postA preB postB : List Bytes)
    (ha : chunkAll p h piecesA = some (preA ++ postA)) (hb : chunkAll p h piecesB = some (preB ++ postB))
    (o : Nat) (hoa : preA.flatten.length = P1.length + o) (hob : preB.flatten.length = P2.length + o) :
    X.length < o + 2 * p.max := by
  by_cases hz : X.length < o + 2 * p.max
  · exact hz
  · exfalso
    have h1 := boundaries_aligned p hv h piecesA preA postA ha (by rw [hA, hoa]; simp only [List.length_append]; omega)
    have h2 := boundaries_aligned p hv h piecesB preB postB hb (by rw [hB, hob]; simp only [List.length_append]; omega)
    rw [hoa] at h1
    rw [hob] at h2
    rw [Gen.align_eq] at h1 h2 hmis
    omega

/-- **padded_starts_aligned.** In the snapshot stream (`_stream_files`: every file but the last is followed by
`-(len) % alignment` zero bytes) every file starts at a multiple of the alignment, whatever precedes it; hence equal
files in two snapshots sit at equal offsets modulo the alignment and `shared_segment_sync` applies to them. -/
theorem padded_starts_aligned (pre : List Bytes) (f : Bytes) (post : List Bytes) :
    ∃ Q, padStream (pre ++ f :: post) = padPrefix pre ++ f ++ Q ∧ Gen.align ∣ (padPrefix pre).length := by
  obtain ⟨Q, hQ⟩ := padStream_head f post
  exact ⟨Q, by rw [padStream_split, hQ, List.append_assoc], padPrefix_aligned pre⟩

/-- The pieces `_stream_files` yields concatenate to the padded stream (so every theorem above applies to the
adapter run on them), and the padding never exceeds `alignment - 1` bytes per file. -/
theorem padded_stream_pieces (files : List Bytes) (len : Nat) :
    (padPieces files).flatten = padStream files ∧ (padOf len).length < Gen.align ∧ Gen.align ∣ len + (padOf len).length := by
  refine ⟨padPieces_flatten files, ?_, ?_⟩
  · rw [padOf_length]; exact padding_lt len
  · rw [padOf_length]; exact padding_dvd len

/-! ## the key -/

/-- **key_only_through_hash.** The result depends on the key only through the values of the keyed hash on 8-byte
windows: two hash functions that agree on all 8-byte strings give identical results on every input. -/
theorem key_only_through_hash (p : CParams) (h h' : Hash) (hh : ∀ w : Bytes, w.length = 8 → h w = h' w)
    (pieces : List Bytes) (s : Bytes) :
    chunkAll p h pieces = chunkAll p h' pieces ∧ greedyFull p h s = greedyFull p h' s :=
  ⟨feed_congr p h h' hh pieces [], greedy_congr p h h' hh _ s⟩

/-- The hash does matter: two hash functions cutting one stream differently (model-level counterpart of the
implementation's `test_personalization`; for concrete keys see the statistical check in the harness). -/
theorem hash_matters_witness :
    (⟨4, 12⟩ : CParams).valid ∧
    chunkAll ⟨4, 12⟩ (fun w => (w.headD 0).toNat) [[0, 0, 0, 0, 1, 0, 0, 0, 9, 0, 0, 0, 0, 0, 0, 0, 0, 0, 0, 0, 0, 0, 0, 0, 0, 0, 0, 0]] ≠
    chunkAll ⟨4, 12⟩ (fun w => 255 - (w.headD 0).toNat) [[0, 0, 0, 0, 1, 0, 0, 0, 9, 0, 0, 0, 0, 0, 0, 0, 0, 0, 0, 0, 0, 0, 0, 0, 0, 0, 0, 0]] := by
  constructor <;> decide

/-- Two concrete 16-byte keys (k0 = 1 resp. 3, k1 = 0) under the executable CLMUL model of `gclmulchunker::key` cut
the 28-byte stream 1, 2, …, 28 differently (lengths 8,12,8 vs 4,8,12,4).  The harness replays exactly this case on the
rebuilt C++ (corpus), so the witness is tied to the implementation. -/
theorem keys_differ_witness :
    let S : Bytes := [1, 2, 3, 4, 5, 6, 7, 8, 9, 10, 11, 12, 13, 14, 15, 16, 17, 18, 19, 20, 21, 22, 23, 24, 25, 26, 27, 28]
    let K1 : Bytes := [1, 0, 0, 0, 0, 0, 0, 0, 0, 0, 0, 0, 0, 0, 0, 0]
    let K2 : Bytes := [3, 0, 0, 0, 0, 0, 0, 0, 0, 0, 0, 0, 0, 0, 0, 0]
    (chunkAll ⟨4, 12⟩ (clmulHash K1) [S]).map (·.map List.length) = some [8, 12, 8] ∧
    (chunkAll ⟨4, 12⟩ (clmulHash K2) [S]).map (·.map List.length) = some [4, 8, 12, 4] := by
  constructor <;> decide +kernel

/-! ## why "within a bounded distance" cannot be a theorem -/

/-- An adversarial (zero-entropy) suffix never re-synchronises although the prefixes are aligned: on constant data
every cut is forced to `ceil4 min = 8`, so after prefixes of 0 and 4 bytes the boundaries outside the tail zones are
`{0, 8, …, 32}` in both streams, i.e. `{0, 8, …}` and `{4, 12, …}` as offsets of `X` — no common boundary.
The real chunker behaves the same on all-zero data (window 0 hashes to the constant `k1`). -/
theorem resync_not_universal_witness :
    let p : CParams := ⟨8, 16⟩
    let X : Bytes := List.replicate 64 0
    let hz : Hash := fun _ => 7
    p.valid ∧
    (chunkAll p hz [X]).map (fun cs => boundaries (cs.map List.length)) = some [0, 8, 16, 24, 32, 40, 56, 64] ∧
    (chunkAll p hz [List.replicate 4 0 ++ X]).map (fun cs => boundaries (cs.map List.length)) = some [0, 8, 16, 24, 32, 40, 56, 68] ∧
    firstCommon 0 4 [0, 8, 16, 24, 32] [0, 8, 16, 24, 32] = none := by
  refine ⟨by decide, by decide +kernel, by decide +kernel, by decide⟩

/-! ## non-vacuity -/

/-- a concrete instance of the hypotheses of `suffix_sync` (common boundary at offset 4 of `X`, prefixes 4 and 8 bytes) -/
example :
    let p : CParams := ⟨4, 8⟩
    let hh : Hash := fun w => (w.headD 0).toNat
    let X : Bytes := [9, 9, 9, 9, 1, 2, 3, 4, 5, 6, 7, 8, 9, 10, 11, 12, 13, 14, 15, 16, 17, 18, 19, 20, 21, 22, 23, 24]
    p.valid ∧
    chunkAll p hh [[0, 0, 0, 0] ++ X] = some ([[0, 0, 0, 0], [9, 9, 9, 9]] ++ [[1, 2, 3, 4], [5, 6, 7, 8], [9, 10, 11, 12], [13, 14, 15, 16, 17, 18, 19, 20], [21, 22, 23, 24]]) ∧
    chunkAll p hh [[0, 0, 0, 0, 0, 0], [0, 0] ++ X] = some ([[0, 0, 0, 0], [0, 0, 0, 0], [9, 9, 9, 9]] ++ [[1, 2, 3, 4], [5, 6, 7, 8], [9, 10, 11, 12], [13, 14, 15, 16, 17, 18, 19, 20], [21, 22, 23, 24]]) := by
  refine ⟨by decide, by decide +kernel, by decide +kernel⟩

end Replicat.C11
