import ReplicatProofs.Lemmas.PathWalk
import ReplicatProofs.Lemmas.RoundTrip
import ReplicatProofs.Lemmas.RestoreOps
/-!
# C01 — backup round trip is the identity on file trees

Property theorems only.  Objects: `layout`/`streamOf` (`_stream_files`), `records`/`finalRecords` (`_chunk_done` run by
concurrent workers in ANY completion order + the chunk-less file entries), `plan`/`restoreFile` (restore's reference plan, the
writer threads in ANY execution order, `_write_file_part`, the final length), `flattenArgs` (`_flatten_resolve_paths`).
The chunker is an arbitrary list of chunk lengths that add up to the stream (C10 proves the real chunker is lossless),
the hash/cipher do not occur (identity of names is C07/C04).  The guards of `_chunk_done`, the padding and truncate
expressions and the four "shape of the fix" flags are the *generated* `Replicat.Gen` definitions; so is the list of operations
`_write_file_part` performs on the opened file (`Gen.writePartOps`) and the fact that every reference reaches it
(`Gen.everyRefReachesWritePart`), which is what makes `writePart` — "every part handed over is written" — the code's behaviour.
-/
namespace Replicat.C01
open Replicat List

/-- **Concurrency independence of the manifest.**  Whatever order the upload workers finish in, the references recorded
for a file are a permutation of the ones a sequential run records. -/
theorem records_perm (files spans : List Span) (hs : SpansSorted files) (order : List Nat)
    (horder : order ~ List.range spans.length) (i : Nat) (f : Span) (hf : files[i]? = some f) :
    refsOfIn (records files spans order) i ~ fileRefs f 0 spans := by
  unfold records
  rw [refsOfIn_records files spans hs order i []]
  have h0 : refsOfIn [] i = [] := rfl
  rw [h0, nil_append]
  refine (Perm.flatMap_right _ horder).trans ?_
  rw [range_flatMap_contribAt, ← fileRefs_eq_flatMap files i f hf]

/-- **Every streamed file has exactly one record** (also a tree of only empty files, which produces no chunk). -/
theorem every_file_recorded (files spans : List Span) (order : List Nat) (i : Nat) (hi : i < files.length) :
    lookupRec (finalRecords files.length (records files spans order)) i
      = some (refsOfIn (records files spans order) i) :=
  lookup_finalRecords (by decide) _ _ _ hi

/-- **Tiling.**  The slices named by a file's references, taken in counter order with the running position the restore
uses, are exactly the file's byte range of the stream. -/
theorem refs_tile (s : Bytes) (f : Span) (hf : f.1 ≤ f.2) (lens : List Nat) (hsum : lens.sum = s.length) (hfe : f.2 ≤ s.length) :
    ((planFrom 0 (fileRefs f 0 (spansFrom 0 lens))).map (partData (chunksOf s lens))).flatten = slice s f.1 f.2 := by
  have hwf : ∀ c ∈ spansFrom 0 lens, c.1 ≤ c.2 ∧ c.2 ≤ s.length := by
    intro c hc
    have := spansFrom_mem_bounds hc
    omega
  have := (plan_parts s f hf [] (spansFrom 0 lens) 0 hwf).1
  simp only [length_nil, nil_append] at this
  unfold chunksOf
  rw [this, fileParts_flatten s f hf lens 0 (by omega)]
  congr 1; omega

/-- **Restore never looks at what is already at the destination.**  `restore_file_exact` below holds for EVERY previous content `old`;
it speaks about the code only if the code decides what it writes without inspecting `old`.  That is read from the source on every
run (`tools/sections/01_restoreplan.py`, a taint analysis from the destination parameter of `Repository.restore` through locals,
containers, helper methods and the loader / writer functions): no file-system query (`stat`, `exists`, `is_file`, a read-mode `open`, …)
is ever applied to a destination-derived path, while write-mode opens of such paths are reached.  A "skip what is already up to date"
shortcut makes this stop compiling. -/
theorem restore_ignores_destination :
    Gen.restoreNeverInspectsDestination = true ∧ Gen.restoreDestinationQueries = 0 ∧ 1 ≤ Gen.restoreDestinationWriteOpens := by decide

/-- **Restore of one file is exact**, for every completion order of the snapshot workers, every execution order of the
writer threads and whatever was at the target path before (absent, shorter, longer, different). -/
theorem restore_file_exact (s : Bytes) (f : Span) (hf : f.1 ≤ f.2) (lens : List Nat) (hsum : lens.sum = s.length)
    (hfe : f.2 ≤ s.length) (refs : List Ref) (hrefs : refs ~ fileRefs f 0 (spansFrom 0 lens))
    (old : Option Bytes) (ws : List PlanEntry) (hws : ws ~ plan refs) :
    restoreFile (chunksOf s lens) old refs ws = some (slice s f.1 f.2) := by
  have hsort := sort_perm_fileRefs f 0 (spansFrom 0 lens) refs hrefs
  have htile := refs_tile s f hf lens hsum hfe
  unfold restoreFile
  by_cases hemp : refs.isEmpty = true
  · -- chunk-less file: it is created empty
    have : refs = [] := by simpa using hemp
    subst this
    have hnil : fileRefs f 0 (spansFrom 0 lens) = [] := by simpa using hrefs.symm.eq_nil
    rw [hnil] at htile
    simp only [planFrom, map_nil, flatten_nil] at htile
    simp only [isEmpty_nil, if_true, show Gen.restoresChunklessFiles = true by decide]
    rw [← htile]
  · simp only [hemp, if_false, Bool.false_eq_true, show Gen.restoreSetsFinalLength = true by decide, if_true]
    have hplan : plan refs = planFrom 0 (fileRefs f 0 (spansFrom 0 lens)) := by unfold plan; rw [hsort]
    rw [hplan] at hws
    rw [applyWrites_perm (chunksOf s lens) (old.getD []) _ 0 ws hws]
    have hwf : ∀ c ∈ spansFrom 0 lens, c.1 ≤ c.2 ∧ c.2 ≤ s.length := by
      intro c hc
      have := spansFrom_mem_bounds hc
      omega
    have hd := (plan_parts s f hf [] (spansFrom 0 lens) 0 hwf).2
    simp only [length_nil, nil_append] at hd
    obtain ⟨h1, h2⟩ := applyWrites_seq (chunksOf s lens) (old.getD []) 0 (fileRefs f 0 (spansFrom 0 lens)) (Nat.zero_le _) hd
    have hsz : planSize refs = (map (fun r => r.hi - r.lo) (fileRefs f 0 (spansFrom 0 lens))).sum := by
      unfold planSize
      exact (hrefs.map _).sum_nat
    rw [hsz, setLength_of_le _ _ (by simpa using h2)]
    simp only [Nat.zero_add, take_zero, nil_append] at h1
    rw [h1, htile]


/-- **The restored bytes do not depend on what was there before** (corollary, two arbitrary previous contents). -/
theorem restore_result_independent_of_old (s : Bytes) (f : Span) (hf : f.1 ≤ f.2) (lens : List Nat) (hsum : lens.sum = s.length)
    (hfe : f.2 ≤ s.length) (refs : List Ref) (hrefs : refs ~ fileRefs f 0 (spansFrom 0 lens))
    (old₁ old₂ : Option Bytes) (ws₁ ws₂ : List PlanEntry) (h₁ : ws₁ ~ plan refs) (h₂ : ws₂ ~ plan refs) :
    restoreFile (chunksOf s lens) old₁ refs ws₁ = restoreFile (chunksOf s lens) old₂ refs ws₂ := by
  rw [restore_file_exact s f hf lens hsum hfe refs hrefs old₁ ws₁ h₁, restore_file_exact s f hf lens hsum hfe refs hrefs old₂ ws₂ h₂]

/-- **Round trip.**  For every list of files (any contents, incl. empty files and only-empty trees), every alignment, every
chunking of the padded stream, every completion order of the upload workers, every file `i`: the snapshot has exactly one
record for it, and restoring that record — whatever the writer threads' order and whatever was at the target path — yields the
file's bytes. -/
theorem roundtrip (align : Nat) (files : List Bytes) (lens : List Nat)
    (hsum : lens.sum = (streamOf align files).length)
    (order : List Nat) (horder : order ~ List.range lens.length)
    (i : Nat) (b : Bytes) (hb : files[i]? = some b) :
    ∃ refs, lookupRec (finalRecords files.length
              (records (layout align (files.map List.length)) (spansFrom 0 lens) order)) i = some refs ∧
      ∀ (old : Option Bytes) (ws : List PlanEntry), ws ~ plan refs →
        restoreFile (chunksOf (streamOf align files) lens) old refs ws = some b := by
  have hi : i < files.length := by
    rcases Nat.lt_or_ge i files.length with h | h
    · exact h
    · rw [getElem?_eq_none h] at hb; cases hb
  have hlay : (layout align (files.map List.length)).length = files.length := by
    unfold layout; rw [layoutFrom_length, length_map]
  obtain ⟨f, hf⟩ : ∃ f, (layout align (files.map List.length))[i]? = some f := by
    rw [getElem?_eq_getElem (by omega)]; exact ⟨_, rfl⟩
  have hsorted := layoutFrom_sorted align 0 (files.map List.length)
  have hfle : f.1 ≤ f.2 := hsorted.2 f (mem_of_getElem? hf)
  obtain ⟨b', hb', hslice, hlen⟩ := streamOf_slice align files i f [] (by simpa [layout] using hf)
  simp only [nil_append] at hslice hlen
  have hbb : b' = b := by rw [hb] at hb'; exact (Option.some.inj hb').symm
  subst hbb
  have hrec := every_file_recorded (layout align (files.map List.length)) (spansFrom 0 lens) order i (by omega)
  rw [hlay] at hrec
  refine ⟨_, hrec, ?_⟩
  intro old ws hws
  have hperm := records_perm (layout align (files.map List.length)) (spansFrom 0 lens) hsorted order
    (by rw [spansFrom_length]; exact horder) i f hf
  rw [restore_file_exact (streamOf align files) f hfle lens hsum hlen _ hperm old ws hws, hslice]

/-- **Each file once.**  Repeated / overlapping path arguments (and a top-level symlink plus its target directory) do not
make a path occur twice in the list of files that is streamed; nothing is lost either. -/
theorem flatten_nodup (expanded : List (List Nat)) :
    (flattenArgs expanded).Nodup ∧ ∀ p, p ∈ flattenArgs expanded ↔ p ∈ expanded.flatten := by
  have key : ∀ (l acc : List Nat), acc.Nodup →
      (l.foldl (fun acc a => if acc.contains a then acc else acc ++ [a]) acc).Nodup ∧
      ∀ p, p ∈ l.foldl (fun acc a => if acc.contains a then acc else acc ++ [a]) acc ↔ p ∈ acc ∨ p ∈ l := by
    intro l
    induction l with
    | nil => intro acc h; simp [h]
    | cons a l ih =>
      intro acc h
      simp only [foldl_cons]
      by_cases ha : acc.contains a = true
      · simp only [ha, if_true]
        obtain ⟨h1, h2⟩ := ih acc h
        refine ⟨h1, fun p => ?_⟩
        rw [h2 p]
        have : a ∈ acc := by simpa using ha
        constructor
        · rintro (hp | hp)
          · exact Or.inl hp
          · exact Or.inr (mem_cons_of_mem _ hp)
        · rintro (hp | hp)
          · exact Or.inl hp
          · rcases mem_cons.mp hp with rfl | hp
            · exact Or.inl this
            · exact Or.inr hp
      · simp only [ha, if_false, Bool.false_eq_true]
        have hna : a ∉ acc := by simpa using ha
        obtain ⟨h1, h2⟩ := ih (acc ++ [a]) (by
          rw [nodup_append]
          refine ⟨h, by simp, ?_⟩
          intro x hx y hy
          simp only [mem_singleton] at hy
          subst hy
          intro hxy; subst hxy; exact hna hx)
        refine ⟨h1, fun p => ?_⟩
        rw [h2 p]
        simp only [mem_append, mem_cons, not_mem_nil, or_false]
        constructor
        · rintro ((hp | hp) | hp)
          · exact Or.inl hp
          · exact Or.inr (Or.inl hp)
          · exact Or.inr (Or.inr hp)
        · rintro (hp | hp | hp)
          · exact Or.inl (Or.inl hp)
          · exact Or.inl (Or.inr hp)
          · exact Or.inr hp
  unfold flattenArgs dedupKeepFirst
  simp only [show Gen.flattenDedups = true by decide, if_true]
  obtain ⟨h1, h2⟩ := key expanded.flatten [] (by simp)
  exact ⟨h1, fun p => by rw [h2 p]; simp⟩

/-- **Metadata is applied after the last write of a file** is a statement about the restore completion protocol; it is
proved as `finalise_once_after_writes` in C09.  Here: the only length-changing step after the writes is the final
`truncate` to the recorded size, so a longer pre-existing file cannot keep its tail (regression witness of the fixed defect). -/
theorem longer_target_regression :
    restoreFile [[1, 2, 3, 4]] (some [9, 9, 9, 9, 9, 9, 9, 9]) [⟨1, 0, 4⟩] (plan [⟨1, 0, 4⟩]) = some [1, 2, 3, 4] := by
  decide +kernel

/-- non-vacuity: a concrete tree (one empty file, 5 and 3 bytes, alignment 4 ⇒ 3 bytes of padding), chunks of 4, workers
finishing in reverse order -/
example :
    let files : List Bytes := [[], [1, 2, 3, 4, 5], [6, 7, 8]]
    let lens := [4, 4, 3]
    lens.sum = (streamOf 4 files).length ∧
    finalRecords 3 (records (layout 4 (files.map List.length)) (spansFrom 0 lens) [2, 1, 0])
      = [(2, [⟨3, 0, 3⟩, ⟨2, 4, 4⟩]), (1, [⟨2, 0, 1⟩, ⟨1, 0, 4⟩]), (0, [⟨1, 0, 0⟩])] := by
  decide +kernel

/-- **Every part is written, whatever it contains.**  `_write_file_part` as the sequence of operations read from the source —
with any control flow between them resolved by an ARBITRARY predicate `leave` of the data — is the model's `writePart`:
`truncate(max(file_end, offset + len))`, then the bytes of the part at `offset`.  There is no content class (zeros, a long run of
one byte, …), length or old content of the target for which the write is skipped.  (Provable only while the operation list has no
`branch`: a data-dependent exit between the truncate and the write falsifies it, see `skipped_part_keeps_old_bytes`.) -/
theorem write_part_unconditional (leave : Bytes → Bool) (old : Bytes) (off : Nat) (data : Bytes) :
    runW leave off data Gen.writePartOps ⟨old, 0, 0⟩ = writePart old off data := by
  have h : Gen.writePartOps = [.seekEnd, .truncate, .seekOffset, .writeData] := by decide
  rw [h]
  exact runW_straight leave old off data 0 0

/-- **The restore of the code is the restore of the model**: every reference of the plan reaches `_write_file_part`
(`Gen.everyRefReachesWritePart`) and is written there unconditionally, so `restore_file_exact` / `roundtrip` speak about what
the writer threads really do — over every pre-existing target and for every content. -/
theorem restore_code_eq_model (leave : Bytes → Bool) (chunks : List Bytes) (old : Option Bytes) (refs : List Ref)
    (ws : List PlanEntry) : restoreFileCode leave chunks old refs ws = restoreFile chunks old refs ws := by
  have hw : applyWritesCode leave chunks (old.getD []) ws = applyWrites chunks (old.getD []) ws := by
    unfold applyWritesCode applyWrites
    simp only [show Gen.everyRefReachesWritePart = true by decide, if_true]
    congr 1
    funext cur e
    exact write_part_unconditional leave cur e.2.2.2 (partData chunks e)
  unfold restoreFileCode restoreFile
  rw [hw]

/-- **Why the fact is needed** (negation witness for the class "content × what already exists at the target"): were there
an exit between the truncate and the write that is taken for some part (here: every part), a part lying inside the old file
would keep the OLD bytes — four zeros restored over four 0xFF bytes stay 0xFF. -/
theorem skipped_part_keeps_old_bytes :
    runW (fun _ => true) 0 [0, 0, 0, 0] [.seekEnd, .truncate, .branch, .seekOffset, .writeData] ⟨[255, 255, 255, 255], 0, 0⟩
        = [255, 255, 255, 255]
      ∧ writePart [255, 255, 255, 255] 0 [0, 0, 0, 0] = [0, 0, 0, 0] := by
  decide +kernel

/-- non-vacuity: a zero part written into the middle of a longer all-ones file through the generated operation list -/
example : runW (fun d => d.all (· == 0)) 1 [0, 0] Gen.writePartOps ⟨[255, 255, 255, 255, 255], 0, 0⟩ = [255, 0, 0, 255, 255] := by
  decide +kernel

/-! ## Which files a snapshot records: `_flatten_resolve_paths` → `flatten_paths` → `iterative_scandir` → sort -/
section PathWalkProps
open Replicat.PathWalk

/-- **The explicit-stack directory walk is sound and complete** (LIFO and FIFO alike): when `iterative_scandir` finishes
without an error, the entries it yields are exactly the `FileUnder` of the frames it was started with — every chain of
entries passing the directory test that ends in an entry passing the file test, nothing else, nothing missed. -/
theorem pathwalk_walk_spec (root : Node) (follow lifo : Bool) (n : Nat) (stack : List Frame) (ys : List Found)
    (h : walk root follow lifo n stack = .ok ys) :
    ∀ f, f ∈ ys ↔ ∃ fr ∈ stack, FileUnder root follow fr f :=
  walk_spec root follow lifo n stack ys h

/-- **No path is recorded twice**: with `dict.fromkeys` (dedup on) the recorded path strings are pairwise different, for every
file system, every argument list (repeated, overlapping, nested, reached through links) and every configuration. -/
theorem pathwalk_nodup (cfg : Cfg) (root : Node) (args : List Path) (l : List Rec)
    (h : flattenResolve cfg root args = .ok l) (hd : cfg.dedup = true) : (l.map Prod.fst).Nodup :=
  flattenResolve_nodup h hd

/-- `pathwalk_nodup` for the configuration read from the source (`Gen.pwDedup = true`). -/
theorem pathwalk_nodup_gen (a w : Nat) (root : Node) (args : List Path) (l : List Rec)
    (h : flattenResolve (genCfg a w) root args = .ok l) : (l.map Prod.fst).Nodup :=
  flattenResolve_nodup h (show Gen.pwDedup = true by decide)

/-- **What `flatten_paths` yields**: exactly what some argument yields after `resolve(strict=True)` — a directory is walked,
a file is itself, anything else contributes nothing. -/
theorem pathwalk_flatten_mem (cfg : Cfg) (root : Node) (args : List Path) (l : List Found)
    (h : PathWalk.flattenArgs cfg root args = .ok l) :
    ∀ f, f ∈ l ↔ ∃ a ∈ args, ∃ p n l', resolveArg root cfg.argFuel a = .ok (p, n) ∧
      flattenOne cfg root p n = .ok l' ∧ f ∈ l' :=
  flattenArgs_mem cfg root args l h

/-- **The recorded set**, dedup on or off: every record comes from a file some argument yields; every such file's path string
is recorded; and when the path string determines the size (`KeyFun`: true on a real file system — the model allows two
entries of one name and `/` inside a name) or dedup is off, the records are EXACTLY the images of those files. -/
theorem pathwalk_record_set (cfg : Cfg) (root : Node) (args : List Path) (l : List Rec)
    (h : flattenResolve cfg root args = .ok l) :
    (∀ r, r ∈ l → ∃ f, toRec f = r ∧ ∃ a ∈ args, ArgYields cfg root a f) ∧
    (∀ f, (∃ a ∈ args, ArgYields cfg root a f) → pathStr f.1 ∈ l.map Prod.fst) ∧
    ((cfg.dedup = true → KeyFun cfg root args) →
      ∀ r, r ∈ l ↔ ∃ f, toRec f = r ∧ ∃ a ∈ args, ArgYields cfg root a f) := by
  obtain ⟨L, hL, h1, h2⟩ := flattenResolve_sound h
  have hm := flattenArgs_mem cfg root args L hL
  refine ⟨?_, ?_, ?_⟩
  · intro r hr
    obtain ⟨f, hf, e⟩ := List.mem_map.1 (h1 r hr)
    exact ⟨f, e, (hm f).1 hf⟩
  · intro f hf
    exact h2 (toRec f) (List.mem_map.2 ⟨f, (hm f).2 hf, rfl⟩)
  · intro hk r
    obtain ⟨L', hL', hmem⟩ := flattenResolve_mem h hk
    rw [hL] at hL'; cases hL'
    rw [hmem, List.mem_map]
    exact ⟨fun ⟨f, hf, e⟩ => ⟨f, e, (hm f).1 hf⟩, fun ⟨f, e, hf⟩ => ⟨f, (hm f).2 hf, e⟩⟩

/-- **Repeating or permuting arguments does not change what is recorded**: two argument lists with the same members give
(both succeed, and) the same set of records.  (An error in any argument is an error of the whole, so success transfers.)
With dedup on the statement needs `KeyFun` — see `pathwalk_record_set`. -/
theorem pathwalk_perm_args (cfg : Cfg) (root : Node) (args args' : List Path) (l : List Rec)
    (hset : ∀ a, a ∈ args ↔ a ∈ args') (hk : cfg.dedup = true → KeyFun cfg root args)
    (h : flattenResolve cfg root args = .ok l) :
    ∃ l', flattenResolve cfg root args' = .ok l' ∧ ∀ r, r ∈ l ↔ r ∈ l' :=
  flattenResolve_congr hset hk h

/-- **The sorted list is canonical**: two duplicate-free record lists with the same members sort (by `(size, str)`) to the same
list — the key is a total order on records, so the order of the stream is a function of the SET of records. -/
theorem pathwalk_sorted_canonical (l₁ l₂ : List Rec) (h1 : (l₁.map Prod.fst).Nodup) (h2 : (l₂.map Prod.fst).Nodup)
    (h : ∀ r, r ∈ l₁ ↔ r ∈ l₂) : sortFiles l₁ = sortFiles l₂ :=
  sortFiles_canonical (nodup_of_map_fst h1) (nodup_of_map_fst h2) h

/-- **The stream order depends on the set of arguments only** (dedup on): same members → the very same ordered list. -/
theorem pathwalk_order_function_of_set (cfg : Cfg) (root : Node) (args args' : List Path) (s : List Rec)
    (hd : cfg.dedup = true) (hset : ∀ a, a ∈ args ↔ a ∈ args') (hk : KeyFun cfg root args)
    (h : snapshotOrder cfg root args = .ok s) : snapshotOrder cfg root args' = .ok s := by
  cases hl : flattenResolve cfg root args with
  | error e => simp [snapshotOrder, hl] at h
  | ok l =>
    simp only [snapshotOrder, hl] at h
    cases h
    obtain ⟨l', hl', hmem⟩ := flattenResolve_congr hset (fun _ => hk) hl
    simp only [snapshotOrder, hl']
    rw [sortFiles_canonical (nodup_of_map_fst (flattenResolve_nodup hl hd))
      (nodup_of_map_fst (flattenResolve_nodup hl' hd)) hmem]

/-- **More fuel never changes a finished walk.** -/
theorem pathwalk_fuel_mono (root : Node) (follow lifo : Bool) (n k : Nat) (stack : List Frame) (ys : List Found)
    (h : walk root follow lifo n stack = .ok ys) : walk root follow lifo (n + k) stack = .ok ys :=
  walk_fuel_mono root follow lifo k n stack ys h

/-- **A directory symlink back to an ancestor aborts the snapshot with ELOOP** (`d/loop → /d`): the walk follows it again and
again until one lookup needs more than 40 links — the real code raises `OSError(ELOOP)` there. -/
theorem pathwalk_cycle_eloop :
    flattenResolve ⟨true, true, true, 100, 1000⟩
      (.dir (.cons "d" (.dir (.cons "f" (.file 1) (.cons "loop" (.link true ["d"]) .nil))) .nil)) [["d"]]
      = .error .eloop := by decide +kernel

/-- **A symlink to itself inside a walked directory aborts with ELOOP** (not skipped like a dangling link). -/
theorem pathwalk_self_link_aborts :
    flattenResolve ⟨true, true, true, 100, 1000⟩
      (.dir (.cons "d" (.dir (.cons "f" (.file 1) (.cons "self" (.link false ["self"]) .nil))) .nil)) [["d"]]
      = .error .eloop := by decide +kernel

/-- **A symlink whose target goes through a regular file aborts with ENOTDIR** (`NotADirectoryError` in the real code). -/
theorem pathwalk_link_through_file_aborts :
    flattenResolve ⟨true, true, true, 100, 1000⟩
      (.dir (.cons "d" (.dir (.cons "f" (.file 1) (.cons "l" (.link false ["f", "x"]) .nil))) .nil)) [["d"]]
      = .error .enotdir := by decide +kernel

/-- **A symlink loop in an ARGUMENT is `RuntimeError("Symlink loop …")`** of `Path.resolve`, not ELOOP. -/
theorem pathwalk_arg_loop_runtime_error :
    flattenResolve ⟨true, true, true, 100, 1000⟩
      (.dir (.cons "a" (.link true ["b"]) (.cons "b" (.link true ["a"]) .nil))) [["a"]]
      = .error .loopRT := by decide +kernel

/-- dangling links and `other` nodes are silently skipped; an acyclic directory symlink is followed and its files are reported
under the path they were reached by -/
example :
    flattenResolve ⟨true, true, true, 100, 1000⟩
      (.dir (.cons "d" (.dir (.cons "dang" (.link false ["nope"]) (.cons "sock" .other (.cons "ln" (.link true ["e"]) .nil))))
        (.cons "e" (.dir (.cons "g" (.file 7) .nil)) .nil))) [["d"]]
      = .ok [("/d/ln/g", 7)] := by decide +kernel

/-- **What was read from the source** (`tools/sections/01_pathwalk.py`): the walk follows links in its tests, yields the entry
(its reached path), arguments are resolved strictly, duplicates are dropped, the sort key is `(size, str)`. -/
theorem pathwalk_source_facts :
    Gen.pwWalkFollow = true ∧ Gen.pwYieldsEntry = true ∧ Gen.pwArgShape = true ∧ Gen.pwStrict = true ∧
      Gen.pwDedup = true ∧ Gen.pwSortKey = ["size", "str"] := by decide

/-- **On a symlink-free tree the walk cannot fail and needs one unit of fuel per directory**: all frames link-free and
fuel ≥ Σ over the stack of (1 + number of directories below) → a result, never an error (no ELOOP/ENOTDIR, no fuel). -/
theorem pathwalk_terminates_nolinks_stack (root : Node) (follow lifo : Bool) (n : Nat) (stack : List Frame)
    (hnl : ∀ fr ∈ stack, fr.2.noLinks = true) (hm : stackMeasure stack ≤ n) :
    ∃ ys, walk root follow lifo n stack = .ok ys :=
  walk_terminates_nolinks root follow lifo n stack hnl hm

/-- `pathwalk_terminates_nolinks_stack` for one starting directory: fuel = its number of directories (itself included). -/
theorem pathwalk_terminates_nolinks (root : Node) (follow lifo : Bool) (n : Nat) (p : Path) (es : Entries)
    (hnl : es.noLinks = true) (hm : es.dirCount + 1 ≤ n) : ∃ ys, walk root follow lifo n [(p, es)] = .ok ys :=
  walk_terminates_nolinks root follow lifo n [(p, es)]
    (fun fr hfr => by rw [List.mem_singleton.1 hfr]; exact hnl)
    (by rw [stackMeasure_cons]; simp [stackMeasure]; omega)

/-- **A symlink ARGUMENT records its target's path** (`resolve` happens before anything else): an argument resolving to a
regular file at physical path `p` is recorded as `str(p)`. -/
theorem pathwalk_symlink_arg_records_target (cfg : Cfg) (root : Node) (a p : Path) (s : Nat)
    (h : resolveArg root cfg.argFuel a = .ok (p, .file s)) : flattenResolve cfg root [a] = .ok [(pathStr p, s)] :=
  flattenResolve_file_arg h

/-- **A symlink met INSIDE a walked directory records the link's own path** (the path it was reached by, not the target's):
a link entry whose `stat` is a regular file of size `s` is yielded as `start/name` with size `s`. -/
theorem pathwalk_symlink_inside_records_link_path (root : Node) (lifo : Bool) (n : Nat) (start : Path) (es : Entries)
    (name : String) (ab : Bool) (t : List String) (s : Nat) (ys : List Found)
    (hm : (name, Node.link ab t) ∈ es.toList) (hst : statFollow root (start ++ [name]) = .ok (.file s))
    (h : walk root true lifo n [(start, es)] = .ok ys) : (start ++ [name], s) ∈ ys :=
  (walk_spec root true lifo n _ ys h _).2 ⟨_, List.mem_singleton.2 rfl, .here hm (classify_link_file hst)⟩

end PathWalkProps

end Replicat.C01
