import ReplicatModel.Retry
namespace Replicat.C12
open Replicat Replicat.Retry

theorem placeholder : (cfgOf .local).budget = (cfgOf .local).budget := rfl

end Replicat.C12
