import ReplicatProofs.Lemmas.RetryRun
import ReplicatProofs.Lemmas.RetryCredRun
/-!
# C12 — transient backend faults are masked, persistent ones end in a bounded error

Property theorems only (helper lemmas: `Lemmas/Retry.lean`, `RetryLoop.lean`, `RetryAttempts.lean`, `RetryPolicy.lean`,
`RetryRun.lean`).  All statements are about `Retry.runUp` / `Retry.runDown` (model of `upload_stream` / `download_stream` of the
local, S3-compatible and B2 adapters under a fault plan — one fault per attempt, any kind, any position, and for the local adapter
any class of OSError: `Fault.errno k f` is fault `f` surfacing with errno `k`, e.g. `errno 2 mktemp` = ENOENT because the freshly
created directory is gone again when the temp file is created) with the configuration
`cfgOf b` that the extractor reads from the source on every run, for ALL payloads, chunk sizes ≥ 1, previous objects, previous
sink contents and fault plans.

* `cfg_sound` — the extracted configuration has every rewind / truncate / unlink / decorator the other theorems need, and the
  back-off decorators single out no class of OSError in a `giveup=` predicate (`decide`).
* `every_oserror_class_retried` — local adapter: below the limit an OSError of ANY errno class is answered with a plain retry.
* `errno_giveup_breaks_masked` — the same model with a `giveup=` that singles out one errno class (ENOENT) violates `masked`:
  one fault of that class, well inside the budget, ends the call (the extracted, empty table matters).
* `masked_upload`, `masked_download` — fewer transient faults than `max_tries`: success, the stored / delivered bytes are exactly
  the payload, one attempt per fault that fires plus one.
* `never_partial` — whatever the plan (also beyond the budget): after every attempt the visible object is the previous one or the
  complete payload; no temp file stays.
* `no_self_inflicted_attempt` — whatever the plan: never more attempts than injected faults plus one.
* `bounded_local_s3`, `persistent_error_local_s3` — at most `max_tries` attempts; persistent faults end in an exception.
* `bounded_partial`, `persistent_error_partial` — the same for all three backends for plans without the B2 fault class below.
* `b2_status_unbounded_witness` — B2 without a bound on re-authentication rounds (what the source has): ANY number of consecutive
  5xx (or 401) answers is followed by another attempt, without a single back-off sleep: the full `bounded` is false for B2 (D9).
* `b2_bounded_with_reauth_limit` — with a bound `l` on the rounds (the candidate fix) a call makes at most `(l+1)·max_tries` attempts.
* `rewind_needed`, `truncate_needed`, `cleanup_needed` — the same model without `seek(0)` / `truncate` / `unlink` violates `masked`
  (the theorems are not vacuous, and each extracted flag matters).
* `fuel_enough` — the fuel of the model is never the reason for stopping.

Sessions — credentials with a lifetime on ONE long-lived B2 object (`ReplicatModel/RetryCred.lean`; helper lemmas `Lemmas/RetryCred.lean`,
`RetryCredRun.lean`): the service is stateful about which account tokens, upload URLs and upload tokens it still accepts; expiry /
revocation events happen between the operations of a history.
* `credentials_cfg_sound` — extracted: `_get_upload_url_token` asks for NEW upload credentials on every call and keeps nothing on
  the object, upload / upload_stream fetch them inside the retried body, every method is `requires_auth(backoff_reauth(…))`, a 401
  becomes `AuthRequired`, `AuthRequired` is answered with a re-authentication (`decide`).
* `credential_expiry_masked` — ANY state of service and object (whatever was issued, expired, revoked, cached before), any operation:
  it returns what the abstract store says, the store is what the abstract store says, after at most 5 requests, at most one
  re-authorisation, no back-off sleep — and leaves a valid account token.
* `session_refines_store` — every history of operations and credential events: every operation returns the abstract store's answer,
  each within those bounds.
* `cached_upload_credentials_unbounded_witness` — the same model with upload credentials KEPT on the object: once the service stops
  accepting them, an upload never ends (every round re-authorises the account and presents the dead upload token again) and stores
  nothing; one upload followed by one expiry event produces such a state (the extracted flag matters).
-/
namespace Replicat.C12
open Replicat Replicat.Retry

/-- number of tries the back-off decorator of backend `b` allows (`max_tries`) -/
abbrev budget (b : Backend) : Nat := (cfgOf b).budget

/-- a transient fault: anything but an answer with the status the decorator gives up on (403) -/
def Transient (b : Backend) (x : Fault) : Prop := StatusIn (NotGiveup (cfgOf b)) x

/-- faults outside the class that makes B2 re-authenticate: for B2 a status fault must be the plain-retry status (429) or the
give-up status (403); no restriction for the local and the S3 adapter -/
def NoReauthFault (b : Backend) (x : Fault) : Prop := StatusIn (NoReauthCode b (cfgOf b)) x

/-- The configuration extracted from the current source has the shape all theorems below rely on: every streaming method rewinds
to 0 in an except-branch that catches everything and re-raises, the local upload unlinks its temp file, downloads truncate the
sink inside the `try`, the S3 digest helper rewinds to 0 and runs outside the retry loop, every method carries its back-off
decorator with a positive `max_tries` and the error class of its adapter, no decorator has a `giveup=` predicate that singles
out a class of OSError (the local decorator has none at all: the empty table is exact), B2 methods are wrapped in `requires_auth`. -/
theorem cfg_sound (b : Backend) :
    UpSound b (cfgOf b) ∧ DownSound (cfgOf b) ∧ PolSound (cfgOf b) (cfgOf b).upDecorated ∧ PolSound (cfgOf b) (cfgOf b).downDecorated ∧
    UpAuthSound b (cfgOf b) ∧ DownAuthSound b (cfgOf b) ∧ Gen.retrySectionOk = true ∧ Gen.retryLocalGiveupExact = true := by
  cases b <;> decide

/-- **Every class of OSError is transient for the local adapter.**  Whatever errno the error carries (ENOENT, EACCES, ENOSPC,
EIO, none …): below `max_tries` the answer is a plain retry with a back-off sleep, at `max_tries` the error is raised — for the
upload and the download.  (So `masked_upload` / `masked_download` below, which quantify over all plans, cover every
`Fault.errno k f`.) -/
theorem every_oserror_class_retried (k tries rounds : Nat) :
    upPolicy .local (cfgOf .local) (.os k) tries rounds = (if tries = budget .local then .raise (.os k) false else .retry false) ∧
    downPolicy .local (cfgOf .local) (.os k) tries rounds = (if tries = budget .local then .raise (.os k) false else .retry false) := by
  obtain ⟨_, _, h3, h4, _⟩ := cfg_sound .local
  exact ⟨policy_local_os (cfgOf .local) _ _ h3 k tries rounds, policy_local_os (cfgOf .local) _ _ h4 k tries rounds⟩

/-! ## masked -/

/-- **Masked (upload).**  Fewer transient faults than `max_tries` ⇒ the call returns normally, the object is exactly the payload,
no temp file is left, the stream was read to its end, at most one attempt per fault plus one — exactly that many if every fault
of the plan fires wherever it is placed — and no intermediate state showed anything but the previous object or the payload.
(`ReauthRoom` is vacuous as long as `requires_auth` has no bound on its rounds.) -/
theorem masked_upload (b : Backend) (c : Nat) (hc : 0 < c) (data : Bytes) (old : Option Bytes) (plan : List Fault) (fuel : Nat)
    (htr : ∀ x ∈ plan, Transient b x) (hlen : plan.length < budget b) (hfuel : plan.length < fuel)
    (hroom : ReauthRoom (cfgOf b) plan.length) :
    (runUp b (cfgOf b) c fuel plan data 0 data.length old).outcome = .ok ∧
    (runUp b (cfgOf b) c fuel plan data 0 data.length old).final.visible = some data ∧
    (runUp b (cfgOf b) c fuel plan data 0 data.length old).final.temps = 0 ∧
    (runUp b (cfgOf b) c fuel plan data 0 data.length old).final.src = ⟨data, data.length⟩ ∧
    (runUp b (cfgOf b) c fuel plan data 0 data.length old).attempts ≤ plan.length + 1 ∧
    ((∀ x ∈ plan, UpHard b x) → (runUp b (cfgOf b) c fuel plan data 0 data.length old).attempts = plan.length + 1) ∧
    (∀ v ∈ (runUp b (cfgOf b) c fuel plan data 0 data.length old).history, v = old ∨ v = some data) := by
  obtain ⟨h1, _, h3, _, h5, _, _, _⟩ := cfg_sound b
  obtain ⟨r1, r2, r3, r4⟩ := runUp_masked b (cfgOf b) h1 h3 h5 c hc data old plan fuel htr hlen hfuel hroom
  exact ⟨r1, r2.2.2, r2.2.1, r2.1, r3, r4, (runUp_never_partial b (cfgOf b) h1 c hc data old plan fuel).1⟩

/-- **Masked (download).**  Fewer transient faults than `max_tries` ⇒ the call returns normally and the sink holds exactly the
object (whatever it held before, memory buffer or file), position at the end. -/
theorem masked_download (b : Backend) (c : Nat) (hc : 0 < c) (obj sink0 : Bytes) (file : Bool) (plan : List Fault) (fuel : Nat)
    (htr : ∀ x ∈ plan, Transient b x) (hlen : plan.length < budget b) (hfuel : plan.length < fuel)
    (hroom : ReauthRoom (cfgOf b) plan.length) :
    (runDown b (cfgOf b) c fuel plan obj sink0 0 file).outcome = .ok ∧
    (runDown b (cfgOf b) c fuel plan obj sink0 0 file).final.buf = obj ∧
    (runDown b (cfgOf b) c fuel plan obj sink0 0 file).final.pos = obj.length ∧
    (runDown b (cfgOf b) c fuel plan obj sink0 0 file).attempts ≤ plan.length + 1 ∧
    ((∀ x ∈ plan, DownHard b x) → (runDown b (cfgOf b) c fuel plan obj sink0 0 file).attempts = plan.length + 1) := by
  obtain ⟨_, h2, _, h4, _, h6, _, _⟩ := cfg_sound b
  obtain ⟨r1, r2, r3, r4⟩ := runDown_masked b (cfgOf b) h2 h4 h6 c hc obj sink0 file plan fuel htr hlen hfuel hroom
  exact ⟨r1, r2.1, r2.2, r3, r4⟩

/-- **Never a partial object.**  For every plan, also a persistent one: after every attempt the object visible in the directory /
at the service is the previous one or the complete payload; at the end no temp file is left. -/
theorem never_partial (b : Backend) (c : Nat) (hc : 0 < c) (data : Bytes) (old : Option Bytes) (plan : List Fault) (fuel : Nat) :
    (∀ v ∈ (runUp b (cfgOf b) c fuel plan data 0 data.length old).history, v = old ∨ v = some data) ∧
    (runUp b (cfgOf b) c fuel plan data 0 data.length old).final.temps = 0 ∧
    ((runUp b (cfgOf b) c fuel plan data 0 data.length old).final.visible = old ∨
      (runUp b (cfgOf b) c fuel plan data 0 data.length old).final.visible = some data) :=
  runUp_never_partial b (cfgOf b) (cfg_sound b).1 c hc data old plan fuel

/-- **No self-inflicted attempt.**  For every plan: the client never needs more attempts than faults were injected, plus one —
no attempt fails because of what an earlier attempt (or the digest pass) left behind. -/
theorem no_self_inflicted_attempt (b : Backend) (c : Nat) (hc : 0 < c) (data : Bytes) (old : Option Bytes) (sink0 : Bytes) (file : Bool)
    (plan : List Fault) (fuel : Nat) :
    (runUp b (cfgOf b) c fuel plan data 0 data.length old).attempts ≤ plan.length + 1 ∧
    (runDown b (cfgOf b) c fuel plan data sink0 0 file).attempts ≤ plan.length + 1 :=
  ⟨runUp_attempts_le b (cfgOf b) (cfg_sound b).1 c hc data old plan fuel,
   runDown_attempts_le b (cfgOf b) (cfg_sound b).2.1 c hc data sink0 file plan fuel⟩

/-! ## bounded -/

/-- **Bounded (all backends, partial for B2).**  For plans without the B2 re-authentication fault class: at most `max_tries`
attempts, upload and download.  Missing for the full statement: B2 answers with a status other than 429 / 403 — see
`b2_status_unbounded_witness`. -/
theorem bounded_partial (b : Backend) (c : Nat) (hc : 0 < c) (data : Bytes) (old : Option Bytes) (sink0 : Bytes) (file : Bool)
    (plan : List Fault) (fuel : Nat) (hcl : ∀ x ∈ plan, NoReauthFault b x) :
    (runUp b (cfgOf b) c fuel plan data 0 data.length old).attempts ≤ budget b ∧
    (runDown b (cfgOf b) c fuel plan data sink0 0 file).attempts ≤ budget b := by
  obtain ⟨h1, h2, h3, h4, h5, h6, _, _⟩ := cfg_sound b
  exact ⟨runUp_bounded b (cfgOf b) h1 h3 h5 c hc data old plan fuel hcl,
         runDown_bounded b (cfgOf b) h2 h4 h6 c hc data sink0 file plan fuel hcl⟩

/-- **Persistent faults end in an error (all backends, partial for B2).**  At least `max_tries` faults that fire, none of the B2
re-authentication class ⇒ the call ends with an exception (and, by `bounded_partial`, after at most `max_tries` attempts). -/
theorem persistent_error_partial (b : Backend) (c : Nat) (hc : 0 < c) (data : Bytes) (old : Option Bytes) (sink0 : Bytes) (file : Bool)
    (fuel : Nat) (hfuel : budget b ≤ fuel) :
    (∀ plan : List Fault, (∀ x ∈ plan, NoReauthFault b x ∧ UpHard b x) → budget b ≤ plan.length →
      ∃ e, (runUp b (cfgOf b) c fuel plan data 0 data.length old).outcome = .error e) ∧
    (∀ plan : List Fault, (∀ x ∈ plan, NoReauthFault b x ∧ DownHard b x) → budget b ≤ plan.length →
      ∃ e, (runDown b (cfgOf b) c fuel plan data sink0 0 file).outcome = .error e) := by
  obtain ⟨h1, h2, h3, h4, h5, h6, _, _⟩ := cfg_sound b
  exact ⟨fun plan hcl hlen => runUp_persistent b (cfgOf b) h1 h3 h5 c hc data old plan fuel hcl hlen hfuel,
         fun plan hcl hlen => runDown_persistent b (cfgOf b) h2 h4 h6 c hc data sink0 file plan fuel hcl hlen hfuel⟩

/-- **Bounded (local, S3): full.**  Every plan whatsoever: at most `max_tries` attempts. -/
theorem bounded_local_s3 (b : Backend) (hb : b ≠ .b2) (c : Nat) (hc : 0 < c) (data : Bytes) (old : Option Bytes) (sink0 : Bytes)
    (file : Bool) (plan : List Fault) (fuel : Nat) :
    (runUp b (cfgOf b) c fuel plan data 0 data.length old).attempts ≤ budget b ∧
    (runDown b (cfgOf b) c fuel plan data sink0 0 file).attempts ≤ budget b :=
  bounded_partial b c hc data old sink0 file plan fuel (fun x _ => statusIn_noReauth_local b hb (cfgOf b) x)

/-- **Persistent faults end in an error (local, S3): full.** -/
theorem persistent_error_local_s3 (b : Backend) (hb : b ≠ .b2) (c : Nat) (hc : 0 < c) (data : Bytes) (old : Option Bytes) (sink0 : Bytes)
    (file : Bool) (fuel : Nat) (hfuel : budget b ≤ fuel) :
    (∀ plan : List Fault, (∀ x ∈ plan, UpHard b x) → budget b ≤ plan.length →
      ∃ e, (runUp b (cfgOf b) c fuel plan data 0 data.length old).outcome = .error e) ∧
    (∀ plan : List Fault, (∀ x ∈ plan, DownHard b x) → budget b ≤ plan.length →
      ∃ e, (runDown b (cfgOf b) c fuel plan data sink0 0 file).outcome = .error e) := by
  obtain ⟨p1, p2⟩ := persistent_error_partial b c hc data old sink0 file fuel hfuel
  exact ⟨fun plan h hl => p1 plan (fun x hx => ⟨statusIn_noReauth_local b hb (cfgOf b) x, h x hx⟩) hl,
         fun plan h hl => p2 plan (fun x hx => ⟨statusIn_noReauth_local b hb (cfgOf b) x, h x hx⟩) hl⟩

/-! ## B2: the re-authentication recursion (defect candidate D9) -/

/-- the B2 configuration as extracted, with the number of re-authentication rounds explicitly unbounded (what the current source
has: `requires_auth` calls itself again after every `AuthRequired`) -/
def b2Unbounded : Cfg := { cfgOf .b2 with reauthLimit := none }

/-- **Negation witness for the full `bounded` on B2.**  For EVERY n: n consecutive 500 answers (or 401 answers) to the upload are
each followed by a re-authentication and a fresh attempt — n + 1 attempts, n re-authentications, not one back-off sleep, and the
call finally succeeds; with n beyond any fuel the model is still running (never an error).  The back-off handler raises
`AuthRequired` before the try counter matters, `requires_auth` re-authenticates and calls again with a fresh counter. -/
theorem b2_status_unbounded_witness (c : Nat) (hc : 0 < c) (data : Bytes) (old : Option Bytes) (n fuel : Nat) (code : Nat)
    (hcode : code = 500 ∨ code = 503 ∨ code = 401) :
    (runUp .b2 b2Unbounded c fuel (List.replicate n (.status code false)) data 0 data.length old).outcome = (if n < fuel then .ok else .fuel) ∧
    (runUp .b2 b2Unbounded c fuel (List.replicate n (.status code false)) data 0 data.length old).attempts = min (n + 1) fuel ∧
    (runUp .b2 b2Unbounded c fuel (List.replicate n (.status code false)) data 0 data.length old).sleeps = 0 ∧
    (runUp .b2 b2Unbounded c fuel (List.replicate n (.status code false)) data 0 data.length old).reauths = min n fuel := by
  have hs : UpSound .b2 b2Unbounded := by decide
  have hg : b2Unbounded.giveupStatus ≠ some code := by rcases hcode with h | h | h <;> subst h <;> decide
  have hp : b2Unbounded.plainRetryStatus ≠ some code := by rcases hcode with h | h | h <;> subst h <;> decide
  rw [runUp_eq .b2 b2Unbounded hs]
  exact b2_restart_run b2Unbounded hs (by decide) (by decide) (by decide) rfl (by decide) code hg hp c hc data old n fuel 0 _
    (uinv_start data old)

/-- **What a bound on the rounds buys (the candidate fix).**  With at most `l` re-authentication rounds per call, every plan —
any mixture of 5xx, 401, 429, transport errors — is answered with at most `(l + 1) · max_tries` attempts, upload and download. -/
theorem b2_bounded_with_reauth_limit (l : Nat) (c fuel : Nat) (plan : List Fault) (data : Bytes) (old : Option Bytes) (sink0 : Bytes)
    (file : Bool) :
    (runUp .b2 { cfgOf .b2 with reauthLimit := some l } c fuel plan data 0 data.length old).attempts ≤ (l + 1) * budget .b2 ∧
    (runDown .b2 { cfgOf .b2 with reauthLimit := some l } c fuel plan data sink0 0 file).attempts ≤ (l + 1) * budget .b2 := by
  have hm : ({ cfgOf .b2 with reauthLimit := some l } : Cfg).maxTries = some ({ cfgOf .b2 with reauthLimit := some l } : Cfg).budget :=
    (cfg_sound .b2).2.2.1.1
  have hb : 1 ≤ ({ cfgOf .b2 with reauthLimit := some l } : Cfg).budget := (cfg_sound .b2).2.2.1.2.1
  exact ⟨runUp_bounded_reauth .b2 _ hm hb l rfl c fuel plan data 0 data.length old,
         runDown_bounded_reauth .b2 _ hm hb l rfl c fuel plan data sink0 0 file⟩

/-! ## the hypotheses are needed: the same model without the rewind / truncate / unlink -/

/-- **`seek(0)` is needed.**  One fault inside the transfer, well within the budget, on the model WITHOUT the rewind:
local — the call succeeds and a partial object (the tail of the payload) becomes visible;
S3 — the retried body is short, the service refuses it, the call fails although the fault was transient;
download — the call succeeds and the sink holds the first chunks twice. -/
theorem rewind_needed :
    (runUp .local { cfgOf .local with upRewind := none } 3 10 [.mid 1] [1, 2, 3, 4, 5, 6, 7, 8, 9, 10] 0 10 none).outcome = .ok ∧
    (runUp .local { cfgOf .local with upRewind := none } 3 10 [.mid 1] [1, 2, 3, 4, 5, 6, 7, 8, 9, 10] 0 10 none).final.visible
      = some [7, 8, 9, 10] ∧
    (runUp .s3 { cfgOf .s3 with upRewind := none } 3 10 [.mid 2] [1, 2, 3, 4, 5, 6, 7, 8, 9, 10] 0 10 none).outcome
      = .error (.status 400 false) ∧
    (runDown .s3 { cfgOf .s3 with downRewind := none } 3 10 [.cut 7] [1, 2, 3, 4, 5, 6, 7, 8, 9, 10] [] 0 false).outcome = .ok ∧
    (runDown .s3 { cfgOf .s3 with downRewind := none } 3 10 [.cut 7] [1, 2, 3, 4, 5, 6, 7, 8, 9, 10] [] 0 false).final.buf
      = [1, 2, 3, 4, 5, 6, 1, 2, 3, 4, 5, 6, 7, 8, 9, 10] := by
  refine ⟨by decide, by decide, by decide, by decide, by decide⟩

/-- **`truncate(length)` is needed.**  Without it a sink that held more than the object keeps its tail. -/
theorem truncate_needed :
    (runDown .local { cfgOf .local with downTruncate := false } 3 10 [] [1, 2, 3, 4] [9, 9, 9, 9, 9, 9] 0 false).outcome = .ok ∧
    (runDown .local { cfgOf .local with downTruncate := false } 3 10 [] [1, 2, 3, 4] [9, 9, 9, 9, 9, 9] 0 false).final.buf
      = [1, 2, 3, 4, 9, 9] := by
  refine ⟨by decide, by decide⟩

/-- **`temp.unlink()` is needed.**  Without it a failed local attempt leaves its temp file in the repository. -/
theorem cleanup_needed :
    (runUp .local { cfgOf .local with upUnlink := false } 3 10 [.mid 1] [1, 2, 3, 4, 5, 6, 7, 8, 9, 10] 0 10 none).outcome = .ok ∧
    (runUp .local { cfgOf .local with upUnlink := false } 3 10 [.mid 1] [1, 2, 3, 4, 5, 6, 7, 8, 9, 10] 0 10 none).final.temps = 1 := by
  refine ⟨by decide, by decide⟩

/-- **An empty give-up table is needed.**  The same model with a `giveup=` predicate that singles out ENOENT: ONE fault of that
class (the directory of the object vanished before the temp file was created), with 4 tries left, ends the upload with the
error after a single attempt and stores nothing — while the same fault with any other errno is masked. -/
theorem errno_giveup_breaks_masked :
    (runUp .local { cfgOf .local with giveupOs := [2] } 3 10 [.errno 2 .mktemp] [1, 2, 3, 4, 5, 6, 7, 8, 9, 10] 0 10 none).outcome
      = .error (.os 2) ∧
    (runUp .local { cfgOf .local with giveupOs := [2] } 3 10 [.errno 2 .mktemp] [1, 2, 3, 4, 5, 6, 7, 8, 9, 10] 0 10 none).attempts = 1 ∧
    (runUp .local { cfgOf .local with giveupOs := [2] } 3 10 [.errno 2 .mktemp] [1, 2, 3, 4, 5, 6, 7, 8, 9, 10] 0 10 none).final.visible
      = none ∧
    (runUp .local { cfgOf .local with giveupOs := [2] } 3 10 [.errno 13 .mktemp] [1, 2, 3, 4, 5, 6, 7, 8, 9, 10] 0 10 none).outcome = .ok ∧
    (runDown .local { cfgOf .local with giveupOs := [2] } 3 10 [.errno 2 (.mid 1)] [1, 2, 3, 4, 5, 6, 7] [] 0 false).outcome
      = .error (.os 2) := by
  refine ⟨by decide, by decide, by decide, by decide, by decide⟩

/-! ## totality of the model -/

/-- The fuel is never the reason for stopping: with more fuel than faults the model always reaches a verdict. -/
theorem fuel_enough (b : Backend) (c : Nat) (hc : 0 < c) (data : Bytes) (old : Option Bytes) (sink0 : Bytes) (file : Bool)
    (plan : List Fault) (fuel : Nat) (hfuel : plan.length < fuel) :
    (runUp b (cfgOf b) c fuel plan data 0 data.length old).outcome ≠ .fuel ∧
    (runDown b (cfgOf b) c fuel plan data sink0 0 file).outcome ≠ .fuel :=
  ⟨runUp_fuel_enough b (cfgOf b) (cfg_sound b).1 c hc data old plan fuel hfuel,
   runDown_fuel_enough b (cfgOf b) (cfg_sound b).2.1 c hc data sink0 file plan fuel hfuel⟩

/-! ## sessions: credentials with a lifetime on one long-lived B2 object -/

open Replicat.Cred in
/-- The configuration of the session model extracted from the current source: upload credentials are requested afresh by every
call of `_get_upload_url_token` (nothing about them is kept on the object), `upload` / `upload_stream` call it inside the body that
is retried and re-authenticated, every B2 method that talks to the service is `requires_auth(backoff_reauth(…))`, the response hook
turns a 401 into `AuthRequired` and `requires_auth` answers `AuthRequired` with `authenticate()` and another call. -/
theorem credentials_cfg_sound :
    Cred.Sound Cred.cfgB2 ∧ Gen.retryB2UploadCredsInAttempt = true ∧ Cred.cfgB2.decorated = true ∧ Cred.cfgB2.requiresAuth = true := by
  decide

open Replicat.Cred in
/-- **Expired / revoked credentials are masked, within a constant number of requests.**  Take ANY state of the service and of the
long-lived backend object — whatever account tokens, upload URLs and upload tokens were issued, have expired or were revoked, whether
the object has authenticated, knows its bucket, holds a dead account token — and any operation (upload, download of an object that
is there, exists, delete, list).  The operation returns normally with exactly what the abstract store `Name → Option Bytes` says,
the objects at the service are what the abstract store says, the service saw at most 5 requests of which at most one is a
re-authorisation, nothing slept — and the object is left with a valid account token. -/
theorem credential_expiry_masked (F : Nat) (hF : 2 ≤ F) (s : Sess) (hw : WF s) (o : Op) (hp : Present s.store o) :
    (runOp cfgB2 F o none s).1.out = .ok (specVal (specStore s.store o) o) ∧
    (runOp cfgB2 F o none s).2.store = specStore s.store o ∧
    (runOp cfgB2 F o none s).1.requests ≤ 5 ∧ (runOp cfgB2 F o none s).1.auths ≤ 1 ∧ (runOp cfgB2 F o none s).1.sleeps = 0 ∧
    WF (runOp cfgB2 F o none s).2 ∧ (runOp cfgB2 F o none s).2.acctOk = true := by
  obtain ⟨f, rfl⟩ : ∃ f, F = f + 2 := ⟨F - 2, by omega⟩
  obtain ⟨h1, h2, h3, h4, h5, h6, _, h8⟩ := runOp_spec cfgB2 credentials_cfg_sound.1 f o s hw hp
  exact ⟨h1, h2, h3, h4, h5, h6, h8⟩

open Replicat.Cred in
/-- **A long-lived object behaves as the abstract store, whatever happens to its credentials.**  Every history of operations on one
B2 object with credential events (account tokens expire, upload URLs / tokens expire, both, upload pods are retired) anywhere between
the operations, started on a fresh object or in any other state: every operation returns what the abstract store returns, each after
at most 5 requests, at most one re-authorisation and no sleep. -/
theorem session_refines_store (F : Nat) (hF : 2 ≤ F) (steps : List Step) (s : Sess) (hw : WF s) (hok : StepsOk s.store steps) :
    (runSession cfgB2 F steps s).map (·.out) = (specSession steps s.store).map R.ok ∧
    ∀ r ∈ runSession cfgB2 F steps s, r.requests ≤ 5 ∧ r.auths ≤ 1 ∧ r.sleeps = 0 := by
  obtain ⟨f, rfl⟩ : ∃ f, F = f + 2 := ⟨F - 2, by omega⟩
  exact runSession_spec cfgB2 credentials_cfg_sound.1 f steps s hw hok

/-- the session configuration as extracted, but with upload credentials KEPT on the object and handed out again by
`_get_upload_url_token` (and `requires_auth` unbounded, as in the source) -/
def cachedCreds : Cred.Cfg := { Cred.cfgB2 with credsFresh := false, base := b2Unbounded }

open Replicat.Cred in
/-- **Fresh upload credentials are needed.**  The same model with the pair kept on the object: in ANY state in which the object
holds upload credentials the service no longer accepts, an upload never ends — for every fuel `F + 1` the model is still running
after `F + 1` attempts and `F + 1` authorisations (each re-authentication renews the account token only, the dead upload token is
presented again) — and nothing is stored.  ONE upload followed by ONE expiry event leaves such a state: with the pair kept, the
history upload ; ⟨upload credentials expire⟩ ; upload does not get past its second upload, with the extracted configuration both
uploads return. -/
theorem cached_upload_credentials_unbounded_witness (F n : Nat) (d : Bytes) (s : Sess) (u : Nat)
    (hq : Quiet s) (hau : s.authed = true) (hu : s.upCred = some u) (hx : u < s.upLive) :
    (uploadOp cachedCreds (F + 1) n d s).1 = .fuel ∧ (uploadOp cachedCreds (F + 1) n d s).2.store = s.store ∧
    (uploadOp cachedCreds (F + 1) n d s).2.auths = s.auths + (F + 1) ∧
    (runSession cachedCreds 8 [.op (.upload 0 [1, 2]) none, .ev .expireUpload, .op (.upload 1 [3]) none] (Sess.init false)).map (·.out)
      = [.ok .unit, .fuel] ∧
    (runSession cfgB2 8 [.op (.upload 0 [1, 2]) none, .ev .expireUpload, .op (.upload 1 [3]) none] (Sess.init false)).map (·.out)
      = [.ok .unit, .ok .unit] := by
  have hpol : ∀ rounds, cachedCreds.pol .auth 1 rounds = .reauth false := by
    intro rounds
    show policy .b2 cachedCreds.base cachedCreds.decorated cachedCreds.requiresAuth .auth 1 rounds = _
    rw [policy_auth]
    have h1 : cachedCreds.requiresAuth = true := by decide
    have h2 : cachedCreds.base.reauthOnAuthRequired = true := by decide
    have h3 : reauthAllowed cachedCreds.base rounds = true := rfl
    simp [h1, h2, h3]
  obtain ⟨r1, r2, r3, _⟩ := stale_upload cachedCreds rfl (by decide) hpol n d u F s hq hau hu hx
  exact ⟨r1, r2, r3, by decide, by decide⟩

/-! ## non-vacuity -/

open Replicat.Cred in
/-- a history with every kind of credential event between operations satisfies the hypothesis of `session_refines_store`, and the
model needs re-authorisations to get through it (the events bite) -/
example : StepsOk (Sess.init false).store
      [.op (.upload 0 [1, 2]) none, .ev .expireAll, .op (.upload 1 [3]) none, .ev .expireUpload, .op (.upload 0 [4]) none,
       .ev .retirePods, .op (.download 0) none, .ev .expireAccount, .op (.list 3) none, .op (.delete 1) none, .op (.exists 1) none] ∧
    (runSession cfgB2 5 [.op (.upload 0 [1, 2]) none, .ev .expireAll, .op (.upload 1 [3]) none, .ev .expireUpload, .op (.upload 0 [4]) none,
       .ev .retirePods, .op (.download 0) none, .ev .expireAccount, .op (.list 3) none, .op (.delete 1) none, .op (.exists 1) none]
       (Sess.init false)).map (fun r => (r.requests, r.auths)) = [(4, 1), (4, 1), (2, 0), (1, 0), (3, 1), (1, 0), (1, 0)] := by
  refine ⟨⟨rfl, trivial, rfl, trivial, rfl, trivial, rfl, rfl, rfl, trivial, rfl, trivial, rfl, trivial, trivial⟩, by decide⟩


/-- the hypotheses of `masked_upload` are satisfiable with faults strictly inside the transfer, and its conclusion is what the
model computes -/
example : (∀ x ∈ [Fault.mid 1, Fault.mid 2, Fault.rename], Transient .local x) ∧ [Fault.mid 1, Fault.mid 2, Fault.rename].length < budget .local ∧
    (runUp .local (cfgOf .local) 3 10 [.mid 1, .mid 2, .rename] [1, 2, 3, 4, 5, 6, 7, 8, 9, 10] 0 10 (some [0])).attempts = 4 ∧
    (runUp .local (cfgOf .local) 3 10 [.mid 1, .mid 2, .rename] [1, 2, 3, 4, 5, 6, 7, 8, 9, 10] 0 10 (some [0])).final.visible
      = some [1, 2, 3, 4, 5, 6, 7, 8, 9, 10] := by
  refine ⟨?_, by decide, by decide, by decide⟩
  intro x _ code ra h
  exact fun h' => by cases h'

/-- OSErrors of different classes at different places of a local transfer (ENOENT when the temp file is created, ENOSPC in the
middle of the copy, EACCES from the rename, an OSError without errno from the payload stream): masked, one attempt per fault -/
example : (∀ x ∈ [Fault.errno 2 .mktemp, .errno 28 (.mid 1), .errno 13 .rename, .errno 0 (.src 2)], Transient .local x) ∧
    (∀ x ∈ [Fault.errno 2 .mktemp, .errno 13 .rename], UpHard .local x) ∧
    (runUp .local (cfgOf .local) 3 10 [.errno 2 .mktemp, .errno 28 (.mid 1), .errno 13 .rename, .errno 0 (.src 2)]
      [1, 2, 3, 4, 5, 6, 7, 8, 9, 10] 0 10 none).attempts = 5 ∧
    (runUp .local (cfgOf .local) 3 10 [.errno 2 .mktemp, .errno 28 (.mid 1), .errno 13 .rename, .errno 0 (.src 2)]
      [1, 2, 3, 4, 5, 6, 7, 8, 9, 10] 0 10 none).final.visible = some [1, 2, 3, 4, 5, 6, 7, 8, 9, 10] ∧
    (runUp .local (cfgOf .local) 3 10 (List.replicate 7 (.errno 2 .mktemp)) [1, 2, 3, 4] 0 4 none).outcome = .error (.os 2) ∧
    (runUp .local (cfgOf .local) 3 10 (List.replicate 7 (.errno 2 .mktemp)) [1, 2, 3, 4] 0 4 none).attempts = budget .local ∧
    (runDown .local (cfgOf .local) 3 10 [.errno 2 .pre, .errno 116 (.mid 1)] [1, 2, 3, 4, 5, 6, 7] [8, 8] 0 true).final.buf
      = [1, 2, 3, 4, 5, 6, 7] := by
  refine ⟨?_, ?_, by decide, by decide, by decide, by decide, by decide⟩
  · intro x _ code ra h
    exact fun h' => by cases h'
  · intro x hx
    simp only [List.mem_cons, List.not_mem_nil, or_false] at hx
    rcases hx with rfl | rfl <;> exact trivial

/-- mixed B2 plan within the budget (429, a broken connection, a 500 that triggers one re-authentication): masked -/
example : (runUp .b2 (cfgOf .b2) 3 10 [.status 429 false, .mid 2, .status 500 false] [1, 2, 3, 4, 5, 6, 7] 0 7 none).outcome = .ok ∧
    (runUp .b2 (cfgOf .b2) 3 10 [.status 429 false, .mid 2, .status 500 false] [1, 2, 3, 4, 5, 6, 7] 0 7 none).reauths = 1 ∧
    (runDown .b2 (cfgOf .b2) 3 10 [.cut 4, .status 401 false] [1, 2, 3, 4, 5, 6, 7] [8, 8] 0 true).final.buf = [1, 2, 3, 4, 5, 6, 7] := by
  refine ⟨by decide, by decide, by decide⟩

/-- persistent faults: the S3 upload gives up after exactly `max_tries` attempts with the last error -/
example : (runUp .s3 (cfgOf .s3) 3 10 (List.replicate 9 (.status 503 false)) [1, 2, 3, 4] 0 4 none).attempts = budget .s3 ∧
    (runUp .s3 (cfgOf .s3) 3 10 (List.replicate 9 (.status 503 false)) [1, 2, 3, 4] 0 4 none).outcome = .error (.status 503 false) := by
  refine ⟨by decide, by decide⟩

end Replicat.C12
