import ReplicatProofs.Lemmas.SymView
import ReplicatProofs.Lemmas.SymBackend
/-!
# C05 — an encrypted repository reveals no plaintext at rest

Property theorems only.  Object: `written a ops` of `ReplicatModel/Sym.lean` — every `(name, content)` pair emitted by `init`,
`add-key` (shared or independent), `snapshot` and `delete`/`clean` (`Op.remove`: they upload nothing) over ANY history, for any
chunk plaintexts, paths, metadata, notes and passwords; the emitted key files are included (an observer may see them).

The observer is the full Dolev–Yao closure `DY`: projections, decryption with any key he can derive, and every constructor
(pairing, hashing, MAC, KDF, encryption) applied to what he already has.  Assumption: ideal cryptography (free term algebra),
fresh `os.urandom` values (the supply counter); lengths and access patterns are not modelled (the property does not ask for
them).  Well-formedness of the inputs (`InitArgs.wf`, `Op.wf`): algorithm settings are public constants, passwords are secrets.

Clients.  `run` lets every command act under the repository's own `encrypted` flag.  The code takes that flag from whatever
bytes the client parsed as the config, so the last three theorems speak about `runView`: every command carries the view its
client really had.  `client_history_public` — secrecy for every history of client commands whose views are faithful, whatever
client-side state (shared cache directory, other repositories, earlier incarnations of the location) surrounds them;
`stale_view_leaks` — the hypothesis is necessary (false of the model AND of any code that lets client state decide the view);
the harness checks the hypothesis on the real code by running several repositories through one client state and feeding the
views the real clients had to the model.

Backends.  `run` / `runView` decide per chunk by a lookup in the model's own store: the backend is a faithful map and nobody else
touches it during a snapshot.  The last four theorems drop that: in `runB` (ReplicatModel/SymBackend.lean) a snapshot is a list of
events — the next chunk with WHATEVER `exists` answered for it, or a removal of arbitrary objects by somebody else (another
client's clean / delete, an eventually-consistent store).  `adversarial_backend_public` — secrecy and nonce freshness for every
such history (it consumes the extracted shapes `Gen.chunkQueuedIsCiphertext` — the producer queues ciphertext for EVERY chunk of an
encrypted repository — and `Gen.chunkUploadIsQueuedContents` — the worker uploads the queued object); `honest_backend_is_snapshot` / `backend_history_refines` — with truthful answers and no interference this
is `step` / `runView`; `plaintext_queue_leaks` — the shape is necessary: a producer that may queue a plain chunk (because it
"knows" the chunk is stored) leaks it as soon as one answer is `False`.
-/
namespace Replicat.C05
open Replicat Replicat.Sym
open Term (pub sec nonce key nil pair mac kdf enc)

/-- Dolev–Yao closure of a set `W` of observed terms -/
inductive DY (W : Term → Prop) : Term → Prop
  | init {t} : W t → DY W t
  | pub (n) : DY W (pub n)
  | nonce (n) : DY W (nonce n)
  | nil : DY W nil
  | fst {a b} : DY W (pair a b) → DY W a
  | snd {a b} : DY W (pair a b) → DY W b
  | dec {k n t} : DY W (enc k n t) → DY W k → DY W t
  | pair {a b} : DY W a → DY W b → DY W (pair a b)
  | hash {t} : DY W t → DY W (Term.hash t)
  | mac {k t} : DY W k → DY W t → DY W (mac k t)
  | kdf {k s c} : DY W k → DY W s → DY W c → DY W (kdf k s c)
  | enc {k n t} : DY W k → DY W n → DY W t → DY W (enc k n t)

/-- what the observer of a history has: every name and every content ever emitted -/
def Seen (a : InitArgs) (ops : List Op) (t : Term) : Prop := ∃ e ∈ written a ops, t = e.1 ∨ t = e.2

/-- **`Public` is closed under everything the observer can do.** -/
theorem analz_public (W : Term → Prop) (hW : ∀ t, W t → Public t = true) (t : Term) (h : DY W t) : Public t = true := by
  induction h with
  | init h => exact hW _ h
  | pub n => rfl
  | nonce n => rfl
  | nil => rfl
  | fst _ ih => simp [Public] at ih; exact ih.1
  | snd _ ih => simp [Public] at ih; exact ih.2
  | dec _ _ ih1 ih2 =>
    simp only [Public, Bool.and_eq_true, Bool.or_eq_true, Bool.not_eq_true'] at ih1
    rcases ih1.2 with h | h
    · rw [ih2] at h; cases h
    · exact h
  | pair _ _ ih1 ih2 => simp [Public, ih1, ih2]
  | hash _ ih => simpa [Public] using ih
  | mac _ _ ih1 ih2 => simp [Public, ih2]
  | kdf _ _ _ ih1 ih2 ih3 => simp [Public, ih1, ih2, ih3]
  | enc _ _ _ ih1 ih2 ih3 => simp [Public, ih2, ih3]

/-- **Everything written is public**, by induction over the history: every object name and every object / key file emitted by
init, add-key, snapshot, delete and clean of an encrypted repository. -/
theorem written_public (a : InitArgs) (ha : a.wf) (he : a.encrypted = true) (ops : List Op) (hops : ∀ op ∈ ops, op.wf) :
    ∀ e ∈ written a ops, Public e.1 = true ∧ Public e.2 = true := by
  intro e hmem
  have := (inv_run a ha he ops hops).log e hmem
  exact ⟨this.1, this.2.1⟩

/-- **No plaintext, digest or key at rest.**  From everything ever written the observer derives no secret atom (file bytes,
path, metadata, note, password), no content digest of a secret, no generated secret (shared key, MAC key, chunker key,
shared-KDF salt), no key derived from a password, and no derived chunk / chunk-table key. -/
theorem no_plain_secret (a : InitArgs) (ha : a.wf) (he : a.encrypted = true) (ops : List Op) (hops : ∀ op ∈ ops, op.wf) :
    (∀ s, ¬ DY (Seen a ops) (sec s)) ∧ (∀ s, ¬ DY (Seen a ops) (Term.hash (sec s))) ∧ (∀ k, ¬ DY (Seen a ops) (key k)) ∧
    (∀ u ∈ (run a ops).users, ¬ DY (Seen a ops) (userKeyOf u.pw u.salt) ∧ ∀ ctx, ¬ DY (Seen a ops) (subKey (u.props true) ctx)) := by
  have hW : ∀ t, Seen a ops t → Public t = true := by
    rintro t ⟨e, hmem, h | h⟩
    · rw [h]; exact (written_public a ha he ops hops e hmem).1
    · rw [h]; exact (written_public a ha he ops hops e hmem).2
  have key : ∀ t, Public t = false → ¬ DY (Seen a ops) t := by
    intro t ht h
    have := analz_public _ hW t h
    rw [ht] at this; cases this
  refine ⟨fun s => key _ rfl, fun s => key _ rfl, fun k => key _ rfl, ?_⟩
  intro u hu
  have huo := (inv_run a ha he ops hops).users u hu
  have hk := keysOK_of_user huo
  exact ⟨key _ hk.2.1, fun ctx => key _ (public_subKey hk ctx)⟩

/-- **Names are keyed MACs.**  Every emitted name is `config`, a key-file label, `data/<mac>/<mac>` or
`snapshots/<mac>/<hash of the stored ciphertext>` — never the plain hash of a content. -/
theorem names_are_macs (a : InitArgs) (ha : a.wf) (he : a.encrypted = true) (ops : List Op) (hops : ∀ op ∈ ops, op.wf) :
    ∀ e ∈ written a ops, nameKeyed e.1 = true :=
  fun e hmem => ((inv_run a ha he ops hops).log e hmem).2.2.1

/-- **Only the algorithm settings are readable without a key.**  Whatever is written under `config` is the caller's settings
term itself (nothing generated and no password flows into it), and it is written. -/
theorem config_public_only (a : InitArgs) (ha : a.wf) (he : a.encrypted = true) (ops : List Op) (hops : ∀ op ∈ ops, op.wf) :
    (∀ e ∈ written a ops, e.1 = configLoc → e.2 = a.cfg) ∧ Public a.cfg = true :=
  ⟨fun e hmem => ((inv_run a ha he ops hops).log e hmem).2.2.2, ha.1⟩

/-- **No nonce is used twice.**  Over the whole history the nonces of all AEAD encryptions (private sections, chunks —
uploaded or not —, chunk tables, snapshot data) are pairwise distinct; in particular no two ciphertexts under one key share a
nonce. -/
theorem nonces_fresh (a : InitArgs) (ha : a.wf) (he : a.encrypted = true) (ops : List Op) (hops : ∀ op ∈ ops, op.wf) :
    ((run a ops).uses.map (·.2)).Nodup ∧ (run a ops).uses.Nodup := by
  have h := (inv_run a ha he ops hops).usesNodup
  refine ⟨h, ?_⟩
  unfold List.Nodup at h ⊢
  exact (List.pairwise_map.mp h).imp (fun hne heq => hne (by rw [heq]))

/-- **delete / clean upload nothing.** -/
theorem remove_writes_nothing (a : InitArgs) (ops : List Op) (locs : List Term) :
    written a (ops ++ [.remove locs]) = written a ops := by
  simp [written, run, List.foldl_append, step]

/-- **Faithful clients write what `run` writes.**  If every command is issued under the repository's own flag, the history of
client commands is the history of `run` — no other component of a client's state enters the model. -/
theorem faithful_views_run (a : InitArgs) (ops : List (Bool × Op)) (hv : ∀ vo ∈ ops, vo.1 = a.encrypted) :
    runView a ops = run a (ops.map (·.2)) := by
  unfold runView run
  apply foldl_view_faithful
  intro vo hvo
  rw [initSt_encrypted]
  exact hv vo hvo

/-- **Secrecy for every history of client commands with faithful views**: all that is emitted is public, every name is keyed,
and the observer derives no secret atom, no digest of one and no generated key. -/
theorem client_history_public (a : InitArgs) (ha : a.wf) (he : a.encrypted = true) (ops : List (Bool × Op))
    (hops : ∀ vo ∈ ops, vo.2.wf) (hv : ∀ vo ∈ ops, vo.1 = true) :
    (∀ e ∈ writtenView a ops, Public e.1 = true ∧ Public e.2 = true ∧ nameKeyed e.1 = true) ∧
    (∀ s, ¬ DY (fun t => ∃ e ∈ writtenView a ops, t = e.1 ∨ t = e.2) (sec s)) ∧
    (∀ s, ¬ DY (fun t => ∃ e ∈ writtenView a ops, t = e.1 ∨ t = e.2) (Term.hash (sec s))) ∧
    (∀ k, ¬ DY (fun t => ∃ e ∈ writtenView a ops, t = e.1 ∨ t = e.2) (key k)) := by
  have hrun : writtenView a ops = written a (ops.map (·.2)) := by
    unfold writtenView written
    rw [faithful_views_run a ops (fun vo hvo => by rw [hv vo hvo, he])]
  have hw : ∀ op ∈ ops.map (·.2), op.wf := by
    intro op hop
    obtain ⟨vo, hvo, rfl⟩ := List.mem_map.mp hop
    exact hops vo hvo
  rw [hrun]
  obtain ⟨h1, h2, h3, _⟩ := no_plain_secret a ha he _ hw
  refine ⟨fun e hmem => ?_, h1, h2, h3⟩
  exact ⟨(written_public a ha he _ hw e hmem).1, (written_public a ha he _ hw e hmem).2, names_are_macs a ha he _ hw e hmem⟩

/-- **The hypothesis on the views is necessary** (negation witness of the statement without it): ONE snapshot issued by a client
that believes an encrypted repository to be unencrypted stores the chunk in the clear, under a name that is the plain digest of
its content, and the snapshot body (path, metadata, note, digests) unencrypted. -/
theorem stale_view_leaks :
    ∃ (a : InitArgs) (ops : List (Bool × Op)), a.wf ∧ a.encrypted = true ∧ (∀ vo ∈ ops, vo.2.wf) ∧
      (∃ e ∈ writtenView a ops, Public e.2 = false ∧ nameKeyed e.1 = false) ∧
      (∃ s, DY (fun t => ∃ e ∈ writtenView a ops, t = e.1 ∨ t = e.2) (sec s)) := by
  refine ⟨⟨true, pub 10, pub 11, pub 12, sec 100⟩,
    [(false, .snapshot 0 [sec 1] ⟨1, [⟨sec 50, [⟨0, 1, 0, 4⟩], Term.hash (sec 60), sec 70⟩], sec 80⟩)], ?_, rfl, ?_, ?_, ?_⟩
  · exact ⟨rfl, rfl, rfl, rfl⟩
  · intro vo hvo
    simp only [List.mem_singleton] at hvo
    subst hvo
    trivial
  · exact ⟨(pair prefixChunk (pair (digest (sec 1)) (digest (sec 1))), sec 1), by decide +kernel, rfl, by decide +kernel⟩
  · exact ⟨1, DY.init ⟨(pair prefixChunk (pair (digest (sec 1)) (digest (sec 1))), sec 1), by decide +kernel, Or.inr rfl⟩⟩

/-- **Secrecy whatever the backend answers.**  Every history of client commands (faithful views) in which snapshots run against
an ARBITRARY backend — each `exists` may answer anything, objects may vanish between any two calls (another client's clean /
delete, eventual consistency), for any stream (any number of repeats of a chunk): all that is emitted is public, every name is
keyed, the observer derives no secret atom, no digest of one and no generated key, and no nonce is used twice. -/
theorem adversarial_backend_public (a : InitArgs) (ha : a.wf) (he : a.encrypted = true) (ops : List (Bool × BOp))
    (hops : ∀ vo ∈ ops, vo.2.wf) (hv : ∀ vo ∈ ops, vo.1 = true) :
    (∀ e ∈ writtenB a ops, Public e.1 = true ∧ Public e.2 = true ∧ nameKeyed e.1 = true) ∧
    (∀ s, ¬ DY (fun t => ∃ e ∈ writtenB a ops, t = e.1 ∨ t = e.2) (sec s)) ∧
    (∀ s, ¬ DY (fun t => ∃ e ∈ writtenB a ops, t = e.1 ∨ t = e.2) (Term.hash (sec s))) ∧
    (∀ k, ¬ DY (fun t => ∃ e ∈ writtenB a ops, t = e.1 ∨ t = e.2) (key k)) ∧
    ((runB a ops).uses.map (·.2)).Nodup := by
  have hq : writerShape = true := by decide
  have hi : Inv a.cfg (runB a ops) := by
    unfold runB
    rw [hq]
    exact inv_runB a ha he ops hops hv
  have hpub : ∀ e ∈ writtenB a ops, Public e.1 = true ∧ Public e.2 = true ∧ nameKeyed e.1 = true := by
    intro e hmem
    have := hi.log e hmem
    exact ⟨this.1, this.2.1, this.2.2.1⟩
  have hW : ∀ t, (∃ e ∈ writtenB a ops, t = e.1 ∨ t = e.2) → Public t = true := by
    rintro t ⟨e, hmem, h | h⟩
    · rw [h]; exact (hpub e hmem).1
    · rw [h]; exact (hpub e hmem).2.1
  have hno : ∀ t, Public t = false → ¬ DY (fun t => ∃ e ∈ writtenB a ops, t = e.1 ∨ t = e.2) t := by
    intro t ht h
    have := analz_public _ hW t h
    rw [ht] at this; cases this
  exact ⟨hpub, fun s => hno _ rfl, fun s => hno _ rfl, fun k => hno _ rfl, hi.usesNodup⟩

/-- **An honest backend is the backend of `step`.**  With truthful answers and no interference the event snapshot is the
snapshot command of `run` (so the theorems above it speak about the same writer). -/
theorem honest_backend_is_snapshot (s : St) (user : Nat) (chunks : List Term) (data : Data) :
    stepB s (.snapshotEv user (honestEvs chunks) data) = step s (.snapshot user chunks data) := by
  have hq : writerShape = true := by decide
  unfold stepB
  rw [hq]
  exact snapshotEv_honest s user chunks data

/-- a history without event snapshots is the history of `runView` -/
theorem backend_history_refines (a : InitArgs) (ops : List (Bool × Op)) :
    runB a (ops.map (fun vo => (vo.1, BOp.plain vo.2))) = runView a ops :=
  runB_plain _ a ops

/-- **The shape of the producer is necessary** (negation witness).  The same two-event snapshot — one chunk twice, the backend
answers `False` for the repeat — by a producer that queues the plain chunk (`runBWith false`): the chunk's plaintext is stored
under the chunk's MAC name and the observer has it; by a producer that queues ciphertext (`runBWith true`) everything is public. -/
theorem plaintext_queue_leaks :
    ∃ (a : InitArgs) (ops : List (Bool × BOp)), a.wf ∧ a.encrypted = true ∧ (∀ vo ∈ ops, vo.2.wf) ∧ (∀ vo ∈ ops, vo.1 = true) ∧
      (∃ e ∈ (runBWith false a ops).log, Public e.2 = false ∧ nameKeyed e.1 = true) ∧
      (∃ s, DY (fun t => ∃ e ∈ (runBWith false a ops).log, t = e.1 ∨ t = e.2) (sec s)) ∧
      (∀ e ∈ (runBWith true a ops).log, Public e.2 = true) := by
  refine ⟨⟨true, pub 10, pub 11, pub 12, sec 100⟩,
    [(true, .snapshotEv 0 [.chunk (sec 1) none, .chunk (sec 1) (some false)] ⟨1, [], nil⟩)], ?_, rfl, ?_, ?_, ?_, ?_, ?_⟩
  · exact ⟨rfl, rfl, rfl, rfl⟩
  · intro vo hvo
    simp only [List.mem_singleton] at hvo
    subst hvo
    trivial
  · intro vo hvo
    simp only [List.mem_singleton] at hvo
    subst hvo
    rfl
  · have h : ((runBWith false ⟨true, pub 10, pub 11, pub 12, sec 100⟩
        [(true, .snapshotEv 0 [.chunk (sec 1) none, .chunk (sec 1) (some false)] ⟨1, [], nil⟩)]).log.any
          (fun e => !Public e.2 && nameKeyed e.1)) = true := by decide +kernel
    obtain ⟨e, hmem, hp⟩ := List.any_eq_true.mp h
    simp only [Bool.and_eq_true, Bool.not_eq_true'] at hp
    exact ⟨e, hmem, hp.1, hp.2⟩
  · have h : ((runBWith false ⟨true, pub 10, pub 11, pub 12, sec 100⟩
        [(true, .snapshotEv 0 [.chunk (sec 1) none, .chunk (sec 1) (some false)] ⟨1, [], nil⟩)]).log.any
          (fun e => decide (e.2 = sec 1))) = true := by decide +kernel
    obtain ⟨e, hmem, hp⟩ := List.any_eq_true.mp h
    exact ⟨1, DY.init ⟨e, hmem, Or.inr (of_decide_eq_true hp).symm⟩⟩
  · have h : ((runBWith true ⟨true, pub 10, pub 11, pub 12, sec 100⟩
        [(true, .snapshotEv 0 [.chunk (sec 1) none, .chunk (sec 1) (some false)] ⟨1, [], nil⟩)]).log.all
          (fun e => Public e.2)) = true := by decide +kernel
    exact fun e hmem => List.all_eq_true.mp h e hmem

/-- the secrecy statement is about ENCRYPTED repositories only: an unencrypted repository stores the chunk in the clear, and
`Public` notices (so the theorems above are not vacuous) -/
example :
    let a : InitArgs := ⟨false, pub 10, nil, nil, nil⟩
    (chunkLoc ((default : User).props false) (digest (sec 1)), sec 1) ∈ written a [.snapshot 0 [sec 1] ⟨1, [], nil⟩] ∧
    Public (sec 1) = false ∧ Public (digest (sec 1)) = false := by
  decide +kernel

/-- a two-user encrypted history (init, shared key, two snapshots with a repeated chunk, clean) — all emitted pairs public -/
example :
    let a : InitArgs := ⟨true, pub 10, pub 11, pub 12, sec 100⟩
    let ops : List Op := [.addKey 0 true (pub 11) (pub 12) (sec 101), .snapshot 0 [sec 1, sec 2, sec 1] ⟨1, [⟨sec 50, [⟨0, 1, 0, 4⟩], Term.hash (sec 60), sec 70⟩], sec 80⟩,
      .remove [], .snapshot 1 [sec 2, sec 3] ⟨2, [], nil⟩]
    (written a ops).length = 8 ∧ (written a ops).all (fun e => Public e.1 && Public e.2 && nameKeyed e.1) = true
      ∧ (run a ops).uses.length = 11 := by
  decide +kernel

/-- non-vacuity of the client theorems: two faithful clients (shared key, snapshots) — everything emitted is public and keyed;
and the SAME second snapshot issued under the stale view `false` is not -/
example :
    let a : InitArgs := ⟨true, pub 10, pub 11, pub 12, sec 100⟩
    let k : Op := .addKey 0 true (pub 11) (pub 12) (sec 101)
    let s1 : Op := .snapshot 0 [sec 1, sec 2] ⟨1, [⟨sec 50, [⟨0, 1, 0, 4⟩], Term.hash (sec 60), sec 70⟩], sec 80⟩
    let s2 : Op := .snapshot 1 [sec 2, sec 3] ⟨2, [], sec 81⟩
    (writtenView a [(true, k), (true, s1), (true, s2)]).length = 8 ∧
    (writtenView a [(true, k), (true, s1), (true, s2)]).all (fun e => Public e.1 && Public e.2 && nameKeyed e.1) = true ∧
    (writtenView a [(true, k), (true, s1), (false, s2)]).all (fun e => Public e.1 && Public e.2 && nameKeyed e.1) = false ∧
    (runView a [(true, k), (true, s1), (false, s2)]).encrypted = true := by
  decide +kernel

/-- non-vacuity of the backend theorems: a stream in which one chunk occurs five times; the backend says "absent" for the third
and fifth occurrence and somebody removes everything before the fourth — five encryptions of the chunk, three uploads of it (each
a fresh ciphertext under its MAC name), everything emitted public and keyed; the honest schedule uploads it once -/
example :
    let a : InitArgs := ⟨true, pub 10, pub 11, pub 12, sec 100⟩
    let d : Data := ⟨1, [⟨sec 50, [⟨0, 1, 0, 4⟩], Term.hash (sec 60), sec 70⟩], sec 80⟩
    let evs : List Ev := [.chunk (sec 1) none, .chunk (sec 1) none, .chunk (sec 1) (some false), .vanish [], .chunk (sec 1) (some true),
      .chunk (sec 1) (some false)]
    (writtenB a [(true, .snapshotEv 0 evs d)]).length = 6 ∧
    (writtenB a [(true, .snapshotEv 0 evs d)]).all (fun e => Public e.1 && Public e.2 && nameKeyed e.1) = true ∧
    (runB a [(true, .snapshotEv 0 evs d)]).uses.length = 8 ∧
    (writtenB a [(true, .snapshotEv 0 (honestEvs [sec 1, sec 1, sec 1, sec 1, sec 1]) d)]).length = 4 := by
  decide +kernel

end Replicat.C05
