import ReplicatProofs.Lemmas.Options
import ReplicatProofs.Lemmas.OptionsCustom
import ReplicatProofs.Lemmas.OptionsClass
/-!
# C19 — option precedence: command line > environment > profile > default section > built-in

Property theorems only (helper lemmas: `Lemmas/Options.lean`; model: `ReplicatModel/Options.lean`).

`pipeline` follows `replicat.__main__.main` in the order `Gen.optSteps` (extracted from the AST) for one row of
`Gen.optRows` (the option table extracted from the real argparse parsers: sub-commands, common options, the backend
options of local / s3 / s3c / b2 and of the custom backends `vfy` and `vfa`).  `spec` = the first source that sets the option, in
the documented order, through the option's type function once.  Every theorem quantifies over ALL leaf semantics
`sem` (what `parse_repository`, `guess_type`, `Path`, … compute), all raw values and all rows / sub-commands of the
generated tables; `Simple` inputs = at most one way of setting the option per source, hence all 2⁴ subsets of
{command line, environment, profile, default section} (the built-in default is always there).

Full statement / what is proved:
* `precedence` — full for every option that is not backend-specific and has at most one file key.
* `precedence_two_keys_partial` — options with two file keys (`password`/`password-file`, `key`/`key-file`,
  `cache-directory`/`no-cache`): only when profile and default section use the SAME key and `no-cache` is true; the
  excluded region contains genuine failures (`profile_cache_directory_loses_to_default_no_cache`,
  `key_file_in_profile_rejected_because_of_default_key`).
* `precedence_backend_partial` — backend-specific options: typed TOML values only if the validator keeps them (D14:
  today it raises), and only where `guess_type` is idempotent on the effective value (D15); witnesses `backend_typed_toml_value_crashes`, `backend_value_coerced_twice`,
  `backend_string_default_coerced`.
* `precedence_any_backend_partial`, `coercion_uniform_any_backend_partial` — the same two statements for EVERY backend
  class, i.e. for custom backends found through the `replicat.backends` namespace package whatever their constructor
  signature is (annotated `str` / `int` / `bool` / `float` / `Optional[…]` / string annotations or not, required or
  with a default): rows of the schema `customBackendRow`, whose three type functions are extracted
  (`Gen.optBackendCliTy` from the live parsers of all probed backends incl. the annotated probe `vfa`;
  `Gen.optBackendFileTy` / `Gen.optBackendEnvTy` from the AST).  `backend_rows_follow_schema` — every backend row of the
  generated table is an instance of that schema.
* `env_name_never_inherited`, `env_name_documented`, `precedence_class_backend_partial`, `shipped_backend_env_names` —
  CLASS HIERARCHIES of backends (a backend class that derives from another concrete backend: the shipped `S3`, custom
  backends derived from `Local` / `S3Compatible` / `B2` / another custom backend, two or more levels, with or without the
  class keyword `short_name=`, with a plain `short_name` class attribute): the environment variable of every option is
  computed from the class's OWN declaration (`Options.backendEnvVar` interpreting `Gen.optShortNameRule`, the fallback of
  `Backend.__init_subclass__` read from the AST) and never from a base class; the row of such an option is an instance of the
  schema, so precedence holds for it as for any backend; the variables in the generated table (live parsers) are the ones the
  model computes from the shipped class declarations (ASTs).
-/
namespace Replicat.C19
open Replicat Replicat.Gen Replicat.Options

variable {V : Type}

/-! ## precedence -/

/-- **Precedence (full).** For every sub-command, every option that is not backend-specific and has at most one
configuration-file key (all command options, `-r`, `--profile`, `--config`, `-v`, `-q`, `-c`, `log-level`), every
subset of the sources and all accepted raw values: the handler receives the value of the first source in the order
command line, environment, profile, default section, built-in — coerced once. -/
theorem precedence (sem : Sem V) (hsem : SemOK sem) (cmd : OptCommand) (hcmd : cmd ∈ optCommands)
    (row : OptRow) (hrow : row ∈ optRows) (hscope : row.scope ≠ 2) (hone : row.file.length ≤ 1)
    (s : Simple V) (hb : sem.isStr s.builtin = false) (hv : valid sem row s = true) :
    pipelineFinal sem cmd row s.toInputs = spec sem row s := by
  obtain ⟨hc, hp, _⟩ := cmds_ok cmd hcmd
  have hv' := hv
  simp only [valid, Bool.and_eq_true] at hv'
  exact (precedence_main sem hsem cmd hc hp row (rows_wfMain row hrow hscope) s hb hv
    (sameKey_of_short sem row s hone hv'.1.2 hv'.2)
    (flagsTruthy_of_allPlain sem row s (rows_short_plain row hrow hscope hone))).1

/-- **Precedence, options with two file keys (partial).**  Extra hypotheses: when both the profile and the default
section set the option they use the same key (`sameKey`), and a `no-cache` key is `true` (`flagsTruthy`).
Missing: `cache-directory` in the profile against `no-cache = true` in the default section (the default section wins
— witness below), `key` against `key-file` across the two sections (rejected — witness below), `no-cache = false`. -/
theorem precedence_two_keys_partial (sem : Sem V) (hsem : SemOK sem) (cmd : OptCommand) (hcmd : cmd ∈ optCommands)
    (row : OptRow) (hrow : row ∈ optRows) (hscope : row.scope ≠ 2)
    (s : Simple V) (hb : sem.isStr s.builtin = false) (hv : valid sem row s = true)
    (hsame : sameKey s = true) (htr : flagsTruthy sem row s = true) :
    pipelineFinal sem cmd row s.toInputs = spec sem row s := by
  obtain ⟨hc, hp, _⟩ := cmds_ok cmd hcmd
  exact (precedence_main sem hsem cmd hc hp row (rows_wfMain row hrow hscope) s hb hv hsame htr).1

/-- **Precedence, backend-specific options (partial)** — built-in backends and the custom backend `vfy`.
Extra hypotheses: a typed (non-string) TOML value written in the file is left unchanged by the validator
(`TypedValuesKept`: false of today's `guess_type`, which raises on a non-string — D14; it holds trivially when the file
holds strings only, `typedValuesKept_of_str`), and when the option is not on the command line `guess_type` maps the
effective value to itself if it is a string (argparse sends a string default through `type` a second time — D15). -/
theorem precedence_backend_partial (sem : Sem V) (cmd : OptCommand) (hcmd : cmd ∈ optCommands)
    (row : OptRow) (hrow : row ∈ optRows) (hscope : row.scope = 2)
    (s : Simple V) (hv : valid sem row s = true) (hstr : TypedValuesKept sem row s)
    (hidem : s.cli = none → ∀ c, specBelowCli sem row s = .ok c → sem.isStr c = true → sem.co .guessType c = some c) :
    pipelineFinal sem cmd row s.toInputs = spec sem row s := by
  obtain ⟨hc, hp, _⟩ := cmds_ok cmd hcmd
  exact precedence_backend sem cmd hc hp row hscope (rows_wfBackend row hrow hscope) s hv hstr hidem

/-- The backend is selected by the same precedence: when `load_backend(*cfg.repository)` runs, the config field
holds the value the specification names (`-r`, else `REPLICAT_REPOSITORY`, else profile, else default section, else
the current directory). -/
theorem backend_selected_by_precedence (sem : Sem V) (hsem : SemOK sem) (cmd : OptCommand) (hcmd : cmd ∈ optCommands)
    (row : OptRow) (hrow : row ∈ optRows) (hearly : row.early = true)
    (s : Simple V) (hb : sem.isStr s.builtin = false) (hv : valid sem row s = true) (hsame : sameKey s = true)
    (htr : flagsTruthy sem row s = true) :
    pipelineAtLoad sem cmd row s.toInputs = spec sem row s := by
  obtain ⟨hc, hp, _⟩ := cmds_ok cmd hcmd
  have hscope : row.scope ≠ 2 := by
    have : ∀ r ∈ optRows, r.early = true → r.scope ≠ 2 := by decide
    exact this row hrow hearly
  exact (precedence_main sem hsem cmd hc hp row (rows_wfMain row hrow hscope) s hb hv hsame htr).2 hearly

/-- The only option that is overridden before the backend is chosen is `repository`, and it exists. -/
theorem early_option_is_repository : (optRows.filter (·.early)).map (·.dest) = ["repository"] := by decide

/-- **No silent fallback.** If the winning source holds a value its type function does not accept, the run ends
with an error — the next source is not used instead.  (Options whose file keys are all plain; `no-cache` is left to
the correspondence runs.) -/
theorem invalid_winner_rejected (sem : Sem V) (cmd : OptCommand) (hcmd : cmd ∈ optCommands)
    (row : OptRow) (hrow : row ∈ optRows) (hplain : allPlain row = true)
    (s : Simple V) (e : Err) (hspec : spec sem row s = .error e) (hne : e ≠ .model) :
    ∃ e', pipelineFinal sem cmd row s.toInputs = .error e' := by
  obtain ⟨hc, hp, _⟩ := cmds_ok cmd hcmd
  exact invalid_winner_rejected_aux sem cmd hc hp row (rows_wfReject row hrow) hplain s e hspec hne

/-! ## mutually exclusive options -/

/-- **Command line.** Two different flags that set the same option (`-p`/`-P`, `--no-cache`/`--cache-directory`,
`--config`/`--ignore-config`, `-n`/`-N`) never reach the handler, whatever else is configured. -/
theorem mutually_exclusive_rejected (sem : Sem V) (cmd : OptCommand) (row : OptRow) (hrow : row ∈ optRows)
    (inp : Inputs V) (i j : Nat) (a b : OptCliVar) (ra rb : V)
    (ha : row.cli[i]? = some a) (hb : row.cli[j]? = some b) (hne : a.flag ≠ b.flag)
    (hcli : inp.cli = [(i, ra), (j, rb)]) : ∃ e, pipelineFinal sem cmd row inp = .error e := by
  apply pipelineFinal_error
  have hconf := same_dest_flags_conflict row hrow b (List.mem_of_getElem? hb) a (List.mem_of_getElem? ha) (Ne.symm hne)
  exact two_flags_rejected sem cmd row inp i j a b ra rb ha hb hconf hcli

/-- The flags documented as exclusive although they set different options (`--shared` / `--clone`) are in one
argparse group in every sub-command that has them. -/
theorem documented_exclusive_flags_rejected : ∀ cmd ∈ optCommands, ∀ a ∈ flagsOf cmd, ∀ b ∈ flagsOf cmd,
    (a.flag, b.flag) ∈ documentedExclusive → twoFlags a b = .error .argparse := by
  decide

/-- **Configuration file.** For the options all of whose file keys are plain — these are the pairs the README declares
exclusive, `password`/`password-file` and `key`/`key-file` — two different keys of one option in the mapping that
`read_config` returns end the run with an error.  (`no-cache` with `cache-directory` is not declared exclusive in the
file and is accepted: `no_cache_with_cache_directory_not_rejected`.) -/
theorem mutually_exclusive_file_keys_rejected (sem : Sem V) (cmd : OptCommand) (hcmd : cmd ∈ optCommands)
    (row : OptRow) (hrow : row ∈ optRows) (hs : (row.scope == 0 || row.scope == 1) = true) (hplain : allPlain row = true)
    (inp : Inputs V) (i j : Nat) (hij : i ≠ j) (hi : i < row.file.length) (hj : j < row.file.length)
    (hli : (lookup (overlay inp.dflt inp.prof) i).isSome = true) (hlj : (lookup (overlay inp.dflt inp.prof) j).isSome = true) :
    ∃ e, pipelineFinal sem cmd row inp = .error e := by
  obtain ⟨hc, hp, _⟩ := cmds_ok cmd hcmd
  apply pipelineFinal_error
  have hscope : row.scope ≠ 2 := by
    simp only [Bool.or_eq_true, beq_iff_eq] at hs
    omega
  exact two_keys_rejected sem cmd hc hp row (rows_wfMain row hrow hscope) hs (rows_file_mutex row hrow hs hplain) inp i j hij hi hj hli hlj

/-! ## the same coercion whichever source -/

/-- In the generated table every command-line flag that takes a value has a file key whose validator is the
documented counterpart of the flag's `type` (same function, or `_natural_number`/`_check_natural_number`,
`os.fsencode`/`str.encode`, the two `_read_bytes`), and the environment variable's reader is the counterpart of some
flag's `type`. -/
theorem coercion_table_uniform : ∀ row ∈ optRows,
    (row.file ≠ [] → ∀ cv ∈ row.cli, cv.kind = .typed → ∃ fv ∈ row.file, fv.kind = .plain ∧ equivTy cv.ty fv.ty = true) ∧
    (row.env.all (fun ne => row.cli.any (fun cv => cv.kind == .typed && equivTy cv.ty ne.2)) = true) := by
  decide

/-- **Uniform coercion.** For an option that is not backend-specific: if the flag's `type` and the key's validator
agree on the raw value `r` (which is what `coercion_table_uniform` pairs up), then `r` yields the same effective value
`x` from the command line, from the profile, from the default section and from the environment. -/
theorem coercion_uniform (sem : Sem V) (hsem : SemOK sem) (cmd : OptCommand) (hcmd : cmd ∈ optCommands)
    (row : OptRow) (hrow : row ∈ optRows) (hscope : row.scope ≠ 2)
    (i j : Nat) (cv : OptCliVar) (fv : OptFileVar) (hcv : row.cli[i]? = some cv) (hck : cv.kind = .typed)
    (hfv : row.file[j]? = some fv) (hfk : fv.kind = .plain)
    (r x b : V) (hb : sem.isStr b = false) (hx : sem.co cv.ty r = some x) (heq : sem.co fv.ty r = sem.co cv.ty r) :
    pipelineFinal sem cmd row (Simple.toInputs { cli := some (i, r), env := none, prof := none, dflt := none, builtin := b }) = .ok x ∧
    pipelineFinal sem cmd row (Simple.toInputs { cli := none, env := none, prof := some (j, r), dflt := none, builtin := b }) = .ok x ∧
    pipelineFinal sem cmd row (Simple.toInputs { cli := none, env := none, prof := none, dflt := some (j, r), builtin := b }) = .ok x ∧
    (∀ n ety, row.env = some (n, ety) → sem.co ety r = sem.co cv.ty r →
      pipelineFinal sem cmd row (Simple.toInputs { cli := none, env := some r, prof := none, dflt := none, builtin := b }) = .ok x) := by
  obtain ⟨hc, hp, _⟩ := cmds_ok cmd hcmd
  have hwf := rows_wfMain row hrow hscope
  have hnb : isBackend row = false := by simp [isBackend, hscope]
  refine ⟨?_, ?_, ?_, ?_⟩
  · rw [(precedence_main sem hsem cmd hc hp row hwf _ hb (by simp [valid, cliOk, envOk, fileOk, hcv, cliValue, hck, hx, orErr])
      (by simp [sameKey]) (by simp [flagsTruthy, flagOk])).1]
    simp [spec, hcv, cliValue, hck, hx, orErr]
  · rw [(precedence_main sem hsem cmd hc hp row hwf _ hb (by simp [valid, cliOk, envOk, fileOk, hfv, hfk, heq, hx])
      (by simp [sameKey]) (by simp [flagsTruthy, flagOk, hfv, hfk])).1]
    simp [spec, specBelowCli, specBelowEnv, fileValue, hfv, hfk, hnb, heq, hx, orErr]
  · rw [(precedence_main sem hsem cmd hc hp row hwf _ hb (by simp [valid, cliOk, envOk, fileOk, hfv, hfk, heq, hx])
      (by simp [sameKey]) (by simp [flagsTruthy, flagOk, hfv, hfk])).1]
    simp [spec, specBelowCli, specBelowEnv, specBelowProfile, fileValue, hfv, hfk, hnb, heq, hx, orErr]
  · intro n ety hre hee
    rw [(precedence_main sem hsem cmd hc hp row hwf _ hb (by simp [valid, cliOk, envOk, fileOk, hre, hee, hx])
      (by simp [sameKey]) (by simp [flagsTruthy, flagOk])).1]
    simp [spec, specBelowCli, hre, hee, hx, orErr]

/-- **Uniform coercion, backend-specific options (partial).**  Extra hypothesis: `guess_type` maps the value `x` it
produced to itself when `x` is a string (otherwise the file / environment give `guess_type(guess_type(r))` and the
command line `guess_type(r)` — witness `backend_value_coerced_twice`). -/
theorem coercion_uniform_backend_partial (sem : Sem V) (cmd : OptCommand) (hcmd : cmd ∈ optCommands)
    (row : OptRow) (hrow : row ∈ optRows) (hscope : row.scope = 2)
    (r x b : V) (hr : sem.isStr r = true) (hx : sem.co .guessType r = some x)
    (hidem : sem.isStr x = true → sem.co .guessType x = some x) :
    pipelineFinal sem cmd row (Simple.toInputs { cli := some (0, r), env := none, prof := none, dflt := none, builtin := b }) = .ok x ∧
    pipelineFinal sem cmd row (Simple.toInputs { cli := none, env := some r, prof := none, dflt := none, builtin := b }) = .ok x ∧
    pipelineFinal sem cmd row (Simple.toInputs { cli := none, env := none, prof := some (0, r), dflt := none, builtin := b }) = .ok x ∧
    pipelineFinal sem cmd row (Simple.toInputs { cli := none, env := none, prof := none, dflt := some (0, r), builtin := b }) = .ok x := by
  obtain ⟨hc, hp, _⟩ := cmds_ok cmd hcmd
  have hwf := rows_wfBackend row hrow hscope
  have hwf' := hwf
  simp only [wfBackend, Bool.and_eq_true, Bool.not_eq_true'] at hwf'
  obtain ⟨⟨⟨⟨_, _⟩, hcli⟩, henv⟩, hfile⟩ := hwf'
  obtain ⟨v, hv1, hvk, hvt⟩ : ∃ v, row.cli = [v] ∧ v.kind = .typed ∧ v.ty = .guessType := by
    match hrc : row.cli with
    | [v] => simp [hrc] at hcli; exact ⟨v, rfl, hcli.1, hcli.2⟩
    | [] => simp [hrc] at hcli
    | _ :: _ :: _ => simp [hrc] at hcli
  obtain ⟨f, hf1, hfk, hft⟩ : ∃ f, row.file = [f] ∧ f.kind = .plain ∧ f.ty = .guessType := by
    match hrf : row.file with
    | [f] => simp [hrf] at hfile; exact ⟨f, rfl, hfile.1, hfile.2⟩
    | [] => simp [hrf] at hfile
    | _ :: _ :: _ => simp [hrf] at hfile
  obtain ⟨n, hre⟩ : ∃ n, row.env = some (n, .guessType) := by
    cases hre : row.env with
    | none => simp [hre] at henv
    | some nt => obtain ⟨n, ty⟩ := nt; simp [hre] at henv; exact ⟨n, by rw [henv]⟩
  have hbk : isBackend row = true := by simp [isBackend, hscope]
  refine ⟨?_, ?_, ?_, ?_⟩
  · rw [precedence_backend sem cmd hc hp row hscope hwf _
      (by simp [valid, cliOk, envOk, fileOk, hv1, cliValue, hvk, hvt, hx, orErr, hre])
      (typedValuesKept_of_str sem row _ (by simp [fileRawsStr, rawStrOk])) (by intro h; simp at h)]
    simp [spec, hv1, cliValue, hvk, hvt, hx, orErr]
  · rw [precedence_backend sem cmd hc hp row hscope hwf _
      (by simp [valid, cliOk, envOk, fileOk, hre, hx])
      (typedValuesKept_of_str sem row _ (by simp [fileRawsStr, rawStrOk]))
      (by intro _ c hc'; simp [specBelowCli, hre, hx, orErr] at hc'; subst hc'; exact hidem)]
    simp [spec, specBelowCli, hre, hx, orErr]
  · rw [precedence_backend sem cmd hc hp row hscope hwf _
      (by simp [valid, cliOk, envOk, fileOk, hre, hf1, hfk, hft, hx])
      (typedValuesKept_of_str sem row _ (by simp [fileRawsStr, rawStrOk, hr]))
      (by intro _ c hc'; simp [specBelowCli, specBelowEnv, fileValue, hre, hf1, hfk, hft, hbk, hr, hx, orErr] at hc'; subst hc'; exact hidem)]
    simp [spec, specBelowCli, specBelowEnv, fileValue, hre, hf1, hfk, hft, hbk, hr, hx, orErr]
  · rw [precedence_backend sem cmd hc hp row hscope hwf _
      (by simp [valid, cliOk, envOk, fileOk, hre, hf1, hfk, hft, hx])
      (typedValuesKept_of_str sem row _ (by simp [fileRawsStr, rawStrOk, hr]))
      (by intro _ c hc'; simp [specBelowCli, specBelowEnv, specBelowProfile, fileValue, hre, hf1, hfk, hft, hbk, hr, hx, orErr] at hc'; subst hc'; exact hidem)]
    simp [spec, specBelowCli, specBelowEnv, specBelowProfile, fileValue, hre, hf1, hfk, hft, hbk, hr, hx, orErr]

/-! ## any backend: the schema of backend-specific options -/

/-- Every backend-specific row of the generated table (local / s3 / s3c / b2, the custom backend `vfy` and the
annotated custom backend `vfa`, whose options are declared `str`, `'str'`, `Optional[str]`, `int`, `'int'`, `bool`,
`float`, `Union[int, str]`, `'Optional[int]'`, `'str | None'`, `Any`) is an instance of the schema
`customBackendRow`: one flag, one environment variable, one file key, read through the three extracted type functions —
whatever the parameter's annotation or default. -/
theorem backend_rows_follow_schema : ∀ row ∈ optRows, row.scope = 2 → isCustomInstance row = true := by
  decide

/-- **Precedence, options of ANY backend (partial)** — in particular of a custom backend discovered through the
`replicat.backends` namespace package, with any constructor signature.  Same statement and same two extra hypotheses
(D14, D15) as `precedence_backend_partial`, for every instance of the schema; discharged from the extracted
`Gen.optBackendCliTy = Gen.optBackendEnvTy = Gen.optBackendFileTy = guess_type` (`backend_schema_uniform`): a flag type
that depends on the parameter's annotation makes this stop compiling. -/
theorem precedence_any_backend_partial (sem : Sem V) (cmd : OptCommand) (hcmd : cmd ∈ optCommands)
    (owner dest flag envVar key : String) (bk : Nat)
    (s : Simple V) (hv : valid sem (customBackendRow owner dest flag envVar key bk) s = true)
    (hstr : TypedValuesKept sem (customBackendRow owner dest flag envVar key bk) s)
    (hidem : s.cli = none → ∀ c, specBelowCli sem (customBackendRow owner dest flag envVar key bk) s = .ok c →
      sem.isStr c = true → sem.co .guessType c = some c) :
    pipelineFinal sem cmd (customBackendRow owner dest flag envVar key bk) s.toInputs =
      spec sem (customBackendRow owner dest flag envVar key bk) s := by
  obtain ⟨hc, hp, _⟩ := cmds_ok cmd hcmd
  exact precedence_backend sem cmd hc hp _ rfl (wfBackend_custom owner dest flag envVar key bk) s hv hstr hidem

/-- **Uniform coercion, options of ANY backend (partial).**  The same raw text `r` gives the backend constructor the
same value `x = guess_type(r)` whether it came from the command line, the environment, the profile or the default
section — for every instance of the schema, hence independent of how the constructor declares the option.  Extra
hypothesis as in `coercion_uniform_backend_partial` (D15). -/
theorem coercion_uniform_any_backend_partial (sem : Sem V) (cmd : OptCommand) (hcmd : cmd ∈ optCommands)
    (owner dest flag envVar key : String) (bk : Nat)
    (r x b : V) (hr : sem.isStr r = true) (hx : sem.co .guessType r = some x)
    (hidem : sem.isStr x = true → sem.co .guessType x = some x) :
    pipelineFinal sem cmd (customBackendRow owner dest flag envVar key bk)
      (Simple.toInputs { cli := some (0, r), env := none, prof := none, dflt := none, builtin := b }) = .ok x ∧
    pipelineFinal sem cmd (customBackendRow owner dest flag envVar key bk)
      (Simple.toInputs { cli := none, env := some r, prof := none, dflt := none, builtin := b }) = .ok x ∧
    pipelineFinal sem cmd (customBackendRow owner dest flag envVar key bk)
      (Simple.toInputs { cli := none, env := none, prof := some (0, r), dflt := none, builtin := b }) = .ok x ∧
    pipelineFinal sem cmd (customBackendRow owner dest flag envVar key bk)
      (Simple.toInputs { cli := none, env := none, prof := none, dflt := some (0, r), builtin := b }) = .ok x := by
  obtain ⟨hc, hp, _⟩ := cmds_ok cmd hcmd
  exact coercion_uniform_wfBackend sem cmd hc hp _ rfl (wfBackend_custom owner dest flag envVar key bk) r x b hr hx hidem

/-! ## class hierarchies of backends: the environment variable of an option belongs to the class the user names -/

/-- **Own name, never inherited.**  For every backend class `c`, whatever classes it derives from (`ps`, `ps'`: `Local`,
`S3Compatible`, another custom backend, any depth, however THEY are declared) and every option: the environment variable
`config.backend_env_option` computes is the same, and it is `<N>_<OPTION>` upper-cased for a name `N` that `c` declares itself
(class keyword, plain class attribute or class name).  Discharged from the extracted `Gen.optShortNameRule`: a fallback that
can see the `short_name` stored on a base class (`getattr(cls, 'short_name', …)`) or an unrecognised one makes this stop
compiling. -/
theorem env_name_never_inherited (c : BackendClass) (ps ps' : List BackendClass) (opt : String) :
    backendEnvVar optShortNameRule (c :: ps) opt = backendEnvVar optShortNameRule (c :: ps') opt ∧
    ∃ s ∈ ownNames c, backendEnvVar optShortNameRule (c :: ps) opt = some (backendEnvName s opt) := by
  have hown : ruleIsOwn optShortNameRule = true := by decide
  have hjoin : optBackendEnvJoinRecognised = true := by decide
  refine ⟨by simp [backendEnvVar, shortNameOf_own _ hown c ps ps'], ?_⟩
  obtain ⟨s, hs, h⟩ := shortNameOf_mem_own _ hown c ps
  exact ⟨s, hs, by simp [backendEnvVar, hjoin, h]⟩

/-- **The documented name.**  README ("Custom backends"): `<SHORT NAME>_<OPTION>` in upper case, where the short name is the
class keyword `short_name=` when the class has one and the CLASS NAME otherwise (`PROUDCLOUD_ACCOUNT_ID`) — for a class at
any depth of a hierarchy.  (A class that also sets a plain `short_name` attribute in its body is covered by
`env_name_never_inherited` only.) -/
theorem env_name_documented (c : BackendClass) (ha : c.attrShort = none) (ps : List BackendClass) (opt : String) :
    backendEnvVar optShortNameRule (c :: ps) opt = some (backendEnvName (documentedShortName c) opt) := by
  have hown : ruleIsOwn optShortNameRule = true := by decide
  have hjoin : optBackendEnvJoinRecognised = true := by decide
  simp [backendEnvVar, hjoin, shortNameOf_documented _ hown c ha ps]

/-- **Precedence for the options of a class in a hierarchy (partial).**  The row of option `dest` of backend class `c` — flag
and file key from the parameter name, environment variable from the class — exists, is the same whatever `c` derives from,
carries an environment variable of `c`'s own, and satisfies the precedence statement of `precedence_any_backend_partial`
(same two hypotheses: D14, D15). -/
theorem precedence_class_backend_partial (sem : Sem V) (cmd : OptCommand) (hcmd : cmd ∈ optCommands)
    (c : BackendClass) (ps : List BackendClass) (owner dest : String) (bk : Nat) :
    ∃ row, classBackendRow optShortNameRule (c :: ps) owner dest bk = some row ∧
      (∀ ps', classBackendRow optShortNameRule (c :: ps') owner dest bk = some row) ∧
      (∃ s ∈ ownNames c, row.env = some (backendEnvName s dest, optBackendEnvTy)) ∧
      ∀ s : Simple V, valid sem row s = true → TypedValuesKept sem row s →
        (s.cli = none → ∀ v, specBelowCli sem row s = .ok v → sem.isStr v = true → sem.co .guessType v = some v) →
        pipelineFinal sem cmd row s.toInputs = spec sem row s := by
  obtain ⟨hsame, n, hn, henv⟩ := env_name_never_inherited c ps ps dest
  refine ⟨customBackendRow owner dest ("--" ++ hyphenated dest) (backendEnvName n dest) (hyphenated dest) bk, ?_, ?_, ?_, ?_⟩
  · simp [classBackendRow, henv]
  · intro ps'
    have h := (env_name_never_inherited c ps' ps dest).1
    simp [classBackendRow, h, henv]
  · exact ⟨n, hn, rfl⟩
  · intro s hv hstr hidem
    exact precedence_any_backend_partial sem cmd hcmd owner dest _ _ _ bk s hv hstr hidem

/-- **The shipped hierarchy.**  Every backend-specific row of the generated table (environment variable taken from the LIVE
parsers) that belongs to a shipped backend — `S3`, which derives from `S3Compatible`, included — carries the variable the
model computes from that backend's class declarations (`Gen.optShippedBackendClasses`, read from the ASTs of
`replicat/backends/*.py`). -/
theorem shipped_backend_env_names : shippedEnvNamesAgree optShortNameRule = true := by
  decide

/-! ## negation witnesses: the full statement is false of the model (and, replayed by the harness, of the code) -/


/-- **D14.** `port = 9877` (a TOML integer) in the profile of the custom backend: the specification says 9877, the
pipeline ends in the validator's exception (`guess_type(9877)` → AttributeError). -/
theorem backend_typed_toml_value_crashes :
    cmd0 ∈ optCommands ∧ vfyPort ∈ optRows ∧ vfyPort.scope = 2 ∧
    (let s : Simple TV := { cli := none, env := none, prof := some (0, .int 9877), dflt := none, builtin := .int 9876 }
     spec toySem vfyPort s = .ok (.int 9877) ∧ pipelineFinal toySem cmd0 vfyPort s.toInputs = .error .configValue) := by
  decide

/-- **D15.** The same text `'1'` (with the quotes) for `key-id` of s3c: from the command line the backend receives the
string `1`, from the environment the integer 1 (`guess_type` applied twice). -/
theorem backend_value_coerced_twice :
    cmd0 ∈ optCommands ∧ s3cKeyId ∈ optRows ∧
    (let viaCli : Simple TV := { cli := some (0, .str "'1'"), env := none, prof := none, dflt := none, builtin := .missing }
     let viaEnv : Simple TV := { cli := none, env := some (.str "'1'"), prof := none, dflt := none, builtin := .missing }
     pipelineFinal toySem cmd0 s3cKeyId viaCli.toInputs = .ok (.str "1") ∧
     spec toySem s3cKeyId viaEnv = .ok (.str "1") ∧
     pipelineFinal toySem cmd0 s3cKeyId viaEnv.toInputs = .ok (.int 1)) := by
  decide

/-- **D15, built-in default.** A constructor default that is a string which `guess_type` changes (`numeric_label='7'`
of the custom backend) does not reach the backend as written: with no source at all it receives the integer 7. -/
theorem backend_string_default_coerced :
    vfyNumericLabel ∈ optRows ∧
    (let s : Simple TV := { cli := none, env := none, prof := none, dflt := none, builtin := .str "7" }
     spec toySem vfyNumericLabel s = .ok (.str "7") ∧ pipelineFinal toySem cmd0 vfyNumericLabel s.toInputs = .ok (.int 7)) := by
  decide

/-- **Profile loses to the default section.** `cache-directory = "/c/prof"` in the selected profile and
`no-cache = true` in the default section (all values valid): the specification says `/c/prof`, the handler gets `None`. -/
theorem profile_cache_directory_loses_to_default_no_cache :
    cacheDirectory ∈ optRows ∧
    (let s : Simple TV := { cli := none, env := none, prof := some (0, .str "/c/prof"), dflt := some (1, .tru), builtin := .path "~/.cache" }
     valid toySem cacheDirectory s = true ∧ spec toySem cacheDirectory s = .ok (.path "/c/prof") ∧
     pipelineFinal toySem cmd0 cacheDirectory s.toInputs = .ok .none) := by
  decide

/-- **Not rejected (remark, not counted as a defect).** `no-cache = true` and `cache-directory` in ONE section of the file
(on the command line the two flags are a mutual-exclusion group; the README does not declare the file keys exclusive):
the run goes on, `no-cache` wins. -/
theorem no_cache_with_cache_directory_not_rejected :
    (let inp : Inputs TV := { cli := [], env := none, prof := [(0, .str "/c/prof"), (1, .tru)], dflt := [], builtin := .path "~/.cache" }
     pipelineFinal toySem cmd0 cacheDirectory inp = .ok .none) := by
  decide

/-- **Rejected instead of overridden.** `key = "{}"` in the default section and `key-file = "k.json"` in the selected
profile: the specification says the profile wins, the run ends with `InvalidConfig` (the exclusivity check runs on the
merged mapping). -/
theorem key_file_in_profile_rejected_because_of_default_key :
    keyRow ∈ optRows ∧
    (let s : Simple TV := { cli := none, env := none, prof := some (1, .str "k.json"), dflt := some (0, .str "{}"), builtin := .none }
     valid toySem keyRow s = true ∧ spec toySem keyRow s = .ok (.bytes "contents of k.json") ∧
     pipelineFinal toySem cmd0 keyRow s.toInputs = .error .invalidConfig) := by
  decide

/-! ## non-vacuity -/

example : SemOK toySem := by
  refine ⟨?_, rfl⟩
  intro ty v w h1 h2
  cases ty <;> simp [nonStrTy] at h1 <;> cases v <;> simp [toySem] at h2 <;> subst h2 <;> rfl

/-- `precedence` applies to real rows, with inputs in which several sources are set -/
example : ∃ row ∈ optRows, row.dest = "concurrent" ∧ row.scope ≠ 2 ∧ row.file.length ≤ 1 := by decide

example :
    (let s : Simple TV := { cli := none, env := none, prof := some (0, .str "/c/prof"), dflt := some (0, .str "/c/dflt"), builtin := .path "~/.cache" }
     valid toySem cacheDirectory s = true ∧ sameKey s = true ∧ flagsTruthy toySem cacheDirectory s = true ∧
     pipelineFinal toySem cmd0 cacheDirectory s.toInputs = .ok (.path "/c/prof")) := by
  decide

/-- the hypotheses of `precedence_backend_partial` are satisfiable (environment beats profile beats default section) -/
example :
    (let s : Simple TV := { cli := none, env := some (.str "from-env"), prof := some (0, .str "from-profile"), dflt := some (0, .str "x"), builtin := .missing }
     valid toySem s3cKeyId s = true ∧ fileRawsStr toySem s3cKeyId s = true ∧
     pipelineFinal toySem cmd0 s3cKeyId s.toInputs = .ok (.str "from-env")) := by
  decide

/-- the documented exclusive pair exists in some sub-command, and some option has two flags -/
example : (∃ cmd ∈ optCommands, ∃ a ∈ flagsOf cmd, ∃ b ∈ flagsOf cmd, (a.flag, b.flag) ∈ documentedExclusive) ∧
    (∃ row ∈ optRows, ∃ a ∈ row.cli, ∃ b ∈ row.cli, a.flag ≠ b.flag) ∧
    (∃ row ∈ optRows, (row.scope == 0 || row.scope == 1) = true ∧ allPlain row = true ∧ row.file.length = 2) := by
  decide

/-- the schema theorems apply to the README's custom backend: the text `9877` for `--account-id` /
`PROUDCLOUD_ACCOUNT_ID` / `account-id` reaches the constructor as the integer 9877 from each of the four sources, and
the table does contain annotated probe options -/
example :
    (let viaCli : Simple TV := { cli := some (0, .str "9877"), env := none, prof := none, dflt := none, builtin := .missing }
     let viaEnv : Simple TV := { cli := none, env := some (.str "9877"), prof := none, dflt := none, builtin := .missing }
     let viaProf : Simple TV := { cli := none, env := none, prof := some (0, .str "9877"), dflt := none, builtin := .missing }
     let viaDflt : Simple TV := { cli := none, env := none, prof := none, dflt := some (0, .str "9877"), builtin := .missing }
     pipelineFinal toySem cmd0 pcAccountId viaCli.toInputs = .ok (.int 9877) ∧
     pipelineFinal toySem cmd0 pcAccountId viaEnv.toInputs = .ok (.int 9877) ∧
     pipelineFinal toySem cmd0 pcAccountId viaProf.toInputs = .ok (.int 9877) ∧
     pipelineFinal toySem cmd0 pcAccountId viaDflt.toInputs = .ok (.int 9877)) ∧
    optBackendAnnotatedProbes ≥ 10 ∧ (optRows.filter (fun r => r.owner == "vfa")).length ≥ 10 := by
  decide

/-- class hierarchies: the shipped table has a two-level chain with differing names (`S3` < `S3Compatible` [`S3C`]) and rows
for it; the README's `ProudCloud` derived from `Local` reads `PROUDCLOUD_ACCOUNT_ID`; and the model IS sensitive to the rule —
under a fallback that sees the parent's stored attribute the same class would read `LOCAL_ACCOUNT_ID`, a keyword-less class
derived from `S3Compatible` would read `S3C_…` -/
example :
    (∃ mc ∈ optShippedBackendClasses, mc.2.length ≥ 2 ∧ ∃ row ∈ optRows, row.scope = 2 ∧ row.owner = mc.1 ∧
      backendEnvVar optShortNameRule (mc.2.map classOfDecl) row.dest ≠
        backendEnvVar optShortNameRule ((mc.2.map classOfDecl).drop 1) row.dest) ∧
    backendEnvVar optShortNameRule [⟨"ProudCloud", none, none⟩, ⟨"Local", none, none⟩] "account_id" = some "PROUDCLOUD_ACCOUNT_ID" ∧
    backendEnvVar .inheritedAttr [⟨"ProudCloud", none, none⟩, ⟨"Local", none, none⟩] "account_id" = some "LOCAL_ACCOUNT_ID" ∧
    backendEnvVar .inheritedAttr [⟨"Cold", none, none⟩, ⟨"Mid", none, none⟩, ⟨"S3Compatible", some "S3C", none⟩] "key_id" = some "S3C_KEY_ID" ∧
    backendEnvVar .inheritedAttr [⟨"Cold", some "cs", none⟩, ⟨"S3Compatible", some "S3C", none⟩] "key_id" = some "CS_KEY_ID" ∧
    (classBackendRow optShortNameRule [⟨"Cold", none, none⟩, ⟨"B2", none, some "bb"⟩] "cold" "max_conn" 4).map (fun r => (r.cli.map (·.flag), r.env.map (·.1), r.file.map (·.key)))
      = some (["--max-conn"], some "COLD_MAX_CONN", ["max-conn"]) := by
  decide

/-- every sub-command and at least 50 option rows are covered -/
example : optCommands.length ≥ 13 ∧ optRows.length ≥ 50 ∧ (optRows.filter (·.scope == 2)).length ≥ 15 := by decide

end Replicat.C19
