import ReplicatProofs.Lemmas.RepoAccess
import ReplicatProofs.Lemmas.TimeKey
/-!
# C15 — restore and the listings select exactly what the filters and timestamps say

Property theorems only, over `Repo.lean`: `restore` (`loadSnapshots` with the snapshot filter → readable bodies sorted newest
first → first occurrence of a path wins, file filter per path), `listSnapshots`, `listFiles`, `deletePlan`.
Regular expressions are arbitrary predicates (`sre` on snapshot names, `fre` on paths).  `Readable enc u sre s b` = `b` is the
body of a listed snapshot object whose name matches `sre`, whose tag is `u`'s family's (encrypted repositories) and whose
private part decrypts with `u`'s key.  A file version is `(path, ver, needs)`; that the bytes restored for a version are the
recorded ones, and that the listed size is the true size, is C01 (`roundtrip`, `refs_tile`).
-/
namespace Replicat.C15
open Replicat Replicat.Repo List

/-- **Restore selects, per path, the version from the newest matching readable snapshot containing the path — and nothing
else.**  For pairwise different timestamps: a file version is written iff its path passes the file filter and it is recorded in
a readable snapshot matching the snapshot filter such that no other such snapshot containing the path is newer.  Every path is
written at most once; the command fails only when a chunk needed by a selected version is missing. -/
theorem restore_select_spec (enc : Bool) (u : User) (sre fre : Nat → Bool) (s : Store) (h : WF s)
    (hts : (((loadedPure enc u sre s).filterMap (·.data)).map (·.ts)).Nodup)
    (hpaths : ∀ b, Readable enc u sre s b → (b.files.map (·.path)).Nodup) :
    ∃ sel, (restore enc u sre fre s = if sel.all (fun f => f.needs.all (chunkOk u s)) then .ok sel else .error .missing) ∧
      (sel.map (·.path)).Nodup ∧
      ∀ f, f ∈ sel ↔ fre f.path = true ∧ ∃ b, Readable enc u sre s b ∧ f ∈ b.files ∧
        ∀ b', Readable enc u sre s b' → (∃ g ∈ b'.files, g.path = f.path) → b'.ts ≤ b.ts := by
  refine ⟨selectFiles fre (readableNewestFirst (loadedPure enc u sre s)), ?_, selectFiles_nodup_paths _ _, ?_⟩
  · unfold restore
    rw [loadSnapshots_wf enc u sre s h]
  · intro f
    rw [mem_selectFiles, findSome?_sorted (·.ts) _ _ (readableNewestFirst_sorted _ hts)]
    constructor
    · rintro ⟨hfre, b, hb, hfind, hmax⟩
      refine ⟨hfre, b, (mem_readable h b).mp hb, mem_of_find?_eq_some hfind, ?_⟩
      intro b' hb' hex
      exact hmax b' ((mem_readable h b').mpr hb') ((find?_path_isSome_iff _ _).mpr hex)
    · rintro ⟨hfre, b, hb, hf, hmax⟩
      refine ⟨hfre, b, (mem_readable h b).mpr hb, find?_path_of_mem (hpaths b hb) hf, ?_⟩
      intro b' hb' hsome
      exact hmax b' ((mem_readable h b').mp hb') ((find?_path_isSome_iff _ _).mp hsome)

/-- **Nothing else is written.**  Without any assumption on timestamps: every file version a successful `restore` writes
passes the file filter, is recorded in a readable snapshot matching the snapshot filter, has all the chunks it needs, and no
path is written twice. -/
theorem restore_nothing_else (enc : Bool) (u : User) (sre fre : Nat → Bool) (s : Store) (h : WF s) (sel : List FileRec)
    (hr : restore enc u sre fre s = .ok sel) :
    (sel.map (·.path)).Nodup ∧
    ∀ f ∈ sel, fre f.path = true ∧ (∃ b, Readable enc u sre s b ∧ f ∈ b.files) ∧ ∀ c ∈ f.needs, chunkOk u s c = true := by
  unfold restore at hr
  rw [loadSnapshots_wf enc u sre s h] at hr
  simp only at hr
  split at hr
  · rename_i hall
    simp only [Except.ok.injEq] at hr
    subst hr
    refine ⟨selectFiles_nodup_paths _ _, ?_⟩
    intro f hf
    obtain ⟨hfre, hfs⟩ := (mem_selectFiles fre _ f).mp hf
    obtain ⟨b, hb, hfind⟩ := exists_of_findSome?_eq_some hfs
    refine ⟨hfre, ⟨b, (mem_readable h b).mp hb, mem_of_find?_eq_some hfind⟩, ?_⟩
    intro c hc
    rw [all_eq_true] at hall
    have := hall f hf
    rw [all_eq_true] at this
    exact this c hc
  · cases hr

/-- **The snapshot filter selects exactly the matching names**: listing under a filter shows the rows of the unfiltered
listing whose name the filter accepts (same multiset; both are ordered newest first by `list_rows_spec`). -/
theorem list_filter_commutes (enc : Bool) (u : User) (sre : Nat → Bool) (s : Store) (h : WF s) :
    ∃ rows all, listSnapshots enc u sre s = .ok rows ∧ listSnapshots enc u (fun _ => true) s = .ok all ∧
      rows.Perm (all.filter (fun r => sre r.sid)) := by
  have hfilter : loadedPure enc u sre s = (loadedPure enc u (fun _ => true) s).filter (fun l => sre l.sid) := by
    unfold loadedPure
    rw [filter_filterMap]
    apply filterMap_congr'
    rintro ⟨n, o⟩ _
    cases n with
    | snap f sid =>
      cases o with
      | snap f' sid' b =>
        simp only [Bool.true_and]
        by_cases hv : visible enc u f = true
        · by_cases hs : sre sid = true
          · simp [hv, hs, toLoaded, Option.filter]
          · simp [hv, hs, toLoaded, Option.filter]
        · simp [hv]
      | _ => simp
    | _ => simp
  unfold listSnapshots
  rw [loadSnapshots_wf enc u sre s h, loadSnapshots_wf enc u _ s h]
  refine ⟨_, _, rfl, rfl, ?_⟩
  refine (mergeSort_perm _ _).trans ?_
  refine Perm.trans ?_ ((mergeSort_perm _ rowGE).filter _).symm
  rw [hfilter, filter_map]
  exact Perm.refl _

/-- **`list-snapshots` shows exactly the snapshots the caller can see, newest first.**  One row per listed snapshot object
that matches the filter and carries the caller's family tag; timestamp and file count are the recorded ones when the private
part decrypts with the caller's key, empty otherwise; rows are ordered by timestamp descending (rows without details last). -/
theorem list_rows_spec (enc : Bool) (u : User) (sre : Nat → Bool) (s : Store) (h : WF s) :
    ∃ rows, listSnapshots enc u sre s = .ok rows ∧
      rows.Pairwise (fun a b => b.ts.getD 0 ≤ a.ts.getD 0) ∧
      rows.Perm ((loadedPure enc u sre s).map fun l => ⟨l.sid, l.data.map (·.ts), l.data.map (·.files.length)⟩) ∧
      ∀ r, r ∈ rows ↔ ∃ f sid b, get s (.snap f sid) = some (.snap f sid b) ∧ sre sid = true ∧ visible enc u f = true ∧
        r = if (!enc || b.owner == u.key) = true then ⟨sid, some b.ts, some b.files.length⟩ else ⟨sid, none, none⟩ := by
  unfold listSnapshots
  rw [loadSnapshots_wf enc u sre s h]
  refine ⟨_, rfl, ?_, mergeSort_perm _ _, ?_⟩
  · have := pairwise_mergeSort (le := rowGE)
      (by intro a b c; unfold rowGE; simp only [decide_eq_true_eq]; omega)
      (by intro a b; unfold rowGE; simp only [Bool.or_eq_true, decide_eq_true_eq]; omega)
      ((loadedPure enc u sre s).map fun l => (⟨l.sid, l.data.map (·.ts), l.data.map (·.files.length)⟩ : SnapRow))
    exact this.imp (by intro a b hab; simpa [rowGE] using hab)
  · intro r
    rw [mem_mergeSort, mem_map]
    constructor
    · rintro ⟨l, hl, rfl⟩
      obtain ⟨b, hg, hre, hvis, hl'⟩ := (mem_loadedPure h).mp hl
      refine ⟨l.fam, l.sid, b, hg, hre, hvis, ?_⟩
      rw [hl']
      simp only [toLoaded]
      split <;> simp
    · rintro ⟨f, sid, b, hg, hre, hvis, rfl⟩
      refine ⟨toLoaded enc u f sid b, toLoaded_mem h hg hre hvis, ?_⟩
      simp only [toLoaded]
      split <;> simp

/-- **`list-files` shows exactly the files of the readable matching snapshots that pass the file filter, newest snapshot
first**, each with its recorded path and version. -/
theorem listfiles_rows_spec (enc : Bool) (u : User) (sre fre : Nat → Bool) (s : Store) (h : WF s) :
    ∃ rows, listFiles enc u sre fre s = .ok rows ∧
      rows.Pairwise (fun a b => b.1 ≤ a.1) ∧
      ∀ r, r ∈ rows ↔ ∃ b, Readable enc u sre s b ∧ ∃ f ∈ b.files, fre f.path = true ∧ r = (b.ts, f.path, f.ver) := by
  unfold listFiles
  rw [loadSnapshots_wf enc u sre s h]
  refine ⟨_, rfl, ?_, ?_⟩
  · rw [pairwise_flatMap]
    constructor
    · intro b _
      rw [pairwise_map]
      exact pairwise_of_forall (by intro x y; exact Nat.le_refl _)   -- same snapshot: same timestamp
    · have hs : (readableNewestFirst (loadedPure enc u sre s)).Pairwise (fun a b => tsGE a b = true) := by
        unfold readableNewestFirst
        exact pairwise_mergeSort tsGE_trans tsGE_total _
      refine hs.imp ?_
      intro a b hab x hx y hy
      obtain ⟨_, _, rfl⟩ := mem_map.mp hx
      obtain ⟨_, _, rfl⟩ := mem_map.mp hy
      simpa [tsGE] using hab
  · intro r
    rw [mem_flatMap]
    constructor
    · rintro ⟨b, hb, hr⟩
      obtain ⟨f, hf, rfl⟩ := mem_map.mp hr
      obtain ⟨hf1, hf2⟩ := mem_filter.mp hf
      exact ⟨b, (mem_readable h b).mp hb, f, hf1, hf2, rfl⟩
    · rintro ⟨b, hb, f, hf1, hf2, rfl⟩
      exact ⟨b, (mem_readable h b).mpr hb, mem_map.mpr ⟨f, mem_filter.mpr ⟨hf1, hf2⟩, rfl⟩⟩

/-- **The names the listing prints are the names the snapshot filter and `delete` accept.**  For every printed row: the name
passed the filter it was listed under; used as an exact filter it selects that row and only rows of that name; `delete` knows
it (never "not available"); and when the row shows details, `delete` of that name is accepted and removes snapshot objects of
exactly that name. -/
theorem names_agree (enc : Bool) (u : User) (sre : Nat → Bool) (s : Store) (h : WF s) (rows : List SnapRow)
    (hr : listSnapshots enc u sre s = .ok rows) (r : SnapRow) (hrm : r ∈ rows) :
    sre r.sid = true ∧
    (∃ rows', listSnapshots enc u (fun x => x == r.sid) s = .ok rows' ∧ r ∈ rows' ∧ ∀ r' ∈ rows', r'.sid = r.sid) ∧
    deletePlan enc u [r.sid] s ≠ .error .notAvailable ∧
    (r.ts.isSome = true → ∃ p, deletePlan enc u [r.sid] s = .ok p ∧ (∃ f, Name.snap f r.sid ∈ p.snaps) ∧
        ∀ n ∈ p.snaps, ∃ f, n = Name.snap f r.sid) := by
  unfold listSnapshots at hr
  rw [loadSnapshots_wf enc u sre s h] at hr
  simp only [Except.ok.injEq] at hr
  subst hr
  rw [mem_mergeSort, mem_map] at hrm
  obtain ⟨l, hl, rfl⟩ := hrm
  obtain ⟨b, hg, hre, hvis, hl'⟩ := (mem_loadedPure h).mp hl
  simp only
  have hlt : toLoaded enc u l.fam l.sid b ∈ loadedPure enc u (fun _ => true) s := toLoaded_mem h hg rfl hvis
  rw [← hl'] at hlt
  have hna : (([l.sid] : List Nat).any (fun sid => !(loadedPure enc u (fun _ => true) s).any (fun l => l.sid == sid))) = false := by
    simp only [any_cons, any_nil, Bool.or_false, Bool.not_eq_false', any_eq_true, beq_iff_eq]
    exact ⟨l, hlt, rfl⟩
  have hplan := deletePlan_wf enc u [l.sid] s h
  rw [hna] at hplan
  refine ⟨hre, ?_, ?_, ?_⟩
  · unfold listSnapshots
    rw [loadSnapshots_wf enc u _ s h]
    refine ⟨_, rfl, ?_, ?_⟩
    · rw [mem_mergeSort, mem_map]
      have : toLoaded enc u l.fam l.sid b ∈ loadedPure enc u (fun x => x == l.sid) s := toLoaded_mem h hg (by simp) hvis
      rw [← hl'] at this
      exact ⟨l, this, rfl⟩
    · intro r' hr'
      rw [mem_mergeSort, mem_map] at hr'
      obtain ⟨l', hl'', rfl⟩ := hr'
      obtain ⟨_, _, hre', _, _⟩ := (mem_loadedPure h).mp hl''
      simpa using hre'
  · rw [hplan]
    split <;> simp
  · intro hsome
    have hdata : l.data.isSome = true := by simpa using hsome
    have hnd : (loadedPure enc u (fun _ => true) s).any (fun l' => ([l.sid] : List Nat).contains l'.sid && l'.data.isNone) = false := by
      rw [any_eq_false]
      intro l' hl'm hc
      simp only [contains_cons, contains_nil, Bool.or_false, Bool.and_eq_true, beq_iff_eq] at hc
      obtain ⟨hsid, hnone⟩ := hc
      obtain ⟨b', hg', _, hvis', hl''⟩ := (mem_loadedPure h).mp hl'm
      -- an unreadable body only exists in an encrypted repository, where every loaded snapshot has the user's family
      have henc : enc = true := by
        rw [hl''] at hnone
        cases enc
        · simp [toLoaded] at hnone
        · rfl
      subst henc
      have hf1 : l'.fam = u.fam := by simpa [visible] using hvis'
      have hf2 : l.fam = u.fam := by simpa [visible] using hvis
      rw [hf1, hsid, ← hf2, hg] at hg'
      simp only [Option.some.injEq, Obj.snap.injEq, true_and] at hg'
      have : l' = l := by rw [hl'', hl', hf1, hf2, hsid, hg']
      rw [this] at hnone
      cases hd : l.data <;> simp [hd] at hnone hdata
    rw [hnd] at hplan
    simp only [Bool.false_eq_true, if_false] at hplan
    refine ⟨_, hplan, ⟨l.fam, ?_⟩, ?_⟩
    · simp only [mem_map, mem_filter]
      exact ⟨l, ⟨hlt, by simp⟩, rfl⟩
    · intro n hn
      simp only [mem_map, mem_filter] at hn
      obtain ⟨l', ⟨_, hc⟩, rfl⟩ := hn
      simp only [contains_cons, contains_nil, Bool.or_false, beq_iff_eq] at hc
      exact ⟨l'.fam, by rw [hc]⟩

/-! ## the order does not depend on the time zone of any process

The theorems above order snapshots by `Body.ts`, the UTC timestamp.  The code orders them by a key derived from the recorded
string, inside a process that has a local zone.  `TimeKey.restoreKey`, `listFilesKey`, `listSnapshotsKey`, `recordedClock` are
the KINDS of those keys read from the source on every run (`tools/sections/15_timekey.py`); `TimeKey.sortKey k loc t` is the key
of kind `k` for the UTC value `t` in a process whose zone is `loc` — an arbitrary function, so every DST rule, gap and fold.
The two theorems compile only while no key is of a zone-dependent kind (`localEpoch` = the naive value re-read as local time,
`localWall` = the local wall clock): for those they are false (`localEpoch_misorders`, `localWall_misorders`).  A key the
extractor cannot classify is an explicit hypothesis (then the time-zone worlds of the harness, doubled, decide). -/

/-- **The order in which `restore`, `list-files` and `list-snapshots` consider snapshots is the order of their UTC timestamps,
in whatever time zone the command runs.**  Sorting with the code's key, evaluated under any zone `loc`, IS the model's
newest-first order by UTC timestamp — so `restore_select_spec`, `list_rows_spec`, `listfiles_rows_spec` hold for the process
in zone `loc`, across daylight-saving gaps and folds included. -/
theorem order_zone_independent (loc : TimeKey.Zone) :
    (TimeKey.restoreKey ≠ .unrecognised → ∀ ls : List Loaded,
        (ls.filterMap (·.data)).mergeSort (TimeKey.bodyGE TimeKey.restoreKey loc) = readableNewestFirst ls) ∧
    (TimeKey.listFilesKey ≠ .unrecognised → ∀ ls : List Loaded,
        (ls.filterMap (·.data)).mergeSort (TimeKey.bodyGE TimeKey.listFilesKey loc) = readableNewestFirst ls) ∧
    (TimeKey.listSnapshotsKey ≠ .unrecognised → ∀ rows : List SnapRow,
        rows.mergeSort (TimeKey.rowKeyGE TimeKey.listSnapshotsKey loc) = rows.mergeSort rowGE) := by
  refine ⟨fun hk ls => ?_, fun hk ls => ?_, fun hk rows => ?_⟩
  · have hz : TimeKey.restoreKey.zoneFree = true ∨ TimeKey.restoreKey = .unrecognised := by decide
    rcases hz with hz | hz
    · rw [TimeKey.bodyGE_eq_tsGE hz]; rfl
    · exact absurd hz hk
  · have hz : TimeKey.listFilesKey.zoneFree = true ∨ TimeKey.listFilesKey = .unrecognised := by decide
    rcases hz with hz | hz
    · rw [TimeKey.bodyGE_eq_tsGE hz]; rfl
    · exact absurd hz hk
  · have hz : TimeKey.listSnapshotsKey.zoneFree = true ∨ TimeKey.listSnapshotsKey = .unrecognised := by decide
    rcases hz with hz | hz
    · rw [TimeKey.rowKeyGE_eq_rowGE hz]
    · exact absurd hz hk

/-- **What `snapshot` records as the timestamp is strictly increasing in the true instant, in whatever zone the snapshotting
machine lives** (it is the UTC value, not a wall-clock reading): a later snapshot never gets an earlier-or-equal recorded value
because of a zone or a fall-back hour. -/
theorem recorded_clock_zone_independent (hk : TimeKey.recordedClock ≠ .unrecognised) (loc : TimeKey.Zone) (t₁ t₂ : Int)
    (hlt : t₁ < t₂) : TimeKey.sortKey TimeKey.recordedClock loc t₁ < TimeKey.sortKey TimeKey.recordedClock loc t₂ := by
  have hz : TimeKey.recordedClock.zoneFree = true ∨ TimeKey.recordedClock = .unrecognised := by decide
  rcases hz with hz | hz
  · exact TimeKey.sortKey_strictMono hz loc hlt
  · exact absurd hz hk

/-- the zone-dependent kinds are really different: under a zone that springs forward, `naive.timestamp()` as a key puts an
older snapshot (UTC value inside the skipped hour) after a newer one taken less than an hour later; the local wall clock does
the same across the fall-back instant; under a fixed offset neither happens -/
example : (∃ loc t₁ t₂, t₁ < t₂ ∧ TimeKey.sortKey .localEpoch loc t₂ < TimeKey.sortKey .localEpoch loc t₁) ∧
    (∃ loc t₁ t₂, t₁ < t₂ ∧ TimeKey.sortKey .localWall loc t₂ < TimeKey.sortKey .localWall loc t₁) ∧
    (∀ c t₁ t₂ : Int, t₁ < t₂ → TimeKey.sortKey .localEpoch (fun u => u + c) t₁ < TimeKey.sortKey .localEpoch (fun u => u + c) t₂) :=
  ⟨⟨_, _, _, TimeKey.localEpoch_misorders⟩, ⟨_, _, _, TimeKey.localWall_misorders⟩,
    fun c t₁ t₂ h => by simp only [TimeKey.sortKey, TimeKey.pyMktime_fixed_offset]; omega⟩

/-- non-vacuity: the string key satisfies the hypotheses; under the spring-forward zone it compares two bodies by their UTC
values (101800 lies in the skipped hour), where the re-read-as-local key compares them the other way round -/
example : TimeKey.KeyKind.utcString ≠ .unrecognised ∧ TimeKey.KeyKind.utcString.zoneFree = true ∧
    TimeKey.bodyGE .utcString TimeKey.springZone ⟨1, 104200, [], []⟩ ⟨1, 101800, [], []⟩ = true ∧
    TimeKey.bodyGE .utcString TimeKey.springZone ⟨1, 101800, [], []⟩ ⟨1, 104200, [], []⟩ = false ∧
    TimeKey.bodyGE .localEpoch TimeKey.springZone ⟨1, 101800, [], []⟩ ⟨1, 104200, [], []⟩ = true := by
  decide

/-! ## non-vacuity and the role of the hypotheses -/

/-- with EQUAL timestamps the selected version depends on the listing order (so "distinct timestamps" is needed):
two snapshots of one path, both orders of the same two bodies -/
example :
    selectFiles (fun _ => true) [⟨1, 5, [], [⟨1, 10, []⟩]⟩, ⟨1, 5, [], [⟨1, 20, []⟩]⟩] = [⟨1, 10, []⟩] ∧
    selectFiles (fun _ => true) [⟨1, 5, [], [⟨1, 20, []⟩]⟩, ⟨1, 5, [], [⟨1, 10, []⟩]⟩] = [⟨1, 20, []⟩] := by
  decide

/-- three snapshots (ts 10, 20, 30) over paths 1..3 where paths appear, change and disappear; newest-first selection with a
file filter that rejects path 3 -/
example :
    selectFiles (fun p => p != 3)
      [⟨1, 30, [], [⟨2, 22, []⟩]⟩, ⟨1, 20, [], [⟨1, 12, []⟩, ⟨3, 31, []⟩]⟩, ⟨1, 10, [], [⟨1, 11, []⟩, ⟨2, 21, []⟩]⟩]
      = [⟨2, 22, []⟩, ⟨1, 12, []⟩] := by
  decide

/-- the hypotheses of `restore_select_spec` hold on the example store of C06 for the shared user -/
example : ∃ sel : List FileRec, (sel.map (·.path)).Nodup ∧ ∀ f, f ∈ sel ↔ (fun _ => true) f.path = true ∧ ∃ b, Readable true ⟨2, 1⟩ (fun _ => true) exStore b ∧ f ∈ b.files ∧
    ∀ b', Readable true ⟨2, 1⟩ (fun _ => true) exStore b' → (∃ g ∈ b'.files, g.path = f.path) → b'.ts ≤ b.ts := by
  obtain ⟨sel, _, h2, h3⟩ := restore_select_spec true ⟨2, 1⟩ (fun _ => true) (fun _ => true) exStore exStore_wf (by decide)
    (by
      intro b hb
      have := (mem_readable (enc := true) (u := ⟨2, 1⟩) (sre := fun _ => true) exStore_wf b).mpr hb
      rw [mem_readableNewestFirst] at this
      obtain ⟨l, hl, hd⟩ := this
      have hl2 : l ∈ [toLoaded true ⟨2, 1⟩ 1 2 ⟨2, 20, [5, 7], [⟨1, 2, [5, 7]⟩]⟩, toLoaded true ⟨2, 1⟩ 1 1 ⟨1, 10, [5, 6], [⟨1, 1, [5, 6]⟩]⟩] := by
        have : loadedPure true ⟨2, 1⟩ (fun _ => true) exStore = [toLoaded true ⟨2, 1⟩ 1 2 ⟨2, 20, [5, 7], [⟨1, 2, [5, 7]⟩]⟩, toLoaded true ⟨2, 1⟩ 1 1 ⟨1, 10, [5, 6], [⟨1, 1, [5, 6]⟩]⟩] := by decide
        rw [← this]; exact hl
      simp only [mem_cons, not_mem_nil, or_false] at hl2
      rcases hl2 with rfl | rfl
      · simp only [toLoaded] at hd; cases hd; decide
      · simp [toLoaded] at hd)
  exact ⟨sel, h2, h3⟩

end Replicat.C15
