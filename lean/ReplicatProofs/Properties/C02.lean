import ReplicatProofs.Lemmas.RepoSafety
import ReplicatProofs.Lemmas.RepoCrash
import ReplicatProofs.Lemmas.RepoConcSeq
import ReplicatProofs.Lemmas.RepoConcRestore
import ReplicatProofs.Lemmas.RepoConcSched
import ReplicatProofs.Lemmas.RepoListing
/-!
# C02 — no history of snapshot / delete / clean ever damages a remaining snapshot

Property theorems only.  Objects: the repository state machine of `ReplicatModel/Repo.lean` (`snapshot`, `deleteSnapshots`,
`clean`, `restore`, `step`, `run`, the mutation plans `planOf` / `acceptsPrefix`), for ARBITRARY users (same key, clone, shared
key = same family, independent key = other family), encrypted or not, arbitrary histories.

Invariant: `Consistent enc s` = well-formed object map ∧ every snapshot object's chunk table entries exist as valid chunk
objects of its own family ∧ every file only needs chunks of its table, each path once (`Lemmas/RepoInv.lean`).
Modelling convention (not a restriction of the code): an unencrypted repository has one family, number 0 (`UserOk`, `FamOk`):
there are no keys, names are plain digests; the `example` at the end shows that the *model* of `clean` would remove another
family's chunks if this convention were dropped.
Ideal cryptography (DESIGN.md §4): a chunk's content id is its digest; names are injective in (family, content).
-/
namespace Replicat.C02
open Replicat.Repo List

/-- the freshly initialised repository is consistent -/
theorem consistent_init (enc : Bool) : Consistent enc initStore := initStore_consistent enc

/-- **Every command of every user preserves the invariant**: snapshot (any sid, fresh or not), delete (success, "different
key", "not available"), clean — by the owner, a clone, a shared-key user or an independent-key user. -/
theorem consistent_step (enc : Bool) (s : Store) (op : Op) (h : Consistent enc s) (hop : OpOk enc op) :
    Consistent enc (step enc s op) := step_consistent h hop

/-- **Every reachable state is consistent** (induction over the history). -/
theorem consistent_reachable (enc : Bool) (s : Store) (ops : List Op) (h : Consistent enc s) (hops : ∀ op ∈ ops, OpOk enc op) :
    Consistent enc (run enc s ops) := by
  unfold run
  induction ops generalizing s with
  | nil => exact h
  | cons op ops ih =>
    simp only [foldl_cons]
    exact ih _ (step_consistent h (hops op (by simp))) (fun o ho => hops o (mem_cons_of_mem _ ho))

/-- **A listed snapshot restores exactly.**  In a consistent state, a user who can read a listed snapshot (tag verifies =
`visible`, private part decrypts with his key) restores it by a regex on its own name: the command succeeds and writes exactly
the snapshot's files (those matching the file filter), in the recorded versions. -/
theorem restore_listed_exact (enc : Bool) (u : User) (s : Store) (f : Fam) (sid : Nat) (b : Body) (fre : Nat → Bool)
    (hc : Consistent enc s) (hu : UserOk enc u) (hg : get s (.snap f sid) = some (.snap f sid b))
    (hv : visible enc u f = true) (hr : (!enc || b.owner == u.key) = true) :
    restore enc u (fun x => x == sid) fre s = .ok (b.files.filter (fun fr => fre fr.path)) :=
  restore_single hc hu hg hv hr fre

/-- **A snapshot object that is still there is the one that was written**: no command other than a snapshot producing the very
same name (impossible for a different body: the name is the digest of the stored bytes) changes a present snapshot object; it
is either untouched or deleted. -/
theorem remaining_snapshot_unchanged (enc : Bool) (s : Store) (ops : List Op) (f : Fam) (sid : Nat) (o : Obj)
    (h : Consistent enc s) (hops : ∀ op ∈ ops, OpOk enc op)
    (hname : ∀ u st fs ts sid', Op.snapshot u st fs ts sid' ∈ ops → Name.snap u.fam sid' ≠ Name.snap f sid)
    (hg : get s (.snap f sid) = some o) :
    get (run enc s ops) (.snap f sid) = some o ∨ get (run enc s ops) (.snap f sid) = none := by
  unfold run
  induction ops generalizing s with
  | nil => exact Or.inl hg
  | cons op ops ih =>
    simp only [foldl_cons]
    have hcons := step_consistent h (hops op (by simp))
    have hstep : get (step enc s op) (.snap f sid) = some o ∨ get (step enc s op) (.snap f sid) = none := by
      cases op with
      | snapshot u st fs ts sid' =>
        left
        simp only [step]
        rw [snapshot_get_snap_other u st fs ts sid' s (fun e => hname u st fs ts sid' (by simp) e.symm)]
        exact hg
      | delete u sids =>
        simp only [step]
        split
        · rename_i s' hd
          have sp := delete_spec h.1 hd
          by_cases hcnd : sid ∈ sids ∧ visible enc u f = true
          · right; exact sp.snap_gone f sid hcnd.1 hcnd.2
          · left; rw [sp.snap_keep f sid hcnd]; exact hg
        · exact Or.inl hg
      | clean u =>
        simp only [step]
        split
        · rename_i s' hd
          obtain ⟨s'', hs'', sp⟩ := clean_spec (enc := enc) (u := u) h.1
          rw [hd] at hs''; cases hs''
          left; rw [sp.snap_keep]; exact hg
        · exact Or.inl hg
    rcases hstep with h1 | h1
    · exact ih _ hcons (fun o ho => hops o (mem_cons_of_mem _ ho))
        (fun u st fs ts sid' hm => hname u st fs ts sid' (mem_cons_of_mem _ hm)) h1
    · -- once deleted, only a snapshot with that name could bring it back
      right
      have frame : ∀ (ops : List Op) (s : Store), Consistent enc s → (∀ op ∈ ops, OpOk enc op) →
          (∀ u st fs ts sid', Op.snapshot u st fs ts sid' ∈ ops → Name.snap u.fam sid' ≠ Name.snap f sid) →
          get s (.snap f sid) = none → get (foldl (step enc) s ops) (.snap f sid) = none := by
        intro ops
        induction ops with
        | nil => intro s _ _ _ hn; exact hn
        | cons op ops ih2 =>
          intro s hcs hok hnm hn
          simp only [foldl_cons]
          apply ih2 _ (step_consistent hcs (hok op (by simp))) (fun o ho => hok o (mem_cons_of_mem _ ho))
            (fun u st fs ts sid' hm => hnm u st fs ts sid' (mem_cons_of_mem _ hm))
          cases op with
          | snapshot u st fs ts sid' =>
            simp only [step]
            rw [snapshot_get_snap_other u st fs ts sid' s (fun e => hnm u st fs ts sid' (by simp) e.symm)]
            exact hn
          | delete u sids =>
            simp only [step]
            split
            · rename_i s' hd
              have sp := delete_spec hcs.1 hd
              by_cases hcnd : sid ∈ sids ∧ visible enc u f = true
              · exact sp.snap_gone f sid hcnd.1 hcnd.2
              · rw [sp.snap_keep f sid hcnd]; exact hn
            · exact hn
          | clean u =>
            simp only [step]
            split
            · rename_i s' hd
              obtain ⟨s'', hs'', sp⟩ := clean_spec (enc := enc) (u := u) hcs.1
              rw [hd] at hs''; cases hs''
              rw [sp.snap_keep]; exact hn
            · exact hn
      exact frame ops _ hcons (fun o ho => hops o (mem_cons_of_mem _ ho))
        (fun u st fs ts sid' hm => hname u st fs ts sid' (mem_cons_of_mem _ hm)) h1

/-- **The property.**  Take a snapshot (files `files`) in any consistent state, then let ANY admissible history of snapshots,
deletes and cleans by any users follow.  If the snapshot is still listed afterwards, its owner restores it completely and gets
exactly the files captured when it was taken. -/
theorem snapshot_survives_history (enc : Bool) (s : Store) (u : User) (stream : List Content) (files : List FileRec) (ts sid : Nat)
    (ops : List Op) (fre : Nat → Bool)
    (h : Consistent enc s) (hop : OpOk enc (.snapshot u stream files ts sid)) (hops : ∀ op ∈ ops, OpOk enc op)
    (hname : ∀ u' st fs ts' sid', Op.snapshot u' st fs ts' sid' ∈ ops → Name.snap u'.fam sid' ≠ Name.snap u.fam sid)
    (hlisted : get (run enc (step enc s (.snapshot u stream files ts sid)) ops) (.snap u.fam sid) ≠ none) :
    restore enc u (fun x => x == sid) fre (run enc (step enc s (.snapshot u stream files ts sid)) ops)
      = .ok (files.filter (fun fr => fre fr.path)) := by
  have h1 := step_consistent h hop
  have h2 := consistent_reachable enc _ ops h1 hops
  have hg : get (step enc s (.snapshot u stream files ts sid)) (.snap u.fam sid)
      = some (.snap u.fam sid ⟨u.key, ts, dedupKeepFirstC stream, files⟩) := snapshot_get_snapname u stream files ts sid s
  rcases remaining_snapshot_unchanged enc _ ops u.fam sid _ h1 hops hname hg with hk | hk
  · exact restore_listed_exact enc u _ u.fam sid _ fre h2 hop.1 hk (visible_own enc u) (by simp)
  · exact absurd hk hlisted

/-- **No overwrite with different bytes.**  Whatever state `s'` the repository is in when a chunk `put` planned by any command
(in any state `s`) reaches the backend — e.g. because another process uploaded the same chunk in between — an object already
stored under that name is identical to the payload of the `put`. -/
theorem no_overwrite (enc : Bool) (s s' : Store) (op : Op) (stage : List Mut) (f : Fam) (c : Content) (o o' : Obj)
    (hs' : WF s') (hstage : stage ∈ planOf enc s op) (hm : Mut.put (.chunk f c) o ∈ stage)
    (hg : get s' (.chunk f c) = some o') : o' = o := by
  have ho' := hs'.get_chunk hg
  subst ho'
  cases op with
  | snapshot u stream files ts sid =>
    simp only [planOf, snapshotPlan, mem_cons, not_mem_nil, or_false] at hstage
    rcases hstage with rfl | rfl
    · obtain ⟨n, _, hn⟩ := mem_map.mp hm
      cases n <;> simp at hn
      obtain ⟨⟨rfl, rfl⟩, rfl⟩ := hn
      rfl
    · simp at hm
  | delete u sids =>
    simp only [planOf, deleteMutPlan] at hstage
    split at hstage
    · simp at hstage
    · simp only [mem_cons, not_mem_nil, or_false] at hstage
      rcases hstage with rfl | rfl <;> simp at hm
  | clean u =>
    simp only [planOf, cleanMutPlan] at hstage
    split at hstage
    · simp at hstage
    · simp only [mem_cons, not_mem_nil, or_false] at hstage
      subst hstage
      simp at hm

/-- **Interrupted or in-flight command.**  After every prefix of every completion order the code allows for a command —
snapshot: chunk uploads in any order, the snapshot object only after all of them; delete: snapshot objects in any order, chunk
deletions only after all of them; clean: deletions in any order — the repository is consistent: a command that is cut short
at any point (and run alone, if destructive) damages no remaining snapshot. -/
theorem consistent_prefix (enc : Bool) (s : Store) (op : Op) (tr : List Mut) (h : Consistent enc s) (hop : OpOk enc op)
    (hacc : acceptsPrefix (planOf enc s op) tr = true) : Consistent enc (applyMuts s tr) := by
  cases op with
  | snapshot u stream files ts sid =>
    obtain ⟨h1, h2⟩ := snapshotPlan_supported h.1 hop hacc
    exact supported_consistent tr s h h2 h1
  | delete u sids => exact delete_prefix_consistent h hop hacc
  | clean u => exact clean_prefix_consistent h hop hacc

/-- **Overlapping non-destructive commands** (README: snapshots may run concurrently, from one or several processes).  Two
snapshot commands by any two users start in the same consistent state; their backend mutations interleave arbitrarily, each
command respecting only its own ordering constraint, and either may be cut short: the repository is consistent after every such
interleaving.  (Destructive commands run alone: `consistent_step`.) -/
theorem consistent_interleaved (enc : Bool) (s : Store) (u1 u2 : User) (st1 st2 : List Content) (fs1 fs2 : List FileRec)
    (ts1 sid1 ts2 sid2 : Nat) (t1 t2 t : List Mut) (h : Consistent enc s)
    (hop1 : OpOk enc (.snapshot u1 st1 fs1 ts1 sid1)) (hop2 : OpOk enc (.snapshot u2 st2 fs2 ts2 sid2))
    (hacc1 : acceptsPrefix (planOf enc s (.snapshot u1 st1 fs1 ts1 sid1)) t1 = true)
    (hacc2 : acceptsPrefix (planOf enc s (.snapshot u2 st2 fs2 ts2 sid2)) t2 = true)
    (hi : Interleave t1 t2 t) : Consistent enc (applyMuts s t) := by
  obtain ⟨a1, a2⟩ := snapshotPlan_supported h.1 hop1 hacc1
  obtain ⟨b1, b2⟩ := snapshotPlan_supported h.1 hop2 hacc2
  obtain ⟨c1, c2⟩ := supported_interleave hi s s s (ChunkLe.refl s) (ChunkLe.refl s) a2 b2 a1 b1
  exact supported_consistent t s h c2 c1

/-! ## overlapping non-destructive commands, call by call (`ReplicatModel/RepoConc.lean`)

ANY number of snapshot commands of ANY users are in flight at once, each with its own pool of workers; every backend call is
one event (`exists` observation, `upload`, `commit` of the snapshot object, `read` of a read-only command).  Two workers — of
one command or of different ones — may both see a chunk absent and both upload it.  `crun cmds (CState.init s cmds) tr = some st`
says: `tr` is a possible order of completed calls and leads to `st`; every prefix of such a trace is one too (`crun_append`). -/

/-- **`Consistent` holds in every reachable state of every concurrent execution** of any number of snapshot commands by any
users, started in a consistent repository: however the `exists` / `upload` / `commit` calls of the workers interleave, and
wherever the execution is cut. -/
theorem consistent_concurrent (enc : Bool) (s : Store) (cmds : List SnapCmd) (tr : List Ev) (st : CState)
    (h : Consistent enc s) (hok : ∀ cmd ∈ cmds, OpOk enc cmd.op)
    (hrun : crun cmds (CState.init s cmds) tr = some st) : Consistent enc st.store :=
  (concInv_run hok (concInv_init cmds h) hrun).1

/-- **A complete concurrent execution ends in the object map of the sequential run of the same commands, in ANY order**
(chunk payloads are functions of (family, content), a snapshot object is a function of its command; `NamesOk`: a snapshot's
name is the digest of its stored bytes).  Equal as maps, and — both stores having unique keys — equal as sets of objects. -/
theorem concurrent_equals_sequential (enc : Bool) (s : Store) (cmds cmds' : List SnapCmd) (tr : List Ev) (st : CState)
    (h : Consistent enc s) (hok : ∀ cmd ∈ cmds, OpOk enc cmd.op) (hn : NamesOk cmds)
    (hrun : crun cmds (CState.init s cmds) tr = some st) (hdone : st.complete = true) (hperm : cmds'.Perm cmds) :
    (∀ n, Repo.get st.store n = Repo.get (run enc s (cmds'.map SnapCmd.op)) n) ∧
      st.store.Perm (run enc s (cmds'.map SnapCmd.op)) := by
  have hmem : ∀ x, x ∈ cmds' ↔ x ∈ cmds := fun x => hperm.mem_iff
  have hn' : NamesOk cmds' := fun a ha b hb => hn a ((hmem a).mp ha) b ((hmem b).mp hb)
  have hf1 := isFinal_conc h hok hn hrun hdone
  have hf2 : IsFinal s cmds (run enc s (cmds'.map SnapCmd.op)) :=
    (isFinal_run enc cmds' s hn').of_mem_iff (fun x => (hmem x).symm)
  have hget := hf1.unique hf2
  refine ⟨hget, ?_⟩
  have hwf1 : WF st.store := (consistent_concurrent enc s cmds tr st h hok hrun).1
  have hwf2 : WF (run enc s (cmds'.map SnapCmd.op)) := run_wf enc _ s h.1
  exact perm_of_get_eq hwf1 hwf2 hget

/-- **The sequential history is one of the concurrent executions** (so the concurrent semantics extends the sequential model,
and a complete execution exists for every list of commands whose pools have ≥ 1 worker): the trace "one command after the other,
per chunk `exists` then upload if absent, then the snapshot object" is accepted, complete, and ends in literally the store of
`run`. -/
theorem sequential_is_concurrent (enc : Bool) (s : Store) (cmds : List SnapCmd) (hw : ∀ cmd ∈ cmds, 1 ≤ cmd.workers) :
    ∃ st, crun cmds (CState.init s cmds) (seqTraceAll 0 s cmds) = some st ∧ st.complete = true ∧
      st.store = run enc s (cmds.map SnapCmd.op) := by
  have h := seqTraceAll_run enc cmds hw cmds [] s rfl
  simp only [map_nil, nil_append, length_nil] at h
  refine ⟨_, h, ?_, rfl⟩
  simp [CState.complete]

/-- **A snapshot that is listed at some point of a concurrent execution restores exactly at every later point** (README:
non-destructive commands may overlap).  `st1` is any reachable state in which the snapshot object `(f, sid)` with body `b` is
listed — it may have been there from the start or have been committed during the execution; `st2` is any state reachable from
`st1`, with any further `exists` / `upload` / `commit` calls of any commands in between.  A user who can read the snapshot
restores exactly its files.  `hname`: a command that produces this very name produces these very bytes (the name is the digest). -/
theorem restore_unaffected_by_concurrent_snapshots (enc : Bool) (s : Store) (cmds : List SnapCmd) (tr1 tr2 : List Ev) (st1 st2 : CState)
    (h : Consistent enc s) (hok : ∀ cmd ∈ cmds, OpOk enc cmd.op)
    (h1 : crun cmds (CState.init s cmds) tr1 = some st1) (h2 : crun cmds st1 tr2 = some st2)
    (u : User) (hu : UserOk enc u) (f : Fam) (sid : Nat) (b : Body)
    (hlisted : get st1.store (.snap f sid) = some (.snap f sid b))
    (hv : visible enc u f = true) (hr : (!enc || b.owner == u.key) = true)
    (hname : ∀ cmd ∈ cmds, cmd.name = .snap f sid → cmd.obj = .snap f sid b) (fre : Nat → Bool) :
    restore enc u (fun x => x == sid) fre st2.store = .ok (b.files.filter (fun fr => fre fr.path)) := by
  have hc2 := consistent_concurrent enc s cmds (tr1 ++ tr2) st2 h hok (crun_append_of h1 h2)
  exact restore_listed_exact enc u st2.store f sid b fre hc2 hu (snap_kept_run h2 hname hlisted) hv hr

/-- **A restore that overlaps snapshot commands returns what the atomic restore at its listing point returns**: it lists and
loads the snapshots in the reachable state `st1` and downloads each chunk `c` at some later point of the execution (`later c`),
for any snapshot and file filters.  (So the `read` events of the concurrent semantics, which observe one store, lose nothing.) -/
theorem restore_spanning_concurrent_snapshots (enc : Bool) (s : Store) (cmds : List SnapCmd) (tr1 : List Ev) (st1 : CState)
    (h : Consistent enc s) (hok : ∀ cmd ∈ cmds, OpOk enc cmd.op) (h1 : crun cmds (CState.init s cmds) tr1 = some st1)
    (u : User) (hu : UserOk enc u) (sre fre : Nat → Bool) (later : Content → Store)
    (hlater : ∀ c, ∃ trc stc, crun cmds st1 trc = some stc ∧ stc.store = later c) :
    restoreSpan enc u sre fre st1.store later = restore enc u sre fre st1.store := by
  apply restoreSpan_eq sre fre (consistent_concurrent enc s cmds tr1 st1 h hok h1) hu
  intro c
  obtain ⟨trc, stc, hrun, heq⟩ := hlater c
  rw [← heq]
  exact chunkLe_run hok hrun

/-! ## destructive commands over a listing that fails or is silently partial (`ReplicatModel/RepoListing.lean`)

`delete_snapshots` / `clean` compute what they keep from `backend.list_files`.  The listing is a step of its own: under a scan
fault (`ScanFault`: the top directory of an area, a directory below it, an iteration part-way, the backend's call) the command
either gets an ERROR or a shorter *view*, depending on whether every layer lets the error through (`ListFlags`, extracted from
the source on every run as `ListFlags.gen`).  Decisions are taken on the view, deletions hit the real object map. -/

/-- **Complete-or-error listing ⇒ safe, over whole histories.**  If every layer lets a scan error through (`F.safe`), then any
history of snapshots, deletes and cleans by any users, EACH under an arbitrary listing fault of its own, keeps the repository
consistent: a command whose listing fails stops before its first deletion. -/
theorem consistent_under_listing_faults (F : ListFlags) (hF : F.safe = true) (enc : Bool) (s : Store)
    (ops : List (Op × Option ScanFault)) (h : Consistent enc s) (hops : ∀ p ∈ ops, OpOk enc p.1) :
    Consistent enc (runL F enc s ops) := by
  unfold runL
  induction ops generalizing s with
  | nil => exact h
  | cons p ops ih =>
    simp only [foldl_cons]
    exact ih _ (stepL_safe_consistent hF p.2 h (hops p (by simp))) (fun o ho => hops o (mem_cons_of_mem _ ho))

/-- **The property under listing faults.**  With a complete-or-error listing, a snapshot object that is still stored after a
command that ran under ANY listing fault restores exactly with its owner's key, whatever the command's outcome. -/
theorem stored_snapshot_restores_after_listing_fault (F : ListFlags) (hF : F.safe = true) (enc : Bool) (s : Store) (op : Op)
    (flt : Option ScanFault) (u : User) (f : Fam) (sid : Nat) (b : Body) (fre : Nat → Bool)
    (h : Consistent enc s) (hop : OpOk enc op) (hu : UserOk enc u)
    (hg : get (stepL F enc flt s op) (.snap f sid) = some (.snap f sid b))
    (hv : visible enc u f = true) (hr : (!enc || b.owner == u.key) = true) :
    restore enc u (fun x => x == sid) fre (stepL F enc flt s op) = .ok (b.files.filter (fun fr => fre fr.path)) :=
  restore_listed_exact enc u _ f sid b fre (stepL_safe_consistent hF flt h hop) hu hg hv hr

/-- **The source tree as extracted on this run**: a directory below the top directory of an area that cannot be scanned
(`os.scandir` raises EACCES / EIO / ESTALE / ENOENT), an iteration that fails part-way, or a backend whose listing raises, makes
`delete_snapshots` / `clean` fail before the first deletion — the walk of `Local.list_files` (`iterative_scandir`), `list_files`
itself and `Repository._aiter` / `_load_snapshots` / `clean` let the error through (the three extracted flags are discharged by
`decide`; a handler that swallows the error anywhere on that path breaks this proof).
`_partial`: the fault is not at the TOP directory of the area — see `top_directory_swallow_damages` for what happens there. -/
theorem local_listing_fault_safe_partial (enc : Bool) (s : Store) (op : Op) (flt : Option ScanFault)
    (hk : ∀ f, flt = some f → f.kind.isTop = false) (h : Consistent enc s) (hop : OpOk enc op) :
    Consistent enc (stepL ListFlags.gen enc flt s op) := by
  rw [stepL_notTop enc flt hk]
  exact stepL_safe_consistent (by decide) flt h hop

/-- `delete_snapshots` is safe under EVERY listing fault of the extracted source tree, the top directory included: an emptied
snapshot listing makes it refuse ("not available") or leaves it nothing to do. -/
theorem local_delete_any_listing_fault_safe (enc : Bool) (s : Store) (u : User) (sids : List Nat) (flt : Option ScanFault)
    (h : Consistent enc s) (hu : UserOk enc u) :
    Consistent enc (stepL ListFlags.gen enc flt s (.delete u sids)) := by
  cases flt with
  | none => exact local_listing_fault_safe_partial enc s (.delete u sids) none (fun f hf => by cases hf) h hu
  | some f =>
    obtain ⟨fa, fk⟩ := f
    cases fk with
    | top =>
      rcases delete_top_fault ListFlags.gen enc u sids fa s with e | e <;> rw [e]
      · exact h
      · exact step_consistent h hu
    | walkOpen l => exact local_listing_fault_safe_partial enc s (.delete u sids) _ (fun f hf => by cases hf; rfl) h hu
    | walkIter l => exact local_listing_fault_safe_partial enc s (.delete u sids) _ (fun f hf => by cases hf; rfl) h hu
    | raises l => exact local_listing_fault_safe_partial enc s (.delete u sids) _ (fun f hf => by cases hf; rfl) h hu

/-- **A sub-listing is not enough (delete).**  Negation witness for a walk that skips a directory it cannot scan
(`walkOpen = false`): owner ⟨1,1⟩ and shared-key user ⟨2,1⟩ hold snapshots 100 and 101 that share chunk 11; the directory of
snapshot 100 cannot be scanned while ⟨2,1⟩ deletes 101: the keep-set misses 100, chunk 11 is deleted, snapshot 100 is still
stored and no longer restores.  With the error let through the same command changes nothing. -/
theorem sublisting_delete_damages :
    let s := run true initStore [.snapshot ⟨1, 1⟩ [10, 11] [⟨1, 1, [10, 11]⟩] 1 100, .snapshot ⟨2, 1⟩ [11, 12] [⟨1, 2, [11]⟩, ⟨2, 3, [12]⟩] 2 101]
    let flt : ScanFault := ⟨.snaps, .walkOpen (fun n => n == .snap 1 100)⟩
    let s' := stepL ⟨false, true, true, false⟩ true (some flt) s (.delete ⟨2, 1⟩ [101])
    Consistent true s ∧
    (restore true ⟨1, 1⟩ (fun x => x == 100) (fun _ => true) s).toOption = some [⟨1, 1, [10, 11]⟩] ∧
    get s' (.snap 1 100) = get s (.snap 1 100) ∧ (get s' (.snap 1 100)).isSome = true ∧ get s' (.chunk 1 11) = none ∧
    (restore true ⟨1, 1⟩ (fun x => x == 100) (fun _ => true) s').toOption = none ∧
    stepL ⟨true, true, true, false⟩ true (some flt) s (.delete ⟨2, 1⟩ [101]) = s := by
  refine ⟨?_, by decide +kernel, by decide +kernel, by decide +kernel, by decide +kernel, by decide +kernel, by decide +kernel⟩
  apply consistent_reachable true _ _ (consistent_init true)
  intro op hop
  simp only [mem_cons, not_mem_nil, or_false] at hop
  rcases hop with rfl | rfl <;> simp [OpOk, UserOk]

/-- **A sub-listing is not enough (clean).**  Same repository; ⟨2,1⟩ runs `clean` while the directory of snapshot 100 cannot be
scanned and is skipped: chunk 10 (referenced by snapshot 100 only) is removed as an orphan. -/
theorem sublisting_clean_damages :
    let s := run true initStore [.snapshot ⟨1, 1⟩ [10, 11] [⟨1, 1, [10, 11]⟩] 1 100, .snapshot ⟨2, 1⟩ [11, 12] [⟨1, 2, [11]⟩, ⟨2, 3, [12]⟩] 2 101]
    let flt : ScanFault := ⟨.snaps, .walkOpen (fun n => n == .snap 1 100)⟩
    let s' := stepL ⟨false, true, true, false⟩ true (some flt) s (.clean ⟨2, 1⟩)
    (get s' (.snap 1 100)).isSome = true ∧ get s' (.chunk 1 10) = none ∧ get s' (.chunk 1 11) = some (.chunk 1 11) ∧
    (restore true ⟨1, 1⟩ (fun x => x == 100) (fun _ => true) s').toOption = none ∧
    stepL ⟨true, true, true, false⟩ true (some flt) s (.clean ⟨2, 1⟩) = s := by
  decide +kernel

/-- **The top directory (true of model and code: finding D20).**  `Local.list_files` answers ANY `OSError` of the top-level
`os.scandir(<repository>/snapshots)` with an empty listing (`topSwallow`; meant for a repository that has no such directory
yet).  When that scan fails with EACCES / EIO / ESTALE, `clean` sees no snapshot at all and removes every chunk of its family
while all snapshot objects stay stored.  With a handler for the missing directory only (`topSwallow = false`) nothing happens. -/
theorem top_directory_swallow_damages :
    let s := run true initStore [.snapshot ⟨1, 1⟩ [10, 11] [⟨1, 1, [10, 11]⟩] 1 100]
    let flt : ScanFault := ⟨.snaps, .top⟩
    let s' := stepL ⟨true, true, true, true⟩ true (some flt) s (.clean ⟨1, 1⟩)
    (get s' (.snap 1 100)).isSome = true ∧ get s' (.chunk 1 10) = none ∧ get s' (.chunk 1 11) = none ∧
    (restore true ⟨1, 1⟩ (fun x => x == 100) (fun _ => true) s').toOption = none ∧
    stepL ⟨true, true, true, false⟩ true (some flt) s (.clean ⟨1, 1⟩) = s := by
  decide +kernel

/-! ## non-vacuity and the role of the unencrypted-repository convention -/

/-- a concrete encrypted history: owner ⟨1,1⟩, shared-key user ⟨2,1⟩ and independent user ⟨3,2⟩ snapshot overlapping data; the
shared user's delete of the owner's snapshot is refused, the owner deletes it, the independent user cleans; the shared user's
snapshot (which shares chunk 11 with the deleted one) still restores exactly. -/
example :
    let ops : List Op := [
      .snapshot ⟨1, 1⟩ [10, 11, 10] [⟨1, 1, [10, 11]⟩] 1 100,
      .snapshot ⟨2, 1⟩ [11, 12] [⟨1, 2, [11]⟩, ⟨2, 3, [12]⟩] 2 101,
      .snapshot ⟨3, 2⟩ [10, 11] [⟨1, 1, [10, 11]⟩] 3 102,
      .delete ⟨2, 1⟩ [100],
      .delete ⟨1, 1⟩ [100],
      .clean ⟨3, 2⟩]
    (∀ op ∈ ops, OpOk true op) ∧
    get (run true initStore ops) (.chunk 1 10) = none ∧
    get (run true initStore ops) (.chunk 2 10) = some (.chunk 2 10) ∧
    (restore true ⟨2, 1⟩ (fun x => x == 101) (fun _ => true) (run true initStore ops)).toOption = some [⟨1, 2, [11]⟩, ⟨2, 3, [12]⟩] := by
  refine ⟨?_, by decide +kernel, by decide +kernel, by decide +kernel⟩
  intro op hop
  simp only [mem_cons, not_mem_nil, or_false] at hop
  rcases hop with rfl | rfl | rfl | rfl | rfl | rfl <;> simp [OpOk, UserOk]

/-- a concurrent execution of two snapshot commands of one key family whose data share chunk 11 (two workers each): BOTH
commands see 11 absent and both upload it, a restore is issued in between; the trace is accepted, ends complete and in the
object map of either sequential order; putting a snapshot object before one of its uploads is rejected -/
example :
    let cmds : List SnapCmd := [⟨⟨1, 1⟩, [10, 11], [⟨1, 1, [10, 11]⟩], 1, 100, 2⟩, ⟨⟨2, 1⟩, [11, 12], [⟨1, 2, [11]⟩], 2, 101, 2⟩]
    let tr : List Ev := [.exists 0 10 false, .exists 1 11 false, .exists 0 11 false, .upload 1 (.chunk 1 11) (.chunk 1 11),
      .upload 0 (.chunk 1 10) (.chunk 1 10), .read (.restore ⟨1, 1⟩ none none), .upload 0 (.chunk 1 11) (.chunk 1 11),
      .exists 1 12 false, .commit 0, .read (.restore ⟨1, 1⟩ (some [100]) none), .upload 1 (.chunk 1 12) (.chunk 1 12), .commit 1]
    (∀ cmd ∈ cmds, OpOk true cmd.op) ∧ NamesOk cmds ∧
    (crun cmds (CState.init initStore cmds) tr).map (·.complete) = some true ∧
    (crun cmds (CState.init initStore cmds) tr).map (fun st => get st.store (.chunk 1 11)) = some (some (.chunk 1 11)) ∧
    (crun cmds (CState.init initStore cmds) tr).map (fun (st : CState) =>
        [Name.chunk 1 10, .chunk 1 11, .chunk 1 12, .snap 1 100, .snap 1 101, .config].map (Repo.get st.store)) =
      some ([Name.chunk 1 10, .chunk 1 11, .chunk 1 12, .snap 1 100, .snap 1 101, .config].map
        (Repo.get (run true initStore (cmds.reverse.map SnapCmd.op)))) ∧
    -- the restore issued right after `commit 0`, while command 1 is still uploading, returns snapshot 100's files
    (crun cmds (CState.init initStore cmds) (tr.take 9)).map (fun st =>
        (restore true ⟨1, 1⟩ (fun x => x == 100) (fun _ => true) st.store).toOption) = some (some [⟨1, 1, [10, 11]⟩]) ∧
    (crun cmds (CState.init initStore cmds) (tr.take 8 ++ [.commit 1])).isNone = true := by
  refine ⟨?_, ?_, by decide +kernel, by decide +kernel, by decide +kernel, by decide +kernel, by decide +kernel⟩
  · intro cmd hc
    simp only [mem_cons, not_mem_nil, or_false] at hc
    rcases hc with rfl | rfl <;> simp [SnapCmd.op, OpOk, UserOk]
  · intro a ha b hb hab
    simp only [mem_cons, not_mem_nil, or_false] at ha hb
    rcases ha with rfl | rfl <;> rcases hb with rfl | rfl <;> first | rfl | (simp [SnapCmd.name] at hab)

/-- a prefix that puts the snapshot object before one of its chunks is NOT accepted (the ordering constraint is real), while
any order of the chunk uploads is -/
example :
    let plan := planOf true initStore (.snapshot ⟨1, 1⟩ [10, 11] [] 1 100)
    acceptsPrefix plan [.put (.chunk 1 11) (.chunk 1 11), .put (.chunk 1 10) (.chunk 1 10)] = true ∧
    acceptsPrefix plan [.put (.chunk 1 10) (.chunk 1 10), .put (.snap 1 100) (.snap 1 100 ⟨1, 1, [10, 11], []⟩)] = false := by
  decide +kernel

/-- why the convention `UserOk` is part of the statements: in the MODEL, `clean` on an unencrypted repository (no tag check)
would remove the chunks of a second "family" — an unencrypted repository has no families, all names are plain digests. -/
example :
    get (step false [(.snap 1 5, .snap 1 5 ⟨0, 1, [7], []⟩), (.chunk 1 7, .chunk 1 7)] (.clean ⟨0, 0⟩)) (.chunk 1 7) = none := by
  decide +kernel

end Replicat.C02
