import ReplicatProofs.Lemmas.Access
import ReplicatProofs.Lemmas.RepoAccess
import ReplicatProofs.Lemmas.CacheCmd
/-!
# C06 — access rights follow key relationships

Property theorems only.  Two models:

* `Access.lean` — key files as symbolic terms, key graphs built by `init` and chains of `add-key` (independent / shared /
  clone, any KDF settings): which password unlocks which key, and which `Repo.User` (user key, family) the unlock yields.
* `Repo.lean` — the repository state machine.  A user is `⟨key, fam⟩`: *independent* keys have different families,
  *shared* keys the same family and different user keys, a *clone* is the same user.  `enc = true` throughout (an unencrypted
  repository has one user).  `WF s` = every stored object is what its name says (corruption is C04).

Regular expressions are arbitrary predicates on names.

Clients keep state between commands: the snapshot cache directory (the CLI default; possibly one directory for several keys).
The last section restates the repository theorems for the cached commands of `CacheCmd.lean` (`loadSnapshots ↦ loadSnapshotsC
cache`), for EVERY cache content that is hash-ideal (`Agree` / `Ideal`, DESIGN.md §4) — cold, warm from any earlier command of
the same or another key, stale, torn — and for the cache a snapshot-loading command leaves behind (`cacheAfterLoad`), i.e. for the
sequence "list / restore / delete first, clean or delete afterwards".  These theorems carry the regenerated flag
`Gen.cacheVerified = true` (the cached copy is compared with the digest in the name before use) as an explicit decidable
hypothesis `hv`: it is discharged from `Generated.lean` in `Properties/C18.lean` (`cacheVerified_holds`, whose subject the cache
code is), so a rewrite of the cache code that the recogniser does not follow alarms there, not here.  What ties the cached theorems to the code is the correspondence run by
`harness/impl/access.py`: real clients with real cache directories against `CacheCmd.stepC` on the abstracted directory.
-/
namespace Replicat.C06
open Replicat Replicat.Repo Replicat.Access Replicat.CacheCmd Replicat.P18 List

/-! ## unlocking -/

/-- **A key unlocks with password `p'` iff `p'` is the password it was made with** — for every key of every key graph built
by `init` and any chain of `add-key` (independent, shared, clone; any KDF settings), and every KDF that is injective in the
password (a hypothesis on the function, not an axiom). -/
theorem unlock_iff {K : Type} [DecidableEq K] (kdf : Nat → Nat → Nat → K)
    (hinj : ∀ c s p p', kdf c p s = kdf c p' s → p = p')
    (password cfg : Nat) (steps : List AddKey) (e : Entry K) (he : e ∈ (build kdf password cfg steps).entries) (p' : Nat) :
    (unlock kdf e.file p').isSome ↔ p' = e.password :=
  unlock_isSome_iff kdf hinj e ((inv_build kdf password cfg steps).sealed e he) p'

/-- the same for the symbolic KDF (a free constructor): no hypothesis left -/
theorem unlock_iff_symbolic (password cfg : Nat) (steps : List AddKey) (e : Entry SymKey)
    (he : e ∈ (build symKdf password cfg steps).entries) (p' : Nat) :
    (unlock symKdf e.file p').isSome ↔ p' = e.password :=
  unlock_iff symKdf (by intro c s p p' h; exact congrArg SymKey.password h) password cfg steps e he p'

/-- `init` / `add-key` never write a key file with a plaintext private section, and every key they write is sealed under the
key derived from its own password, KDF settings and salt -/
theorem built_keys_sealed {K : Type} [DecidableEq K] (kdf : Nat → Nat → Nat → K) (password cfg : Nat) (steps : List AddKey)
    (e : Entry K) (he : e ∈ (build kdf password cfg steps).entries) :
    ∃ n m, e.file.priv = .enc (kdf e.file.cfg e.password e.file.salt) n m :=
  (inv_build kdf password cfg steps).sealed e he

/-- **Key relations.**  One more `add-key` on a built graph, issued by the holder of a valid entry `b`: a clone is the same
entry; a shared key unlocks to the *same family* under a *new user key*; an independent key unlocks to a family no earlier
key has, under a new user key. -/
theorem keygraph_relations {K : Type} [DecidableEq K] (kdf : Nat → Nat → Nat → K) (password cfg : Nat) (steps : List AddKey)
    (a : AddKey) (b : Entry K) (hb : (build kdf password cfg steps).entries[a.base]? = some b) :
    ∃ ub, userOf kdf b b.password = some ub ∧
      match a.kind with
      | .clone => (addKey kdf (build kdf password cfg steps) a).entries = (build kdf password cfg steps).entries ++ [b]
      | .shared => ∃ e' u', (addKey kdf (build kdf password cfg steps) a).entries = (build kdf password cfg steps).entries ++ [e'] ∧
          userOf kdf e' a.password = some u' ∧ u'.fam = ub.fam ∧
          ∀ e ∈ (build kdf password cfg steps).entries, ∀ p u, userOf kdf e p = some u → u.key ≠ u'.key
      | .independent => ∃ e' u', (addKey kdf (build kdf password cfg steps) a).entries = (build kdf password cfg steps).entries ++ [e'] ∧
          userOf kdf e' a.password = some u' ∧
          ∀ e ∈ (build kdf password cfg steps).entries, ∀ p u, userOf kdf e p = some u → u.key ≠ u'.key ∧ u.fam ≠ u'.fam := by
  have hinv := inv_build kdf password cfg steps
  generalize build kdf password cfg steps = g at hb hinv
  have hbm : b ∈ g.entries := mem_of_getElem? hb
  obtain ⟨mb, nb, kb, hpb, hub⟩ := userOf_own kdf b (hinv.sealed b hbm)
  refine ⟨_, hub, ?_⟩
  obtain ⟨mb', hunl, _⟩ := unlock_own kdf b (hinv.sealed b hbm)
  have hmb : mb' = mb := by
    have h1 : userOf kdf b b.password = some ⟨b.keyId, mb'.fam⟩ := by simp [userOf, hunl]
    rw [hub] at h1
    cases mb; cases mb'
    simp only [Option.some.injEq, User.mk.injEq, true_and] at h1
    simp [h1]
  subst hmb
  cases hk : a.kind with
  | clone => simp only [addKey, hb, hk]
  | shared =>
    simp only [addKey, hb, hk, hunl]
    refine ⟨_, ⟨g.nextSalt, mb'.fam⟩, rfl, ?_, rfl, ?_⟩
    · obtain ⟨m, n, k, hp, hu⟩ := userOf_own kdf (makeKey kdf g a.password a.cfg mb') (makeKey_sealed ..)
      simp only [makeKey, Sealed.enc.injEq] at hp
      obtain ⟨_, _, rfl⟩ := hp
      exact hu
    · intro e he p u hu
      have h1 := (userOf_some kdf e p u hu).1
      have h2 := hinv.keyIdLt e he
      intro heq
      have h3 : e.keyId = g.nextSalt := h1.symm.trans heq
      omega
  | independent =>
    simp only [addKey, hb, hk]
    refine ⟨_, ⟨g.nextSalt, g.nextFam⟩, rfl, ?_, ?_⟩
    · obtain ⟨m, n, k, hp, hu⟩ := userOf_own kdf (makeKey kdf g a.password a.cfg ⟨g.nextFam⟩) (makeKey_sealed ..)
      simp only [makeKey, Sealed.enc.injEq] at hp
      obtain ⟨_, _, rfl⟩ := hp
      exact hu
    · intro e he p u hu
      obtain ⟨hkey, hfam⟩ := userOf_some kdf e p u hu
      have h1 := hinv.keyIdLt e he
      obtain ⟨n, m, hpe⟩ := hinv.sealed e he
      have h2 := hinv.famLt e he n m _ hpe
      have h3 := hfam _ n m hpe
      constructor
      · intro heq
        have h5 : e.keyId = g.nextSalt := hkey.symm.trans heq
        omega
      · intro h4
        have h4 : u.fam = g.nextFam := h4
        rw [h3] at h4
        exact absurd h4 (Nat.ne_of_lt h2)

/-! ## independent keys (different families) -/

/-- **What a user sees is a function of the objects of its own family.**  `list-snapshots`, `list-files`, `restore` and the
decision part of `delete` by `v` return the same on `s` and on `s` with every object of every other family (and `config`, and
strays) removed: nothing of a user with an independent key shows up, whatever that user has stored. -/
theorem independent_invisible (v : User) (s : Store) :
    (∀ sre, listSnapshots true v sre s = listSnapshots true v sre (famPart v.fam s)) ∧
    (∀ sre fre, listFiles true v sre fre s = listFiles true v sre fre (famPart v.fam s)) ∧
    (∀ sre fre, restore true v sre fre s = restore true v sre fre (famPart v.fam s)) ∧
    (∀ sids, (deletePlan true v sids s).toOption.map (fun p => (p.snaps, p.chunks))
        = (deletePlan true v sids (famPart v.fam s)).toOption.map (fun p => (p.snaps, p.chunks))) := by
  refine ⟨?_, ?_, ?_, ?_⟩
  · intro sre; unfold listSnapshots; rw [loadSnapshots_famPart]
  · intro sre fre; unfold listFiles; rw [loadSnapshots_famPart]
  · intro sre fre
    unfold restore
    rw [loadSnapshots_famPart]
    cases loadSnapshots true v sre s with
    | error e => rfl
    | ok ls =>
      simp only
      have : ∀ c, chunkOk v (famPart v.fam s) c = chunkOk v s c := chunkOk_famPart v s
      simp only [funext this]
  · intro sids; unfold deletePlan; rw [loadSnapshots_famPart]

/-- **An independent key cannot delete**: asking `v` to delete a snapshot name that is not a snapshot of `v`'s family (for
instance any snapshot of a user with an independent key) fails before any mutation — "not available" (or "different key" when
the request also names a family member's snapshot) — and leaves the repository unchanged. -/
theorem independent_cannot_delete (v : User) (s : Store) (h : WF s) (sids : List Nat) (sid : Nat) (hsid : sid ∈ sids)
    (hnone : get s (.snap v.fam sid) = none) :
    (deletePlan true v sids s = .error .notAvailable ∨ deletePlan true v sids s = .error .differentKey) ∧
    ((∀ l ∈ loadedPure true v (fun _ => true) s, sids.contains l.sid = true → l.data.isSome = true) →
        deletePlan true v sids s = .error .notAvailable) ∧
    step true s (.delete v sids) = s := by
  have hna : sids.any (fun sid => !(loadedPure true v (fun _ => true) s).any (fun l => l.sid == sid)) = true := by
    rw [any_eq_true]
    refine ⟨sid, hsid, ?_⟩
    simp only [Bool.not_eq_true', any_eq_false, beq_iff_eq]
    intro l hl hls
    have hf := loaded_fam_of_enc h hl
    obtain ⟨b, hg, _⟩ := (mem_loadedPure h).mp hl
    rw [hf, hls, hnone] at hg
    cases hg
  have hplan := deletePlan_wf true v sids s h
  rw [hna] at hplan
  by_cases hd : (loadedPure true v (fun _ => true) s).any (fun l => sids.contains l.sid && l.data.isNone) = true
  · rw [hd] at hplan
    simp only [if_true] at hplan
    refine ⟨Or.inr hplan, ?_, step_delete_error hplan⟩
    intro hall
    rw [any_eq_true] at hd
    obtain ⟨l, hl, hc⟩ := hd
    simp only [Bool.and_eq_true] at hc
    have := hall l hl hc.1
    cases hdata : l.data <;> simp [hdata] at this hc
  · simp only [hd, if_true, if_false, Bool.false_eq_true] at hplan
    exact ⟨Or.inl hplan, fun _ => hplan, step_delete_error hplan⟩

/-- **No command of `v` changes an object of another family** (nor `config`, nor anything outside the two areas): snapshot,
delete and clean by `v` only write and delete names carrying `v`'s family tag. -/
theorem independent_frame (v : User) (s : Store) (h : WF s) (op : Op)
    (hop : match op with | .snapshot u .. => u = v | .delete u _ => u = v | .clean u => u = v)
    (n : Name) (hn : nameFam n ≠ some v.fam) :
    get (step true s op) n = get s n := by
  cases op with
  | snapshot u stream files ts sid =>
    simp only at hop; subst hop
    simp only [step, snapshot]
    rw [get_put_other _ _ _ _ (by intro hc; subst hc; exact hn rfl)]
    exact get_uploadFold_other u stream (s, []) n (by intro c hc; subst hc; exact hn rfl)
  | delete u sids =>
    simp only at hop; subst hop
    simp only [step, deleteSnapshots]
    have hplan := deletePlan_wf true u sids s h
    cases hp : deletePlan true u sids s with
    | error e => rfl
    | ok p =>
      simp only
      rw [hp] at hplan
      split at hplan
      · cases hplan
      · split at hplan
        · cases hplan
        · simp only [Except.ok.injEq] at hplan
          rw [get_delAll, get_delAll]
          have h1 : n ∉ p.chunks := by
            rw [hplan]
            simp only [mem_map, not_exists, not_and]
            intro c _ hc
            subst hc
            exact hn rfl
          have h2 : n ∉ p.snaps := by
            rw [hplan]
            simp only [mem_map, mem_filter, not_exists, not_and, and_imp]
            intro l hl _ hc
            subst hc
            exact hn (by simp [nameFam, loaded_fam_of_enc h hl])
          simp [h1, h2]
  | clean u =>
    simp only at hop; subst hop
    simp only [step, clean]
    rw [cleanPlan_wf true u s h]
    simp only
    rw [get_delAll]
    split
    · rename_i hmem
      exfalso
      rw [mem_filterMap] at hmem
      obtain ⟨⟨n', o⟩, _, he⟩ := hmem
      cases n' with
      | chunk f c =>
        simp only at he
        split at he
        · cases he
        · split at he
          · cases he
          · rename_i hnf
            simp only [Bool.true_and, Bool.not_eq_true', beq_eq_false_iff_ne, ne_eq, Decidable.not_not] at hnf
            simp only [Option.some.injEq] at he
            subst he hnf
            exact hn rfl
      | _ => simp at he
    · rfl

/-! ## shared keys (same family, different user key) -/

/-- **A shared key sees that the other's snapshot exists, without details**: the row is there, timestamp and file count
(all data columns) are empty. -/
theorem shared_sees_no_details (u v : User) (hfam : u.fam = v.fam) (hkey : u.key ≠ v.key) (s : Store) (h : WF s)
    (sid : Nat) (b : Body) (hg : get s (.snap u.fam sid) = some (.snap u.fam sid b)) (hown : b.owner = u.key)
    (sre : Nat → Bool) (hre : sre sid = true) :
    ∃ rows, listSnapshots true v sre s = .ok rows ∧ (⟨sid, none, none⟩ : SnapRow) ∈ rows := by
  unfold listSnapshots
  rw [loadSnapshots_wf true v sre s h]
  refine ⟨_, rfl, ?_⟩
  rw [mem_mergeSort, mem_map]
  refine ⟨toLoaded true v u.fam sid b, toLoaded_mem h hg hre (by simp [visible, hfam]), ?_⟩
  have : (b.owner == v.key) = false := by simp [hown, hkey]
  simp [toLoaded, this]

/-- **A shared key cannot restore or list the other's files**: every file version `restore` writes for `v`, and every row of
`list-files`, comes from a snapshot whose private part decrypts with `v`'s own user key. -/
theorem shared_cannot_restore (v : User) (s : Store) (h : WF s) (sre fre : Nat → Bool) :
    (∀ fs, restore true v sre fre s = .ok fs → ∀ f ∈ fs, ∃ b, Readable true v sre s b ∧ b.owner = v.key ∧ f ∈ b.files) ∧
    (∀ rows, listFiles true v sre fre s = .ok rows → ∀ r ∈ rows, ∃ b, Readable true v sre s b ∧ b.owner = v.key ∧
        ∃ f ∈ b.files, r = (b.ts, f.path, f.ver)) := by
  have hown : ∀ b, Readable true v sre s b → b.owner = v.key := by
    rintro b ⟨_, _, _, _, _, hc⟩
    simpa using hc
  constructor
  · intro fs hr f hf
    unfold restore at hr
    rw [loadSnapshots_wf true v sre s h] at hr
    simp only at hr
    split at hr
    · simp only [Except.ok.injEq] at hr
      subst hr
      obtain ⟨_, hfs⟩ := (mem_selectFiles fre _ f).mp hf
      obtain ⟨b, hb, hfind⟩ := exists_of_findSome?_eq_some hfs
      have hR := (mem_readable h b).mp hb
      exact ⟨b, hR, hown b hR, mem_of_find?_eq_some hfind⟩
    · cases hr
  · intro rows hr r hrm
    unfold listFiles at hr
    rw [loadSnapshots_wf true v sre s h] at hr
    simp only [Except.ok.injEq] at hr
    subst hr
    obtain ⟨b, hb, hrb⟩ := mem_flatMap.mp hrm
    obtain ⟨f, hf, rfl⟩ := mem_map.mp hrb
    have hR := (mem_readable h b).mp hb
    exact ⟨b, hR, hown b hR, f, (mem_filter.mp hf).1, rfl⟩

/-- **A shared key cannot delete the other's snapshot**: the request fails with "different key" before any mutation. -/
theorem shared_cannot_delete (u v : User) (hfam : u.fam = v.fam) (hkey : u.key ≠ v.key) (s : Store) (h : WF s)
    (sid : Nat) (b : Body) (hg : get s (.snap u.fam sid) = some (.snap u.fam sid b)) (hown : b.owner = u.key)
    (sids : List Nat) (hsid : sid ∈ sids) :
    deletePlan true v sids s = .error .differentKey ∧ step true s (.delete v sids) = s := by
  have hplan := deletePlan_wf true v sids s h
  have hd : (loadedPure true v (fun _ => true) s).any (fun l => sids.contains l.sid && l.data.isNone) = true := by
    rw [any_eq_true]
    refine ⟨toLoaded true v u.fam sid b, toLoaded_mem h hg rfl (by simp [visible, hfam]), ?_⟩
    have : (b.owner == v.key) = false := by simp [hown, hkey]
    simp [toLoaded, this, hsid]
  rw [hd] at hplan
  simp only [if_true] at hplan
  exact ⟨hplan, step_delete_error hplan⟩

/-- **A shared key deduplicates against the other's chunks**: a snapshot uploads only chunks that are absent under the
family's names — so after `u` stored a stream, `v` (same family) uploads none of its chunks again. -/
theorem shared_dedups (u v : User) (hfam : u.fam = v.fam) (s : Store) :
    (∀ st files ts sid, ∀ n ∈ (snapshot v st files ts sid s).2, ∃ c ∈ st, n = .chunk v.fam c ∧ get s n = none) ∧
    (∀ st₁ files₁ ts₁ sid₁ st₂ files₂ ts₂ sid₂, ∀ c ∈ st₁,
        Name.chunk v.fam c ∉ (snapshot v st₂ files₂ ts₂ sid₂ (snapshot u st₁ files₁ ts₁ sid₁ s).1).2) := by
  have key : ∀ (s : Store) st files ts sid, ∀ n ∈ (snapshot v st files ts sid s).2, ∃ c ∈ st, n = .chunk v.fam c ∧ get s n = none := by
    intro s st files ts sid n hn
    simp only [snapshot] at hn
    rcases uploadFold_names v st (s, []) n hn with h | ⟨c, hc, rfl, hnone⟩
    · simp at h
    · exact ⟨c, hc, rfl, hnone⟩
  refine ⟨key s, ?_⟩
  intro st₁ files₁ ts₁ sid₁ st₂ files₂ ts₂ sid₂ c hc hmem
  obtain ⟨c', _, hcc, hnone⟩ := key _ st₂ files₂ ts₂ sid₂ _ hmem
  have hpres := uploadFold_present u st₁ (s, []) c (Or.inr hc)
  simp only [snapshot] at hnone
  rw [get_put_other _ _ _ _ (by simp), ← hfam] at hnone
  rw [hnone] at hpres
  cases hpres

/-- **Clean by a shared key keeps every chunk the other's snapshots reference** (the chunk table is readable family-wide). -/
theorem shared_clean_keeps_foreign_refs (u v : User) (hfam : u.fam = v.fam) (s : Store) (h : WF s)
    (sid : Nat) (b : Body) (hg : get s (.snap u.fam sid) = some (.snap u.fam sid b)) (c : Content) (hc : c ∈ b.chunks) :
    ∃ s', clean true v s = .ok s' ∧ get s' (.chunk v.fam c) = get s (.chunk v.fam c) := by
  unfold clean
  rw [cleanPlan_wf true v s h]
  refine ⟨_, rfl, ?_⟩
  rw [get_delAll]
  have href : ((loadedPure true v (fun _ => true) s).flatMap (·.chunks)).contains c = true := by
    rw [contains_iff_mem, mem_flatMap]
    exact ⟨toLoaded true v u.fam sid b, toLoaded_mem h hg rfl (by simp [visible, hfam]), hc⟩
  split
  · rename_i hmem
    exfalso
    rw [mem_filterMap] at hmem
    obtain ⟨⟨n', o⟩, _, he⟩ := hmem
    cases n' with
    | chunk f c' =>
      simp only at he
      split at he
      · cases he
      · rename_i hnot
        split at he
        · cases he
        · simp only [Option.some.injEq, Name.chunk.injEq] at he
          obtain ⟨rfl, rfl⟩ := he
          exact hnot (by rw [href]; simp)
    | _ => simp at he
  · rfl

/-- **Delete by a shared key keeps every chunk the other's snapshots reference**: whatever `v` deletes successfully, the
chunks of `u`'s snapshot (same family, different key) stay. -/
theorem shared_delete_keeps_foreign_refs (u v : User) (hfam : u.fam = v.fam) (hkey : u.key ≠ v.key) (s : Store) (h : WF s)
    (sid : Nat) (b : Body) (hg : get s (.snap u.fam sid) = some (.snap u.fam sid b)) (hown : b.owner = u.key)
    (c : Content) (hc : c ∈ b.chunks) (sids : List Nat) (s' : Store) (hdel : deleteSnapshots true v sids s = .ok s') :
    get s' (.chunk v.fam c) = get s (.chunk v.fam c) ∧ get s' (.snap u.fam sid) = get s (.snap u.fam sid) := by
  have hnot : sid ∉ sids := by
    intro hsid
    have := (shared_cannot_delete u v hfam hkey s h sid b hg hown sids hsid).1
    simp [deleteSnapshots, this] at hdel
  unfold deleteSnapshots at hdel
  have hplan := deletePlan_wf true v sids s h
  cases hp : deletePlan true v sids s with
  | error e => simp [hp] at hdel
  | ok p =>
    simp only [hp, Except.ok.injEq] at hdel
    subst hdel
    rw [hp] at hplan
    split at hplan
    · cases hplan
    · split at hplan
      · cases hplan
      · simp only [Except.ok.injEq] at hplan
        have hl := toLoaded_mem (enc := true) (u := v) (re := fun _ => true) h hg rfl (by simp [visible, hfam])
        rw [get_delAll, get_delAll, get_delAll, get_delAll]
        have h1 : Name.chunk v.fam c ∉ p.chunks := by
          rw [hplan]
          simp only [mem_map, mem_filter, Name.chunk.injEq, true_and, exists_eq_right, not_and, Bool.not_eq_true',
            Bool.not_eq_false]
          intro _
          rw [contains_iff_mem, mem_flatMap]
          refine ⟨_, mem_filter.mpr ⟨hl, ?_⟩, hc⟩
          simp [toLoaded, hnot]
        have h2 : Name.chunk v.fam c ∉ p.snaps := by rw [hplan]; simp
        have h3 : Name.snap u.fam sid ∉ p.chunks := by rw [hplan]; simp
        have h4 : Name.snap u.fam sid ∉ p.snaps := by
          rw [hplan]
          simp only [mem_map, mem_filter, not_exists, not_and, and_imp]
          intro l _ hls hn
          simp only [Name.snap.injEq] at hn
          rw [hn.2] at hls
          exact absurd (by simpa using hls) hnot
        simp [h1, h2, h3, h4]

/-! ## clients with persistent state: a snapshot cache directory -/

/-- **A client with a cache directory runs the commands of a client without one** — every command (`list-snapshots`,
`list-files`, `restore`, `delete`, `clean`, and `snapshot`, which never reads snapshots), whatever the directory holds: nothing,
verified copies left by earlier commands of this or of any other key, stale entries, torn writes, other repositories' bytes. -/
theorem cached_client_is_uncached (hv : Gen.cacheVerified = true) (c : Cache) (v : User) (s : Store) (h : WF s) (ha : Agree c s) :
    (∀ re, loadSnapshotsC (some c) true v re s = loadSnapshots true v re s) ∧
    (∀ sids, deletePlanC (some c) true v sids s = deletePlan true v sids s ∧
        deleteSnapshotsC (some c) true v sids s = deleteSnapshots true v sids s) ∧
    (cleanPlanC (some c) true v s = cleanPlan true v s ∧ cleanC (some c) true v s = clean true v s) ∧
    (∀ sre, listSnapshotsC (some c) true v sre s = listSnapshots true v sre s) ∧
    (∀ sre fre, listFilesC (some c) true v sre fre s = listFiles true v sre fre s) ∧
    (∀ sre fre, restoreC (some c) true v sre fre s = restore true v sre fre s) := by
  have hl : ∀ re, loadSnapshotsC (some c) true v re s = loadSnapshots true v re s := fun re => by
    rw [← loadSnapshotsC_none]
    unfold loadSnapshotsC
    rw [loadCandidatesC_eq hv c true v re s h.2 ha]
  have hd : ∀ sids, deletePlanC (some c) true v sids s = deletePlan true v sids s := fun sids => by
    unfold deletePlanC; rw [hl, ← deletePlan_eq]
  have hc : cleanPlanC (some c) true v s = cleanPlan true v s := by
    unfold cleanPlanC; rw [hl, ← cleanPlan_eq]
  refine ⟨hl, fun sids => ⟨hd sids, ?_⟩, ⟨hc, ?_⟩, fun sre => ?_, fun sre fre => ?_, fun sre fre => ?_⟩
  · unfold deleteSnapshotsC; rw [hd, ← deleteSnapshots_eq]
  · unfold cleanC; rw [hc, ← clean_eq]
  · unfold listSnapshotsC; rw [hl, ← listSnapshots_eq]
  · unfold listFilesC; rw [hl, ← listFiles_eq]
  · unfold restoreC; rw [hl, ← restore_eq]

/-- the same for the state transition: one mutating command of ANY user through a client with cache `c` -/
theorem cached_step_is_uncached (hv : Gen.cacheVerified = true) (c : Cache) (s : Store) (h : WF s) (ha : Agree c s) (op : Op) :
    stepC (some c) true s op = step true s op := by
  cases op with
  | snapshot u stream files ts sid => rfl
  | delete u sids =>
    simp only [stepC, step]
    rw [((cached_client_is_uncached hv c u s h ha).2.1 sids).2]
    cases deleteSnapshots true u sids s <;> rfl
  | clean u =>
    simp only [stepC, step]
    rw [(cached_client_is_uncached hv c u s h ha).2.2.1.2]
    cases clean true u s <;> rfl

/-- **Independent keys, cached client**: no command of `v` changes an object of another family, whatever `v`'s cache holds. -/
theorem independent_frame_cached (hv : Gen.cacheVerified = true) (c : Cache) (v : User) (s : Store) (h : WF s) (ha : Agree c s) (op : Op)
    (hop : match op with | .snapshot u .. => u = v | .delete u _ => u = v | .clean u => u = v)
    (n : Name) (hn : nameFam n ≠ some v.fam) :
    get (stepC (some c) true s op) n = get s n := by
  rw [cached_step_is_uncached hv c s h ha op]
  exact independent_frame v s h op hop n hn

/-- **Shared keys, cached client**: whatever `v`'s cache directory holds, `clean` by `v` keeps every chunk `u`'s snapshot
references, a successful `delete` by `v` keeps them and the snapshot, a `delete` naming `u`'s snapshot is refused with
"different key" before any mutation, and `list-snapshots` still shows the row without details. -/
theorem shared_keeps_foreign_refs_cached (hv : Gen.cacheVerified = true) (c : Cache) (u v : User) (hfam : u.fam = v.fam) (hkey : u.key ≠ v.key) (s : Store)
    (h : WF s) (ha : Agree c s) (sid : Nat) (b : Body) (hg : get s (.snap u.fam sid) = some (.snap u.fam sid b))
    (hown : b.owner = u.key) (cc : Content) (hc : cc ∈ b.chunks) :
    (∃ s', cleanC (some c) true v s = .ok s' ∧ get s' (.chunk v.fam cc) = get s (.chunk v.fam cc)) ∧
    (∀ sids s', deleteSnapshotsC (some c) true v sids s = .ok s' →
        get s' (.chunk v.fam cc) = get s (.chunk v.fam cc) ∧ get s' (.snap u.fam sid) = get s (.snap u.fam sid)) ∧
    (∀ sids, sid ∈ sids → deletePlanC (some c) true v sids s = .error .differentKey ∧ stepC (some c) true s (.delete v sids) = s) ∧
    (∀ sre, sre sid = true → ∃ rows, listSnapshotsC (some c) true v sre s = .ok rows ∧ (⟨sid, none, none⟩ : SnapRow) ∈ rows) := by
  obtain ⟨_, hd, hcl, hls, _, _⟩ := cached_client_is_uncached hv c v s h ha
  refine ⟨?_, ?_, ?_, ?_⟩
  · rw [hcl.2]
    exact shared_clean_keeps_foreign_refs u v hfam s h sid b hg cc hc
  · intro sids s' hdel
    rw [(hd sids).2] at hdel
    exact shared_delete_keeps_foreign_refs u v hfam hkey s h sid b hg hown cc hc sids s' hdel
  · intro sids hsid
    rw [(hd sids).1, cached_step_is_uncached hv c s h ha]
    exact shared_cannot_delete u v hfam hkey s h sid b hg hown sids hsid
  · intro sre hre
    rw [hls sre]
    exact shared_sees_no_details u v hfam hkey s h sid b hg hown sre hre

/-- **First a command that loads snapshots, then a destructive one, same client.**  Starting from any hash-ideal cache, after
ANY snapshot-loading command of `v` under any filter (`list-snapshots`, `list-files`, `restore`, `delete`, `clean` — the cache
becomes `cacheAfterLoad`; the other key's snapshot was loaded without its private part), `clean` / `delete` by `v` through that
cache still keep every chunk `u`'s snapshot references: what a client remembers about a snapshot it cannot decrypt never makes
the snapshot's chunk list count less. -/
theorem shared_destructive_after_load_keeps_foreign_refs (hv : Gen.cacheVerified = true) (B : Fam → Nat → Body) (c : Cache) (u v : User) (hfam : u.fam = v.fam)
    (hkey : u.key ≠ v.key) (s : Store) (h : WF s) (hB : Ideal B s) (hcB : Ideal B c) (re : Nat → Bool)
    (sid : Nat) (b : Body) (hg : get s (.snap u.fam sid) = some (.snap u.fam sid b)) (hown : b.owner = u.key)
    (cc : Content) (hc : cc ∈ b.chunks) :
    (∃ s', cleanC (some (cacheAfterLoad c true v re s)) true v s = .ok s' ∧ get s' (.chunk v.fam cc) = get s (.chunk v.fam cc)) ∧
    (∀ sids s', deleteSnapshotsC (some (cacheAfterLoad c true v re s)) true v sids s = .ok s' →
        get s' (.chunk v.fam cc) = get s (.chunk v.fam cc) ∧ get s' (.snap u.fam sid) = get s (.snap u.fam sid)) := by
  have ha : Agree (cacheAfterLoad c true v re s) s := agree_of_ideal (ideal_cacheAfterLoad hcB hB) hB
  have := shared_keeps_foreign_refs_cached hv _ u v hfam hkey s h ha sid b hg hown cc hc
  exact ⟨this.1, this.2.1⟩

/-! ## the hypotheses are not vacuous, and what is outside the quantifier -/

/-- a hand-made key file with a plaintext private section unlocks with ANY password (outside "key graphs built by init and
add-key": `built_keys_sealed`) -/
example : (unlock symKdf (⟨0, 0, .plain ⟨7⟩⟩ : KeyFile SymKey) 12345).isSome = true := by decide

/-- owner (pw 5), shared key (pw 6), independent key (pw 5 again, other salt), clone of the independent one -/
example :
    let g := build symKdf 5 1 [⟨0, .shared, 6, 2⟩, ⟨1, .independent, 5, 1⟩, ⟨2, .clone, 0, 0⟩]
    g.entries.map (fun e => userOf symKdf e e.password) = [some ⟨1, 1⟩, some ⟨2, 1⟩, some ⟨3, 2⟩, some ⟨3, 2⟩] ∧
    (g.entries.map (fun e => (unlock symKdf e.file 5).isSome)) = [true, false, true, true] := by
  decide

/-- what the shared user ⟨2,1⟩ loads (own snapshot readable, the owner's without data, the independent one not at all), may
delete, and uploads; what the independent user uploads -/
example :
    (loadSnapshots true ⟨2, 1⟩ (fun _ => true) exStore).toOption.map (·.map (fun l => (l.sid, l.data.isSome)))
      = some [(2, true), (1, false)] ∧
    (deletePlan true ⟨2, 1⟩ [1] exStore).toOption.isNone ∧ (deletePlan true ⟨2, 1⟩ [3] exStore).toOption.isNone ∧
    (deletePlan true ⟨2, 1⟩ [2] exStore).toOption.map (fun p => (p.snaps, p.chunks)) = some ([.snap 1 2], [.chunk 1 7]) ∧
    (snapshot ⟨2, 1⟩ [5, 6] [] 40 4 exStore).2 = [] ∧ (snapshot ⟨3, 2⟩ [7] [] 40 4 exStore).2 = [.chunk 2 7] := by
  decide

/-- the hypotheses of the shared-key theorems are satisfiable -/
example : ∃ rows, listSnapshots true ⟨2, 1⟩ (fun _ => true) exStore = .ok rows ∧ (⟨1, none, none⟩ : SnapRow) ∈ rows :=
  shared_sees_no_details ⟨1, 1⟩ ⟨2, 1⟩ rfl (by decide) exStore exStore_wf 1 ⟨1, 10, [5, 6], [⟨1, 1, [5, 6]⟩]⟩ (by decide) rfl
    (fun _ => true) rfl

example : deletePlan true ⟨3, 2⟩ [1] exStore = .error .notAvailable :=
  (independent_cannot_delete ⟨3, 2⟩ exStore exStore_wf [1] 1 (by simp) (by decide)).2.1 (by decide)

/-- the shared user ⟨2,1⟩ through a client whose cache directory is warm (after a `list-snapshots` that saw the owner's snapshot
#1 without its private part, and its own #2): `clean` deletes nothing, `delete [2]` removes only chunk 7, `delete [1]` is refused -/
example :
    let c := cacheAfterLoad [] true ⟨2, 1⟩ (fun _ => true) exStore
    c.map (·.1) = [.snap 1 1, .snap 1 2] ∧
    cleanPlanC (some c) true ⟨2, 1⟩ exStore = .ok [] ∧
    (deletePlanC (some c) true ⟨2, 1⟩ [2] exStore).toOption.map (fun p => (p.snaps, p.chunks)) = some ([.snap 1 2], [.chunk 1 7]) ∧
    (deletePlanC (some c) true ⟨2, 1⟩ [1] exStore).toOption.isNone := by
  decide

/-- the other hypotheses of the cached-client theorems are satisfiable (a torn entry for #2 in the shared user's directory; the
warm case is the `decide` example above) -/
example (hv : Gen.cacheVerified = true) :
    ∃ s', cleanC (some [(.snap 1 2, .blob 0)]) true ⟨2, 1⟩ exStore = .ok s' ∧ get s' (.chunk 1 6) = get exStore (.chunk 1 6) :=
  (shared_keeps_foreign_refs_cached hv [(.snap 1 2, .blob 0)] ⟨1, 1⟩ ⟨2, 1⟩ rfl (by decide) exStore exStore_wf
    (by intro f sid b b' h _; simp only [Repo.get, find?_cons, find?_nil] at h; split at h <;> simp at h)
    1 ⟨1, 10, [5, 6], [⟨1, 1, [5, 6]⟩]⟩ (by decide) rfl 6 (by simp)).1

end Replicat.C06
