import ReplicatProofs.Lemmas.Chunker
import ReplicatProofs.Lemmas.ChunkerLocal
/-!
# C10 — the chunker is a lossless, bounded, deterministic function of the stream

Property theorems only (helper lemmas live in `Lemmas/Chunker.lean`).  All statements hold for every
hash function `h` (hence every 16-byte key), every piece list (including empty and one-byte pieces).
`chunkAll … = some cs` means: the run completed without any 8-byte window load leaving the buffer.
-/
namespace Replicat.C10
open Replicat

/-- bounds + alignment of one chunk -/
def Good (p : CParams) (c : Bytes) : Prop := p.min ≤ c.length ∧ c.length ≤ p.max ∧ Gen.align ∣ c.length

/-! ## losslessness -/
theorem feed_lossless (p : CParams) (hv : p.valid) (h : Hash) (buf : Bytes) (ps : List Bytes) (cs : List Bytes)
    (hne : ps ≠ []) (hf : feed p h buf ps = some cs) : cs.flatten = buf ++ ps.flatten := by
  induction ps generalizing buf cs with
  | nil => exact absurd rfl hne
  | cons pc ps ih =>
    cases ps with
    | nil =>
      simp only [feed, Option.map_eq_some_iff] at hf
      obtain ⟨⟨cs', rest⟩, hd, rfl⟩ := hf
      have hl := drain_lossless p h true _ _ _ _ hd
      have hs := drain_stops p hv.2.1 h true _ _ _ _ (by unfold drainFuel; omega) hd
      have hr : rest = [] := by
        by_cases hr : rest = []
        · exact hr
        · have := nextCut_final_pos p hv h rest 0 hr hs
          omega
      subst hr
      simpa using hl
    | cons q qs =>
      simp only [feed] at hf
      split at hf
      · contradiction
      · rename_i cs1 rest hd
        split at hf
        · contradiction
        · rename_i cs2 hrec
          simp at hf; subst hf
          have hl := drain_lossless p h false _ _ _ _ hd
          have := ih rest cs2 (by simp) hrec
          rw [List.flatten_append, this, ← List.append_assoc, hl]
          simp

/-- **Lossless.** For valid parameters the concatenation of the produced chunks is the input. -/
theorem chunk_lossless (p : CParams) (hv : p.valid) (h : Hash) (pieces : List Bytes) (cs : List Bytes)
    (hc : chunkAll p h pieces = some cs) : cs.flatten = pieces.flatten := by
  unfold chunkAll at hc
  cases pieces with
  | nil => simp [feed] at hc; subst hc; rfl
  | cons pc ps => simpa using feed_lossless p hv h [] (pc :: ps) cs (by simp) hc

/-- Without any assumption on the parameters nothing is ever duplicated or reordered:
the chunks always form a prefix of the input (slicing follows Python). -/
theorem chunk_prefix_unconditional (p : CParams) (h : Hash) (pieces : List Bytes) (cs : List Bytes)
    (hc : chunkAll p h pieces = some cs) : ∃ rest, cs.flatten ++ rest = pieces.flatten := by
  unfold chunkAll at hc
  suffices H : ∀ (ps : List Bytes) (buf : Bytes) (cs : List Bytes), feed p h buf ps = some cs →
      ps ≠ [] → ∃ rest, cs.flatten ++ rest = buf ++ ps.flatten by
    cases pieces with
    | nil => simp [feed] at hc; subst hc; exact ⟨[], rfl⟩
    | cons pc ps => simpa using H (pc :: ps) [] cs hc (by simp)
  intro ps
  induction ps with
  | nil => intro _ _ _ hne; exact absurd rfl hne
  | cons pc ps ih =>
    intro buf cs hf _
    cases ps with
    | nil =>
      simp only [feed, Option.map_eq_some_iff] at hf
      obtain ⟨⟨cs', rest⟩, hd, rfl⟩ := hf
      exact ⟨rest, by simpa using drain_lossless p h true _ _ _ _ hd⟩
    | cons q qs =>
      simp only [feed] at hf
      split at hf
      · contradiction
      · rename_i cs1 rest hd
        split at hf
        · contradiction
        · rename_i cs2 hrec
          simp at hf; subst hf
          obtain ⟨r, hr⟩ := ih rest cs2 hrec (by simp)
          refine ⟨r, ?_⟩
          have hl := drain_lossless p h false _ _ _ _ hd
          rw [List.flatten_append, List.append_assoc, hr, ← List.append_assoc, hl]
          simp

/-! ## no empty chunk -/
theorem feed_nonempty (p : CParams) (hmm : p.min ≤ p.max) (h : Hash) (buf : Bytes) (ps : List Bytes)
    (cs : List Bytes) (hf : feed p h buf ps = some cs) : ∀ c ∈ cs, c ≠ [] := by
  induction ps generalizing buf cs with
  | nil => simp [feed] at hf; subst hf; simp
  | cons pc ps ih =>
    cases ps with
    | nil =>
      simp only [feed, Option.map_eq_some_iff] at hf
      obtain ⟨⟨cs', rest⟩, hd, rfl⟩ := hf
      exact drain_nonempty' p hmm h true _ _ _ _ hd
    | cons q qs =>
      simp only [feed] at hf
      split at hf
      · contradiction
      · rename_i cs1 rest hd
        split at hf
        · contradiction
        · rename_i cs2 hrec
          simp at hf; subst hf
          intro c hc
          rcases List.mem_append.mp hc with hc | hc
          · exact drain_nonempty' p hmm h false _ _ _ _ hd c hc
          · exact ih rest cs2 hrec c hc

/-- **No chunk is empty.** (Needs only `min ≤ max`, which the constructor enforces.) -/
theorem chunk_nonempty (p : CParams) (hmm : p.min ≤ p.max) (h : Hash) (pieces : List Bytes) (cs : List Bytes)
    (hc : chunkAll p h pieces = some cs) : ∀ c ∈ cs, c ≠ [] :=
  feed_nonempty p hmm h [] pieces cs hc

/-! ## termination: the adapter's inner loop stops because the cut is 0, never because the model's fuel ran out -/
theorem chunk_loop_stops_by_zero_cut (p : CParams) (hmm : p.min ≤ p.max) (h : Hash) (final : Bool) (buf : Bytes)
    (cs : List Bytes) (rest : Bytes) (hd : drain p h final (drainFuel buf) buf = some (cs, rest)) :
    nextCut p h rest final = some 0 :=
  drain_stops p hmm h final _ buf cs rest (by unfold drainFuel; omega) hd

/-! ## bounds and alignment outside the tail zone -/
theorem drain_bounds (p : CParams) (hv : p.valid) (h : Hash) (final : Bool) (fuel : Nat) (buf : Bytes)
    (cs : List Bytes) (rest : Bytes) (hd : drain p h final fuel buf = some (cs, rest))
    (pre : List Bytes) (c : Bytes) (post : List Bytes) (hcs : cs = pre ++ c :: post)
    (hz : final = true → pre.flatten.length + 2 * p.max ≤ buf.length) : Good p c := by
  induction fuel generalizing buf cs rest pre with
  | zero => simp [drain] at hd; obtain ⟨rfl, rfl⟩ := hd; simp at hcs
  | succ n ih =>
    unfold drain at hd
    split at hd
    · contradiction
    · rename_i pos hpos
      split at hd
      · simp at hd; obtain ⟨rfl, rfl⟩ := hd; simp at hcs
      · rename_i hne
        split at hd
        · contradiction
        · rename_i cs' rest' hrec
          simp at hd
          obtain ⟨rfl, rfl⟩ := hd
          cases pre with
          | nil =>
            simp at hcs
            obtain ⟨rfl, rfl⟩ := hcs
            rcases nextCut_cases p h buf final pos hpos with ⟨hf, hlt, _⟩ | ⟨_, _, h0⟩ | ⟨hf1, hf2, hm⟩
            · have := hz hf; simp at this; omega
            · exact absurd h0 hne
            · have hb := mainCut_bounds p hv h buf pos hm
              have hle : pos ≤ buf.length := by
                cases final
                · have := hf2 rfl; unfold ceil4 at this; omega
                · have := hf1 rfl; omega
              unfold Good
              rw [List.length_take, Nat.min_eq_left hle, Gen.align_eq]
              exact hb
          | cons x pre' =>
            simp at hcs
            obtain ⟨rfl, hcs'⟩ := hcs
            apply ih _ _ _ hrec pre' hcs'
            intro hf
            have := hz hf
            simp only [List.flatten_cons, List.length_append, List.length_take] at this
            rw [List.length_drop]
            omega

theorem feed_bounds (p : CParams) (hv : p.valid) (h : Hash) (buf : Bytes) (ps : List Bytes) (cs : List Bytes)
    (hf : feed p h buf ps = some cs)
    (pre : List Bytes) (c : Bytes) (post : List Bytes) (hcs : cs = pre ++ c :: post)
    (hz : pre.flatten.length + 2 * p.max ≤ (buf ++ ps.flatten).length) : Good p c := by
  induction ps generalizing buf cs pre with
  | nil => simp [feed] at hf; subst hf; simp at hcs
  | cons pc ps ih =>
    cases ps with
    | nil =>
      simp only [feed, Option.map_eq_some_iff] at hf
      obtain ⟨⟨cs', rest⟩, hd, rfl⟩ := hf
      exact drain_bounds p hv h true _ _ _ _ hd pre c post hcs (fun _ => by simpa using hz)
    | cons q qs =>
      simp only [feed] at hf
      split at hf
      · contradiction
      · rename_i cs1 rest hd
        split at hf
        · contradiction
        · rename_i cs2 hrec
          simp at hf; subst hf
          rcases List.append_eq_append_iff.mp hcs with ⟨a', h1, h2⟩ | ⟨c', h1, h2⟩
          · -- pre = cs1 ++ a'
            have hl := drain_lossless p h false _ _ _ _ hd
            apply ih rest cs2 hrec a' h2
            have e : (cs1.flatten ++ rest).length = (buf ++ pc).length := by rw [hl]
            subst h1
            simp only [List.flatten_append, List.length_append, List.flatten_cons] at hz e ⊢
            omega
          · -- cs1 = pre ++ c'
            cases c' with
            | nil =>
              have h1' : cs1 = pre := by simpa using h1
              have h2' : cs2 = c :: post := by simpa using h2.symm
              have hl := drain_lossless p h false _ _ _ _ hd
              apply ih rest cs2 hrec [] h2'
              have e : (cs1.flatten ++ rest).length = (buf ++ pc).length := by rw [hl]
              rw [h1'] at e
              simp only [List.length_append, List.flatten_cons, List.flatten_nil, List.length_nil] at hz e ⊢
              omega
            | cons x c'' =>
              have h2' : c = x ∧ post = c'' ++ cs2 := by simpa using h2
              have h1' : cs1 = pre ++ c :: c'' := by rw [h1, h2'.1]
              exact drain_bounds p hv h false _ _ _ _ hd pre c c'' h1' (fun hf => by cases hf)

/-- **Bounds.** Every chunk that begins at least two maximum lengths before the end of the stream has a
length within `[min, max]` that is a multiple of the alignment. -/
theorem chunk_bounds (p : CParams) (hv : p.valid) (h : Hash) (pieces : List Bytes) (cs : List Bytes)
    (hc : chunkAll p h pieces = some cs)
    (pre : List Bytes) (c : Bytes) (post : List Bytes) (hcs : cs = pre ++ c :: post)
    (hz : pre.flatten.length + 2 * p.max ≤ pieces.flatten.length) : Good p c :=
  feed_bounds p hv h [] pieces cs hc pre c post hcs (by simpa using hz)

/-! ## memory safety: no 8-byte window load ever leaves the buffer -/

/-- **No out-of-bounds read.** For valid parameters no 8-byte window load ever leaves the buffer
("never by memory outside the data"), for every hash, stream and segmentation. -/
theorem chunk_no_oob (p : CParams) (hv : p.valid) (h : Hash) (pieces : List Bytes) :
    (chunkAll p h pieces).isSome := by
  apply feed_isSome
  obtain ⟨h1, h2, h3⟩ := hv
  unfold ceil4 at *; omega

/-- Regression witness for the defect fixed in /repo (fix: chunker read past the end of the buffer …):
with the corrected wait guard the 10-byte non-final buffer for parameters (1, 10) is not scanned. -/
theorem oob_regression_witness :
    (⟨1, 10⟩ : CParams).valid ∧
    nextCut ⟨1, 10⟩ (fun _ => 0) (List.replicate 10 0) false = some 0 := by
  constructor
  · decide
  · decide

/-- The parameter side condition is not vacuous and not over-strong: (5,7) has no aligned length in range;
the forced cut 8 exceeds max. -/
theorem invalid_params_witness :
    ¬ (⟨5, 7⟩ : CParams).valid ∧
    nextCut ⟨5, 7⟩ (fun _ => 0) (List.replicate 8 0) false = some 8 := by
  constructor
  · decide
  · decide


/-! ## split independence and determinism -/

/-- **Split independence.** For valid parameters the result is the segmentation-independent greedy chunking of the stream
(`greedyFull`, a function of the bytes, the parameters and the hash only) followed by chunks that all start within the last
two maximum lengths of the stream — for every way of handing the stream over in pieces. -/
theorem chunk_split_indep (p : CParams) (hv : p.valid) (h : Hash) (pieces : List Bytes) (cs : List Bytes)
    (hc : chunkAll p h pieces = some cs) :
    ∃ g tail, greedyFull p h pieces.flatten = some g ∧ cs = g ++ tail ∧
      pieces.flatten.length < g.flatten.length + 2 * p.max := by
  obtain ⟨g, tail, hg, rfl⟩ := chunkAll_greedy p hv h pieces cs hc
  exact ⟨g, tail, hg, rfl, (greedyFull_lossless p hv h g _ hg).2.2⟩

/-- **Determinism.** The model of the adapter is a function: two runs on equal pieces, parameters and hash give equal
chunks (there is no hidden state between calls; the tie runs one chunker object over interleaved streams). Together with
`chunk_no_oob` (no byte outside the data is ever read) the result depends on nothing but the bytes and the parameters. -/
theorem chunk_deterministic (p : CParams) (h h' : Hash) (pieces : List Bytes)
    (hh : ∀ w : Bytes, w.length = 8 → h w = h' w) :
    chunkAll p h pieces = chunkAll p h' pieces :=
  feed_congr p h h' hh pieces []

/-! ## independence from HOW the pieces are handed over (producers that reuse their buffers)

`Handed.later` — what a buffer reads as once the producer was asked for the following piece — is universally quantified:
a `readinto()` loop refilling one scratch buffer, a ring of buffers, a producer that wipes what it yielded before, … -/

/-- **Handover independence.** The adapter (with the read / request order extracted from the source) produces, over a
producer that rewrites every buffer it handed over as soon as it is asked for the next piece, exactly the chunks it produces
for the same pieces handed over as immutable values.  Discharges `Gen.adapterCopiesBeforePull` (regenerated from
`gclmulchunker.__call__` on every run): an adapter that requests piece N+1 before it has copied piece N breaks this proof. -/
theorem chunk_handover_indep (p : CParams) (h : Hash) (hs : List Handed) :
    chunkAllHanded p h hs = chunkAll p h (hs.map (·.now)) := by
  have hflag : Gen.adapterCopiesBeforePull = true := by decide
  unfold chunkAllHanded seenPieces
  rw [hflag]
  simp

/-- **Lossless over reused buffers.** The concatenation of the chunks is the concatenation of what was in each buffer at the
moment it was yielded — whatever the producer writes into those buffers afterwards. -/
theorem chunk_lossless_handed (p : CParams) (hv : p.valid) (h : Hash) (hs : List Handed) (cs : List Bytes)
    (hc : chunkAllHanded p h hs = some cs) : cs.flatten = (hs.map (·.now)).flatten := by
  rw [chunk_handover_indep] at hc
  exact chunk_lossless p hv h _ cs hc

/-- The extracted order is what the two theorems above rest on (not vacuous, not over-strong): an adapter that asks for the
following piece first consumes the rewritten buffers — here the one-scratch-buffer producer of the stream `1 … 8` in two
4-byte pieces, whose first buffer reads `5 6 7 8` by the time it is copied. -/
theorem pull_before_copy_witness :
    let hs : List Handed := [⟨[1, 2, 3, 4], [5, 6, 7, 8]⟩, ⟨[5, 6, 7, 8], [5, 6, 7, 8]⟩]
    (chunkAll ⟨4, 8⟩ (fun _ => 0) (seenPieces false hs)).map List.flatten = some [5, 6, 7, 8, 5, 6, 7, 8] ∧
    (chunkAll ⟨4, 8⟩ (fun _ => 0) (seenPieces true hs)).map List.flatten = some [1, 2, 3, 4, 5, 6, 7, 8] := by
  constructor <;> decide

/-- non-vacuity: a concrete run satisfying the hypotheses of the theorems above -/
example : (⟨4, 8⟩ : CParams).valid ∧
    chunkAll ⟨4, 8⟩ (fun w => (w.headD 0).toNat) [[1, 2, 3, 4, 5], [], [6], [7, 8, 9, 10, 11, 12, 13, 14, 15, 16, 17, 18, 19, 20]]
      = some [[1, 2, 3, 4], [5, 6, 7, 8], [9, 10, 11, 12, 13, 14, 15, 16], [17, 18, 19, 20]] := by
  constructor <;> decide

end Replicat.C10
