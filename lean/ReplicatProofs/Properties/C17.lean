import ReplicatProofs.Lemmas.Settings
import ReplicatProofs.Lemmas.SettingsKeyFile
import ReplicatProofs.Lemmas.SettingsCli
/-!
# C17 — accepted settings always yield a usable repository and working keys

Model: `ReplicatModel/Settings.lean` (`Repository.init`, `add_key`, `adapters.from_config`, the adapter constructors with
their guards regenerated from `/repo` as `Gen.adapterTable`, the statement order of `init` regenerated as
`Gen.initStages`).  All theorems are for EVERY settings dictionary of the typed universe (int, bool, float, NaN, str, None,
mapping; unknown keys, any adapter name in any slot) and every chain of add-key invocations.

* `accept_implies_usable` as the property states it is FALSE of model and code today (defect candidates D12): the six
  `*_witness` theorems are its negation at concrete settings (each replayed on the real code by the harness);
  `accept_implies_usable_partial` proves it on the rest of the space, with the excluded region spelled out as the
  decidable predicate `checkedElsewhere` (what is missing: `init` never exercises the hasher and exercises the chunker
  only to draw its key, so hashing / chunking parameters and adapter kinds reach the stored config unchecked).
* `reject_leaves_backend`, `accept_uploads_config_once` — full.
* `addkey_unlocks_own_only`, `addkey_shared_keeps_family`, `addkey_accept_implies_kdf_usable` — full (symbolic KDF / AEAD).
* `keyfile_*` — the key file ON DISK (`-o PATH`) as a later process reads it, for every pre-existing state of the path
  (`ReplicatModel/KeyFileIO.lean`; the way the path is opened is regenerated from `/repo`: `key_write_bridge`).
-/
namespace Replicat.C17
open Replicat.Gen Replicat.Settings

/-! ## bridge to the regenerated source facts -/

/-- The statement order of `Repository.init` found in the source is the one the proofs below are about: validation, config,
adapter instantiation, (encrypted:) password check, key, key derivation, encryption of the private part — and only then
the upload of the config.  Moving the upload (or any other statement) in `/repo` makes this fail. -/
theorem init_order_bridge : initStages = canonicalStages := by decide

/-- `add_key` / `_add_key` contain no mutating backend call. -/
theorem addkey_leaves_backend : addKeyUploads = false := by decide

/-- `_make_key` would also read `encryption.mac` and `encryption.shared_kdf` (and never checks them: the MAC and the shared
KDF are not run by `init`).  The schema of `_validate_init_settings` makes them unreachable, which is why the model's key
generation uses the class defaults; widening the schema in `/repo` breaks this theorem. -/
theorem validated_settings_have_no_hidden_key_options (s : Settings) (h : validateInit s = .ok ())
    (enc : List (String × V2)) (he : encryptionSettings s = .ok (some enc)) :
    enc.lookup "mac" = none ∧ enc.lookup "shared_kdf" = none := by
  constructor
  · cases hk : enc.lookup "mac" with
    | none => rfl
    | some v =>
      obtain ⟨q, hq, hqk⟩ := validated_encryption_keys s h enc he "mac" v hk
      simp [initEncryptionSchema] at hq
      rcases hq with rfl | rfl <;> simp at hqk
  · cases hk : enc.lookup "shared_kdf" with
    | none => rfl
    | some v =>
      obtain ⟨q, hq, hqk⟩ := validated_encryption_keys s h enc he "shared_kdf" v hk
      simp [initEncryptionSchema] at hq
      rcases hq with rfl | rfl <;> simp at hqk

/-! ## rejected settings leave the backend untouched -/

/-- **Every rejection precedes the config upload.**  Whatever the settings and whether or not a password is given: if `init`
raises, nothing has been uploaded. -/
theorem reject_leaves_backend (s : Option Settings) (pw : Bool) (h : accept s pw = false) :
    (runInit s pw).1.puts = [] := by
  unfold accept at h
  unfold runInit at h ⊢
  rw [init_order_bridge, canonical_split] at h ⊢
  cases he : (runStages s pw (canonicalStages.take 7 ++ [(InitStage.uploadConfig, false)]) {}).2 with
  | none => simp [he] at h
  | some e => exact reject_before_upload s pw _ canonical_pre_noUpload false {} e he

/-- An accepted `init` uploads exactly one object, the config. -/
theorem accept_uploads_config_once (s : Option Settings) (pw : Bool) (h : accept s pw = true) :
    (runInit s pw).1.puts = ["config"] := by
  unfold accept at h
  unfold runInit at h ⊢
  rw [init_order_bridge, canonical_split] at h ⊢
  have hn : (runStages s pw (canonicalStages.take 7 ++ [(InitStage.uploadConfig, false)]) {}).2 = none := by
    simpa using h
  simpa using accept_uploads s pw _ canonical_pre_noUpload {} hn

/-! ## accepted ⇒ usable -/

/-- **Accepted settings are usable — on the part of the settings space where it is true.**
`checkedElsewhere s` (decidable, a predicate on the INPUT): the hashing section names a hash adapter with a digest size the
library accepts (and ≥ `minDigestBytes`), the chunking section names the chunker with integer lengths 1 ≤ min ≤ max.
Everything else `usable` demands — the cipher slot holds an AEAD cipher with an AES key size and a nonce of 8…128 bytes,
the key file's KDF is a KDF with parameters scrypt accepts — follows from acceptance alone, because `init` runs the
cipher and the KDF once before it uploads. -/
theorem accept_implies_usable_partial (s : Option Settings) (pw : Bool)
    (hacc : accept s pw = true) (hreg : checkedElsewhere s = true) : usable (runInit s pw).1 = true := by
  unfold accept at hacc
  unfold runInit at hacc ⊢
  rw [init_order_bridge] at hacc ⊢
  generalize hr : runStages s pw canonicalStages {} = r at hacc
  obtain ⟨st, oe⟩ := r
  cases oe with
  | some e => simp at hacc
  | none =>
  obtain ⟨cfg, props, hmk, hinst, hcfg, hbranch⟩ := accepted_went s pw st hr
  simp only [checkedElsewhere, Bool.and_eq_true] at hreg
  have hH := hashing_from_input (s.getD []) cfg hmk hreg.1
  have hC := chunking_from_input (s.getD []) cfg hmk hreg.2
  obtain ⟨kvh, kvc, _, _, _, _, hcipher⟩ := makeConfig_parts (s.getD []) cfg hmk
  simp only [usable, St.config, hcfg, hH, hC, Bool.true_and, St.key]
  rcases instantiateConfig_cipher cfg props hinst with ⟨hnone, _⟩ | ⟨row, args, c, hsome, hcon, hpc⟩
  · simp [hnone]
  · simp only [hsome]
    rcases hbranch with ⟨hpn, _⟩ | ⟨c', enc, kdf, k, hpc', _, _, _, hmkey, hder, hencr, hkey⟩
    · rw [hpc] at hpn; cases hpn
    · rw [hpc] at hpc'; cases hpc'
      obtain ⟨kb, krow, kargs, hkb, hfc, hkcon, _, hfresh⟩ := makeKey_parts c props.chunker kdf true k hmkey
      obtain ⟨n, hur⟩ := hfresh rfl
      have hmemc : row ∈ adapterTable := by
        rcases hcipher with ⟨hn, _⟩ | ⟨ci, enc', kv, hci, _, _, hfc'⟩
        · rw [hsome] at hn; cases hn
        · rw [hsome] at hci; cases hci
          exact slotConfig_mem _ _ _ _ _ hfc'
      have hcu := cipher_usable_of row args c hmemc hcon kb hkb n hur hencr
      have hku := kdf_usable_of krow kargs k.userKdf (fromConfig_mem _ _ _ hfc) hkcon hder
      obtain ⟨hkr, hka⟩ := construct_row_args krow kargs k.userKdf hkcon
      simp [hcu, hkey, hkr, hka, hku]

/-- **The full statement, for a source that carries the candidate validation patch.**  `d12FixedInSource` (decidable, computed
from the regenerated tables) says: `blake2b.__init__` and `gclmulchunker.__init__` start with the guards of the patch and
`_make_config` checks the adapter kind of the hashing and chunking slots.  It is FALSE for the unpatched `/repo` (this
theorem is then vacuous and the property stays `_partial`); for a patched `/repo` it is true by `decide` and this IS
`accept_implies_usable`.  (For another shape of patch use `checkedElsewhere_of_source_checks`, whose hypotheses are semantic.) -/
theorem accept_implies_usable_if_fixed (hfix : d12FixedInSource = true) (s : Option Settings) (pw : Bool)
    (hacc : accept s pw = true) : usable (runInit s pw).1 = true := by
  simp only [d12FixedInSource, Bool.and_eq_true, decide_eq_true_eq, beq_iff_eq] at hfix
  obtain ⟨⟨⟨hgb, hgc⟩, hk1⟩, hk2⟩ := hfix
  apply accept_implies_usable_partial s pw hacc
  have hacc' := hacc
  unfold accept runInit at hacc'
  rw [init_order_bridge] at hacc'
  generalize hr : runStages s pw canonicalStages {} = r at hacc'
  obtain ⟨st, oe⟩ := r
  cases oe with
  | some e => simp at hacc'
  | none =>
    refine checkedElsewhere_of_source_checks hk1 hk2 ?_ ?_ s pw st hr
    · rw [hgb]; intro a h; simpa [minDigestBytes] using blake2bFix_sound a h
    · rw [hgc]; exact chunkerFix_sound

/-! ### the full statement is false today: negation witnesses (D12), each also replayed on the real code -/

def witHashLength : Option Settings :=
  some [("hashing", .m [("length", .val (.int 100))]), ("encryption", .m [("kdf", .args [("n", .val (.int 4))])])]
def witHashWrongKind : Option Settings :=
  some [("hashing", .m [("name", .val (.str "aes_gcm"))]), ("encryption", .m [("kdf", .args [("n", .val (.int 4))])])]
def witChunkNegative : Option Settings :=
  some [("chunking", .m [("min_length", .val (.int (-5))), ("max_length", .val (.int 8))]),
        ("encryption", .m [("kdf", .args [("n", .val (.int 4))])])]
def witChunkFloat : Option Settings :=
  some [("chunking", .m [("min_length", .val (.float ((3 : Rat) / 2))), ("max_length", .val (.int 8))]), ("encryption", .val .none)]
def witChunkZero : Option Settings :=
  some [("chunking", .m [("min_length", .val (.int 0)), ("max_length", .val (.int 0))]), ("encryption", .val .none)]
def witChunkWrongKind : Option Settings :=
  some [("chunking", .m [("name", .val (.str "blake2b"))]), ("encryption", .val .none)]
def witDigestOneByte : Option Settings :=
  some [("hashing", .m [("length", .val (.int 1))]), ("encryption", .val .none)]

/-! Each witness is stated for the source as it is TODAY, and says so in its hypothesis (`blake2b.__init__` has no guard,
`gclmulchunker.__init__` has its single `min > max` guard, `_make_config` has no kind check): with today's `Generated.lean`
the hypothesis is true and the theorem is the negation of `accept_implies_usable` at that input; once `/repo` gains the
missing validation the hypothesis is false, the model follows the new guards, and nothing here has to be edited (the evidence file says which
hypotheses currently hold: `model_table.witness_hypotheses`). -/

/-- `hashing.length = 100` is accepted (config uploaded); `hashlib.blake2b` takes at most 64 bytes. -/
theorem hash_length_witness : guardCount "blake2b" = 0 →
    accept witHashLength true = true ∧ usable (runInit witHashLength true).1 = false ∧ checkedElsewhere witHashLength = false := by
  decide

/-- any adapter name is accepted in the hashing slot: `hashing.name = "aes_gcm"`. -/
theorem hash_wrong_kind_witness : kindChecked "hashing" = false →
    accept witHashWrongKind true = true ∧ usable (runInit witHashWrongKind true).1 = false ∧
    checkedElsewhere witHashWrongKind = false := by
  decide

/-- negative / non-integer / zero chunk lengths are accepted. -/
theorem chunk_lengths_witness : guardCount "gclmulchunker" = 1 →
    (accept witChunkNegative true = true ∧ usable (runInit witChunkNegative true).1 = false) ∧
    (accept witChunkFloat true = true ∧ usable (runInit witChunkFloat true).1 = false) ∧
    (accept witChunkZero true = true ∧ usable (runInit witChunkZero true).1 = false) := by
  decide +kernel

/-- a non-chunker in the chunking slot is accepted when the repository is unencrypted (an encrypted `init` happens to call
`chunker.generate_chunking_params()` and fails before the upload). -/
theorem chunk_wrong_kind_witness : kindChecked "chunking" = false →
    accept witChunkWrongKind true = true ∧ usable (runInit witChunkWrongKind true).1 = false ∧
    accept (some [("chunking", .m [("name", .val (.str "blake2b"))])]) true = false := by
  decide

/-- a one-byte digest is accepted: chunk names are digests, so any 257 chunks collide. -/
theorem digest_too_short_witness : guardCount "blake2b" = 0 →
    accept witDigestOneByte true = true ∧ usable (runInit witDigestOneByte true).1 = false := by
  decide

/-- the cipher and KDF slots, in contrast, ARE covered by acceptance alone: the same kinds of junk are refused. -/
theorem cipher_kdf_junk_rejected :
    accept (some [("encryption", .m [("cipher", .args [("name", .val (.str "blake2b"))]), ("kdf", .args [("n", .val (.int 4))])])]) true = false ∧
    accept (some [("encryption", .m [("cipher", .args [("key_bits", .val (.float 256))]), ("kdf", .args [("n", .val (.int 4))])])]) true = false ∧
    accept (some [("encryption", .m [("cipher", .args [("nonce_bits", .val (.int 1032))]), ("kdf", .args [("n", .val (.int 4))])])]) true = false ∧
    accept (some [("encryption", .m [("kdf", .args [("n", .val (.int 3))])])]) true = false ∧
    accept (some [("encryption", .m [("kdf", .args [("n", .val (.int 4)), ("r", .val (.int 0))])])]) true = false ∧
    accept (some [("encryption", .m [("kdf", .args [("n", .val (.int 4))])])]) false = false := by
  decide

/-! ## add-key -/

/-- Whatever KDF settings `add_key` accepts (independent, shared or clone; any repository), the new key file's KDF section
is one the library can run again: a fresh process can derive the user key. -/
theorem addkey_accept_implies_kdf_usable (s : Option Settings) (pw shared unlocked : Bool) (props : Props) (k : KeyMat)
    (h : addKey s pw shared unlocked props = .ok k) : kdfUsable (k.userKdf.row, k.userKdf.args) = true := by
  unfold addKey at h
  repeat' split at h
  all_goals first | (cases h; done) | skip
  cases h
  have hmk := ‹makeKey _ _ _ _ = Except.ok _›
  have hder := ‹kdfDerive _ = Except.ok _›
  obtain ⟨kb, krow, kargs, _, hfc, hkcon, _, _⟩ := makeKey_parts _ _ _ _ _ hmk
  have hku := kdf_usable_of krow kargs _ (fromConfig_mem _ _ _ hfc) hkcon hder
  obtain ⟨hkr, hka⟩ := construct_row_args krow kargs _ hkcon
  rw [hkr, hka]; exact hku

/-- **Every key produced by `init` or by any chain of add-key invocations (independent, shared, clone; any KDF parameters,
refused ones included; right or wrong unlocking passwords) unlocks with its own password and with no other.** -/
theorem addkey_unlocks_own_only {κ : Type} [DecidableEq κ] (valid : κ → Bool) (pw0 : Pw) (kdf0 : κ) (ops : List (KeyOp κ))
    (k : KeyFile κ) (p : Pw) (hk : (k, p) ∈ (runKeyOps valid (initRing pw0 kdf0) ops).keys) (p' : Pw) :
    (unlockKey k p').isSome = true ↔ p' = p := by
  have hs := ringOk_run valid ops _ (ringOk_init pw0 kdf0) (k, p) hk
  simp only at hs
  unfold unlockKey
  rw [hs]
  constructor
  · intro h
    split at h
    · rename_i heq
      injection heq
    · simp at h
  · intro h
    subst h
    simp

/-- a shared / cloned key carries the secrets of the key it was made from (and is only made if that key was unlocked with
the right password); nothing else changes -/
theorem addkey_shared_keeps_family {κ : Type} [DecidableEq κ] (valid : κ → Bool) (r : Ring κ) (i : Nat) (upw pw : Pw) (kdf : κ)
    (k : KeyFile κ) (p : Pw) (hi : r.keys[i]? = some (k, p)) :
    stepKey valid r (.shared i upw pw kdf) =
      if (unlockKey k upw).isSome ∧ valid kdf = true
      then { keys := r.keys ++ [(mkKey kdf r.next pw k.family, pw)], next := r.next + 1 } else r := by
  simp only [stepKey, hi]
  unfold unlockKey
  split <;> simp_all

/-! ## non-vacuity -/

/-- the default settings (None), an explicit encrypted lattice point and an unencrypted one are accepted, lie in the region of
the partial theorem and are usable -/
example : accept none true = true ∧ checkedElsewhere none = true ∧ usable (runInit none true).1 = true := by decide

example :
    let s : Option Settings := some [("hashing", .m [("name", .val (.str "sha2")), ("bits", .val (.int 256))]),
      ("chunking", .m [("min_length", .val (.int 4)), ("max_length", .val (.int 8))]),
      ("encryption", .m [("cipher", .args [("name", .val (.str "chacha20_poly1305"))]), ("kdf", .args [("n", .val (.int 4))])])]
    accept s true = true ∧ checkedElsewhere s = true ∧ usable (runInit s true).1 = true ∧ (runInit s true).1.puts = ["config"] := by
  decide

example : accept (some [("encryption", .val .none)]) false = true ∧ checkedElsewhere (some [("encryption", .val .none)]) = true := by
  decide

/-- a chain: init(pw 0), independent(pw 1), shared from #0 with the right password (pw 2), clone of #1 with a WRONG password
(nothing produced), clone of #1 with the right one -/
example :
    let r := runKeyOps (fun (_ : Nat) => true) (initRing 0 (10 : Nat))
      [.independent 1 11, .shared 0 0 2 12, .clone 1 7 13, .clone 1 1 14]
    r.keys.map (fun kp => (kp.1.family, kp.2)) = [(1, 0), (3, 1), (1, 2), (3, 1)] := by
  decide

/-! ## the key file on disk, as a later process sees it (`init -o PATH`, `add-key -o PATH`) -/

/-- The statement that stores the key in `init` and in `_add_key` discards whatever the output path held (it truncates, or
renames a finished temporary file onto the path), and it comes after the last statement that can refuse the settings.
Regenerated from `/repo` (`tools/sections/17_settings.py`, helper methods are followed): opening the path without
truncation, appending or `'x'` makes this fail. -/
theorem key_write_bridge :
    overwrites keyWriteInit = true ∧ overwrites keyWriteAddKey = true ∧ keyWriteAfterChecks = true := by decide

/-- **Whatever the output path held before** (nothing, a shorter / longer / equally long earlier key file, anything else):
after an add-key invocation that produced a key, the path holds exactly the serialisation of that key. -/
theorem keyfile_holds_serialized_key {κ α : Type} [DecidableEq κ] (ser : KeyFile κ → List α) (valid : κ → Bool)
    (d : KeyDisk κ α) (o : KeyOpAt κ) (p : Nat) (kp : KeyFile κ × Pw) (nx : Nat)
    (hprod : producedKey valid d.ring o.op = some (kp, nx)) (hout : o.out = some p) :
    (stepDisk keyWriteAddKey ser valid d o).files.lookup p = some (ser kp.1) := by
  unfold stepDisk
  simp only [hprod, hout, writeBytes_overwrites keyWriteAddKey key_write_bridge.2.1]
  simp

/-- the same for `init -o PATH`: it succeeds over any earlier file and the path then holds the serialised first key -/
theorem keyfile_init_holds_serialized_key {κ α : Type} (ser : KeyFile κ → List α) (files0 : List (Nat × List α))
    (pw : Pw) (kdf : κ) (p : Nat) :
    ∃ d, initDisk keyWriteInit ser files0 pw kdf (some p) = some d ∧ d.files.lookup p = some (ser (mkKey kdf 0 pw 1)) := by
  simp only [initDisk, writeBytes_overwrites keyWriteInit key_write_bridge.1]
  exact ⟨_, rfl, by simp⟩

/-- **A fresh process that reads a key file from disk unlocks the repository with that key's own password and with no
other** — for every chain of `init -o` / add-key invocations (independent, shared, clone; any KDF parameters, refused ones
included; right or wrong unlocking passwords; key printed or written to any path, the same path any number of times) over
EVERY pre-existing content `files0` of the output paths.  `parse ∘ ser = some` is the JSON round trip of
`serialize` / `deserialize` (validated by the harness on the real files); KDF / AEAD are symbolic as in `addkey_unlocks_own_only`. -/
theorem keyfile_fresh_load_unlocks_own_only {κ α : Type} [DecidableEq κ] (ser : KeyFile κ → List α)
    (parse : List α → Option (KeyFile κ)) (hparse : ∀ k, parse (ser k) = some k) (valid : κ → Bool)
    (files0 : List (Nat × List α)) (pw0 : Pw) (kdf0 : κ) (out0 : Option Nat) (ops : List (KeyOpAt κ)) :
    ∃ d0, initDisk keyWriteInit ser files0 pw0 kdf0 out0 = some d0 ∧
      ∀ p k pw, (runDisk keyWriteAddKey ser valid d0 ops).holder.lookup p = some (k, pw) →
        ∀ pw', (freshLoad parse (runDisk keyWriteAddKey ser valid d0 ops).files p pw').isSome = true ↔ pw' = pw := by
  obtain ⟨d0, hd0, hok0, _⟩ := diskOk_init keyWriteInit key_write_bridge.1 ser files0 pw0 kdf0 out0
  refine ⟨d0, hd0, ?_⟩
  intro p k pw hh pw'
  have hok := diskOk_run keyWriteAddKey key_write_bridge.2.1 ser valid ops d0 hok0
  obtain ⟨hfile, hmem⟩ := hok.2 p (k, pw) hh
  have hs := hok.1 (k, pw) hmem
  simp only at hs hfile
  simp only [freshLoad, hfile, hparse]
  unfold unlockKey
  rw [hs]
  constructor
  · intro h
    split at h
    · rename_i heq
      injection heq
    · simp at h
  · intro h
    subst h
    simp

/-- writing key files does not change which keys exist: the ring is the one of the plain chain of `addkey_unlocks_own_only` -/
theorem keyfile_chain_is_addkey_chain {κ α : Type} [DecidableEq κ] (ser : KeyFile κ → List α) (valid : κ → Bool)
    (d : KeyDisk κ α) (ops : List (KeyOpAt κ)) :
    (runDisk keyWriteAddKey ser valid d ops).ring = runKeyOps valid d.ring (ops.map (·.op)) :=
  ring_runDisk keyWriteAddKey key_write_bridge.2.1 ser valid ops d

/-- a refused add-key (wrong unlocking password, KDF parameters the library rejects) leaves every file as it was — an
earlier working key at the output path keeps working; and a successful one changes no other path -/
theorem keyfile_frame {κ α : Type} [DecidableEq κ] (m : WriteMode) (ser : KeyFile κ → List α) (valid : κ → Bool)
    (d : KeyDisk κ α) (o : KeyOpAt κ) :
    (producedKey valid d.ring o.op = none → (stepDisk m ser valid d o).files = d.files) ∧
    (∀ q, o.out ≠ some q → (stepDisk m ser valid d o).files.lookup q = d.files.lookup q) := by
  constructor
  · intro h
    simp [stepDisk, h]
  · intro q hq
    unfold stepDisk
    cases hp : producedKey valid d.ring o.op with
    | none => rfl
    | some kn =>
      obtain ⟨kp, nx⟩ := kn
      cases ho : o.out with
      | none => rfl
      | some p =>
        simp only
        cases hw : writeBytes m (d.files.lookup p) (ser kp.1) with
        | error e => rfl
        | ok c =>
          simp only [List.lookup_cons]
          have : (q == p) = false := by
            rw [ho] at hq
            simp only [beq_eq_false_iff_ne, ne_eq]
            intro h; exact hq (by rw [h])
          simp [this]

/-- Negation witness for a key-file statement that does not truncate (`os.open(path, O_WRONLY | O_CREAT)`, `'r+b'`): over a
LONGER earlier file the tail survives, the path does not hold the serialised key, and a strict parser (`json.loads`:
"Extra data") gives a fresh process nothing to unlock with. -/
theorem inplace_write_keeps_tail {κ α : Type} [DecidableEq κ] (ser : KeyFile κ → List α) (parse : List α → Option (KeyFile κ))
    (k : KeyFile κ) (tail : List α) (hne : tail ≠ []) (hstrict : parse (ser k ++ tail) = none) (pw : Pw) :
    writeBytes .inPlace (some (ser k ++ tail)) (ser k) = .ok (ser k ++ tail) ∧
    writeBytes .inPlace (some (ser k ++ tail)) (ser k) ≠ .ok (ser k) ∧
    freshLoad parse [(0, ser k ++ tail)] 0 pw = none := by
  refine ⟨by simp [writeBytes], ?_, by simp [freshLoad, hstrict]⟩
  simp only [writeBytes, List.drop_left, ne_eq, Except.ok.injEq]
  intro h
  exact hne (List.append_right_eq_self.mp h)

/-- non-vacuity: init writes to path 7 over a longer file, add-key --shared replaces it in place (same path), an independent
key goes to path 8 over garbage; both paths then load in a fresh process with their own passwords only -/
example :
    let ser : KeyFile Nat → List Nat := fun k => [k.kdf, k.salt, k.sealedWith.pw, k.family]
    let parse : List Nat → Option (KeyFile Nat) := fun
      | [a, b, c, d] => some ⟨a, b, ⟨a, b, c⟩, d⟩
      | _ => none
    let d := (initDisk keyWriteInit ser [(7, [1, 2, 3, 4, 5, 6, 7]), (8, [9])] 0 10 (some 7)).map
      (fun d0 => runDisk keyWriteAddKey ser (fun _ => true) d0 [⟨.shared 0 0 2 11, some 7⟩, ⟨.shared 0 5 3 12, some 7⟩, ⟨.independent 1 13, some 8⟩])
    d.map (fun d => ((List.range 4).map (fun pw => (freshLoad parse d.files 7 pw).isSome), (List.range 4).map (fun pw => (freshLoad parse d.files 8 pw).isSome)))
      = some ([false, false, true, false], [false, true, false, false]) := by
  decide

/-- **Accepted settings are usable** (full statement).  On the current `/repo` (fix c31bfee: kind checks in `_make_config`,
range / type guards in `blake2b.__init__` and `gclmulchunker.__init__`) the hypothesis of `accept_implies_usable_if_fixed` is
discharged from the regenerated adapter table by `decide`; if the guards are removed or weakened this proof stops compiling. -/
theorem accept_implies_usable (s : Option Settings) (pw : Bool) (hacc : accept s pw = true) :
    usable (runInit s pw).1 = true :=
  accept_implies_usable_if_fixed (by decide) s pw hacc

/-! ## custom settings WRITTEN ON THE COMMAND LINE (`replicat init … --encryption.kdf.n 16 --hashing.name blake2b`)

Model: `ReplicatModel/SettingsCli.lean` — `parse_cli_settings` (the loop as written), `guess_type` on a decidable fragment of
texts, `flat_to_nested` (sorted items, split on the separator, `setdefault` descent, `Conflicting options`), and the part of
`main()` between the second parse and the handler.  The theorems with a parameter `g` hold for EVERY coercion function
whose results are scalars (so also for the real `guess_type` wherever it returns a scalar); `cliMain` uses the modelled one. -/
section Cli
open Replicat.SettingsCli

/-- **The extracted shape facts.**  The loop of `parse_cli_settings` (prefix test, pending-flag bookkeeping, the key
normalisation chain, the coercion), `flat_to_nested` (separator, `sorted`, descent inside `try`, the two exception classes
that mean a scalar/dict clash, the error raised), `guess_type` (title-cased words, evaluator, fallback) and the chain in
`main()` (unknown arguments of the second parse → `parse_cli_settings` → `flat_to_nested` only if nothing is left unknown →
`main_parser.error` → handler, for exactly `init` / `add-key` / `benchmark`, each handing `settings=` on) are what the model
was written against.  Regenerated from `/repo` on every run; any other shape makes this fail. -/
theorem cli_shape_bridge :
    (cliLoopRecognised = true ∧ cliFlagPrefix = ['-', '-'] ∧ cliKeyOps = [.lstrip ['-'], .replace '-' '_'] ∧
      cliCoercion = "guess_type") ∧
    (flatDescentRecognised = true ∧ flatSep = '.' ∧ flatSorted = true ∧
      flatConflictCatches = ["AttributeError", "TypeError"] ∧ flatConflictRaises = "ReplicatError") ∧
    (guessRecognised = true ∧ guessTitleWords = ["false".toList, "none".toList, "true".toList] ∧
      guessEval = "ast.literal_eval" ∧ guessCatches = ["SyntaxError", "ValueError"]) ∧
    (mainChainRecognised = true ∧
      mainCliChain = [.secondParse, .settingsNone, .parseCliSettings, .flatToNestedIfClean, .errorIfUnknown, .runHandler] ∧
      mainSettingsActions = ["add-key", "benchmark", "init"] ∧
      mainHandlerPassesSettings = [("add-key", "add_key"), ("benchmark", "benchmark"), ("init", "init")]) := by
  decide

/-- **Nothing is dropped silently.**  Whatever the argument list: the arguments are, as a multiset, exactly the flag/value
pairs (a flag immediately followed by a non-flag) together with the `unknown` list; the mapping is the dict of those pairs
(key normalised, value coerced ONCE, a repeated key keeps its LAST value); and every pair is a flag followed by a value. -/
theorem cli_settings_unknown_sound {β : Type} (g : Str → β) (args : List Str) :
    args.Perm ((cliPairs args).flatMap (fun p => [p.1, p.2]) ++ (parseWith g args).2) ∧
    (parseWith g args).1 = toDict ((cliPairs args).map (fun p => (normKey p.1, g p.2))) ∧
    (∀ p ∈ cliPairs args, isFlag p.1 = true ∧ isFlag p.2 = false) := by
  rw [parseWith_spec]
  exact ⟨cli_perm args, rfl, cliPairs_flags args⟩

/-- **Looking a dotted key up in the settings the handler receives returns the LAST value given for that key, coerced
once** — and nothing for a key that was not given. -/
theorem cli_settings_lookup {β : Type} (g : Str → β) (action : String) (args : List Str) (t : Tree β)
    (h : cliMainWith g action args = .settings t) (k : Str) :
    t.leafAt (splitDots k) = (lastGiven k args).map g := by
  rw [cliMainWith_eq] at h
  split at h
  · cases h
  · split at h
    · cases h
    · split at h
      · cases h
      · split at h
        · rename_i t' hft
          cases h
          apply Option.ext
          intro v
          rw [(flatToNested_spec _).2 t hft (splitDots k) v]
          constructor
          · rintro ⟨k', hk', hv⟩
            have : k = k' := splitOn_injective flatSep _ _ hk'
            subst this
            rw [lastFor_toDict] at hv
            rw [← hv, lastGiven, ← lastFor_map, List.map_map]
            rfl
          · intro hv
            refine ⟨k, rfl, ?_⟩
            rw [lastFor_toDict, ← hv, lastGiven, ← lastFor_map, List.map_map]
            rfl
        · cases h

/-- the same for the modelled `guess_type`: the scalar at a dotted key is the reading of the last text given for it -/
theorem cli_settings_lookup_guess (action : String) (args : List Str) (t : Tree Val)
    (h : cliMain action args = .settings t) (k : Str) (v : Val) :
    t.leafAt (splitDots k) = some v ↔ (lastGiven k args).map guessType = some (.val v) := by
  rw [cliMain_eq] at h
  split at h
  · cases h
  · split at h
    · cases h
    · split at h
      · cases h
      · split at h
        · cases h
        · rename_i flatV hga
          split at h
          · rename_i t' hft
            cases h
            have hflat := guessedAll_some _ _ hga
            rw [(flatToNested_spec _).2 t hft (splitDots k) v]
            have key : ∀ k', lastFor k' flatV = some v ↔ (lastGiven k' args).map guessType = some (.val v) := by
              intro k'
              have h1 : (lastFor k' flatV).map Guess.val = (lastGiven k' args).map guessType := by
                rw [← lastFor_map, ← hflat, lastFor_toDict, lastGiven, ← lastFor_map, List.map_map]
                rfl
              rw [← h1]
              cases lastFor k' flatV <;> simp
            constructor
            · rintro ⟨k', hk', hv⟩
              have : k = k' := splitOn_injective flatSep _ _ hk'
              subst this
              exact (key k).mp hv
            · intro hv
              exact ⟨k, rfl, (key k).mpr hv⟩
          · cases h

/-- **`Conflicting options` is raised exactly when one key is a proper dotted prefix of another** (`a.b` and `a.b.c`),
whichever of the two comes first in the dict. -/
theorem cli_settings_conflict_iff_flat {β : Type} (flat : List (Str × β)) :
    flatToNested flat = .error .conflictingOptions ↔
      ∃ q ∈ flat.map (·.1), ∃ p ∈ flat.map (·.1), ∃ r, p = q ++ flatSep :: r :=
  (flatToNested_spec flat).1

/-- the same from the command line: for `init` / `add-key` / `benchmark` and a non-empty list of unknown arguments, `main()`
ends in `Conflicting options` exactly when every argument was paired and two of the (normalised) keys are in the
dotted-prefix relation — in either argument order. -/
theorem cli_settings_conflict_iff {β : Type} (g : Str → β) (action : String)
    (hact : mainSettingsActions.contains action = true) (args : List Str) (hne : args ≠ []) :
    cliMainWith g action args = .conflict ↔
      cliLeftover args = [] ∧
      ∃ q ∈ (cliPairs args).map (fun p => normKey p.1), ∃ p ∈ (cliPairs args).map (fun p => normKey p.1),
        ∃ r, p = q ++ flatSep :: r := by
  have hkeys : ∀ k, k ∈ (toDict ((cliPairs args).map (fun p => (normKey p.1, g p.2)))).map (·.1) ↔
      k ∈ (cliPairs args).map (fun p => normKey p.1) := by
    intro k
    rw [toDict_keys_mem, List.map_map]
    rfl
  have hconf := cli_settings_conflict_iff_flat (toDict ((cliPairs args).map (fun p => (normKey p.1, g p.2))))
  simp only [hkeys] at hconf
  have he : args.isEmpty = false := by cases args with | nil => exact absurd rfl hne | cons _ _ => rfl
  rw [cliMainWith_eq]
  simp only [he, hact, Bool.false_eq_true, if_false, Bool.not_true]
  cases hl : cliLeftover args with
  | cons a rest => simp
  | nil =>
    simp only [List.isEmpty_nil, Bool.not_true, Bool.false_eq_true, if_false, true_and]
    rw [← hconf]
    cases hft : flatToNested (toDict ((cliPairs args).map (fun p => (normKey p.1, g p.2)))) with
    | ok t => simp
    | error e => cases e; simp

/-- **The order of the items does not matter**: two dicts with the same items (distinct keys) give the same nested dict —
the same children in the same order, or the same failure. -/
theorem cli_settings_order_irrelevant_flat {β : Type} (flat₁ flat₂ : List (Str × β)) (hperm : flat₁.Perm flat₂)
    (hkeys : (flat₁.map (·.1)).Nodup) : flatToNested flat₁ = flatToNested flat₂ :=
  flatToNested_perm flat₁ flat₂ hperm hkeys

/-- the same from the command line: permuting flag/value pairs with distinct (normalised) keys changes nothing of what the
handler receives (or of the failure) -/
theorem cli_settings_order_irrelevant {β : Type} (g : Str → β) (action : String)
    (hact : mainSettingsActions.contains action = true) (ps₁ ps₂ : List (Str × Str)) (hperm : ps₁.Perm ps₂)
    (hflags : ∀ p ∈ ps₁, isFlag p.1 = true ∧ isFlag p.2 = false)
    (hkeys : (ps₁.map (fun p => normKey p.1)).Nodup) :
    cliMainWith g action (argsOfPairs ps₁) = cliMainWith g action (argsOfPairs ps₂) := by
  have hflags2 : ∀ p ∈ ps₂, isFlag p.1 = true ∧ isFlag p.2 = false := fun p hp => hflags p (hperm.symm.subset hp)
  obtain ⟨hp1, hl1⟩ := cliPairs_argsOfPairs ps₁ hflags
  obtain ⟨hp2, hl2⟩ := cliPairs_argsOfPairs ps₂ hflags2
  have hempty : ps₁.isEmpty = ps₂.isEmpty := by
    cases ps₁ with
    | nil => rw [hperm.symm.eq_nil]
    | cons a r =>
      cases ps₂ with
      | nil => exact absurd hperm.eq_nil (by simp)
      | cons _ _ => rfl
  have hn1 : ((ps₁.map (fun p => (normKey p.1, g p.2))).map (·.1)).Nodup := by rw [List.map_map]; exact hkeys
  have hpm : (ps₁.map (fun p => (normKey p.1, g p.2))).Perm (ps₂.map (fun p => (normKey p.1, g p.2))) := hperm.map _
  have hn2 : ((ps₂.map (fun p => (normKey p.1, g p.2))).map (·.1)).Nodup := (hpm.map _).nodup hn1
  rw [cliMainWith_eq, cliMainWith_eq, hp1, hp2, hl1, hl2, argsOfPairs_isEmpty, argsOfPairs_isEmpty, hempty,
    toDict_of_nodup _ hn1, toDict_of_nodup _ hn2, flatToNested_perm _ _ hpm hn1]
  simp only [hact, Bool.not_true, Bool.false_eq_true, if_false, List.isEmpty_nil]

/-- **The command line is as good as the dict.**  For every settings dictionary that can be written as flags
(`cliExpressible`, decidable: no empty / opaque mapping; every value has a text that the modelled `guess_type` reads back
as that value — ints, bools, `None`, strings that are plain words or can be quoted; key components without `.` and `-`; no
two leaves on the same or on nested paths, as in every dict), `main()` on its canonical rendering
`--section.sub.arg text …` hands the handler a nested dict with exactly the scalars of that dictionary at exactly their
paths.  Two nested dicts without empty mappings that agree on all scalars are equal as Python dicts, so every C17 theorem
about `init(settings=…)` / `add_key(settings=…)` applies to the command line. -/
theorem cli_settings_equals_direct (action : String) (hact : mainSettingsActions.contains action = true)
    (s : Settings) (hexp : cliExpressible s = true) :
    ∃ t, cliMain action (renderSettings s) = .settings t ∧ ∀ p v, t.leafAt p = some v ↔ (p, v) ∈ leavesOf s := by
  simp only [cliExpressible, Bool.and_eq_true, Bool.not_eq_true'] at hexp
  obtain ⟨⟨hne, _⟩, hl⟩ := hexp
  have hne' : leavesOf s ≠ [] := by
    intro e; rw [e] at hne; simp at hne
  exact cliMain_renderLeaves action hact (leavesOf s) hne' hl

/-- **Every dict qualifies.**  The pairwise half of `cliExpressible` (no two leaves on the same or on nested paths) is a fact
about dicts, not a restriction: it holds for every settings dictionary in which no mapping has a key twice (`dictLike`).  What
remains to be checked of a dictionary is local: no empty / opaque mapping, and each leaf writable (`leafWritable`: components
without `.` and `-`, value with a text that is read back — see `cli_value_texts_read_back`). -/
theorem cli_dict_expressible (s : Settings) (hd : dictLike s = true) (hno : noOpaque s = true)
    (hne : (leavesOf s).isEmpty = false) (hw : (leavesOf s).all leafWritable = true) : cliExpressible s = true :=
  cliExpressible_of_dictLike s hd hno hne hw

/-- **Which values can be written.**  The value half of `cliExpressible` is no hidden restriction: `True` / `False` / `None`,
every integer of at most 255 digits (canonical text = its decimal numeral, with `-` when negative) and every string that is a
plain word `[A-Za-z_][A-Za-z0-9_.-]*` other than none / true / false (adapter names, …) of at most 256 characters have a canonical
text, that text is not a flag, and the modelled `guess_type` reads it back as exactly that value. -/
theorem cli_value_texts_read_back :
    (∀ b : Bool, ∃ t, textOf (.bool b) = some t ∧ guessType t = .val (.bool b) ∧ isFlag t = false) ∧
    (∃ t, textOf .none = some t ∧ guessType t = .val .none ∧ isFlag t = false) ∧
    (∀ i : Int, (decDigits i.natAbs).length < guessMaxLen →
      ∃ t, textOf (.int i) = some t ∧ guessType t = .val (.int i) ∧ isFlag t = false) ∧
    (∀ s : String, plainWord s.toList = true → guessTitleWords.contains (lowerAscii s.toList) = false →
      s.toList.length ≤ guessMaxLen →
      textOf (.str s) = some s.toList ∧ guessType s.toList = .val (.str s) ∧ isFlag s.toList = false) := by
  refine ⟨?_, ?_, guessType_int, guessType_plainWord⟩
  · intro b
    cases b
    · exact ⟨"False".toList, by decide⟩
    · exact ⟨"True".toList, by decide⟩
  · exact ⟨"None".toList, by decide⟩

/-! ### non-vacuity -/

/-- the loop on a list with every irregularity: repeated flag (last wins), value without flag, flag after flag, trailing
flag, triple dash, `-` → `_`, single dash -/
example :
    parseCliSettingsS ["--a", "1", "--a", "2", "x", "--b", "--c", "---d-e.f-g", "v", "-s", "--kdf.n", "0x10", "--last"] =
      ([("a", .val (.int 2)), ("d_e.f_g", .val (.str "v")), ("kdf.n", .val (.int 16))], ["x", "--b", "--c", "-s", "--last"]) := by
  decide

/-- lookup: `init --encryption.kdf.n 16 --chunking.min-length 1000 --hashing.name blake2b --encryption.kdf.n 4` -/
example :
    let args := ["--encryption.kdf.n", "16", "--chunking.min-length", "1000", "--hashing.name", "blake2b", "--encryption.kdf.n", "4"].map String.toList
    (match cliMain "init" args with
     | .settings t => [t.leafAt ["encryption".toList, "kdf".toList, "n".toList], t.leafAt ["chunking".toList, "min_length".toList],
                       t.leafAt ["hashing".toList, "name".toList], t.leafAt ["hashing".toList]]
     | _ => []) = [some (.int 4), some (.int 1000), some (.str "blake2b"), none] := by
  decide

/-- conflicts in both argument orders; no conflict for keys that merely share a textual prefix -/
example :
    (match cliMain "init" (["--a.b", "1", "--a", "2"].map String.toList) with | .conflict => true | _ => false) = true ∧
    (match cliMain "init" (["--a", "2", "--a.b", "1"].map String.toList) with | .conflict => true | _ => false) = true ∧
    (match cliMain "init" (["--a", "2", "--ab", "1", "--a-b.c", "3"].map String.toList) with | .settings _ => true | _ => false) = true ∧
    (match cliMain "add-key" (["--a", "2", "x"].map String.toList) with | .unrecognised u => u == ["x".toList] | _ => false) = true ∧
    (match cliMain "snapshot" (["--a", "2"].map String.toList) with | .unrecognised _ => true | _ => false) = true ∧
    (match cliMain "init" (["--a", "1.5"].map String.toList) with | .unmodelled => true | _ => false) = true := by
  decide

/-- a lattice point of C17 (unencrypted; chacha; scrypt parameters) is expressible, and its rendering -/
example :
    let s : Settings := [("hashing", .m [("name", .val (.str "sha2")), ("bits", .val (.int 256))]),
      ("chunking", .m [("min_length", .val (.int 4)), ("max_length", .val (.int 8))]),
      ("encryption", .m [("cipher", .args [("name", .val (.str "chacha20_poly1305"))]), ("kdf", .args [("n", .val (.int 4)), ("r", .val (.int 2))])])]
    cliExpressible s = true ∧ dictLike s = true ∧ (leavesOf s).all leafWritable = true ∧
    (renderSettings s).map String.ofList = ["--hashing.name", "sha2", "--hashing.bits", "256", "--chunking.min_length", "4",
      "--chunking.max_length", "8", "--encryption.cipher.name", "chacha20_poly1305", "--encryption.kdf.n", "4", "--encryption.kdf.r", "2"] ∧
    cliExpressible [("encryption", .val .none)] = true ∧
    cliExpressible [("encryption", .m [])] = false ∧ cliExpressible [("hashing", .m [("length", .val (.float 1))])] = false := by
  decide

end Cli

end Replicat.C17
