import ReplicatProofs.Lemmas.SymBasic
import ReplicatProofs.Lemmas.SymSession
import ReplicatProofs.Lemmas.SymMulti
/-!
# C04 — damaged or substituted repository objects are never restored silently

Property theorems only.  Object: the reader side of `ReplicatModel/Sym.lean` — `verifyChunk` (`restore._download_chunk`),
`loadSnapshot` (`_load_snapshots._download_snapshot` + `_download_snapshot_threadsafe` + `_decrypt_snapshot_body`), `restore`
(selection by snapshot name, newest-first file selection, reference plan) — run against an ARBITRARY object map: the adversary
chooses every `(location, object)` pair of the store, so bit flips / truncations / extensions (= some term that is not the
original), swaps, replays under other names, removals and any combination of them are all instances.

Assumption (DESIGN.md §4): ideal hash and AEAD — `Term.hash` and `enc` are free constructors.  Which guards the code contains
(`Gen.chunkDigestVerified`, `Gen.snapDigestVerified`, `Gen.snapTagChecked`, key-from-digest flags) is regenerated from the
source on every run; the proofs discharge them by `decide`, so they stop compiling when a guard disappears.

Sessions (`ReplicatModel/SymSession.lean`): the same reader as performed by ONE long-lived `Repository` object that issues many
commands while the adversary changes the object map between them.  `Gen.chunkDigestCheckDominates` (the digest comparison is on
every path to the writers) is what makes the object's state irrelevant; the `session_*` theorems discharge it by `decide`.

Several snapshots (`ReplicatModel/SymMulti.lean`): the commands that SELECT among the loaded snapshots — restore without a filter
(newest version of every path), restore / list-files / list-snapshots with or without a name filter.  For them "the damaged object
was left out" is silent corruption, not an error path.  `Gen.snapLoadNeverSkipsListedOwn` (no path of the loader returns `None`
for a listed object of the own family once it is read) is what excludes it; the theorems of the last section discharge it by
`decide`.
-/
namespace Replicat.C04
open Replicat Replicat.Sym
open Term (pub sec nonce key nil pair mac kdf enc)

/-- **A verified chunk is the captured chunk.**  Whatever object sits at the location (garbage, another chunk of the
repository, a snapshot object, a truncation …), in encrypted and unencrypted repositories: if `verifyChunk` accepts it for the
digest recorded in the snapshot, the accepted plaintext is the plaintext that digest was computed from. -/
theorem verify_chunk_sound (p : Props) (c obj m : Term) (h : verifyChunk p (digest c) obj = .ok m) : m = c :=
  digest_inj (verifyChunk_ok_digest h)

/-- **A swapped ciphertext fails authentication.**  In an encrypted repository the valid object of chunk `c` placed where a
chunk with another digest `d` is expected is rejected by the AEAD itself (the key is derived from the expected digest),
before the digest comparison is even reached. -/
theorem swapped_chunk_fails_authentication (p : Props) (hp : p.encrypted = true) (n c d : Term) (hne : digest c ≠ d) :
    verifyChunk p d (chunkObject p n c) = .error .decryption := by
  have h1 : Gen.chunkReadKeyFromDigest = true := by decide
  have h2 : Gen.chunkWriteKeyFromDigest = true := by decide
  have hk : subKey p (digest c) ≠ subKey p d := by
    intro h
    unfold subKey at h
    injection h with _ _ h3
    exact hne h3
  simp [verifyChunk, chunkObject, hp, h1, h2, dec_enc_ne hk]

/-- **Anything that is not a ciphertext under the expected key is rejected** in an encrypted repository (garbage, a plaintext
chunk, a snapshot object …). -/
theorem non_ciphertext_fails_authentication (p : Props) (hp : p.encrypted = true) (d obj : Term)
    (hobj : ∀ n m, obj ≠ enc (subKey p d) n m) : verifyChunk p d obj = .error .decryption := by
  have h1 : Gen.chunkReadKeyFromDigest = true := by decide
  unfold verifyChunk
  simp only [hp, h1, if_true]
  cases hd : dec (subKey p d) obj with
  | none => rfl
  | some m =>
    obtain ⟨n, hn⟩ := dec_eq_some hd
    exact absurd hn (hobj n m)

/-- **Unencrypted repositories: the re-hash is the whole defence** — every object other than the captured plaintext is
reported as corrupted. -/
theorem plain_chunk_mismatch_is_corrupted (p : Props) (hp : p.encrypted = false) (c obj : Term) (hne : obj ≠ c) :
    verifyChunk p (digest c) obj = .error .corrupted := by
  have hv : Gen.chunkDigestVerified = true := by decide
  have : digest obj ≠ digest c := fun h => hne (digest_inj h)
  simp [verifyChunk, hp, hv, this]

/-- **A missing chunk is an error**, never an empty write. -/
theorem missing_chunk_is_error (p : Props) (s : Store) (d : Term) (h : lookup s (chunkLoc p d) = none) :
    fetchChunk p s d = .error .missing := by
  simp [fetchChunk, h]

/-- **A snapshot body is accepted only if the stored bytes are the original bytes.**  For the name the snapshot was stored
under (= digest of what was uploaded), any object the adversary puts at any location carrying that name either is skipped
(tag check, `none`), raises, or is the original object — and then the reader gets the original body. -/
theorem load_snapshot_sound (p : Props) (stored0 tag obj : Term) (r : List Term × Option Data)
    (h : loadSnapshot p tag (snapshotName stored0) obj = .ok (some r)) :
    obj = stored0 ∧ decryptBody p stored0 = .ok r := by
  obtain ⟨hh, hd⟩ := loadSnapshot_some h
  have : obj = stored0 := Term.hash.inj hh
  subst this
  exact ⟨rfl, hd⟩

/-- **Tag first.**  In an encrypted repository an object filed under a tag that is not the MAC of its name is skipped without
being looked at (an adversary without the MAC key cannot make a foreign object appear under a chosen name). -/
theorem load_snapshot_bad_tag_skipped (p : Props) (hp : p.encrypted = true) (tag name obj : Term)
    (ht : tag ≠ snapshotTag p name) : loadSnapshot p tag name obj = .ok none := by
  have h1 : Gen.snapTagChecked = true := by decide
  have : snapshotTag p name ≠ tag := fun h => ht h.symm
  simp [loadSnapshot, hp, h1, this]

/-- **A damaged snapshot object is reported**: any other content under the snapshot's own location raises `corrupted`. -/
theorem load_snapshot_mismatch_is_corrupted (p : Props) (stored0 obj : Term) (hne : obj ≠ stored0) :
    loadSnapshot p (snapshotTag p (snapshotName stored0)) (snapshotName stored0) obj = .error .corrupted := by
  have h1 : Gen.snapDigestVerified = true := by decide
  have : Term.hash obj ≠ snapshotName stored0 := fun h => hne (Term.hash.inj h)
  simp [loadSnapshot, h1, this]

/-- **Restore never succeeds with different content.**  Let a snapshot with chunk plaintexts `contents` (table = their
digests) and private data `data` have been written by the holder of `p` (any nonces).  For EVERY object map `A` — arbitrary
corruption, substitution, replay and removal of chunk and snapshot objects, singly or combined —: if `restore` of that snapshot
(selected by its name) returns normally, every file it wrote is a file of the captured snapshot and consists of exactly the
captured ranges of the captured chunk plaintexts (`honestParts`; that these ranges tile the file is `C01.refs_tile`). -/
theorem restore_ok_implies_identical (p : Props) (A : Store) (n1 n2 : Term) (contents : List Term) (data : Data)
    (out : List (Term × List Part))
    (h : restore p A (snapshotName (snapshotStored p n1 n2 (encTable (contents.map digest)) (encData data))) = .ok out) :
    ∀ w ∈ out, ∃ f ∈ data.files, w.1 = f.path ∧ honestParts contents (isort refLE f.refs) = some w.2 := by
  unfold restore at h
  split at h
  · cases h
  · rename_i bodies hload
    have hall := loadAll_sound p _ (snapshotStored p n1 n2 (encTable (contents.map digest)) (encData data))
      (contents.map digest, data) rfl (decryptBody_stored p n1 n2 _ data) _ bodies hload
    intro w hw
    obtain ⟨x, hx, hpath, hparts⟩ := restoreFiles_mem _ _ out h w hw
    obtain ⟨b, hb, hb1, hb2⟩ := selectFiles_mem _ [] x hx
    have hbm : b ∈ bodies := (mem_isort newestFirst b bodies).mp hb
    have hb0 := hall b hbm
    subst hb0
    simp only at hb1 hb2
    refine ⟨x.2, hb2, hpath, ?_⟩
    rw [hb1] at hparts
    exact restoreParts_sound _ (fun d m hm => fetchChunk_ok_digest hm) contents _ _ hparts

/-- **The digest comparison is what protects unencrypted repositories** (so the theorems above are not vacuous): with the
comparison removed, chunk `sec 2` stored where chunk `sec 1` is expected is accepted. -/
theorem without_digest_check_swap_accepted :
    verifyChunkNoDigest ⟨false, nil, noShared⟩ (digest (sec 1)) (sec 2) = .ok (sec 2) ∧
    verifyChunk ⟨false, nil, noShared⟩ (digest (sec 1)) (sec 2) = .error .corrupted := by
  decide

/-! ## sessions of one long-lived client object -/

/-- **A long-lived client is a sequence of fresh clients.**  Whatever the `Repository` object has accepted in earlier commands
(`cl`), and whatever object map each command meets (the adversary damages, heals and damages again between commands): the
outcomes of a session are the outcomes the same commands give when each is issued by a new process. -/
theorem session_is_stateless (p : Props) (cl : Client) (cmds : List Cmd) : session p cl cmds = runFresh p cmds := by
  have h : Gen.chunkDigestCheckDominates = true := by decide
  unfold session
  rw [h]
  exact runSession_dom p cmds cl

/-- **Restore never succeeds with different content — in any state of the client.**  The statement of
`restore_ok_implies_identical` for a restore issued by an object that has run ANY commands `before` (restores of this or other
snapshots, listings) against ANY object maps, starting from any state `cl`. -/
theorem session_restore_ok_implies_identical (p : Props) (cl : Client) (before : List Cmd) (A : Store) (n1 n2 : Term)
    (contents : List Term) (data : Data) (out : List (Term × List Part))
    (h : restoreC Gen.chunkDigestCheckDominates (clientAfter Gen.chunkDigestCheckDominates p cl before) p A
      (snapshotName (snapshotStored p n1 n2 (encTable (contents.map digest)) (encData data))) = .ok out) :
    ∀ w ∈ out, ∃ f ∈ data.files, w.1 = f.path ∧ honestParts contents (isort refLE f.refs) = some w.2 := by
  have hd : Gen.chunkDigestCheckDominates = true := by decide
  rw [hd, restoreC_dom] at h
  exact restore_ok_implies_identical p A n1 n2 contents data out h

/-- **The first command of an object is always fully checked** — wherever the comparison sits in the source.  (This is why a
check that starts a new process for every command cannot see a comparison that an object's state bypasses.) -/
theorem first_command_is_fully_checked (dom : Bool) (p : Props) (A : Store) (target : Term) :
    restoreC dom Client.fresh p A target = restore p A target :=
  restoreC_fresh dom p A target

/-! a two-chunk, one-file snapshot in an unencrypted repository, and the same store with the two chunk objects swapped -/
private def plP : Props := ⟨false, nil, noShared⟩
private def plData : Data := ⟨7, [⟨sec 50, [⟨1, 2, 0, 3⟩, ⟨0, 1, 0, 4⟩], Term.hash (sec 60), pub 5⟩], nil⟩
private def plStored : Term := snapshotStored plP nil nil (encTable [digest (sec 1), digest (sec 2)]) (encData plData)
private def plLoc (c : Term) : Term := chunkLoc plP (digest c)
private def plGood : Store :=
  [(plLoc (sec 1), sec 1), (plLoc (sec 2), sec 2), (snapLoc plP (snapshotName plStored), plStored)]
private def plSwapped : Store :=
  [(plLoc (sec 1), sec 2), (plLoc (sec 2), sec 1), (snapLoc plP (snapshotName plStored), plStored)]

set_option synthInstance.maxSize 512 in
/-- **A comparison that the object's state can bypass is exactly the defect** (so the session theorems are not vacuous): a
client that skips the comparison for digests it accepted before restores the intact repository, and then — the two chunk
objects having been swapped in between — returns normally with the two chunks exchanged in the file; a fresh client, and the
same client when the comparison dominates, report the corruption. -/
theorem memoising_client_restores_swapped_chunks :
    runSession false plP Client.fresh [.restore plGood (snapshotName plStored), .restore plSwapped (snapshotName plStored)] =
      [.ok [(sec 50, [(sec 1, 0, 4), (sec 2, 0, 3)])], .ok [(sec 50, [(sec 2, 0, 4), (sec 1, 0, 3)])]] ∧
    runSession true plP Client.fresh [.restore plGood (snapshotName plStored), .restore plSwapped (snapshotName plStored)] =
      [.ok [(sec 50, [(sec 1, 0, 4), (sec 2, 0, 3)])], .error .corrupted] ∧
    restore plP plSwapped (snapshotName plStored) = .error .corrupted := by
  decide +kernel

/-! non-vacuity: an honest two-chunk, one-file snapshot in an encrypted repository restores; with the two chunk objects
swapped it fails with a decryption error; with the snapshot object replaced by garbage it fails as corrupted; with the snapshot
object removed nothing is written. -/
private def exP : Props := ⟨true, userKeyOf (sec 100) (nonce 4), ⟨pub 9, key 0, key 1, key 2, key 3⟩⟩
private def exData : Data := ⟨7, [⟨sec 50, [⟨1, 2, 0, 3⟩, ⟨0, 1, 0, 4⟩], Term.hash (sec 60), pub 5⟩], nil⟩
private def exStored : Term := snapshotStored exP (nonce 20) (nonce 21) (encTable [digest (sec 1), digest (sec 2)]) (encData exData)
private def exLoc (c : Term) : Term := chunkLoc exP (digest c)
private def exGood : Store :=
  [(exLoc (sec 1), chunkObject exP (nonce 10) (sec 1)), (exLoc (sec 2), chunkObject exP (nonce 11) (sec 2)),
   (snapLoc exP (snapshotName exStored), exStored)]
private def exSwapped : Store :=
  [(exLoc (sec 1), chunkObject exP (nonce 11) (sec 2)), (exLoc (sec 2), chunkObject exP (nonce 10) (sec 1)),
   (snapLoc exP (snapshotName exStored), exStored)]
private def exGarbled : Store :=
  [(exLoc (sec 1), chunkObject exP (nonce 10) (sec 1)), (exLoc (sec 2), chunkObject exP (nonce 11) (sec 2)),
   (snapLoc exP (snapshotName exStored), pub 77)]

set_option synthInstance.maxSize 512 in
example :
    restore exP exGood (snapshotName exStored) = .ok [(sec 50, [(sec 1, 0, 4), (sec 2, 0, 3)])] ∧
    restore exP exSwapped (snapshotName exStored) = .error .decryption ∧
    restore exP exGarbled (snapshotName exStored) = .error .corrupted ∧
    restore exP (exGood.take 2) (snapshotName exStored) = .ok [] := by
  decide +kernel

/-! sessions, non-vacuity: in the ENCRYPTED repository even the memoising client is stopped by the AEAD (the key is derived from
the expected digest); through the session of the code as it is, the swapped store is rejected after any number of good restores. -/
set_option synthInstance.maxSize 512 in
example :
    runSession false exP Client.fresh [.restore exGood (snapshotName exStored), .restore exSwapped (snapshotName exStored)] =
      [.ok [(sec 50, [(sec 1, 0, 4), (sec 2, 0, 3)])], .error .decryption] ∧
    session exP Client.fresh [.restore exGood (snapshotName exStored), .list exGarbled (snapshotName exStored),
        .restore exGood (snapshotName exStored), .restore exSwapped (snapshotName exStored)] =
      [.ok [(sec 50, [(sec 1, 0, 4), (sec 2, 0, 3)])], .error .corrupted,
       .ok [(sec 50, [(sec 1, 0, 4), (sec 2, 0, 3)])], .error .decryption] := by
  decide +kernel

/-! ## commands that select among several snapshots -/

/-- **The load of a listed snapshot object has two outcomes: the verified original, or an error.**  For an object listed under
its own tag and name — whatever its content: empty, one byte, all but the last byte, anything —, the loader of the code as it
is (`skip` = whatever a loader that drops objects would drop) never answers "nothing". -/
theorem listed_snapshot_is_verified_or_error (skip : Term → Bool) (p : Props) (stored0 obj : Term) :
    (obj = stored0 ∧ ∃ r, loadSnapshotL Gen.snapLoadNeverSkipsListedOwn skip p (snapshotTag p (snapshotName stored0))
        (snapshotName stored0) obj = .ok (some r)) ∨
    (∃ e, loadSnapshotL Gen.snapLoadNeverSkipsListedOwn skip p (snapshotTag p (snapshotName stored0))
        (snapshotName stored0) obj = .error e) := by
  have hs : Gen.snapLoadNeverSkipsListedOwn = true := by decide
  rw [hs, loadSnapshotL_sound]
  cases h : loadSnapshot p (snapshotTag p (snapshotName stored0)) (snapshotName stored0) obj with
  | error e => exact Or.inr ⟨e, rfl⟩
  | ok r =>
    cases r with
    | none => exact absurd h (loadSnapshot_own_ne_none p _ obj)
    | some r' =>
      obtain ⟨hh, _⟩ := loadSnapshot_some h
      exact Or.inl ⟨Term.hash.inj hh, r', rfl⟩

/-- **A damaged listed snapshot fails every command that selects it.**  For EVERY object map `A`: if the location of a snapshot
the client's family stored is still listed and holds anything but the stored bytes, then the unfiltered restore, the restore
filtered to that name, list-files and list-snapshots (same filters) all fail — none of them goes on with the remaining
snapshots (an older version of every file restored "successfully", an empty listing for a named snapshot). -/
theorem damaged_listed_snapshot_fails_every_selecting_command (skip : Term → Bool) (p : Props) (A : Store)
    (filter : Option Term) (stored0 obj : Term)
    (hlisted : (snapshotTag p (snapshotName stored0), snapshotName stored0, obj) ∈ snapEntries A)
    (hsel : selectedBy filter (snapshotName stored0) = true) (hdamaged : obj ≠ stored0) :
    ∃ e, restoreCmd skip p A filter = .error e ∧ listFilesCmd skip p A filter = .error e ∧
      listSnapshotsCmd skip p A filter = .error e := by
  have hs : Gen.snapLoadNeverSkipsListedOwn = true := by decide
  obtain ⟨e, he⟩ := loadSel_damaged_error skip p filter stored0 obj (snapEntries A) hlisted hsel hdamaged
  refine ⟨e, ?_, ?_, ?_⟩
  · simp [restoreCmd, restoreSel, hs, he]
  · simp [listFilesCmd, listFilesSel, hs, he]
  · simp [listSnapshotsCmd, listSnapshotsSel, hs, he]

/-- **A command that returns normally after damage returns what it returns on the undamaged repository.**  `A` = the repository
as stored (every listed snapshot object is the one stored under that name), `A'` = ANY object map with the same locations
(contents of chunk and snapshot objects changed at will: truncated to 0 / 1 / len−1 bytes, emptied, flipped, extended, swapped,
replayed).  Listings that return normally on `A'` are the listings of `A`; a restore that returns normally on `A'` wrote exactly
what the restore of `A` writes.  (A removed snapshot object is a different listing: the reference is then `A` without it.) -/
theorem ok_after_damage_is_the_undamaged_result (skip : Term → Bool) (p : Props) (A A' : Store) (filter : Option Term)
    (hlocs : A.map (·.1) = A'.map (·.1)) (hA : honestEntries (snapEntries A)) :
    (∀ rows, listFilesCmd skip p A' filter = .ok rows → listFilesCmd skip p A filter = .ok rows) ∧
    (∀ rows, listSnapshotsCmd skip p A' filter = .ok rows → listSnapshotsCmd skip p A filter = .ok rows) ∧
    (∀ out' out, restoreCmd skip p A' filter = .ok out' → restoreCmd skip p A filter = .ok out → out' = out) := by
  have hs : Gen.snapLoadNeverSkipsListedOwn = true := by decide
  have hT := fun bs => loadSel_ok_transfer skip p filter (snapEntries A) (snapEntries A') bs (sameListing_of_locs A A' hlocs) hA
  refine ⟨?_, ?_, ?_⟩
  · intro rows h
    simp only [listFilesCmd, listFilesSel, hs] at h ⊢
    split at h
    · cases h
    · rename_i bs hbs
      rw [hT bs hbs]
      exact h
  · intro rows h
    simp only [listSnapshotsCmd, listSnapshotsSel, hs] at h ⊢
    split at h
    · cases h
    · rename_i bs hbs
      rw [hT bs hbs]
      exact h
  · intro out' out h' h
    simp only [restoreCmd, restoreSel, hs] at h' h
    split at h'
    · cases h'
    · rename_i bs hbs
      rw [hT bs hbs] at h
      simp only [restoreOf] at h' h
      exact restoreFiles_det _ _ (fun d m hm => fetchChunk_ok_digest hm) (fun d m hm => fetchChunk_ok_digest hm) _ _ _ h' h

/-- **The one-name restore of the first section is the filtered command** (so `restore_ok_implies_identical` speaks about
`restoreCmd … (some name)`). -/
theorem restore_by_name_is_the_filtered_command (skip : Term → Bool) (p : Props) (s : Store) (target : Term) :
    restoreCmd skip p s (some target) = restore p s target := by
  have hs : Gen.snapLoadNeverSkipsListedOwn = true := by decide
  have h := readable_loadSel_name skip p target (snapEntries s)
  unfold restoreCmd restoreSel restore
  rw [hs, ← h]
  cases loadSel true skip p (some target) (snapEntries s) with
  | error e => rfl
  | ok bs => rfl

/-! two snapshots of ONE path in an unencrypted repository: version 1 (chunk `sec 1`, time 7) and version 2 (chunk `sec 2`, time
8); the same store with the NEWER snapshot object truncated to length 0 (`nil`) -/
private def mvData1 : Data := ⟨7, [⟨sec 50, [⟨0, 1, 0, 4⟩], Term.hash (sec 60), pub 5⟩], nil⟩
private def mvData2 : Data := ⟨8, [⟨sec 50, [⟨0, 1, 0, 6⟩], Term.hash (sec 61), pub 5⟩], nil⟩
private def mvOld : Term := snapshotStored plP nil nil (encTable [digest (sec 1)]) (encData mvData1)
private def mvNew : Term := snapshotStored plP nil nil (encTable [digest (sec 2)]) (encData mvData2)
private def mvGood : Store :=
  [(plLoc (sec 1), sec 1), (plLoc (sec 2), sec 2), (snapLoc plP (snapshotName mvOld), mvOld), (snapLoc plP (snapshotName mvNew), mvNew)]
private def mvEmptied : Store :=
  [(plLoc (sec 1), sec 1), (plLoc (sec 2), sec 2), (snapLoc plP (snapshotName mvOld), mvOld), (snapLoc plP (snapshotName mvNew), nil)]
private def skipEmpty (t : Term) : Bool := decide (t = nil)

set_option synthInstance.maxSize 512 in
/-- **A loader that drops an object instead of reporting it is exactly the defect** (so the theorems above are not vacuous):
with a loader that lets the empty object go as "nothing", the unfiltered restore of the damaged repository returns normally with
the OLDER version of the file, and the restore filtered to the damaged snapshot's name returns normally having written nothing;
list-files names no file of the damaged snapshot.  The loader of the theorems reports the corruption in all three. -/
theorem dropping_loader_restores_the_older_version :
    restoreSel true skipEmpty plP mvGood none = .ok [(sec 50, [(sec 2, 0, 6)])] ∧
    restoreSel false skipEmpty plP mvEmptied none = .ok [(sec 50, [(sec 1, 0, 4)])] ∧
    restoreSel false skipEmpty plP mvEmptied (some (snapshotName mvNew)) = .ok [] ∧
    listFilesSel false skipEmpty plP mvEmptied (some (snapshotName mvNew)) = .ok [] ∧
    restoreSel true skipEmpty plP mvEmptied none = .error .corrupted ∧
    restoreSel true skipEmpty plP mvEmptied (some (snapshotName mvNew)) = .error .corrupted ∧
    listFilesSel true skipEmpty plP mvEmptied (some (snapshotName mvNew)) = .error .corrupted ∧
    listSnapshotsSel true skipEmpty plP mvEmptied none = .error .corrupted := by
  decide +kernel

/-! non-vacuity of `ok_after_damage_is_the_undamaged_result`: a damaged chunk that the unfiltered restore does not need (only the
superseded version refers to it) lets the command return normally — with the result of the undamaged repository; the restore
filtered to the OLDER name needs it and fails. -/
private def mvOldChunkGone : Store :=
  [(plLoc (sec 1), nil), (plLoc (sec 2), sec 2), (snapLoc plP (snapshotName mvOld), mvOld), (snapLoc plP (snapshotName mvNew), mvNew)]

set_option synthInstance.maxSize 512 in
example :
    restoreCmd skipEmpty plP mvOldChunkGone none = restoreCmd skipEmpty plP mvGood none ∧
    restoreCmd skipEmpty plP mvOldChunkGone none = .ok [(sec 50, [(sec 2, 0, 6)])] ∧
    restoreCmd skipEmpty plP mvOldChunkGone (some (snapshotName mvOld)) = .error .corrupted ∧
    listFilesCmd skipEmpty plP mvGood none = .ok [(snapshotName mvNew, sec 50), (snapshotName mvOld, sec 50)] := by
  decide +kernel

/-- **No verification step lives inside an `assert`.**  An interpreter started with `-O` / `PYTHONOPTIMIZE` does not compile `assert`
statements; every theorem above speaks about the code only if the checks it models are executed by every interpreter.  Read from the
package's non-test sources on every run (`tools/sections/04_asserts.py`): no `assert` statement's test or message calls a function
defined in the package, awaits, assigns or yields (the remaining ones are preconditions on plain values).  `assert self._verify_chunk(…)`
makes this stop compiling; the harness side restores the damaged repositories under `-O` as well. -/
theorem verification_not_in_asserts :
    Gen.assertsCarryNoLogic = true ∧ Gen.assertsWithPackageCalls = 0 := by decide

end Replicat.C04
