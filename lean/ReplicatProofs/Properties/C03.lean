import ReplicatProofs.Lemmas.RepoCrashPlans
import ReplicatProofs.Lemmas.SnapshotPlan
import ReplicatProofs.Lemmas.LocalUpload
import ReplicatProofs.Lemmas.LocalDuel
/-!
# C03 — interrupted commands leave a consistent, usable repository   (PARTIAL: see the end of this comment)

Objects: the mutation plans of `Repo.lean` (`planOf`: stages of backend mutations; inside a stage any completion order —
`asyncio.gather` —, a stage starts only when the previous one is complete), `acceptsPrefix` (the traces a killed process can
have produced: every prefix of every linearisation), `applyMuts` (the object map left behind); and `LocalUpload.lean` (the local
backend's upload as file-system steps).

`Consistent s` = WF ∧ every listed snapshot has every chunk of its table (∧ its files need only chunks of that table).
`OpOK` = side conditions of the command (a snapshot's files need chunks of its own stream; an unencrypted repository has one family).

PARTIAL: what is proved is about process death between (and, for the local backend, inside) backend calls and about one permanent
failure of a call.  Power loss below `rename` / missing `fsync` (torn or lost directory entries, data not yet durable) and the
server-side atomicity of S3 / B2 `PUT` are OS / service behaviour the model does not exhibit.
-/
namespace Replicat.C03
open Replicat Replicat.Repo Replicat.Crash Replicat.P18 List

/-- the regenerated order constraints the plans encode, and the shape of the local upload -/
theorem plan_shape_holds :
    Gen.snapshotAfterWorkers = true ∧ Gen.crashAbortOnWorkerFailure = true ∧ Gen.deleteSnapshotsFirst = true ∧
    Gen.cleanSingleStage = true ∧ Gen.crashLocalTempSuffix = Gen.localListExcludes ∧ Gen.localTempSameDir = true ∧
    Gen.localUploadShape = true ∧ Gen.crashSectionOk = true := by decide

/-- **Crash consistency.**  Kill the process at any instant of snapshot / delete / clean — after any prefix `tr` of any
linearisation of the command's mutations —: the repository left behind is consistent; in particular every VISIBLE snapshot is
complete. -/
theorem crash_consistent (enc : Bool) (s : Store) (op : Op) (tr : List Mut) (hs : Consistent s) (hop : OpOK enc s op)
    (hacc : acceptsPrefix (planOf enc s op) tr = true) : Consistent (applyMuts s tr) := by
  cases op with
  | snapshot u stream files ts sid => exact snapshot_crash u stream files ts sid s tr hs hop.2 hacc
  | delete u sids => exact delete_crash enc u sids s tr hs hacc
  | clean u => exact clean_crash enc u s tr hs hop.1 hacc

/-- an unencrypted repository still has one family after a crash -/
theorem famOK_after_crash (enc : Bool) (s : Store) (op : Op) (tr : List Mut) (hf : FamOK enc (userOf op).fam s)
    (hacc : acceptsPrefix (planOf enc s op) tr = true) : FamOK enc (userOf op).fam (applyMuts s tr) := by
  have hmuts : ∀ m ∈ tr, (∃ n, m = Mut.del n) ∨ (∃ c, m = Mut.put (.chunk (userOf op).fam c) (.chunk (userOf op).fam c)) ∨
      (∃ sid b, m = Mut.put (.snap (userOf op).fam sid) (.snap (userOf op).fam sid b)) := by
    intro m hm
    obtain ⟨st, hst, hmst⟩ := accepts_mem _ tr hacc m hm
    cases op with
    | snapshot u stream files ts sid =>
      simp only [planOf, snapshotPlan_eq, mem_cons, not_mem_nil, or_false] at hst
      rcases hst with rfl | rfl
      · unfold chunkStage at hmst
        obtain ⟨n, hn, rfl⟩ := mem_map.mp hmst
        rcases (uploadChunk_names u stream (s, [])).1 n hn with h | ⟨c, _, rfl⟩
        · cases h
        · exact Or.inr (Or.inl ⟨c, rfl⟩)
      · simp only [mem_singleton] at hmst
        subst hmst
        exact Or.inr (Or.inr ⟨sid, _, rfl⟩)
    | delete u sids =>
      simp only [planOf, deleteMutPlan] at hst
      cases hp : deletePlan enc u sids s with
      | error e => rw [hp] at hst; cases hst
      | ok p =>
        rw [hp] at hst
        simp only [mem_cons, not_mem_nil, or_false] at hst
        rcases hst with rfl | rfl <;> (obtain ⟨n, _, rfl⟩ := mem_map.mp hmst; exact Or.inl ⟨n, rfl⟩)
    | clean u =>
      simp only [planOf, cleanMutPlan] at hst
      cases hp : cleanPlan enc u s with
      | error e => rw [hp] at hst; cases hst
      | ok ns =>
        rw [hp] at hst
        simp only [mem_cons, not_mem_nil, or_false] at hst
        subst hst
        obtain ⟨n, _, rfl⟩ := mem_map.mp hmst
        exact Or.inl ⟨n, rfl⟩
  intro he
  refine applyMuts_induct (P := fun s' => ∀ e ∈ s', match e.1 with
      | .chunk f _ => f = (userOf op).fam
      | .snap f _ => f = (userOf op).fam
      | _ => True)
    (Q := fun m => (∃ n, m = Mut.del n) ∨ (∃ c, m = Mut.put (.chunk (userOf op).fam c) (.chunk (userOf op).fam c)) ∨
      (∃ sid b, m = Mut.put (.snap (userOf op).fam sid) (.snap (userOf op).fam sid b)))
    ?_ s tr (hf he) hmuts
  intro s' m hP hQ e hem
  rcases hQ with ⟨n, rfl⟩ | ⟨c, rfl⟩ | ⟨sid, b, rfl⟩
  · exact hP e ((mem_del s' n e).mp hem).1
  · rcases mem_put hem with rfl | h'
    · rfl
    · exact hP e h'
  · rcases mem_put hem with rfl | h'
    · rfl
    · exact hP e h'

/-- **Clean after a crash.**  From the state an interrupted command left, `clean` by a member of the family succeeds, removes
every chunk the interrupted command left unreferenced and nothing else of the family: the chunk objects of the caller's family are
EXACTLY the chunks referenced by its visible snapshots; the repository stays consistent. -/
theorem clean_after_crash (enc : Bool) (s : Store) (op : Op) (tr : List Mut) (v : User) (hs : Consistent s) (hop : OpOK enc s op)
    (hacc : acceptsPrefix (planOf enc s op) tr = true) (hv : enc = false → v.fam = (userOf op).fam) :
    ∃ s', clean enc v (applyMuts s tr) = .ok s' ∧ Exact v.fam s' ∧ Consistent s' := by
  apply clean_exact enc v _ (crash_consistent enc s op tr hs hop hacc)
  intro he
  rw [hv he]
  exact famOK_after_crash enc s op tr hop.1 hacc he

/-- **Usable after a crash.**  On the state an interrupted command left, loading / `list-snapshots` / `list-files` / `restore`
(any filters) / `clean` do not fail, and `restore` delivers every selected file (all needed chunks are present); a new `snapshot`
is defined on every state. -/
theorem usable_after_crash (enc : Bool) (s : Store) (op : Op) (tr : List Mut) (v : User) (sre fre : Nat → Bool)
    (hs : Consistent s) (hop : OpOK enc s op) (hacc : acceptsPrefix (planOf enc s op) tr = true)
    (hv : enc = false → v.fam = (userOf op).fam) :
    let s' := applyMuts s tr
    loadSnapshots enc v sre s' = .ok (loadedPure enc v sre s') ∧
    (∃ rows, listSnapshots enc v sre s' = .ok rows) ∧
    (∃ rows, listFiles enc v sre fre s' = .ok rows) ∧
    restore enc v sre fre s' = .ok (selectFiles fre (readableNewestFirst (loadedPure enc v sre s'))) ∧
    (∃ s'', clean enc v s' = .ok s'') := by
  have hc := crash_consistent enc s op tr hs hop hacc
  have hf : FamOK enc v.fam (applyMuts s tr) := by
    intro he; rw [hv he]; exact famOK_after_crash enc s op tr hop.1 hacc he
  have hl := loadSnapshots_wf enc v sre _ hc.1
  refine ⟨hl, ?_, ?_, restore_ok enc v sre fre _ hc hf, ?_⟩
  · unfold listSnapshots; rw [hl]; exact ⟨_, rfl⟩
  · unfold listFiles; rw [hl]; exact ⟨_, rfl⟩
  · obtain ⟨s'', h, _⟩ := clean_exact enc v _ hc hf
    exact ⟨s'', h⟩

/-- **One permanent failure.**  A backend call `m` of the command fails for good: calls already in flight in the same stage may
still complete in any order, later stages never start.  The repository is consistent; nothing of a later stage happened (for
delete: no chunk is removed while a snapshot delete failed); and a snapshot whose chunk upload failed stays invisible. -/
theorem fail_stop_consistent (enc : Bool) (s : Store) (op : Op) (tr : List Mut) (m : Mut) (hs : Consistent s) (hop : OpOK enc s op)
    (hacc : acceptsPrefix (planOf enc s op) tr = true) (hfail : m ∉ tr) :
    Consistent (applyMuts s tr) ∧
    (∀ stage rest, planOf enc s op = stage :: rest → m ∈ stage → ∀ x ∈ tr, x ∈ stage) ∧
    (∀ u stream files ts sid, op = .snapshot u stream files ts sid → m ∈ chunkStage u stream s →
      get (applyMuts s tr) (.snap u.fam sid) = get s (.snap u.fam sid)) := by
  refine ⟨crash_consistent enc s op tr hs hop hacc, ?_, ?_⟩
  · intro stage rest hpl hm
    rw [hpl] at hacc
    exact stuck_in_stage stage rest tr m hm hfail hacc
  · intro u stream files ts sid hop' hm
    subst hop'
    simp only [planOf, snapshotPlan_eq] at hacc
    have hin := stuck_in_stage _ _ tr m hm hfail hacc
    exact get_chunkPuts_other s tr (fun x hx => chunkStage_isChunkPut u stream s x (hin x hx)) _ (by intro f c h; cases h)

/-- the plans of the destructive commands ARE the commands: running all stages in order is `delete_snapshots` / `clean` -/
theorem destructive_plan_runs_command (enc : Bool) (s : Store) (u : User) (sids : List Nat) :
    applyMuts s (planOf enc s (.delete u sids)).flatten = step enc s (.delete u sids) ∧
    applyMuts s (planOf enc s (.clean u)).flatten = step enc s (.clean u) := by
  constructor
  · simp only [planOf, deleteMutPlan, step, deleteSnapshots]
    cases deletePlan enc u sids s with
    | error e => rfl
    | ok p => simp only [flatten_cons, flatten_nil, append_nil, applyMuts_append, applyMuts_dels]
  · simp only [planOf, cleanMutPlan, step, clean]
    cases cleanPlan enc u s with
    | error e => rfl
    | ok ns => simp only [flatten_cons, flatten_nil, append_nil, applyMuts_dels]

/-- the plan of `snapshot` IS the command as well: running the chunk stage and then the snapshot stage is `snapshot`
(so every theorem above about prefixes of the plan is a theorem about interrupted executions of the modelled command) -/
theorem snapshot_plan_runs_command (enc : Bool) (s : Store) (u : User) (stream : List Content) (files : List FileRec) (ts sid : Nat) :
    applyMuts s (planOf enc s (.snapshot u stream files ts sid)).flatten = step enc s (.snapshot u stream files ts sid) := by
  simp only [planOf, step]
  exact snapshotPlan_runs u stream files ts sid s

/-! ## the local backend: upload = mkdir -p; mktemp *.tmp; write…; rename -/
open Replicat.LocalUpload in
/-- **Local uploads are atomic for every observer.**  After ANY prefix of the file-system steps of an upload (the payload
written in arbitrary pieces) what `list_files` / `exists` / `download` show for names that are not temporaries is the old map or
the new map — never a partial object; the new map appears exactly with the rename. -/
theorem upload_atomic (fs : FS) (dir name tmp : Path) (pieces : List Bytes) (htmp : isTmp tmp = true) (hname : isTmp name = false)
    (k : Nat) :
    (∀ n, vget (run fs ((uploadSteps dir name tmp pieces).take k)) n = vget fs n) ∨
    (∀ n, vget (run fs ((uploadSteps dir name tmp pieces).take k)) n = vget (putObj fs name pieces.flatten) n) := by
  unfold uploadSteps
  by_cases hk : k ≤ (prepSteps dir tmp pieces).length
  · left
    intro n
    rw [take_append_of_le_length hk]
    exact vget_run_tmpOnly fs tmp htmp _ (fun st hst => prepSteps_tmpOnly dir tmp pieces st (mem_of_mem_take hst)) n
  · right
    intro n
    rw [take_of_length_le (by simp only [length_append, length_cons, length_nil]; omega), run_append]
    simp only [LocalUpload.run, foldl_cons, foldl_nil]
    have hl := lookup_prep fs dir tmp pieces
    simp only [LocalUpload.run] at hl
    rw [vget_rename _ tmp name pieces.flatten htmp hname hl n]
    exact vget_putObj_congr fs _ name _ (fun n' => vget_run_tmpOnly fs tmp htmp _ (prepSteps_tmpOnly dir tmp pieces) n') n

open Replicat.LocalUpload in
/-- a failed attempt (any prefix of the preparation, then the cleanup `unlink`) is invisible, and temporaries are never listed;
`exists` / `download` / `list_files` of non-temporary names are functions of the visible map -/
theorem failed_attempt_invisible (fs : FS) (dir tmp : Path) (pieces : List Bytes) (htmp : isTmp tmp = true) (k : Nat) :
    (∀ n, vget (run fs (failedAttempt dir tmp pieces k)) n = vget fs n) ∧
    (∀ (fs' : FS) (pre : String) (n : Path), n ∈ listFiles fs' pre ↔ (n.startsWith pre = true ∧ (vget fs' n).isSome = true)) ∧
    (∀ (fs' : FS) (n : Path), isTmp n = false → existsFile fs' n = (vget fs' n).isSome ∧ download fs' n = vget fs' n) := by
  refine ⟨?_, ?_, ?_⟩
  · intro n
    apply vget_run_tmpOnly fs tmp htmp
    intro st hst
    unfold failedAttempt at hst
    rcases mem_append.mp hst with h | h
    · exact prepSteps_tmpOnly dir tmp pieces st (mem_of_mem_take h)
    · simp only [mem_singleton] at h; subst h; rfl
  · intro fs' pre n
    unfold LocalUpload.listFiles vget
    rw [mem_filter, ← lookup_isSome_iff]
    by_cases hn : isTmp n = true
    · simp [hn]
    · simp only [hn, Bool.and_eq_true, Bool.not_eq_true', Bool.false_eq_true, if_false]
      constructor
      · rintro ⟨h1, h2, _⟩; exact ⟨h2, h1⟩
      · rintro ⟨h1, h2⟩; exact ⟨h2, h1, by simpa using hn⟩
  · intro fs' n hn
    unfold existsFile download vget
    simp [hn]

/-! ## two uploads of ONE object in flight at the same time (a chunk that repeats in the stream, concurrency > 1) -/
open Replicat.LocalUpload in
/-- **Concurrent uploads of one object are atomic for every observer — when their temporaries differ.**  Two attempts for the
same name, their file-system steps interleaved by ANY schedule, the process killed after ANY of them (every prefix of a schedule is
a schedule): what `list_files` / `exists` / `download` show is the old map, or the old map with the complete payload of worker 0,
or with the complete payload of worker 1 — never a partial object, never a mixture. -/
theorem concurrent_uploads_atomic (fs : FS) (c0 c1 : UpCfg) (hname : c1.name = c0.name) (hnt : isTmp c0.name = false)
    (ht0 : isTmp c0.tmp = true) (ht1 : isTmp c1.tmp = true) (hne : c0.tmp ≠ c1.tmp) (sched : List Bool) :
    (∀ n, vget (duelRun c0 c1 fs sched).fs n = vget fs n) ∨
    (∀ n, vget (duelRun c0 c1 fs sched).fs n = vget (putObj fs c0.name c0.pieces.flatten) n) ∨
    (∀ n, vget (duelRun c0 c1 fs sched).fs n = vget (putObj fs c0.name c1.pieces.flatten) n) := by
  obtain ⟨hv, _, _⟩ := duelRun_inv fs c0.name c0 c1 rfl hname hnt ht0 ht1 hne sched
  rcases hv with hv | ⟨d, hd, hv⟩
  · exact Or.inl hv
  · simp only [mem_cons, not_mem_nil, or_false] at hd
    rcases hd with rfl | rfl
    · exact Or.inr (Or.inl hv)
    · exact Or.inr (Or.inr hv)

open Replicat.LocalUpload in
/-- **… and the code's temporaries do differ.**  `_destination_temp` as it stands (regenerated: `Gen.localTempPrivate`,
`Gen.localTempPerCall`) takes the temporary of every call from a unique-name generator; two uploads in flight got two different
paths `tok0 ≠ tok1` from it (the generator's contract), both with the suffix the listing skips: the conclusion of
`concurrent_uploads_atomic` holds for the code's choice of temporaries.  With a temporary computed from the destination alone this
theorem does not compile (and `shared_temporary_breaks_atomicity` is what happens). -/
theorem code_uploads_atomic (fs : FS) (dir name tok0 tok1 : Path) (p0 p1 : List Bytes) (hnt : isTmp name = false)
    (ht0 : isTmp tok0 = true) (ht1 : isTmp tok1 = true) (hne : tok0 ≠ tok1) (sched : List Bool) :
    Gen.localTempPerCall = true ∧
    let c0 : UpCfg := ⟨dir, name, codeTemp name tok0, p0⟩
    let c1 : UpCfg := ⟨dir, name, codeTemp name tok1, p1⟩
    ((∀ n, vget (duelRun c0 c1 fs sched).fs n = vget fs n) ∨
     (∀ n, vget (duelRun c0 c1 fs sched).fs n = vget (putObj fs name p0.flatten) n) ∨
     (∀ n, vget (duelRun c0 c1 fs sched).fs n = vget (putObj fs name p1.flatten) n)) := by
  have hpriv : Gen.localTempPrivate = true := by decide
  have hc : ∀ tok, codeTemp name tok = tok := by intro tok; simp [codeTemp, tempFor, hpriv]
  refine ⟨by decide, ?_⟩
  simp only [hc]
  exact concurrent_uploads_atomic fs ⟨dir, name, tok0, p0⟩ ⟨dir, name, tok1, p1⟩ rfl hnt ht0 ht1 hne sched

open Replicat.LocalUpload in
/-- **A shared temporary breaks it.**  With the temporary computed from the destination alone (`tempFor false`) both uploads write
through one file: worker 0 has written its payload, worker 1 opens (truncates) the same temporary, worker 0 renames it — the
object every observer now sees under the final name is empty: neither the old state (absent) nor either payload. -/
theorem shared_temporary_breaks_atomicity :
    ∃ (fs : FS) (c0 c1 : UpCfg) (sched : List Bool),
      c1.name = c0.name ∧ isTmp c0.name = false ∧ c0.tmp = tempFor false c0.name "t0" ∧ c1.tmp = tempFor false c1.name "t1" ∧
      isTmp c0.tmp = true ∧
      vget (duelRun c0 c1 fs sched).fs c0.name ≠ vget fs c0.name ∧
      vget (duelRun c0 c1 fs sched).fs c0.name ≠ vget (putObj fs c0.name c0.pieces.flatten) c0.name ∧
      vget (duelRun c0 c1 fs sched).fs c0.name ≠ vget (putObj fs c0.name c1.pieces.flatten) c0.name :=
  ⟨⟨[], []⟩, ⟨"data", "data/ab", "data/ab.tmp", [[1, 2]]⟩, ⟨"data", "data/ab", "data/ab.tmp", [[1, 2]]⟩,
    [false, false, false, true, true, false], by decide +kernel⟩

open Replicat.LocalUpload in
/-- the two-worker machine runs the SAME steps as `upload_atomic`'s step list: worker 0 scheduled alone for `k` steps leaves
exactly the file system after the first `k` steps of `uploadSteps` -/
theorem duel_solo_is_upload (fs : FS) (c0 c1 : UpCfg) (k : Nat) :
    (duelRun c0 c1 fs (replicate k false)).fs = run fs ((uploadSteps c0.dir c0.name c0.tmp c0.pieces).take k) := by
  unfold duelRun
  rw [solo_rest c0 c1 .init k .init fs, rest_init]

/-! ## non-vacuity and necessity of the order -/

/-- a consistent repository, a snapshot command, and an accepted crash trace (one chunk uploaded, the process dies) -/
example :
    let s : Store := [(.config, .config)]
    acceptsPrefix (planOf true s (.snapshot ⟨1, 1⟩ [3, 4] [⟨1, 1, [3, 4]⟩] 5 7)) [.put (.chunk 1 4) (.chunk 1 4)] = true := by decide

/-- the order constraint is needed: with the snapshot object first (a trace the plan REJECTS) a visible snapshot lacks its chunk -/
example :
    let s : Store := [(.config, .config)]
    let snapPut := Mut.put (.snap 1 7) (.snap 1 7 ⟨1, 5, [3, 4], [⟨1, 1, [3, 4]⟩]⟩)
    acceptsPrefix (planOf true s (.snapshot ⟨1, 1⟩ [3, 4] [⟨1, 1, [3, 4]⟩] 5 7)) [snapPut] = false ∧
    get (applyMuts s [snapPut]) (.chunk 1 3) = none := by decide

/-- delete: chunk before snapshot is rejected, and would leave a visible snapshot without its chunk -/
example :
    let s : Store := [(.snap 1 7, .snap 1 7 ⟨1, 5, [3], []⟩), (.chunk 1 3, .chunk 1 3)]
    acceptsPrefix (planOf true s (.delete ⟨1, 1⟩ [7])) [.del (.chunk 1 3)] = false ∧
    acceptsPrefix (planOf true s (.delete ⟨1, 1⟩ [7])) [.del (.snap 1 7), .del (.chunk 1 3)] = true := by decide

open Replicat.LocalUpload in
/-- local upload: after the temporary is fully written but not renamed the old object is still what a reader gets -/
example :
    let fs : FS := ⟨[("data/ab", [1])], []⟩
    vget (LocalUpload.run fs ((uploadSteps "data" "data/ab" "data/ab_x.tmp" [[2], [3]]).take 4)) "data/ab" = some [1] ∧
    vget (LocalUpload.run fs (uploadSteps "data" "data/ab" "data/ab_x.tmp" [[2], [3]])) "data/ab" = some [2, 3] ∧
    LocalUpload.listFiles (LocalUpload.run fs ((uploadSteps "data" "data/ab" "data/ab_x.tmp" [[2], [3]]).take 4)) "data/" = ["data/ab"] := by
  decide +kernel

open Replicat.LocalUpload in
/-- two uploads with private temporaries, interleaved, killed after worker 1 truncated ITS temporary and worker 0 renamed: the
complete payload of worker 0 is what a reader gets (the hypotheses of `concurrent_uploads_atomic` are satisfiable) -/
example :
    let c0 : UpCfg := ⟨"data", "data/ab", "data/ab_x0.tmp", [[1, 2]]⟩
    let c1 : UpCfg := ⟨"data", "data/ab", "data/ab_x1.tmp", [[1, 2]]⟩
    isTmp c0.tmp = true ∧ isTmp c1.tmp = true ∧ isTmp c0.name = false ∧ c0.tmp ≠ c1.tmp ∧
    vget (duelRun c0 c1 ⟨[], []⟩ [false, false, false, true, true, false]).fs "data/ab" = some [1, 2] := by
  decide +kernel

end Replicat.C03
