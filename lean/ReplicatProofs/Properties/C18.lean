import ReplicatProofs.Lemmas.CacheCmd
import ReplicatProofs.Lemmas.CacheFS
/-!
# C18 — the snapshot cache never changes what a command does

Objects: `Repo.viaCache / loadSnapshotsC / cacheAfterLoad` (`_download_snapshot_threadsafe` with a cache directory) and the
cached commands of `CacheCmd.lean` (= the commands of `Repo.lean` with `loadSnapshots ↦ loadSnapshotsC cache`, factorisations
proved in `Lemmas/CacheCmd.lean`).  A cache is an ARBITRARY association list location ↦ payload.

Hypotheses, and where they come from:
* `WF s` — the repository itself is not corrupted (that is C04's subject, not the cache's);
* `Agree c s` / `Ideal B _` — **ideal hash** (DESIGN.md §4): a payload whose digest equals a snapshot's name is that snapshot.
  It is a hypothesis, not an axiom; `hash_collision_witness` shows it is needed.
* `Gen.cacheVerified = true` is NOT a hypothesis: it is discharged by `cacheVerified_holds` from the regenerated
  `Generated.lean`; on a tree where `_download_snapshot_threadsafe` does not verify the cached copy this file stops compiling, and
  `truncated_entry_witness` (stated for the unverified variant, which `unverified_model` proves to be the model in that case)
  is the failing input.
* `storePlanOk = true` (the file-system operations of `_store_cached`, read from its AST into `Gen.cacheStorePlanRaw` /
  `Gen.cacheTempUnique`, cannot fail on any state of the directory and under interference by other clients) is NOT a hypothesis
  either: `store_plan_holds` discharges it by `decide`; see the section on the cache DIRECTORY below (`store_never_fails`,
  `directory_cache_irrelevant`, `kill_leftover_irrelevant`, `exclusive_temp_witness`).
-/
namespace Replicat.C18
open Replicat Replicat.Repo Replicat.CacheCmd Replicat.P18 List

/-- the regenerated flag: the cached copy is compared with the expected digest before use -/
theorem cacheVerified_holds : Gen.cacheVerified = true := by decide

/-- the regenerated shape of the cache code the model mirrors (read off the paths of a symbolic execution of `repository.py`, not
off the names of its private methods): cache entries are read and written only by code that is entered from the loop of
`_load_snapshots` over the backend listing of `SNAPSHOT_PREFIX` and nowhere else (`"snapshot-load"` — any other function with such
an operation is listed by name), always at the listed path itself; what is written is the download of that path, after
`hash(download) = expected` is known; `delete_snapshots` unlinks the entry of a snapshot after its backend deletion; and the cache
directory is used for nothing but {remembering it in `__init__`, testing it against `None`, reading / storing / unlinking entries}. -/
theorem cache_shape_holds :
    Gen.cacheReadSites = ["snapshot-load"] ∧ Gen.cacheStoreSites = ["snapshot-load"] ∧
    Gen.cacheDirUses = ["evict", "init", "read", "store", "test"] ∧
    Gen.cacheLoadOverListing = true ∧ Gen.cacheStoreAfterVerify = true ∧ Gen.deleteEvictsCache = true ∧
    Gen.cacheSectionOk = true := by decide

/-- **Loading is independent of the cache.**  For EVERY cache content — absent, valid, `blob` (empty / any proper prefix /
garbage), another snapshot's or another repository's bytes, stale entries — `_load_snapshots` returns what it returns with the
cache disabled. -/
theorem load_cache_irrelevant (c : Cache) (enc : Bool) (u : User) (re : Nat → Bool) (s : Store) (hs : WF s) (ha : Agree c s) :
    loadSnapshotsC (some c) enc u re s = loadSnapshots enc u re s := by
  rw [← loadSnapshotsC_none]
  unfold loadSnapshotsC
  rw [loadCandidatesC_eq cacheVerified_holds c enc u re s hs.2 ha]

/-- **Every mutating command**: same new repository state, same error, same mutation plan (so also the same crash behaviour). -/
theorem command_cache_irrelevant (c : Cache) (enc : Bool) (s : Store) (op : Op) (hs : WF s) (ha : Agree c s) :
    stepC (some c) enc s op = step enc s op ∧ stepErrC (some c) enc s op = stepErr enc s op ∧
    (∀ u sids, deletePlanC (some c) enc u sids s = deletePlan enc u sids s) ∧
    (∀ u, cleanPlanC (some c) enc u s = cleanPlan enc u s) := by
  have hd : ∀ u sids, deletePlanC (some c) enc u sids s = deletePlan enc u sids s := fun u sids => by
    unfold deletePlanC; rw [load_cache_irrelevant c enc u all s hs ha, ← deletePlan_eq]
  have hc : ∀ u, cleanPlanC (some c) enc u s = cleanPlan enc u s := fun u => by
    unfold cleanPlanC; rw [load_cache_irrelevant c enc u all s hs ha, ← cleanPlan_eq]
  have hds : ∀ u sids, deleteSnapshotsC (some c) enc u sids s = deleteSnapshots enc u sids s := fun u sids => by
    unfold deleteSnapshotsC; rw [hd, ← deleteSnapshots_eq]
  have hcs : ∀ u, cleanC (some c) enc u s = clean enc u s := fun u => by
    unfold cleanC; rw [hc, ← clean_eq]
  refine ⟨?_, ?_, hd, hc⟩
  · cases op with
    | snapshot u stream files ts sid => rfl
    | delete u sids => simp only [stepC, step]; rw [hds]; cases deleteSnapshots enc u sids s <;> rfl
    | clean u => simp only [stepC, step]; rw [hcs]; cases clean enc u s <;> rfl
  · cases op with
    | snapshot u stream files ts sid => rfl
    | delete u sids => simp only [stepErrC, stepErr]; rw [hds]
    | clean u => simp only [stepErrC, stepErr]; rw [hcs]

/-- **Every read-only command** (`list-snapshots`, `list-files`, `restore`): same rows / same restored file versions / same error. -/
theorem query_cache_irrelevant (c : Cache) (enc : Bool) (s : Store) (q : Query) (hs : WF s) (ha : Agree c s) :
    answerC (some c) enc s q = answer enc s q := by
  cases q with
  | list u sre =>
    simp only [answerC, answer, listSnapshotsC, load_cache_irrelevant c enc u sre s hs ha, ← listSnapshots_eq]
  | listFiles u sre fre =>
    simp only [answerC, answer, listFilesC, load_cache_irrelevant c enc u sre s hs ha, ← listFiles_eq]
  | restore u sre fre =>
    simp only [answerC, answer, restoreC, load_cache_irrelevant c enc u sre s hs ha, ← restore_eq]

/-- **Histories.**  Several clients, each command run with whatever its cache directory holds at that moment — given as an
arbitrary sequence of caches (disabled, empty, warm, shared between keys/repositories, separate, stale, torn by an interrupted
write): the repository evolves exactly as without any cache, under the ideal-hash reading `B` of digests.
The client of the model carries NOTHING from one command to the next (`runC` folds `stepC`; the only things a command sees are
the store and the cache of the moment).  That this is also true of a long-lived `Repository` object is what the harness ties:
half of its histories keep one object per (user, cache directory) on one event loop while other clients damage / replace the
entries that object validated or stored in its earlier commands, and compare every command with this stateless model. -/
theorem history_cache_irrelevant (B : Fam → Nat → Body) (enc : Bool) (h : List (Option Cache × Op)) (s : Store)
    (hs : WF s) (hB : Ideal B s) (hc : ∀ x ∈ h, ∀ c, x.1 = some c → Ideal B c) (hops : ∀ x ∈ h, OpIdeal B x.2) :
    runC enc s h = run enc s (h.map (·.2)) := by
  induction h generalizing s with
  | nil => rfl
  | cons x rest ih =>
    rcases x with ⟨c, op⟩
    have hstep : stepC c enc s op = step enc s op := by
      cases c with
      | none =>
        cases op with
        | snapshot u stream files ts sid => rfl
        | delete u sids =>
          simp only [stepC, step]
          rw [deleteSnapshotsC, deletePlanC, loadSnapshotsC_none, ← deletePlan_eq, ← deleteSnapshots_eq]
          cases deleteSnapshots enc u sids s <;> rfl
        | clean u =>
          simp only [stepC, step]
          rw [cleanC, cleanPlanC, loadSnapshotsC_none, ← cleanPlan_eq, ← clean_eq]
          cases clean enc u s <;> rfl
      | some c =>
        exact (command_cache_irrelevant c enc s op hs (agree_of_ideal (hc (some c, op) (by simp) c rfl) hB)).1
    simp only [runC, map_cons, run, foldl_cons, hstep]
    have := ih (step enc s op) (step_wf enc s op hs) (ideal_step hB (hops (c, op) (by simp)))
      (fun x hx => hc x (by simp [hx])) (fun x hx => hops x (by simp [hx]))
    simpa [run] using this

/-- **Stale and foreign entries are never looked at**: the result depends on the cache only through the entries stored under
the names the backend lists *now* — entries of deleted snapshots, of other repositories, of anything else are not even read.
(Holds with or without verification, for any store.) -/
theorem stale_ignored (c c' : Cache) (enc : Bool) (u : User) (re : Nat → Bool) (s : Store)
    (h : ∀ e ∈ s, get c e.1 = get c' e.1) :
    loadSnapshotsC (some c) enc u re s = loadSnapshotsC (some c') enc u re s := by
  unfold loadSnapshotsC
  rw [loadCandidatesC_congr c c' enc u re s h]

/-- **Everything a load stores is a valid copy**: an entry of the cache after `_load_snapshots` is an old entry or a listed
snapshot object stored under its own name with its own (verified) content; and the cache stays hash-ideal. -/
theorem cache_after_load_valid (cache : Cache) (enc : Bool) (u : User) (re : Nat → Bool) (s : Store) :
    (∀ e ∈ cacheAfterLoad cache enc u re s, e ∈ cache ∨ (e ∈ s ∧ Matches e.1 e.2 ∧ ∃ f sid, e.1 = Name.snap f sid)) ∧
    (∀ B, Ideal B cache → Ideal B s → Ideal B (cacheAfterLoad cache enc u re s)) := by
  refine ⟨?_, fun B hc hs => ideal_cacheAfterLoad hc hs⟩
  intro e he
  rcases mem_cacheAfterLoad he with h | ⟨h, f, sid, b, rfl⟩
  · exact Or.inl h
  · exact Or.inr ⟨h, ⟨rfl, rfl⟩, f, sid, rfl⟩

/-- **`delete` evicts**: after `delete_snapshots` the client's cache holds no entry for a snapshot it deleted. -/
theorem delete_evicts (cache : Cache) (enc : Bool) (u : User) (sids : List Nat) (s : Store) (p : DeletePlan)
    (hp : deletePlanC (some cache) enc u sids s = .ok p) (n : Name) (hn : n ∈ p.snaps) :
    get (cacheAfterDelete cache enc u sids s) n = none := by
  unfold cacheAfterDelete
  simp only [hp, get_delAll, hn, if_true]

/-- the model IS the unverified variant whenever the extractor reports that the code does not verify cached copies -/
theorem unverified_model (hv : Gen.cacheVerified = false) (cache : Option Cache) (enc : Bool) (u : User) (re : Nat → Bool) (s : Store) :
    loadSnapshotsC cache enc u re s = loadSnapshotsU cache enc u re s := by
  unfold loadSnapshotsC loadSnapshotsU loadCandidatesC
  congr 1
  apply filterMap_congr'
  intro e _
  rcases e with ⟨n, o⟩
  cases n with
  | snap f sid =>
    simp only [viaCache, viaCacheU, hv]
    cases cache with
    | none => rfl
    | some c => cases hg : get c (.snap f sid) <;> simp [hg]
  | _ => rfl

/-- **Negation witness for the code before the fix** (cached copies used unverified): one snapshot in the repository, its cache
entry a proper prefix of the content (`blob`) — or the bytes of another snapshot —, the repository itself intact and hash-ideal:
every command of that client fails (`corrupted`), while it succeeds with the cache disabled. -/
theorem truncated_entry_witness :
    ∃ (s : Store) (c c2 : Cache) (u : User), WF s ∧ Agree c s ∧ Agree c2 s ∧
      loadSnapshotsU none true u all s = .ok [⟨1, 7, [3], some ⟨1, 5, [3], []⟩⟩] ∧
      loadSnapshotsU (some c) true u all s = .error .corrupted ∧
      loadSnapshotsU (some c2) true u all s = .error .corrupted :=
  ⟨[(.snap 1 7, .snap 1 7 ⟨1, 5, [3], []⟩), (.chunk 1 3, .chunk 1 3)],
   [(.snap 1 7, .blob 0)], [(.snap 1 7, .snap 1 8 ⟨1, 6, [], []⟩)], ⟨1, 1⟩,
   by unfold WF NoDupKeys; decide,
   by intro f sid b b' h _; simp only [Repo.get, find?_cons, find?_nil] at h; split at h <;> simp at h,
   by intro f sid b b' h _; simp only [Repo.get, find?_cons, find?_nil] at h; split at h <;> simp_all,
   by decide, by decide, by decide⟩

/-! ## the cache DIRECTORY: what a hard kill, or a second writer, leaves next to the entries

`_store_cached` as the sequence of file-system operations the extractor read from its AST (`storePlan`).  The theorems above
quantify over every CONTENT of the entry files; these quantify over every state of the directory — entries, temporaries lying
next to them, missing parent directories — and over every point at which an earlier run was killed.
`Gen.cacheStorePlanRaw` / `Gen.cacheTempUnique` are NOT hypotheses: `store_plan_holds` discharges the static safety of the plan
by `decide`; on a tree whose `_store_cached` can fail on some directory state (an exclusive create of a deterministic name, a
rename of a name another client may have taken, an `unlink` without `missing_ok`, …) this file stops compiling, and
`exclusive_temp_witness` shows the failing directory for the exclusive-create case. -/

/-- the regenerated plan: recognised, statically safe under interference, and effective -/
theorem store_plan_holds : storePlanOk = true := by decide

theorem store_plan_spec :
    ∃ p, storePlan = some p ∧ planSafe Gen.cacheTempUnique p = true ∧ planEffective p = true := by
  have h := store_plan_holds
  unfold storePlanOk at h
  cases hp : storePlan with
  | none => rw [hp] at h; cases h
  | some p =>
    rw [hp] at h
    simp only [Bool.and_eq_true] at h
    exact ⟨p, rfl, h.1, h.2⟩

/-- **`_store_cached` never fails because of what the directory holds**: from EVERY state of the entry's names (entry absent /
valid / empty / torn / foreign, a temporary left by a killed run, the parent directory missing) and with other clients acting on
the same names between any two of its operations (`EnvOk`: they may create, replace or evict the entry and deterministic
temporaries; they do not remove directories or touch a temporary unique to this run), every operation succeeds; and an
undisturbed run leaves the payload under the entry name. -/
theorem store_never_fails (o : Obj) (l : Loc) (envs : List (Loc → Loc)) (he : ∀ f ∈ envs, EnvOk Gen.cacheTempUnique f) :
    ∃ p, storePlan = some p ∧ (∃ l', runOpsI o p envs (startLoc Gen.cacheTempUnique l) = .ok l') ∧
      (∃ l', runStore p Gen.cacheTempUnique o l = .ok l' ∧ l'.entry = some o) := by
  obtain ⟨p, hp, hsafe, heff⟩ := store_plan_spec
  obtain ⟨l', hl'⟩ := planSafe_runStore hsafe o l
  exact ⟨p, hp, planSafe_total hsafe o envs he l, l', hl', planEffective_entry heff hl'⟩

/-- **What a hard kill leaves** under the names of one entry — after any number `k` of the operations, possibly inside the
write (`tear`): every file is the payload itself, an empty or torn file, or a file that was there before. -/
theorem kill_leaves_old_or_torn (k : Nat) (tear : Option Nat) (o : Obj) (l l' : Loc) (p : List FsOp)
    (h : killed p Gen.cacheTempUnique k tear o l = .ok l') : FromOld o l l' :=
  killed_fromOld h

/-- **The directory is irrelevant**: for EVERY state `d` of the cache directory — entries with any content, temporaries lying
next to them, parent directories missing — `_load_snapshots` INCLUDING the stores it performs returns what it returns with the
cache disabled (in particular no store fails). -/
theorem directory_cache_irrelevant (d : CDir) (enc : Bool) (u : User) (re : Nat → Bool) (s : Store) (hs : WF s)
    (ha : Agree d.entries s) :
    ∃ p, storePlan = some p ∧ loadSnapshotsD p Gen.cacheTempUnique d enc u re s = liftErr (loadSnapshots enc u re s) := by
  obtain ⟨p, hp, hsafe, _⟩ := store_plan_spec
  refine ⟨p, hp, ?_⟩
  unfold loadSnapshotsD
  rw [load_cache_irrelevant d.entries enc u re s hs ha]
  cases loadSnapshots enc u re s with
  | error e => rfl
  | ok ls =>
    dsimp only
    split
    · rename_i x hx
      obtain ⟨e, _, hfe⟩ := List.exists_of_findSome?_eq_some hx
      obtain ⟨l', hl'⟩ := planSafe_runStore hsafe e.2 (d.loc e.1)
      rw [hl'] at hfe
      cases hfe
    · rfl

/-- **Later commands after a hard kill.**  A run that was storing the listed snapshot `(n, o)` is killed after `k` operations
(possibly inside the write); the directory `d'` is `d` with the entry of `n` as the kill left it — and ANY temporaries / missing
directories.  Under ideal hash every later command loads what it loads without a cache, and none of its stores fails. -/
theorem kill_leftover_irrelevant (B : Fam → Nat → Body) (d d' : CDir) (n : Name) (o : Obj) (k : Nat) (tear : Option Nat) (l' : Loc)
    (p : List FsOp) (enc : Bool) (u : User) (re : Nat → Bool) (s : Store) (hs : WF s) (hB : Ideal B s)
    (hd : Ideal B d.entries) (ht : Ideal B d.temps) (ho : (n, o) ∈ s)
    (hk : killed p Gen.cacheTempUnique k tear o (d.loc n) = .ok l')
    (hd' : d'.entries = match l'.entry with | some x => put d.entries n x | none => del d.entries n) :
    ∃ p, storePlan = some p ∧ loadSnapshotsD p Gen.cacheTempUnique d' enc u re s = liftErr (loadSnapshots enc u re s) := by
  apply directory_cache_irrelevant d' enc u re s hs
  apply agree_of_ideal _ hB
  rw [hd']
  have hold := killed_fromOld hk
  cases hle : l'.entry with
  | none =>
    intro e he
    exact hd e ((mem_del d.entries n e).mp he).1
  | some x =>
    intro e he f sid b hb
    rcases mem_put he with rfl | h
    · rcases hold .entry x (by simpa [getSlot] using hle) with rfl | ⟨j, rfl⟩ | ⟨t', ht'⟩
      · exact hB _ ho f sid b hb
      · cases hb
      · cases t' with
        | entry => exact hd _ (mem_of_get (by simpa [getSlot, CDir.loc] using ht')) f sid b hb
        | temp => exact ht _ (mem_of_get (by simpa [getSlot, CDir.loc] using ht')) f sid b hb
    · exact hd e h f sid b hb

/-- **Negation witness for a plan that creates a deterministic temporary EXCLUSIVELY** (`open(…, 'xb')` on a name derived from the
entry, then write, then rename): the plan is not safe; killed before the rename it leaves the temporary (entry still absent);
from then on the store of that entry fails (`exists`) — every later command of every client of that directory that has to cache
the snapshot fails, while it succeeds with the cache disabled. -/
theorem exclusive_temp_witness :
    let p : List FsOp := [.mkdirParents true, .create .temp true, .write .temp, .rename .temp .entry]
    let o : Obj := .snap 1 7 ⟨1, 5, [3], []⟩
    let s : Store := [(.snap 1 7, o), (.chunk 1 3, .chunk 1 3)]
    planSafe false p = false ∧
    killed p false 3 none o ⟨none, none, false⟩ = .ok ⟨none, some o, true⟩ ∧
    runStore p false o ⟨none, some o, true⟩ = .error .exists ∧
    loadSnapshotsD p false ⟨[], [(.snap 1 7, o)], []⟩ true ⟨1, 1⟩ all s = .error (.store .exists) ∧
    loadSnapshots true ⟨1, 1⟩ all s = .ok [⟨1, 7, [3], some ⟨1, 5, [3], []⟩⟩] ∧
    -- the same plan with a temporary whose name is unique to the run is safe
    planSafe true p = true := by
  refine ⟨by decide, by decide, by decide, by decide, by decide, by decide⟩

/-- non-vacuity: the plan of the code at hand, run from a directory holding a torn entry, a stray temporary and no parent
directory, succeeds and leaves the payload -/
example :
    ∃ p, storePlan = some p ∧
      runStore p Gen.cacheTempUnique (.snap 1 7 ⟨1, 5, [3], []⟩) ⟨some (.blob 1), some (.blob 0), false⟩ =
        .ok ⟨some (.snap 1 7 ⟨1, 5, [3], []⟩), (if Gen.cacheTempUnique then none else some (.blob 0)), true⟩ := by
  obtain ⟨p, hp, _, _⟩ := store_plan_spec
  exact ⟨_, rfl, by decide⟩

/-! ## non-vacuity -/

/-- the hypotheses of `load_cache_irrelevant` are satisfiable with a truncated entry, and the conclusion is then not trivial -/
example :
    let s : Store := [(.snap 1 7, .snap 1 7 ⟨1, 5, [3], []⟩), (.chunk 1 3, .chunk 1 3)]
    loadSnapshotsC (some [(.snap 1 7, .blob 0)]) true ⟨1, 1⟩ all s = .ok [⟨1, 7, [3], some ⟨1, 5, [3], []⟩⟩] := by decide

/-- `hash_collision_witness`: without ideal hash (a cached payload with the right digest but another body) the cache is believed —
`Agree` is exactly what is needed -/
example :
    let s : Store := [(.snap 1 7, .snap 1 7 ⟨1, 5, [3], []⟩)]
    loadSnapshotsC (some [(.snap 1 7, .snap 1 7 ⟨1, 9, [], []⟩)]) true ⟨1, 1⟩ all s ≠ loadSnapshots true ⟨1, 1⟩ all s := by decide

/-- a history with a torn cache in the middle: same final repository -/
example :
    runC true [] [(none, .snapshot ⟨1, 1⟩ [3] [⟨1, 1, [3]⟩] 5 7), (some [(.snap 1 7, .blob 0)], .delete ⟨1, 1⟩ [7])] = [] := by decide

end Replicat.C18
