import ReplicatProofs.Lemmas.CacheCmd
/-!
# C18 — the snapshot cache never changes what a command does

Objects: `Repo.viaCache / loadSnapshotsC / cacheAfterLoad` (`_download_snapshot_threadsafe` with a cache directory) and the
cached commands of `CacheCmd.lean` (= the commands of `Repo.lean` with `loadSnapshots ↦ loadSnapshotsC cache`, factorisations
proved in `Lemmas/CacheCmd.lean`).  A cache is an ARBITRARY association list location ↦ payload.

Hypotheses, and where they come from:
* `WF s` — the repository itself is not corrupted (that is C04's subject, not the cache's);
* `Agree c s` / `Ideal B _` — **ideal hash** (DESIGN.md §4): a payload whose digest equals a snapshot's name is that snapshot.
  It is a hypothesis, not an axiom; `hash_collision_witness` shows it is needed.
* `Gen.cacheVerified = true` is NOT a hypothesis: it is discharged by `cacheVerified_holds` from the regenerated
  `Generated.lean`; on a tree where `_download_snapshot_threadsafe` does not verify the cached copy this file stops compiling, and
  `truncated_entry_witness` (stated for the unverified variant, which `unverified_model` proves to be the model in that case)
  is the failing input.
-/
namespace Replicat.C18
open Replicat Replicat.Repo Replicat.CacheCmd Replicat.P18 List

/-- the regenerated flag: the cached copy is compared with the expected digest before use -/
theorem cacheVerified_holds : Gen.cacheVerified = true := by decide

/-- the regenerated shape of the cache code the model mirrors: the cache is read and written only in
`_download_snapshot_threadsafe`, which `_load_snapshots` calls only for paths of the backend listing; the store happens after the
downloaded bytes were verified; `delete_snapshots` unlinks the entries of the snapshots it deletes; no other method knows the
cache directory. -/
theorem cache_shape_holds :
    Gen.cacheReadSites = ["_download_snapshot_threadsafe"] ∧ Gen.cacheStoreSites = ["_download_snapshot_threadsafe"] ∧
    Gen.cacheDirSites = ["__init__", "_delete_cached", "_download_snapshot_threadsafe", "_get_cached", "_store_cached",
      "delete_objects", "delete_snapshots"] ∧
    Gen.cacheLoadOverListing = true ∧ Gen.cacheStoreAfterVerify = true ∧ Gen.deleteEvictsCache = true ∧
    Gen.cacheSectionOk = true := by decide

/-- **Loading is independent of the cache.**  For EVERY cache content — absent, valid, `blob` (empty / any proper prefix /
garbage), another snapshot's or another repository's bytes, stale entries — `_load_snapshots` returns what it returns with the
cache disabled. -/
theorem load_cache_irrelevant (c : Cache) (enc : Bool) (u : User) (re : Nat → Bool) (s : Store) (hs : WF s) (ha : Agree c s) :
    loadSnapshotsC (some c) enc u re s = loadSnapshots enc u re s := by
  rw [← loadSnapshotsC_none]
  unfold loadSnapshotsC
  rw [loadCandidatesC_eq cacheVerified_holds c enc u re s hs.2 ha]

/-- **Every mutating command**: same new repository state, same error, same mutation plan (so also the same crash behaviour). -/
theorem command_cache_irrelevant (c : Cache) (enc : Bool) (s : Store) (op : Op) (hs : WF s) (ha : Agree c s) :
    stepC (some c) enc s op = step enc s op ∧ stepErrC (some c) enc s op = stepErr enc s op ∧
    (∀ u sids, deletePlanC (some c) enc u sids s = deletePlan enc u sids s) ∧
    (∀ u, cleanPlanC (some c) enc u s = cleanPlan enc u s) := by
  have hd : ∀ u sids, deletePlanC (some c) enc u sids s = deletePlan enc u sids s := fun u sids => by
    unfold deletePlanC; rw [load_cache_irrelevant c enc u all s hs ha, ← deletePlan_eq]
  have hc : ∀ u, cleanPlanC (some c) enc u s = cleanPlan enc u s := fun u => by
    unfold cleanPlanC; rw [load_cache_irrelevant c enc u all s hs ha, ← cleanPlan_eq]
  have hds : ∀ u sids, deleteSnapshotsC (some c) enc u sids s = deleteSnapshots enc u sids s := fun u sids => by
    unfold deleteSnapshotsC; rw [hd, ← deleteSnapshots_eq]
  have hcs : ∀ u, cleanC (some c) enc u s = clean enc u s := fun u => by
    unfold cleanC; rw [hc, ← clean_eq]
  refine ⟨?_, ?_, hd, hc⟩
  · cases op with
    | snapshot u stream files ts sid => rfl
    | delete u sids => simp only [stepC, step]; rw [hds]; cases deleteSnapshots enc u sids s <;> rfl
    | clean u => simp only [stepC, step]; rw [hcs]; cases clean enc u s <;> rfl
  · cases op with
    | snapshot u stream files ts sid => rfl
    | delete u sids => simp only [stepErrC, stepErr]; rw [hds]
    | clean u => simp only [stepErrC, stepErr]; rw [hcs]

/-- **Every read-only command** (`list-snapshots`, `list-files`, `restore`): same rows / same restored file versions / same error. -/
theorem query_cache_irrelevant (c : Cache) (enc : Bool) (s : Store) (q : Query) (hs : WF s) (ha : Agree c s) :
    answerC (some c) enc s q = answer enc s q := by
  cases q with
  | list u sre =>
    simp only [answerC, answer, listSnapshotsC, load_cache_irrelevant c enc u sre s hs ha, ← listSnapshots_eq]
  | listFiles u sre fre =>
    simp only [answerC, answer, listFilesC, load_cache_irrelevant c enc u sre s hs ha, ← listFiles_eq]
  | restore u sre fre =>
    simp only [answerC, answer, restoreC, load_cache_irrelevant c enc u sre s hs ha, ← restore_eq]

/-- **Histories.**  Several clients, each command run with whatever its cache directory holds at that moment — given as an
arbitrary sequence of caches (disabled, empty, warm, shared between keys/repositories, separate, stale, torn by an interrupted
write): the repository evolves exactly as without any cache, under the ideal-hash reading `B` of digests.
The client of the model carries NOTHING from one command to the next (`runC` folds `stepC`; the only things a command sees are
the store and the cache of the moment).  That this is also true of a long-lived `Repository` object is what the harness ties:
half of its histories keep one object per (user, cache directory) on one event loop while other clients damage / replace the
entries that object validated or stored in its earlier commands, and compare every command with this stateless model. -/
theorem history_cache_irrelevant (B : Fam → Nat → Body) (enc : Bool) (h : List (Option Cache × Op)) (s : Store)
    (hs : WF s) (hB : Ideal B s) (hc : ∀ x ∈ h, ∀ c, x.1 = some c → Ideal B c) (hops : ∀ x ∈ h, OpIdeal B x.2) :
    runC enc s h = run enc s (h.map (·.2)) := by
  induction h generalizing s with
  | nil => rfl
  | cons x rest ih =>
    rcases x with ⟨c, op⟩
    have hstep : stepC c enc s op = step enc s op := by
      cases c with
      | none =>
        cases op with
        | snapshot u stream files ts sid => rfl
        | delete u sids =>
          simp only [stepC, step]
          rw [deleteSnapshotsC, deletePlanC, loadSnapshotsC_none, ← deletePlan_eq, ← deleteSnapshots_eq]
          cases deleteSnapshots enc u sids s <;> rfl
        | clean u =>
          simp only [stepC, step]
          rw [cleanC, cleanPlanC, loadSnapshotsC_none, ← cleanPlan_eq, ← clean_eq]
          cases clean enc u s <;> rfl
      | some c =>
        exact (command_cache_irrelevant c enc s op hs (agree_of_ideal (hc (some c, op) (by simp) c rfl) hB)).1
    simp only [runC, map_cons, run, foldl_cons, hstep]
    have := ih (step enc s op) (step_wf enc s op hs) (ideal_step hB (hops (c, op) (by simp)))
      (fun x hx => hc x (by simp [hx])) (fun x hx => hops x (by simp [hx]))
    simpa [run] using this

/-- **Stale and foreign entries are never looked at**: the result depends on the cache only through the entries stored under
the names the backend lists *now* — entries of deleted snapshots, of other repositories, of anything else are not even read.
(Holds with or without verification, for any store.) -/
theorem stale_ignored (c c' : Cache) (enc : Bool) (u : User) (re : Nat → Bool) (s : Store)
    (h : ∀ e ∈ s, get c e.1 = get c' e.1) :
    loadSnapshotsC (some c) enc u re s = loadSnapshotsC (some c') enc u re s := by
  unfold loadSnapshotsC
  rw [loadCandidatesC_congr c c' enc u re s h]

/-- **Everything a load stores is a valid copy**: an entry of the cache after `_load_snapshots` is an old entry or a listed
snapshot object stored under its own name with its own (verified) content; and the cache stays hash-ideal. -/
theorem cache_after_load_valid (cache : Cache) (enc : Bool) (u : User) (re : Nat → Bool) (s : Store) :
    (∀ e ∈ cacheAfterLoad cache enc u re s, e ∈ cache ∨ (e ∈ s ∧ Matches e.1 e.2 ∧ ∃ f sid, e.1 = Name.snap f sid)) ∧
    (∀ B, Ideal B cache → Ideal B s → Ideal B (cacheAfterLoad cache enc u re s)) := by
  refine ⟨?_, fun B hc hs => ideal_cacheAfterLoad hc hs⟩
  intro e he
  rcases mem_cacheAfterLoad he with h | ⟨h, f, sid, b, rfl⟩
  · exact Or.inl h
  · exact Or.inr ⟨h, ⟨rfl, rfl⟩, f, sid, rfl⟩

/-- **`delete` evicts**: after `delete_snapshots` the client's cache holds no entry for a snapshot it deleted. -/
theorem delete_evicts (cache : Cache) (enc : Bool) (u : User) (sids : List Nat) (s : Store) (p : DeletePlan)
    (hp : deletePlanC (some cache) enc u sids s = .ok p) (n : Name) (hn : n ∈ p.snaps) :
    get (cacheAfterDelete cache enc u sids s) n = none := by
  unfold cacheAfterDelete
  simp only [hp, get_delAll, hn, if_true]

/-- the model IS the unverified variant whenever the extractor reports that the code does not verify cached copies -/
theorem unverified_model (hv : Gen.cacheVerified = false) (cache : Option Cache) (enc : Bool) (u : User) (re : Nat → Bool) (s : Store) :
    loadSnapshotsC cache enc u re s = loadSnapshotsU cache enc u re s := by
  unfold loadSnapshotsC loadSnapshotsU loadCandidatesC
  congr 1
  apply filterMap_congr'
  intro e _
  rcases e with ⟨n, o⟩
  cases n with
  | snap f sid =>
    simp only [viaCache, viaCacheU, hv]
    cases cache with
    | none => rfl
    | some c => cases hg : get c (.snap f sid) <;> simp [hg]
  | _ => rfl

/-- **Negation witness for the code before the fix** (cached copies used unverified): one snapshot in the repository, its cache
entry a proper prefix of the content (`blob`) — or the bytes of another snapshot —, the repository itself intact and hash-ideal:
every command of that client fails (`corrupted`), while it succeeds with the cache disabled. -/
theorem truncated_entry_witness :
    ∃ (s : Store) (c c2 : Cache) (u : User), WF s ∧ Agree c s ∧ Agree c2 s ∧
      loadSnapshotsU none true u all s = .ok [⟨1, 7, [3], some ⟨1, 5, [3], []⟩⟩] ∧
      loadSnapshotsU (some c) true u all s = .error .corrupted ∧
      loadSnapshotsU (some c2) true u all s = .error .corrupted :=
  ⟨[(.snap 1 7, .snap 1 7 ⟨1, 5, [3], []⟩), (.chunk 1 3, .chunk 1 3)],
   [(.snap 1 7, .blob 0)], [(.snap 1 7, .snap 1 8 ⟨1, 6, [], []⟩)], ⟨1, 1⟩,
   by unfold WF NoDupKeys; decide,
   by intro f sid b b' h _; simp only [Repo.get, find?_cons, find?_nil] at h; split at h <;> simp at h,
   by intro f sid b b' h _; simp only [Repo.get, find?_cons, find?_nil] at h; split at h <;> simp_all,
   by decide, by decide, by decide⟩

/-! ## non-vacuity -/

/-- the hypotheses of `load_cache_irrelevant` are satisfiable with a truncated entry, and the conclusion is then not trivial -/
example :
    let s : Store := [(.snap 1 7, .snap 1 7 ⟨1, 5, [3], []⟩), (.chunk 1 3, .chunk 1 3)]
    loadSnapshotsC (some [(.snap 1 7, .blob 0)]) true ⟨1, 1⟩ all s = .ok [⟨1, 7, [3], some ⟨1, 5, [3], []⟩⟩] := by decide

/-- `hash_collision_witness`: without ideal hash (a cached payload with the right digest but another body) the cache is believed —
`Agree` is exactly what is needed -/
example :
    let s : Store := [(.snap 1 7, .snap 1 7 ⟨1, 5, [3], []⟩)]
    loadSnapshotsC (some [(.snap 1 7, .snap 1 7 ⟨1, 9, [], []⟩)]) true ⟨1, 1⟩ all s ≠ loadSnapshots true ⟨1, 1⟩ all s := by decide

/-- a history with a torn cache in the middle: same final repository -/
example :
    runC true [] [(none, .snapshot ⟨1, 1⟩ [3] [⟨1, 1, [3]⟩] 5 7), (some [(.snap 1 7, .blob 0)], .delete ⟨1, 1⟩ [7])] = [] := by decide

end Replicat.C18
