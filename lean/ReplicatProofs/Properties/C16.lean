import ReplicatProofs.Lemmas.SigV4Wire
import ReplicatProofs.Lemmas.SigV4Payload
import ReplicatProofs.Lemmas.SigV4Dots
import ReplicatProofs.Lemmas.SigV4Redirect
import ReplicatProofs.Lemmas.SigV4Reads
/-!
# C16 — every request sent to an S3 service is correctly signed

Property theorems only (helper lemmas: `Lemmas/SigV4*.lean`).  `sha`, `hmac`, `hexOf` are arbitrary functions (`c : Crypto`)
in every statement.  "client" = what `S3Compatible._prepare_request` computes (all arguments / literals / join orders are the
generated `Replicat.Gen.s3*` values), "wire" = `toWire` = the request httpx emits, "reference" = the published algorithm
evaluated on the wire (`ref*`, for both readings of `+` in the query: `plus = true` form decoding, `plus = false` literal).

The full statement "`refSignature … (toWire c i) = clientSignature c i` for all inputs" is FALSE of the model and of the code it
was written for:
* D10  a query value containing a space is signed as `+` (`urlencode` defaults to `quote_plus`)  → `space_witness`;
* D8   httpx removes `.`/`..` segments from the path after it was signed                        → `dot_segment_witness`;
* D11  the `Host` header httpx derives from the URL is lower-cased and loses a default port, after the configured host was signed
       → `host_witness` (stated for a client that does not set the header itself, `toWireWith false`).
`signature_agrees_partial` excludes exactly these three regions by decidable hypotheses (`NoKnownDefect`); the theorems are
stated so that they compile before AND after the repairs: after the one-word fix of D10 (`quote_via=quote`) the `ValuesOk`
hypothesis becomes vacuous (`values_ok_after_fix`); once `_prepare_request` puts `Host: <configured host>` on the request itself
(`hostHeaderExplicit`, generated from the headers the adapter hands to httpx) the `HostOk` hypothesis does
(`host_ok_after_fix`, `host_sent_as_signed`, `signature_agrees_every_host`: EVERY configured host string).
-/
namespace Replicat.C16
open Replicat Replicat.SigV4

/-! ## encoders -/

/-- `quote(canonical_uri)` as called = `UriEncode(path, encodeSlash=false)`, for ALL byte strings -/
theorem path_encoding_agrees (s : Bytes) : clientPath s = awsUriEncode false s :=
  flatMap_congr_all path_byte s

/-- full agreement of the query encoder, available when the code passes `quote_via=quote` (after the fix of D10) -/
theorem query_encoding_agrees (hfix : Gen.s3QueryViaQuotePlus = false) (s : Bytes) : queryQuote s = awsUriEncode true s :=
  queryQuote_agrees s (Or.inl hfix)

/-- `_partial`: what holds today.  Missing: strings containing a space (0x20) — see `space_witness`. -/
theorem query_encoding_agrees_partial (s : Bytes) (h : s.contains 0x20 = false) : queryQuote s = awsUriEncode true s :=
  queryQuote_agrees s (Or.inr h)

/-- negation witness (D10): with `quote_plus` a space is signed as `+`, the published rule demands `%20` -/
theorem space_witness (h : Gen.s3QueryViaQuotePlus = true) : queryQuote [0x20] ≠ awsUriEncode true [0x20] := by
  unfold queryQuote
  rw [h]
  decide

/-- the D10 region is exact: while `quote_plus` is in use, EVERY string containing a space is mis-encoded -/
theorem query_encoding_fails_exactly_on_spaces (h : Gen.s3QueryViaQuotePlus = true) (s : Bytes) :
    queryQuote s = awsUriEncode true s ↔ s.contains 0x20 = false := by
  constructor
  · intro heq
    cases hc : s.contains 0x20 with
    | false => rfl
    | true => exact absurd heq (queryQuote_ne_of_space h s hc)
  · exact query_encoding_agrees_partial s

/-- after the fix every value is fine -/
theorem values_ok_after_fix (hfix : Gen.s3QueryViaQuotePlus = false) (q : List (Bytes × Bytes)) : ValuesOk q :=
  fun _ _ => Or.inl hfix

/-! ## canonical query string -/

/-- the query replicat sends (`_list_objects`) has distinct names that need no encoding, for every token and prefix -/
theorem list_query_keys_ok (token : Option Bytes) (pfx : Bytes) : KeysOk (listQuery token pfx) := by
  unfold KeysOk DistinctNames listQuery
  cases token <;> cases pfx.isEmpty <;> (simp; decide)

/-- parameters are sorted by (encoded) name, strictly — for every dict with distinct unreserved names and any values -/
theorem query_sorted (q : List (Bytes × Bytes)) (hk : KeysOk q) : StrictByName (clientQueryPairs q) :=
  clientQueryPairs_strict (by decide) q hk

/-- `_partial`: decoding the query on the wire and re-encoding it by the published rule gives back the string that was signed.
Missing: values containing a space while `quote_plus` is in use (D10). -/
theorem canonical_query_agrees_partial (plus : Bool) (q : List (Bytes × Bytes)) (hk : KeysOk q) (hv : ValuesOk q) :
    refCanonicalQuery plus (clientQueryPairs q) = clientQueryString q := by
  unfold refCanonicalQuery clientQueryString
  rw [ref_query_agrees plus (by decide) q hk hv]

/-! ## wire = signed -/

/-- inputs as `_prepare_request` receives them: absolute path, both dates from one clock reading, a dict as query -/
structure WellFormed (i : Inputs) : Prop where
  path_abs : i.path ≠ []
  dates : i.date = i.amzDate.take 8
  keys : KeysOk i.query

/-- the three regions in which the property is known to fail today, as one decidable predicate -/
def NoKnownDefect (i : Inputs) : Prop :=
  hasDotSegment i.path = false ∧ ValuesOk i.query ∧ HostOk i

/-- quoting neither creates nor hides dot segments: the D8 region is "names with a `.` or `..` segment", nothing else -/
theorem dot_segments_are_name_segments (p : Bytes) : hasDotSegment (clientPath p) = hasDotSegment p :=
  hasDotSegment_clientPath p

/-- both date strings come from one reading of the clock: the scope date is the prefix of `x-amz-date`
(midnight and year boundaries included) -/
theorem dates_from_one_reading (t : ClockReading) : (fmtAmzDate t).take 8 = fmtDate t := by
  simp [fmtAmzDate, fmtDate, pad4, pad2]

/-- the `Host` header: when the adapter puts it on the request itself (generated fact `hostHeaderExplicit`), the header on the
wire is the configured — and signed — host VERBATIM, for EVERY configured host string and scheme (upper case, explicit default
port, trailing dot, IPv6 literal, …): nothing is left to httpx's normalisation -/
theorem host_sent_as_signed (hfix : hostHeaderExplicit = true) (c : Crypto) (i : Inputs) : (toWire c i).host = i.host :=
  wireHost_of_ok i (Or.inl hfix)

/-- the same about the shape itself, whatever the code does today: a client that sets the header sends the signed host -/
theorem explicit_host_header_is_the_signed_host (c : Crypto) (i : Inputs) : (toWireWith true c i).host = i.host := rfl

/-- after the repair of D11 every host is fine -/
theorem host_ok_after_fix (hfix : hostHeaderExplicit = true) (i : Inputs) : HostOk i := Or.inl hfix

/-- the D11 region is exact: the `Host` header on the wire is the signed host iff the adapter sets it itself or httpx has nothing
to normalise in the configured spelling -/
theorem host_agrees_exactly (c : Crypto) (i : Inputs) : (toWire c i).host = i.host ↔ HostOk i :=
  wireHost_eq_iff hostHeaderExplicit i.scheme i.host

/-- `_partial`: path, Host, x-amz-content-sha256 and x-amz-date on the wire are the strings that were signed.
Missing: names with a `.`/`..` segment (D8); host spellings httpx normalises while the adapter leaves the `Host` header to httpx
(D11 — `HostOk`, vacuous once `hostHeaderExplicit`). -/
theorem wire_equals_signed_partial (c : Crypto) (i : Inputs) (hp : i.path ≠ [])
    (hd : hasDotSegment i.path = false) (hh : HostOk i) :
    (toWire c i).path = clientPath i.path ∧ (toWire c i).host = i.host ∧
    (toWire c i).contentSha = i.payloadDigest ∧ (toWire c i).amzDate = i.amzDate :=
  ⟨httpxPath_of_no_dot _ (by rw [hasDotSegment_clientPath]; exact hd) (clientPath_ne_nil _ hp), wireHost_of_ok i hh, rfl, rfl⟩

/-- the `Authorization` header has the published layout, carries the client's signature, names the three signed headers -/
theorem authorization_layout (c : Crypto) (i : Inputs) :
    (toWire c i).authorization =
      sAlgorithm ++ [0x20] ++ [67, 114, 101, 100, 101, 110, 116, 105, 97, 108, 61] ++ i.keyId ++ [0x2F] ++ refScope i.date i.region
        ++ [0x2C, 0x20] ++ [83, 105, 103, 110, 101, 100, 72, 101, 97, 100, 101, 114, 115, 61] ++ refSignedHeaders
        ++ [0x2C, 0x20] ++ [83, 105, 103, 110, 97, 116, 117, 114, 101, 61] ++ clientSignature c i := by
  show sentHeaderValue c i hAuthorization = _
  rw [sent_authorization]
  simp [clientAuthorization, Gen.s3AuthTemplate, authField, scope_eq, signedHeaders_eq, sAlgorithm]

/-- `_partial`: the canonical request a strict endpoint derives from the wire is the one the client signed.
Missing: D8, D10, D11 inputs (`NoKnownDefect`). -/
theorem canonical_request_agrees_partial (c : Crypto) (plus : Bool) (i : Inputs) (wf : WellFormed i) (ok : NoKnownDefect i) :
    refCanonicalRequest plus (toWire c i) = clientCanonicalRequest i := by
  obtain ⟨hd, hv, hh⟩ := ok
  obtain ⟨hpath, hhost, hsha, hdate⟩ := wire_equals_signed_partial c i wf.path_abs hd hh
  have hq : refCanonicalQuery plus (toWire c i).query = clientQueryString i.query :=
    canonical_query_agrees_partial plus i.query wf.keys hv
  have hm : (toWire c i).method = i.method := rfl
  unfold refCanonicalRequest clientCanonicalRequest refCanonicalHeaders
  rw [hq, hpath, hhost, hsha, hdate, hm, refCanonicalUri_clientPath, canonicalRequestOf_eq, signedHeaderList_eq,
    canonicalHeaders_three, signedHeaders_eq]

/-- `_partial` of the property's main clause: the signature recomputed from the wire by the published algorithm equals the
signature in the `Authorization` header — for every hmac / sha / hex function, both readings of `+`, every method, path, query
dict, payload hash, region, credentials and clock reading.  Missing: D8, D10, D11 inputs (`NoKnownDefect`). -/
theorem signature_agrees_partial (c : Crypto) (plus : Bool) (i : Inputs) (wf : WellFormed i) (ok : NoKnownDefect i) :
    refSignature c plus i.secret i.region (toWire c i) = clientSignature c i := by
  have hcr := canonical_request_agrees_partial c plus i wf ok
  have hdate : (toWire c i).amzDate = i.amzDate := rfl
  unfold refSignature clientSignature signatureOf
  simp only [hcr, hdate, ← wf.dates, scope_eq, stringToSign_eq, signingKey_eq]

/-- with the explicit `Host` header the main clause holds for EVERY configured host string: no hypothesis about the host is left
(D8 / D10 inputs remain excluded) -/
theorem signature_agrees_every_host (hfix : hostHeaderExplicit = true) (c : Crypto) (plus : Bool) (i : Inputs) (wf : WellFormed i)
    (hd : hasDotSegment i.path = false) (hv : ValuesOk i.query) :
    refSignature c plus i.secret i.region (toWire c i) = clientSignature c i :=
  signature_agrees_partial c plus i wf ⟨hd, hv, host_ok_after_fix hfix i⟩

/-! ## negation witnesses of the full statement (each replayed on the real code by the harness) -/

def demo (path host scheme : Bytes) (query : List (Bytes × Bytes)) : Inputs :=
  { method := [71, 69, 84], host := host, scheme := scheme, path := path, query := query, payloadDigest := [], amzDate := [],
    date := [], region := [], keyId := [], secret := [] }

def idCrypto : Crypto := ⟨fun k m => k ++ m, id, id⟩

/-- D8: `/b/a/../c` is signed as given and sent as `/b/c` -/
theorem dot_segment_witness :
    let i := demo [47, 98, 47, 97, 47, 46, 46, 47, 99] [104] [104, 116, 116, 112] []
    (toWire idCrypto i).path = [47, 98, 47, 99] ∧ refCanonicalRequest true (toWire idCrypto i) ≠ clientCanonicalRequest i := by
  decide

/-- D11 (a client that leaves the `Host` header to httpx — the code before the repair): host `H` (upper case) is signed as given
and sent as `h`; `h:443` over https is sent as `h`; with the explicit header both requests carry what was signed -/
theorem host_witness :
    let i := demo [47, 98] [72] [104, 116, 116, 112, 115] []
    let j := demo [47, 98] [104, 58, 52, 52, 51] [104, 116, 116, 112, 115] []
    (toWireWith false idCrypto i).host = [104] ∧ refCanonicalRequest true (toWireWith false idCrypto i) ≠ clientCanonicalRequest i ∧
    (toWireWith false idCrypto j).host = [104] ∧ refCanonicalRequest true (toWireWith false idCrypto j) ≠ clientCanonicalRequest j ∧
    refCanonicalRequest true (toWireWith true idCrypto i) = clientCanonicalRequest i ∧
    refCanonicalRequest true (toWireWith true idCrypto j) = clientCanonicalRequest j := by
  decide

/-- … and that shape IS the code as long as the generated fact says the adapter sets no `Host` header -/
theorem host_witness_applies (h : hostHeaderExplicit = false) (c : Crypto) (i : Inputs) : toWire c i = toWireWith false c i := by
  unfold toWire; rw [h]

/-- D10 at request level: prefix `a b` — under either reading of `+` the endpoint's canonical request differs -/
theorem space_request_witness (h : Gen.s3QueryViaQuotePlus = true) :
    let i := demo [47, 98] [104] [104, 116, 116, 112] (listQuery none [97, 32, 98])
    refCanonicalRequest true (toWire idCrypto i) ≠ clientCanonicalRequest i ∧
    refCanonicalRequest false (toWire idCrypto i) ≠ clientCanonicalRequest i := by
  have hq : ∀ s, queryQuote s = pyQuotePlus Gen.s3QuerySafeB s := by intro s; unfold queryQuote; rw [h]; rfl
  simp only [refCanonicalRequest, clientCanonicalRequest, toWire, toWireWith, clientQueryPairs, clientQueryString, refCanonicalQuery,
    refQueryPairs, hq]
  decide

/-! ## payload -/

/-- bytes: declared hash = hash of the body sent, declared length = its length -/
theorem payload_hash_matches_bytes (c : Crypto) (data : Bytes) :
    (uploadBytes c data).declaredDigest = c.sha (uploadBytes c data).body ∧
    (uploadBytes c data).declaredLength = (uploadBytes c data).body.length := ⟨rfl, rfl⟩

/-- streams handed over at position 0 (as every caller does): the digest is taken over the whole content, the stream is
rewound, the body is the same bytes for every chunk size ≥ 1, and the declared length is right when the caller's `length` is -/
theorem payload_hash_matches_stream (c : Crypto) (data : Bytes) (length chunk : Nat) (hc : 0 < chunk) :
    let p := uploadStream c ⟨data, 0⟩ length chunk
    p.body = data ∧ p.declaredDigest = c.sha p.body ∧ (length = data.length → p.declaredLength = p.body.length) := by
  have hb : (uploadStream c ⟨data, 0⟩ length chunk).body = data := by
    show streamBody chunk _ = data
    rw [streamBody_eq chunk hc]
    simp [Gen.s3StreamRewindTo]
  refine ⟨hb, ?_, ?_⟩
  · rw [hb]; simp [uploadStream, streamDigest]
  · intro hl; rw [hb]; exact hl

/-- outside the interface's contract: a stream handed over at position 1 is hashed from 1 but sent from 0 -/
theorem stream_offset_witness :
    (uploadStream idCrypto ⟨[1, 2], 1⟩ 1 4).declaredDigest ≠ idCrypto.sha (uploadStream idCrypto ⟨[1, 2], 1⟩ 1 4).body := by
  decide

/-- retried streamed uploads: `_put_object_stream` is re-run by `backoff` after a failed attempt — after an error status AND after
a transport-level failure (connection reset, read / write error, timeout) that struck when the transport had pulled any number
of body parts from the stream.  Because the code rewinds the stream after EVERY class of failure (`putRewinds`, generated from
the `try` statement; the proof stops compiling when a class is no longer covered), every attempt — the first, each retry, the
one that is answered — offers the whole content as its body, declares the hash of exactly that body and (when the caller's
`length` is right) its length; what the service received of a broken attempt is a prefix of it. -/
theorem retried_stream_payload_matches (c : Crypto) (data : Bytes) (length chunk : Nat) (hc : 0 < chunk) (faults : List Fault) :
    ∀ a ∈ uploadStreamRetried c ⟨data, 0⟩ length chunk faults,
      a.put.body = data ∧ a.put.declaredDigest = c.sha a.put.body ∧
      (length = data.length → a.put.declaredLength = a.put.body.length) ∧ a.sent <+: data := by
  intro a ha
  have hrew : ∀ k, putRewinds k = true := by intro k; cases k <;> rfl
  have hto : Gen.s3PutRewindTo = 0 := rfl
  have hs : Gen.s3StreamRewindTo = some 0 := rfl
  unfold uploadStreamRetried uploadStreamRetriedWith streamDigest at ha
  rw [hto] at ha
  simp only [hs] at ha
  obtain ⟨hput, hsent⟩ := attemptsWith_rewinding putRewinds hrew _ data length chunk hc faults ⟨data, 0⟩ rfl rfl a ha
  rw [hput]
  exact ⟨rfl, by simp, fun h => h, hsent⟩

/-- the number of requests of a retried upload: one per failed attempt, and the one that is answered -/
theorem retried_stream_attempt_count (c : Crypto) (s : Stream) (length chunk : Nat) (faults : List Fault) :
    (uploadStreamRetried c s length chunk faults).length = faults.length + 1 := by
  simp [uploadStreamRetried, uploadStreamRetriedWith, attemptsWith_length]

/-- why every class must be covered — a policy that rewinds after an error status only: the connection breaks when two of the
three parts were pulled, the retry declares the hash and length of `[1, 2, 3]` and sends `[3]` -/
theorem retry_without_rewind_witness :
    let as := uploadStreamRetriedWith (fun k => k == .status) 0 idCrypto ⟨[1, 2, 3], 0⟩ 3 1 [⟨.transport, 2⟩]
    as.map (fun a => (a.put.declaredDigest, a.put.declaredLength, a.put.body)) = [([1, 2, 3], 3, [1, 2, 3]), ([1, 2, 3], 3, [3])] := by
  decide

/-! ## streams whose `read(n)` returns fewer than `n` bytes (read schedules)

`payload_hash_matches_stream` and `retried_stream_payload_matches` describe the two read loops of `upload_stream` by what they are
meant to compute (`streamDigest`: the hash of position … EOF; `streamBody`: the same bytes).  The caller's stream decides how much
each `read(n)` returns — `io.RawIOBase.read`: UP TO `n` bytes, empty only at the end (raw / unbuffered streams, pipes, sockets,
network file systems, wrappers that cap the transfer size).  The theorems below quantify over EVERY such behaviour (a schedule of
positive caps for the successive calls, `CapsOk`) and are discharged from the generated stop conditions of the two loops
(`Gen.s3DigestStopRule`, `Gen.s3BodyStopRule` — tools/sections/16_s3reads.py): they stop compiling when a loop no longer runs to
the first EMPTY read. -/

/-- `_get_stream_hexdigest` under every read schedule: the digest of everything from the position to the end, stream rewound —
i.e. `streamDigest`.  Needs the loop to stop at the empty read only (generated) and a positive read size (generated). -/
theorem stream_digest_every_schedule (c : Crypto) (s : Stream) (caps : List Nat) (hc : CapsOk caps) :
    streamDigestSchedWith digestStopRule Gen.s3DigestReadSize Gen.s3StreamRewindTo c caps s = streamDigest c s := by
  have hr : digestStopRule = .emptyRead := rfl
  have hn : 0 < Gen.s3DigestReadSize := by decide
  have hs : Gen.s3StreamRewindTo = some 0 := rfl
  unfold streamDigestSchedWith streamDigest
  rw [hr, streamReads_emptyRead _ hn caps hc, hs]

/-- the body iterator under every read schedule: the bytes from the position to the end, whatever the parts are — i.e. `streamBody`
(so every statement of `retried_stream_payload_matches` about an attempt's body holds for every schedule of every attempt) -/
theorem stream_body_every_schedule (chunk : Nat) (hc : 0 < chunk) (s : Stream) (caps : List Nat) (hcaps : CapsOk caps) :
    (streamPartsSchedWith bodyStopRule chunk caps s).flatten = streamBody chunk s := by
  have hr : bodyStopRule = .emptyRead := rfl
  unfold streamPartsSchedWith
  rw [flatten_filter_nonempty, hr, streamReads_emptyRead _ hc caps hcaps, streamBody_eq chunk hc]

/-- the payload clause for every stream behaviour the file protocol allows: whatever the digest loop and the body iterator are
handed by the successive `read` calls (two independent schedules), the request declares the hash of exactly the body it sends, the
body is the whole content, and the declared length is right when the caller's `length` is -/
theorem payload_hash_matches_stream_every_schedule (c : Crypto) (data : Bytes) (length chunk : Nat) (hc : 0 < chunk)
    (dcaps bcaps : List Nat) (hd : CapsOk dcaps) (hb : CapsOk bcaps) :
    let p := uploadStreamSched c ⟨data, 0⟩ length chunk dcaps bcaps
    p.body = data ∧ p.declaredDigest = c.sha p.body ∧ (length = data.length → p.declaredLength = p.body.length) ∧
      p.declaredDigest = (uploadStream c ⟨data, 0⟩ length chunk).declaredDigest := by
  have hdig := stream_digest_every_schedule c ⟨data, 0⟩ dcaps hd
  have hs : Gen.s3StreamRewindTo = some 0 := rfl
  have hbody : (uploadStreamSched c ⟨data, 0⟩ length chunk dcaps bcaps).body = data := by
    unfold uploadStreamSched uploadStreamSchedWith
    rw [hdig]
    show (streamPartsSchedWith bodyStopRule chunk bcaps _).flatten = data
    rw [stream_body_every_schedule chunk hc _ bcaps hb, streamBody_eq chunk hc]
    simp [streamDigest, hs]
  have hdd : (uploadStreamSched c ⟨data, 0⟩ length chunk dcaps bcaps).declaredDigest = c.sha data := by
    unfold uploadStreamSched uploadStreamSchedWith
    rw [hdig]
    simp [streamDigest]
  refine ⟨hbody, ?_, ?_, ?_⟩
  · rw [hbody]; exact hdd
  · intro hl; rw [hbody]; exact hl
  · rw [hdd]; simp [uploadStream, streamDigest]

/-- what the service received of a broken attempt is a prefix of the content, under every schedule and for every number of parts
the connection had pulled -/
theorem broken_attempt_prefix_every_schedule (chunk : Nat) (hc : 0 < chunk) (data : Bytes) (caps : List Nat) (hcaps : CapsOk caps)
    (k : Nat) : ((streamPartsSchedWith bodyStopRule chunk caps ⟨data, 0⟩).take k).flatten <+: data := by
  have h := take_flatten_prefix k (streamPartsSchedWith bodyStopRule chunk caps ⟨data, 0⟩)
  rw [stream_body_every_schedule chunk hc _ caps hcaps, streamBody_eq chunk hc] at h
  exact h

/-- the digest loop ends with the read that found the end: it always issues one `read` more than it hashes (no read is skipped) -/
theorem digest_loop_ends_with_the_empty_read (s : Stream) (caps : List Nat) (hc : CapsOk caps) :
    (streamReads digestStopRule Gen.s3DigestReadSize caps s).getLast? = some [] := by
  have hr : digestStopRule = .emptyRead := rfl
  have hn : 0 < Gen.s3DigestReadSize := by decide
  rw [hr]
  unfold streamReads
  exact readLoop_emptyRead_last _ hn _ caps _ hc (by simp [List.length_drop]; omega)

/-- why the stop condition matters — a digest loop that takes a partially filled read for the end of the stream ("no need for one
more empty read"): as soon as ONE read before the end is shorter than requested (`k < n`, `k < data.length`), the request declares
and signs the hash of the first `k` bytes only, while the body iterator (empty-read rule) still sends the whole content under the
full content-length — for every content, read size, later schedule and chunk size -/
theorem short_read_stop_declares_prefix (c : Crypto) (data : Bytes) (length chunk n k : Nat) (hc : 0 < chunk) (hk : k < n)
    (hl : k < data.length) (dcaps bcaps : List Nat) (hb : CapsOk bcaps) :
    let p := uploadStreamSchedWith .shortRead .emptyRead n (some 0) c ⟨data, 0⟩ length chunk (k :: dcaps) bcaps
    p.declaredDigest = c.sha (data.take k) ∧ p.body = data ∧ data.take k ≠ data := by
  refine ⟨?_, ?_, ?_⟩
  · simp only [uploadStreamSchedWith, streamDigestSchedWith, streamReads, List.drop_zero]
    rw [readLoop_shortRead_first_short n k _ dcaps data (by omega) hk]
  · simp only [uploadStreamSchedWith, streamDigestSchedWith, streamPartsSchedWith]
    rw [flatten_filter_nonempty, streamReads_emptyRead _ hc bcaps hb]
    rfl
  · intro h
    have := congrArg List.length h
    rw [List.length_take] at this
    omega

/-- the smallest instance: content `[1, 2, 3]`, the loop asks for 2 bytes, the first read hands out 1 -/
theorem short_read_stop_witness :
    let p := uploadStreamSchedWith .shortRead .emptyRead 2 (some 0) idCrypto ⟨[1, 2, 3], 0⟩ 3 2 [1] []
    (p.declaredDigest, p.declaredLength, p.body) = ([1], 3, [1, 2, 3]) := by
  decide

/-- streams that fill every request (`io.BytesIO`, buffered files — all that replicat itself passes, all the unit tests use): both
stop rules hash the whole content, for every size (exact multiples of the read size included) — the two rules differ ONLY on
streams with short reads -/
theorem filled_streams_hide_the_stop_rule (c : Crypto) (data : Bytes) (n : Nat) (hn : 0 < n) (caps : List Nat)
    (hfull : ∀ k ∈ caps, n ≤ k) (rule : StopRule) :
    (streamDigestSchedWith rule n (some 0) c caps ⟨data, 0⟩).1 = c.sha data := by
  have hok : CapsOk caps := fun k hk => Nat.lt_of_lt_of_le hn (hfull k hk)
  cases rule with
  | emptyRead =>
    simp only [streamDigestSchedWith]
    rw [streamReads_emptyRead _ hn caps hok]
    rfl
  | shortRead =>
    simp only [streamDigestSchedWith, streamReads, List.drop_zero]
    rw [readLoop_shortRead_filled n hn _ caps data hfull (by omega)]

/-! ## every request on the wire comes from `_prepare_request` (replies that could make the HTTP client emit requests itself)

The theorems above speak about `toWire c i`, the request built from ONE signing.  That these are all the requests on the wire is a
fact about `AsyncClient.send` and the service's replies: a 301 / 302 / 303 / 307 / 308 with a `Location` makes httpx build a
follow-up request itself — same `x-amz-date` / `x-amz-content-sha256`, the `Authorization` of the answered request (same origin)
or none (other host / port / scheme), new path, possibly another method — unless redirects are not followed or the response hook
raises first.  `redirects_never_followed` is discharged from the two generated items (`follow_redirects` at every `send` / client,
shape of `_raise_for_status_hook`); it stops compiling when the code gives up BOTH (either one alone is inert:
`sendWith_single` needs only one of them). -/

/-- the code as it is never lets httpx follow a redirect: `follow_redirects` is false at the client and at every `send`, or the
response hook raises for every status outside 2xx before httpx looks at `Location` (today: both; each alone would do, and a
change of one of them alone leaves this theorem standing) -/
theorem redirects_never_followed : Safe Gen.s3FollowRedirects Gen.s3HookRaisesOnNon2xx := by
  unfold Safe
  decide

/-- for EVERY script of replies (answers, error statuses, transport failures, redirects to any location, 1xx / 304-style oddities),
every request a retried adapter call puts on the wire is the output of one of its signings: the HTTP library emits nothing by
itself -/
theorem every_request_is_signed_afresh (sign : Nat → Wire) (tries j : Nat) (rs : List Reply) :
    ∀ p ∈ (callRequests sign tries j rs).1, p.2 = sign p.1 :=
  callWith_signed _ _ redirects_never_followed _ sign tries j rs

/-- one request per attempt: at most `max_tries` requests per call, signings numbered consecutively (one clock reading each) -/
theorem one_request_per_attempt (sign : Nat → Wire) (tries j : Nat) (rs : List Reply) :
    (callRequests sign tries j rs).1.length ≤ tries ∧
    (callRequests sign tries j rs).1.map (·.1) = (List.range (callRequests sign tries j rs).1.length).map (j + ·) :=
  ⟨callWith_length _ _ redirects_never_followed _ sign tries j rs, callWith_numbering _ _ redirects_never_followed _ sign tries j rs⟩

/-- `_partial` of the property over whole exchanges: whatever the service replies, every request that reaches the wire carries a
signature that the published algorithm recomputes from that very request.  Missing: D8, D10, D11 inputs (`NoKnownDefect`). -/
theorem every_wire_request_verifies_partial (c : Crypto) (plus : Bool) (i : Nat → Inputs)
    (wf : ∀ k, WellFormed (i k)) (ok : ∀ k, NoKnownDefect (i k)) (tries j : Nat) (rs : List Reply) :
    ∀ p ∈ (callRequests (fun k => toWire c (i k)) tries j rs).1,
      p.2 = toWire c (i p.1) ∧ refSignature c plus (i p.1).secret (i p.1).region p.2 = clientSignature c (i p.1) := by
  intro p hp
  have h := every_request_is_signed_afresh (fun k => toWire c (i k)) tries j rs p hp
  refine ⟨h, ?_⟩
  rw [h]
  exact signature_agrees_partial c plus (i p.1) (wf p.1) (ok p.1)

/-- why BOTH places matter — a client that follows redirects behind a hook that lets them pass, `GET /b/x` at `http://h`:
* 307 → `/b/y` on the same origin: the second request carries the `Authorization` of the first, which no longer verifies;
* 307 → host `g`: the second request carries no `Authorization` at all;
* 302 for a `PUT`: the follow-up is a `GET` with the `PUT`'s signature. -/
theorem followed_redirect_witness :
    let i := demo [47, 98, 47, 120] [104] [104, 116, 116, 112] []
    let sign : Nat → Wire := fun _ => toWire idCrypto i
    let put : Nat → Wire := fun _ => { toWire idCrypto i with method := [80, 85, 84] }
    let sameOrigin := callWith true false 20 sign 4 0 [.redirect 307 ⟨true, false, [104], [47, 98, 47, 121], []⟩]
    let otherHost := callWith true false 20 sign 4 0 [.redirect 307 ⟨false, false, [103], [47, 98, 47, 120], []⟩]
    let found := callWith true false 20 put 4 0 [.redirect 302 ⟨true, false, [104], [47, 98, 47, 120], []⟩]
    sameOrigin.1.map (fun p => (p.1, p.2.path, refCanonicalRequest true p.2 == clientCanonicalRequest i))
      = [(0, [47, 98, 47, 120], true), (0, [47, 98, 47, 121], false)] ∧
    sameOrigin.1.map (fun p => p.2.authorization) = [(sign 0).authorization, (sign 0).authorization] ∧
    otherHost.1.map (fun p => (p.2.host, p.2.authorization.isEmpty)) = [([104], false), ([103], true)] ∧
    found.1.map (fun p => p.2.method) = [[80, 85, 84], mGet] ∧
    found.1.map (fun p => p.2.authorization) = [(put 0).authorization, (put 0).authorization] :=
  ⟨by decide, rfl, by decide, by decide, rfl⟩

/-- each place alone is inert: following redirects behind the raising hook, or a lenient hook without following -/
theorem one_place_alone_is_inert (follow hook : Bool) (h : follow = false ∨ hook = true) (mr : Nat) (sign : Nat → Wire)
    (tries j : Nat) (rs : List Reply) : ∀ p ∈ (callWith follow hook mr sign tries j rs).1, p.2 = sign p.1 :=
  callWith_signed follow hook h mr sign tries j rs

/-! ## non-vacuity -/
example : (callWith false true 20 (fun _ => toWire idCrypto (demo [47, 98, 47, 120] [104] [104, 116, 116, 112] [])) 4 0
    [.redirect 307 ⟨true, false, [104], [47, 98, 47, 121], []⟩, .odd, .fail .transport]).1.map (·.1) = [0, 1, 2, 3] := by decide

example : Safe false false ∧ Safe true true ∧ ¬ Safe true false := by unfold Safe; decide

example : WellFormed (demo [47, 98, 47, 120] [104] [104, 116, 116, 112] (listQuery (some [116]) [112])) ∧
    NoKnownDefect (demo [47, 98, 47, 120] [104] [104, 116, 116, 112] (listQuery (some [116]) [112])) :=
  ⟨⟨by decide, by decide, list_query_keys_ok (some [116]) [112]⟩, by decide, fun p hp => Or.inr (by
    have : p ∈ listQuery (some [116]) [112] := hp
    revert p; decide), by decide⟩

example : (uploadStreamRetried idCrypto ⟨[1, 2, 3], 0⟩ 3 1 [⟨.transport, 2⟩, ⟨.status, 9⟩]).map (fun a => (a.put.body, a.sent)) =
    [([1, 2, 3], [1, 2]), ([1, 2, 3], [1, 2, 3]), ([1, 2, 3], [1, 2, 3])] := by decide

example : CapsOk [1, 3, 2] ∧ (streamReads .emptyRead 2 [1, 3, 2] ⟨[1, 2, 3, 4, 5, 6], 0⟩) = [[1], [2, 3], [4, 5], [6], []] ∧
    (streamReads .shortRead 2 [1, 3, 2] ⟨[1, 2, 3, 4, 5, 6], 0⟩) = [[1]] ∧
    (streamReads .shortRead 2 [2, 3, 2] ⟨[1, 2, 3, 4], 0⟩) = [[1, 2], [3, 4], []] := by
  refine ⟨fun k hk => ?_, by decide, by decide, by decide⟩
  simp at hk
  omega

example : clientPath [0x61, 0x20, 0xC3, 0xBC, 0x2F, 0x7E] = [0x61, 0x25, 0x32, 0x30, 0x25, 0x43, 0x33, 0x25, 0x42, 0x43, 0x2F, 0x7E] := by decide

end Replicat.C16
