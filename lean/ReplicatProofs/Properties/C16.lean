import ReplicatModel.SigV4
namespace Replicat.C16
theorem stub : True := trivial
end Replicat.C16
