import ReplicatProofs.Lemmas.RateLimit
import ReplicatProofs.Lemmas.RateLimitMulti
import ReplicatProofs.Lemmas.RateLimitStamps
import ReplicatProofs.Lemmas.SizeLit
import ReplicatProofs.Lemmas.IOStack
/-!
# C20 — the bandwidth limit is respected and transparent to the data

Property theorems only (helper lemmas: `Lemmas/RateLimit.lean`, `Lemmas/RateLimitMulti.lean`).

Model: `ReplicatModel/RateLimit.lean` (`step` = one call through `_RateLimitedFileWrapper` followed by
`RateLimitedIO.pause_*`; events in the order in which the pause sections run under the lock; exact `Rat`).
Constants `Gen.pauseThreshold`, `Gen.pauseLimit`, `Gen.rateDivisor` are regenerated from the source; the facts the
proofs need about them (`0 ≤ threshold`, `threshold + 1/4 ≤ limit`, `4 ≤ divisor`) are re-proved on every build.

`EvOk L eps dmax e` is what the property quantifies over: a request moves at most `L/4` bytes (and at most
`dmax`), underlying calls and idle periods take no negative time, `time.sleep` oversleeps by at most `eps`.

Full statement vs. what holds:
* `window_bound_partial` (and `window_bound_at_underlying_partial`) is the property's bound for **one thread, or any number of threads whose underlying calls take no
  time** (`_partial` in the sense of DESIGN §6: the extra hypothesis is spelled out as `OneThreadOrZeroLatency`).
* `multi_stream_counterexample` / `no_fixed_burst` prove that without that hypothesis the statement is false of the
  model (and, replayed by the harness, of the code): defect candidate D16.
* `window_bound_general` is what does hold for every history.
-/
namespace Replicat.C20
open Replicat Replicat.RateLimit

/-- the extra hypothesis of the partial form: all events belong to one thread, or no underlying call takes time -/
def OneThreadOrZeroLatency (evs : List Ev) : Prop :=
  (∃ i, ∀ e ∈ evs, e.stream = i) ∨ (∀ e ∈ evs, e.lat = 0)

/-! ## the cap never forgives, the debt stays bounded -/

/-- **No forgiveness.** If every request moves at most a quarter of the limit, the `PAUSE_LIMIT` cap never removes
debt, in any history from any state at rest. -/
theorem no_forgiveness (L : Rat) (hL : 0 < L) (eps : Rat) (dmax : Nat) (s : St) (evs : List Ev)
    (hev : ∀ e ∈ evs, EvOk L eps dmax e) (hs : Inv eps s) :
    ∀ o ∈ (run L s evs).2, o.forgiven = 0 := by
  intro o ho
  obtain ⟨_, _, g⟩ := good_forall L eps dmax _ _ _ (run_good L hL eps dmax evs s hev hs).1 o ho
  exact g.forgiven

/-- the debt at rest stays within `[-eps, threshold]`, sleeps are never negative, time stamps are ordered -/
theorem debt_bounded (L : Rat) (hL : 0 < L) (eps : Rat) (dmax : Nat) (s : St) (evs : List Ev)
    (hev : ∀ e ∈ evs, EvOk L eps dmax e) (hs : Inv eps s) :
    Inv eps (run L s evs).1 ∧
    ∀ o ∈ (run L s evs).2, -eps ≤ o.debt ∧ o.debt ≤ Gen.pauseThreshold ∧ 0 ≤ o.slept ∧ o.tPre ≤ o.tAcq ∧ o.tAcq ≤ o.tRel := by
  have h := run_good L hL eps dmax evs s hev hs
  refine ⟨h.2, ?_⟩
  intro o ho
  obtain ⟨_, _, g⟩ := good_forall L eps dmax _ _ _ h.1 o ho
  exact ⟨g.debt_lo, g.debt_hi, g.slept_nonneg, g.pre, by have := g.rel; have := g.slept_nonneg; grind⟩

/-- the commands' chunk size `max(rate_limit // (concurrent * 16), 1)` is a request of at most a quarter of the limit
as soon as the limit is at least 4 bytes per second (uses the extracted divisor) -/
theorem chunk_within_quarter (rateLimit concurrent : Nat) (h4 : 4 ≤ rateLimit) (hc : 1 ≤ concurrent) :
    4 * chunkSize rateLimit concurrent ≤ rateLimit := by
  unfold chunkSize
  have hd := divisor_ge_four
  have h1 : rateLimit / (concurrent * Gen.rateDivisor) ≤ rateLimit / 4 := by
    apply Nat.div_le_div_left
    · calc 4 ≤ Gen.rateDivisor := hd
        _ = 1 * Gen.rateDivisor := by omega
        _ ≤ concurrent * Gen.rateDivisor := Nat.mul_le_mul_right _ hc
    · omega
  have h2 : max (rateLimit / (concurrent * Gen.rateDivisor)) 1 ≤ rateLimit / 4 := by
    apply Nat.max_le.mpr
    exact ⟨h1, by omega⟩
  omega

/-- …and below 4 bytes per second it is not: with `rate_limit = 1` the single-byte chunk owes a full second, the cap
forgives half of it (negation witness for `no_forgiveness` without its hypothesis; outside C20's quantifier) -/
theorem low_limit_forgives :
    chunkSize 1 1 = 1 ∧ ((run 1 (St.init 0) [.io 0 (chunkSize 1 1) 0 0]).2.map (·.forgiven)) = [1 / 2] := by
  decide +kernel

/-! ## the window bound -/

/-- **General bound (every history, any number of threads, any latencies).** The bytes of any stretch of
consecutive calls are at most `L · (their latencies + their sleeps) + L · (threshold + eps)`. -/
theorem window_bound_general (L : Rat) (hL : 0 < L) (eps : Rat) (dmax : Nat) (s : St) (before stretch : List Ev)
    (hev : ∀ e ∈ before ++ stretch, EvOk L eps dmax e) (hs : Inv eps s) :
    let obs := (run L (run L s before).1 stretch).2
    sumBytes obs ≤ L * (sumLat obs + sumSlept obs) + L * (Gen.pauseThreshold + eps) := by
  intro obs
  have hb := run_good L hL eps dmax before s (fun e he => hev e (by simp [he])) hs
  have hst := run_good L hL eps dmax stretch (run L s before).1 (fun e he => hev e (by simp [he])) hb.2
  exact general_of_good L hL eps dmax _ _ _ hst.1 hb.2.1 hb.2.2

/-- **Window bound** (the property's statement; time stamp = the moment the wrapper call returns, i.e. the bytes are
handed on).  One thread or zero underlying latency: in every window `[a, b]` at most `L · (b − a) + burst` bytes pass,
`burst = L · (threshold + eps) + dmax`. -/
theorem window_bound_partial (L : Rat) (hL : 0 < L) (eps : Rat) (dmax : Nat) (t0 : Rat) (evs : List Ev)
    (hev : ∀ e ∈ evs, EvOk L eps dmax e) (heps : 0 ≤ eps) (hyp : OneThreadOrZeroLatency evs)
    (a b : Rat) (hab : a ≤ b) :
    winBytes (·.tRel) a b (run L (St.init t0) evs).2 ≤ L * (b - a) + burst L eps dmax := by
  have hinv : RateLimit.Inv eps (St.init t0) := by
    have := thr_nonneg; unfold RateLimit.Inv St.init; simp only; grind
  have hg := (run_good L hL eps dmax evs (St.init t0) hev hinv).1
  have ht : Tight (St.init t0).lockFree (run L (St.init t0) evs).2 := by
    rcases hyp with ⟨i, h1⟩ | h0
    · exact (run_tight_single L eps dmax i evs (St.init t0) h1 hev (by simp [St.init])).1
    · exact run_tight_zero_lat L evs (St.init t0) h0
  have hc := chain_of_good L hL eps dmax _ _ _ hg ht
  have hm := mono_rel_of_good L eps dmax _ _ _ hg
  have hthr := thr_nonneg
  have := window_of_chain L hL psi (·.tRel) (-eps) Gen.pauseThreshold dmax a b _ _ _ hab (by grind) hc hm
    (by
      intro o ho
      obtain ⟨_, _, g⟩ := good_forall L eps dmax _ _ _ hg o ho
      have := g.debt_hi; unfold psi; grind)
    (by
      intro o ho
      obtain ⟨_, _, g⟩ := good_forall L eps dmax _ _ _ hg o ho
      have := g.debt_lo; unfold psi; grind)
    (by
      intro o ho
      obtain ⟨_, _, g⟩ := good_forall L eps dmax _ _ _ hg o ho
      exact g.small)
  unfold burst
  have e1 : L * (b - a + Gen.pauseThreshold - -eps) = L * (b - a) + L * (Gen.pauseThreshold + eps) := by grind
  grind

/-- **Window bound, time stamp = the moment the bytes cross the underlying stream** (one thread):
at most `L · (b − a) + L · (threshold + eps) + 2 · dmax` bytes in every window. -/
theorem window_bound_at_underlying_partial (L : Rat) (hL : 0 < L) (eps : Rat) (dmax : Nat) (t0 : Rat) (evs : List Ev) (i : Nat)
    (hev : ∀ e ∈ evs, EvOk L eps dmax e) (heps : 0 ≤ eps) (h1 : ∀ e ∈ evs, e.stream = i)
    (a b : Rat) (hab : a ≤ b) :
    winBytes (·.tPre) a b (run L (St.init t0) evs).2 ≤ L * (b - a) + burstPre L eps dmax := by
  have hinv : RateLimit.Inv eps (St.init t0) := by
    have := thr_nonneg; unfold RateLimit.Inv St.init; simp only; grind
  have hg := (run_good L hL eps dmax evs (St.init t0) hev hinv).1
  obtain ⟨ht, hpre⟩ := run_tight_single L eps dmax i evs (St.init t0) h1 hev (by simp [St.init])
  have hc := chain_of_good L hL eps dmax _ _ _ hg ht
  have hm := mono_congr (·.tAcq) (·.tPre) _ _ (fun o ho => (hpre o ho).symm) (mono_acq_of_good L eps dmax _ _ _ hg)
  have hthr := thr_nonneg
  have hdm : (0 : Rat) ≤ dmax := by exact_mod_cast Nat.zero_le _
  have hdl : 0 ≤ (dmax : Rat) / L := div_nonneg' hdm hL
  have hcancel := mul_div_cancel' L hL dmax
  have := window_of_chain L hL psi (·.tPre) (-eps) (Gen.pauseThreshold + (dmax : Rat) / L) dmax a b _ _ _ hab (by grind) hc hm
    (by
      intro o ho
      obtain ⟨_, _, g⟩ := good_forall L eps dmax _ _ _ hg o ho
      have h1 := g.pre_hi
      have h2 : L * (o.debt + o.slept) ≤ L * (Gen.pauseThreshold + (dmax : Rat) / L) := by
        have : L * (Gen.pauseThreshold + (dmax : Rat) / L) = L * Gen.pauseThreshold + L * ((dmax : Rat) / L) := by grind
        grind
      have h3 := Rat.le_of_mul_le_mul_left h2 hL
      have h4 := hpre o ho
      have h5 := g.rel
      unfold psi; grind)
    (by
      intro o ho
      obtain ⟨_, _, g⟩ := good_forall L eps dmax _ _ _ hg o ho
      have := g.debt_lo; have := g.slept_nonneg; have := hpre o ho; have := g.rel
      unfold psi; grind)
    (by
      intro o ho
      obtain ⟨_, _, g⟩ := good_forall L eps dmax _ _ _ hg o ho
      exact g.small)
  unfold burstPre
  have e1 : L * (b - a + (Gen.pauseThreshold + (dmax : Rat) / L) - -eps)
      = L * (b - a) + L * (Gen.pauseThreshold + eps) + L * ((dmax : Rat) / L) := by grind
  grind

/-- **Window bound at the underlying stream, `N` threads, no underlying latency**: every thread may have one request
in flight (bytes moved, call waiting for the limiter's lock), hence `N · dmax` more than `window_bound_partial`. -/
theorem window_bound_at_underlying_threads_partial (L : Rat) (hL : 0 < L) (eps : Rat) (dmax : Nat) (t0 : Rat) (evs : List Ev)
    (N : Nat) (hev : ∀ e ∈ evs, EvOk L eps dmax e) (heps : 0 ≤ eps) (h0 : ∀ e ∈ evs, e.lat = 0)
    (hN : ∀ e ∈ evs, e.stream < N) (a b : Rat) (hab : a ≤ b) :
    winBytes (·.tPre) a b (run L (St.init t0) evs).2 ≤ L * (b - a) + burst L eps dmax + N * dmax := by
  have hinv : RateLimit.Inv eps (St.init t0) := by
    have := thr_nonneg; unfold RateLimit.Inv St.init; simp only; grind
  have hg := (run_good L hL eps dmax evs (St.init t0) hev hinv).1
  have hord := (run_stream_order L hL eps dmax evs (St.init t0) hev hinv).2
  have hwin := window_bound_partial L hL eps dmax t0 evs hev heps (Or.inr h0) a b hab
  have hle : ∀ o ∈ (run L (St.init t0) evs).2, o.tPre ≤ o.tRel := by
    intro o ho
    obtain ⟨_, _, g⟩ := good_forall L eps dmax _ _ _ hg o ho
    have := g.pre; have := g.rel; have := g.slept_nonneg; grind
  have hshift := winBytes_pre_le _ a b hle
  have hfl := inflight_le (run L (St.init t0) evs).2 N dmax b hord
    (fun o ho => by obtain ⟨e, he, hs⟩ := run_obs_stream L evs (St.init t0) o ho; rw [← hs]; exact hN e he)
    (fun o ho => by obtain ⟨_, _, g⟩ := good_forall L eps dmax _ _ _ hg o ho; exact g.small)
  grind

/-! ## the full statement is false for several threads with latency (D16) -/

/-- **Counterexample.** `N` threads taking turns, every underlying call of `d ≤ L/4` bytes taking exactly `d / L`
seconds: no debt is ever recorded, nobody sleeps, and the window `[t0, t0 + K·d/L]` carries `N · K · d` bytes —
`N` times what the limit allows. -/
theorem multi_stream_counterexample (L : Rat) (hL : 0 < L) (N d K : Nat) (hd : 4 * (d : Rat) ≤ L) (t0 : Rat) :
    let evs := rounds N d ((d : Rat) / L) K
    let obs := (run L (St.init t0) evs).2
    (∀ e ∈ evs, EvOk L 0 d e) ∧
    (∀ o ∈ obs, o.slept = 0 ∧ o.debt = 0) ∧
    winBytes (·.tRel) t0 (t0 + K * ((d : Rat) / L)) obs = N * (L * (K * ((d : Rat) / L))) := by
  intro evs obs
  have hd0 : (0 : Rat) ≤ d := by exact_mod_cast Nat.zero_le d
  have hlat : 0 ≤ (d : Rat) / L := div_nonneg' hd0 hL
  have hok := rounds_ok L N d ((d : Rat) / L) hd hlat K
  have hspec := rounds_spec L N d hlat K t0 (St.init t0) rfl (by simp [St.init])
    (fun j => by simp [St.init])
  have hinv : RateLimit.Inv 0 (St.init t0) := by
    have := thr_nonneg; unfold RateLimit.Inv St.init; simp only; grind
  have hg := (run_good L hL 0 d evs (St.init t0) hok hinv).1
  have hge : ∀ o ∈ (run L (St.init t0) evs).2, t0 ≤ o.tRel := mono_ge _ _ _ (mono_rel_of_good L 0 d _ _ _ hg)
  refine ⟨hok, fun o ho => (hspec.2 o ho).2, ?_⟩
  show winBytes (·.tRel) t0 (t0 + K * ((d : Rat) / L)) (run L (St.init t0) evs).2 = _
  rw [winBytes_all _ _ _ _ (fun o ho => ⟨hge o ho, (hspec.2 o ho).1⟩), hspec.1]
  have := mul_div_cancel' L hL d
  have e : L * ((K : Rat) * ((d : Rat) / L)) = K * (L * ((d : Rat) / L)) := by grind
  rw [e, this]; grind

/-- **No fixed burst allowance exists** once two threads have latency: for every `B` there is an admissible history
and a window in which more than `L · T + B` bytes pass. -/
theorem no_fixed_burst (L : Rat) (hL : 0 < L) (d : Nat) (hd1 : 1 ≤ d) (hd : 4 * (d : Rat) ≤ L) (B : Rat) :
    ∃ (evs : List Ev) (a b : Rat), a ≤ b ∧ (∀ e ∈ evs, EvOk L 0 d e) ∧
      L * (b - a) + B < winBytes (·.tRel) a b (run L (St.init 0) evs).2 := by
  let K := B.num.natAbs + 1
  have h := multi_stream_counterexample L hL 2 d K hd 0
  obtain ⟨hok, -, hw⟩ := h
  have hd0 : (0 : Rat) ≤ d := by exact_mod_cast Nat.zero_le d
  have hlat : 0 ≤ (d : Rat) / L := div_nonneg' hd0 hL
  have hK0 : (0 : Rat) ≤ K := by exact_mod_cast Nat.zero_le K
  refine ⟨rounds 2 d ((d : Rat) / L) K, 0, 0 + K * ((d : Rat) / L), ?_, hok, ?_⟩
  · have := Rat.mul_nonneg hK0 hlat; grind
  · rw [hw]
    have hc := mul_div_cancel' L hL d
    have e : L * ((K : Rat) * ((d : Rat) / L)) = K * (L * ((d : Rat) / L)) := by grind
    have e2 : L * (0 + (K : Rat) * ((d : Rat) / L) - 0) = K * (L * ((d : Rat) / L)) := by grind
    rw [e2, e, hc]
    have hB := rat_le_natAbs B
    have hK : (K : Rat) = (B.num.natAbs : Rat) + 1 := by exact_mod_cast rfl
    have hd1' : (1 : Rat) ≤ d := by exact_mod_cast hd1
    have hKd : (K : Rat) * 1 ≤ K * d := Rat.mul_le_mul_of_nonneg_left hd1' hK0
    have : ((2 : Nat) : Rat) = 2 := by exact_mod_cast rfl
    rw [this]; grind

/-! ## two directions -/

/-- **Reads and writes are limited independently.** What direction `d` observes in a mixed history is exactly a
one-direction history in which the calls of the other direction are idle time of their thread — so every theorem
above applies to each direction of a mixed history. -/
theorem directions_independent (Lr Lw : Rat) (d : Dir) (t0 : Rat) (evs : List Ev2) :
    obsOf d (run2 Lr Lw (St2.init t0) evs).2 = (run (limitOf Lr Lw d) (St.init t0) (proj Lr Lw d (St2.init t0) evs)).2 := by
  have := (proj_sim Lr Lw d evs (St2.init t0)).1
  have hv : (St2.init t0).view d = St.init t0 := by cases d <;> rfl
  rw [hv] at this
  exact this

/-! ## transparency -/

/-- **Transparent.** Over any underlying stream `u`, the results returned through the wrapper and the final state of
the underlying stream are those of applying the same operations to the stream directly — nothing is altered,
dropped, duplicated or reordered, whatever the limiter state, latencies and oversleeps. -/
theorem transparent {F : Type} (u : F → FOp → F × FRes) (Lr Lw : Rat) (i : Nat) (f : F) (s : St2)
    (ops : List (FOp × Rat × Rat)) :
    ((wrapRun u Lr Lw i f s ops).1, (wrapRun u Lr Lw i f s ops).2.1) = plainRun u f (ops.map (·.1)) := by
  induction ops generalizing f s with
  | nil => rfl
  | cons op rest ih =>
    obtain ⟨o, lat, ov⟩ := op
    have h := wrapStep_fst u Lr Lw i f s o lat ov
    have := ih (wrapStep u Lr Lw i f s o lat ov).1 (wrapStep u Lr Lw i f s o lat ov).2.2.1
    simp only [wrapRun, List.map_cons, plainRun]
    rw [h.1] at this ⊢
    have h1 := congrArg Prod.fst this
    have h2 := congrArg Prod.snd this
    simp only at h1 h2
    rw [h1, h2, h.2]

/-- `seek`, `tell`, `truncate` (and a call in which the underlying stream raises) act on the underlying stream only:
the limiter state is untouched and nothing is accounted. -/
theorem seek_tell_truncate_delegate {F : Type} (u : F → FOp → F × FRes) (Lr Lw : Rat) (i : Nat) (f : F) (s : St2)
    (op : FOp) (lat ov : Rat) (h : accounted op (u f op).2 = none) :
    wrapStep u Lr Lw i f s op lat ov = ((u f op).1, (u f op).2, s, none) := by
  unfold wrapStep
  simp only
  unfold accounted at h
  split <;> simp_all

/-- the limiter is charged exactly the number of bytes each `read` returned / each `write` reported, in call order -/
theorem accounted_bytes_exact {F : Type} (u : F → FOp → F × FRes) (Lr Lw : Rat) (i : Nat) (f : F) (s : St2)
    (ops : List (FOp × Rat × Rat)) :
    (wrapRun u Lr Lw i f s ops).2.2.2.map (fun p => (p.1, p.2.bytes)) =
      (List.zip (ops.map (·.1)) (plainRun u f (ops.map (·.1))).2).filterMap (fun p => accounted p.1 p.2) := by
  induction ops generalizing f s with
  | nil => rfl
  | cons op rest ih =>
    obtain ⟨o, lat, ov⟩ := op
    have h := wrapStep_fst u Lr Lw i f s o lat ov
    have ho := wrapStep_obs u Lr Lw i f s o lat ov
    have := ih (wrapStep u Lr Lw i f s o lat ov).1 (wrapStep u Lr Lw i f s o lat ov).2.2.1
    simp only [wrapRun, List.map_cons, plainRun, List.zip_cons_cons, List.map_append, List.filterMap_cons]
    rw [this, h.1]
    cases hacc : accounted o (u f o).2 with
    | none =>
      rw [hacc] at ho
      cases hw : (wrapStep u Lr Lw i f s o lat ov).2.2.2 with
      | none => simp
      | some p => rw [hw] at ho; simp at ho
    | some q =>
      rw [hacc] at ho
      cases hw : (wrapStep u Lr Lw i f s o lat ov).2.2.2 with
      | none => rw [hw] at ho; simp at ho
      | some p => rw [hw] at ho; simp at ho; simp [ho]

/-- on the in-memory file, a sequence of reads through the wrapper delivers the stored bytes from the current
position in order, each once: what was delivered followed by what is still unread is what was there -/
theorem reads_in_order (Lr Lw : Rat) (i : Nat) (s : St2) (reads : List (Option Nat × Rat × Rat)) (f : MemFile) :
    let r := wrapRun MemFile.apply Lr Lw i f s (reads.map (fun q => (FOp.read q.1, q.2)))
    ∃ outs : List Bytes, r.2.1 = outs.map FRes.data ∧ r.1.data = f.data ∧
      outs.flatten ++ r.1.data.drop r.1.pos = f.data.drop f.pos := by
  induction reads generalizing f s with
  | nil => exact ⟨[], rfl, rfl, by simp [wrapRun]⟩
  | cons q rest ih =>
    obtain ⟨size, lat, ov⟩ := q
    obtain ⟨out, hout, hcat⟩ := memfile_read f size
    have h := wrapStep_fst MemFile.apply Lr Lw i f s (.read size) lat ov
    rw [hout] at h
    obtain ⟨outs, h1, h2, h3⟩ := ih (wrapStep MemFile.apply Lr Lw i f s (.read size) lat ov).2.2.1 ⟨f.data, f.pos + out.length⟩
    simp only [List.map_cons, wrapRun]
    rw [h.1]
    refine ⟨out :: outs, ?_, h2, ?_⟩
    · simp only [List.map_cons, List.cons.injEq]; exact ⟨h.2, h1⟩
    · simp only [List.flatten_cons, List.append_assoc]
      rw [h3]; exact hcat

/-! ## non-vacuity -/
example : EvOk 1024 0 256 (.io 0 256 0 0) := by refine ⟨?_, ?_, ?_, ?_, ?_⟩ <;> decide +kernel
example : (run 1024 (St.init 0) [.io 0 256 0 0, .io 0 256 0 0]).2.map (·.slept) = [0, 1 / 2] := by decide +kernel
example : OneThreadOrZeroLatency [.io 0 256 0 0, .io 1 256 0 0] := Or.inr (by decide +kernel)

/-! # The limit as the user writes it, and the piece sizes derived from it

Model: `ReplicatModel/SizeLit.lean` (character-level `parse` following `HUMAN_SIZE_REGEX` under `re.fullmatch`,
`bytesDec` = the `Decimal` arithmetic of `human_to_bytes` step by step, `bytes` = the exact floor, `rateLimit` =
`_rate_limit`, `evalPiece` on the extracted piece-size expressions).  Helper lemmas: `Lemmas/SizeLit.lean`.

* `parse` covers EVERY string: digits and white space are the Unicode classes of the interpreter (`Gen.decimalZeros`,
  `Gen.spaceChars`), `size_literal_grammar` says that `parse` is exactly the declarative grammar `Spells`.
* `bytesDec` is what the code computes for every literal; it equals the exact value under `exactGuard`
  (coefficient · prefix · unit-coefficient < 10^28, or nothing multiplied): `size_literal_value`.  Beyond the guard the
  28-digit context rounds, `size_literal_guard_needed` is a kernel-checked witness (the harness replays it on the real code):
  that is why `rate_limit_option_accepts_iff_partial` carries the guard, while `rate_limit_option_accepts_iff` and
  `rate_limit_never_below_one` hold for every string.
-/
section SizeLiteral
open Replicat.SizeLit

/-- **The parser is the grammar.**  A string is matched with groups `l` iff `l` is a literal (`WF`) and the string spells
it: digits of any script, optionally `.` and at least one digit, white space, a key of `PREFIXES_TABLE`, a key of
`UNITS_TABLE` — in this order, nothing before, nothing after (`fullmatch`). -/
theorem size_literal_grammar (s : List Char) (l : Lit) : parse s = some l ↔ l.WF ∧ Spells s l :=
  ⟨parse_sound, fun h => parse_complete h.1 h.2⟩

/-- **Round trip.**  The canonical rendering of every literal is parsed back to exactly that literal. -/
theorem size_literal_roundtrip (l : Lit) (h : l.WF) : parse (render l) = some l :=
  parse_complete h (spells_render h)

/-- **Value.**  Under the guard the number `human_to_bytes` returns is ⌊mantissa · prefix · unit⌋: no multiplication of
the 28-digit context rounds, and the truncation of `int()` is the floor of the exact rational value. -/
theorem size_literal_value (l : Lit) (hwf : l.WF) (g : exactGuard l) :
    bytesDec l = bytes l ∧ ((bytes l : Nat) : Int) = (ratValue l).floor :=
  ⟨bytesDec_eq_bytes hwf g, bytes_floor l⟩

/-- the exact value by itself, for every literal (no guard): `bytes` is the floor of mantissa · prefix · unit -/
theorem size_literal_exact_floor (l : Lit) :
    ((bytes l : Nat) : Rat) ≤ ratValue l ∧ ratValue l < ((bytes l : Nat) : Rat) + 1 := by
  have h := bytes_floor l
  have h1 := Rat.floor_le (ratValue l)
  have h2 := Rat.lt_floor_add_one (ratValue l)
  rw [← h] at h1 h2
  rw [Rat.intCast_natCast] at h1
  rw [Rat.intCast_add, Rat.intCast_natCast] at h2
  exact ⟨h1, h2⟩

/-- **Beyond the guard the arithmetic is not exact** (kernel-checked witness, replayed on the real code by the harness):
`0.9999999999999999999999999999999B` (31 nines) is less than one byte per second, its exact floor is 0, but
`Decimal * 1` rounds it to 28 digits = 1 and the option is accepted with limit 1; the same digits without the `B`
are not multiplied at all and are rejected. -/
theorem size_literal_guard_needed :
    let nines := List.replicate 31 '9'
    ∃ l, parse ('0' :: '.' :: nines ++ ['B']) = some l ∧ l.WF ∧ ¬ exactGuard l ∧ bytes l = 0 ∧ bytesDec l = 1 ∧
      rateLimit ('0' :: '.' :: nines ++ ['B']) = .ok 1 ∧ rateLimit ('0' :: '.' :: nines) = .error .notNatural := by
  refine ⟨⟨[0], some (List.replicate 31 9), 0, none, some ('B', 1, 0)⟩, ?_⟩
  decide +kernel

/-- **Monotone.**  A literal whose exact value is not smaller never yields a smaller limit — for the exact value always,
and for the value the code computes under the guard. -/
theorem size_literal_monotone (l1 l2 : Lit) (h : ratValue l1 ≤ ratValue l2) :
    bytes l1 ≤ bytes l2 ∧
    (l1.WF → l2.WF → exactGuard l1 → exactGuard l2 → bytesDec l1 ≤ bytesDec l2) := by
  refine ⟨bytes_mono h, fun w1 w2 g1 g2 => ?_⟩
  rw [bytesDec_eq_bytes w1 g1, bytesDec_eq_bytes w2 g2]
  exact bytes_mono h

/-- **Acceptance (every string).**  `_rate_limit` returns `n` iff the string spells a literal whose computed value is `n`
and `n ≥ 1`. -/
theorem rate_limit_option_accepts_iff (s : List Char) (n : Nat) :
    rateLimit s = .ok n ↔ ∃ l, l.WF ∧ Spells s l ∧ bytesDec l = n ∧ 1 ≤ n := by
  unfold rateLimit
  constructor
  · intro h
    cases hp : parse s with
    | none => simp [hp] at h
    | some l =>
      simp only [hp] at h
      split at h
      · simp at h
      · next hn =>
        simp at h
        obtain ⟨w, sp⟩ := parse_sound hp
        exact ⟨l, w, sp, h, by omega⟩
  · rintro ⟨l, w, sp, rfl, hn⟩
    rw [parse_complete w sp]
    have : ¬ bytesDec l < 1 := by omega
    simp [this]

/-- **Acceptance in terms of the written value** — accepted ⇔ well-formed ∧ value ≥ 1 byte/s, and then the limit is the
floor of the value.  `_partial`: needs `exactGuard` (spelled out; `size_literal_guard_needed` shows that beyond it a value
below one byte per second can be accepted). -/
theorem rate_limit_option_accepts_iff_partial (s : List Char) (l : Lit) (hp : parse s = some l) (g : exactGuard l) :
    ((∃ n, rateLimit s = .ok n) ↔ 1 ≤ ratValue l) ∧
    (∀ n, rateLimit s = .ok n → (n : Int) = (ratValue l).floor) := by
  have w := (parse_sound hp).1
  have e := bytesDec_eq_bytes w g
  have f := bytes_floor l
  unfold rateLimit
  simp only [hp, e]
  constructor
  · constructor
    · rintro ⟨n, h⟩
      split at h
      · simp at h
      · next hn =>
        have : (1 : Int) ≤ (ratValue l).floor := by rw [← f]; omega
        have := Rat.le_floor_iff.mp this
        simpa using this
    · intro h
      have : (1 : Int) ≤ (ratValue l).floor := Rat.le_floor_iff.mpr (by simpa using h)
      rw [← f] at this
      have : ¬ bytes l < 1 := by omega
      exact ⟨bytes l, by simp [this]⟩
  · intro n h
    split at h
    · simp at h
    · simp at h; rw [← h]; exact f

/-- **A zero or negative limit never reaches `RateLimitedIO`.**  Whatever text the option's type function is handed, the limit
a command gets is absent or at least 1; a sign is never part of a literal.  (argparse, which hands the text over, is trusted
base — see `limitOfCommand` for the one quirk observed.) -/
theorem rate_limit_never_below_one :
    (∀ s n, rateLimit s = .ok n → 1 ≤ n) ∧
    (∀ cli n, limitOfCommand cli = .ok (some n) → 1 ≤ n) ∧
    (∀ s, rateLimit ('-' :: s) = .error .noMatch ∧ rateLimit ('+' :: s) = .error .noMatch) := by
  have h1 : ∀ s n, rateLimit s = .ok n → 1 ≤ n := by
    intro s n h
    obtain ⟨_, _, _, _, hn⟩ := (rate_limit_option_accepts_iff s n).mp h
    exact hn
  refine ⟨h1, ?_, ?_⟩
  · intro cli n h
    unfold limitOfCommand at h
    cases cli with
    | none => simp at h
    | some s =>
      simp only at h
      cases hr : rateLimit s with
      | error e => simp [hr] at h
      | ok m =>
        simp [hr] at h
        subst h
        exact h1 s m hr
  · intro s
    have m : digitVal '-' = none ∧ '-' ≠ '.' ∧ digitVal '+' = none ∧ '+' ≠ '.' := by decide
    simp [rateLimit, parse_nonDigit_head s m.1 m.2.1, parse_nonDigit_head s m.2.2.1 m.2.2.2]

/-- the documented prefixes: decimal `k M g` = 10^3, 10^6, 10^9; binary `Ki Mi Gi` = 2^10, 2^20, 2^30; either case -/
def documentedPrefixes : List (List Char × Nat) :=
  [(['k'], 1000), (['K'], 1000), (['K', 'i'], 1024), (['k', 'i'], 1024),
   (['M'], 1000 ^ 2), (['m'], 1000 ^ 2), (['M', 'i'], 1024 ^ 2), (['m', 'i'], 1024 ^ 2),
   (['g'], 1000 ^ 3), (['G'], 1000 ^ 3), (['g', 'i'], 1024 ^ 3), (['G', 'i'], 1024 ^ 3)]

/-- **Facts about the source the theorems above stand on** — regenerated by the extractor on every build and discharged
here by `decide`: the prefix table is the documented one (as a set: the alternation of the regex is built from the table in
whatever order it has, and `matchTail_table` re-proves for that order that every row is found again), the unit table (`B` = 1, `b` = 0.125), the regex has the shape `parse` was
written from (built from those tables) and is used with `fullmatch` on a Unicode `str` pattern, the arithmetic context is the untouched default one (28 digits, half-even), the option is
`-L` / `--limit-rate` with `type=_rate_limit` on the four commands, nothing but the command line supplies the limit, and the
piece size is `max(rate_limit // (self._concurrent * 16), 1)` at all four call sites. -/
theorem size_literal_source_facts :
    (Gen.sizePrefixes.length = documentedPrefixes.length ∧
      Gen.sizePrefixes.all (fun p => documentedPrefixes.contains p) = true ∧
      documentedPrefixes.all (fun p => Gen.sizePrefixes.contains p) = true) ∧
    Gen.sizeUnits = [('B', 1, 0), ('b', 125, 3)] ∧
    Gen.sizeRegex = expectedRegex (Gen.sizePrefixes.map (·.1)) (Gen.sizeUnits.map (·.1)) ∧
    Gen.sizeRegexGroups = (1, 3, 4) ∧ Gen.sizeRegexGroupCount = 3 ∧
    Gen.sizeRegexUnicode = true ∧ Gen.sizeRegexFullmatch = true ∧ Gen.sizeNamesRebound = false ∧
    Gen.decimalPrec = 28 ∧ Gen.decimalHalfEven = true ∧ Gen.decimalContextTouched = false ∧
    Gen.rateLimitOptions = List.replicate 4 (["-L", "--limit-rate"], "_rate_limit", []) ∧
    Gen.rateLimitFromFile = false ∧ Gen.rateLimitFromEnv = false ∧
    Gen.pieceSites =
      [("snapshot", expectedPiece), ("restore", expectedPiece),
       ("upload_objects", expectedPiece), ("download_objects", expectedPiece)] ∧
    Gen.sizelitSectionOk = true := by
  decide

/-- **Piece sizes.**  At each of the four call sites, for every limit and every `concurrent ≥ 1`, the piece handed to
`upload_stream` / `download_stream` is the chunk size of the limiter theorems (`RateLimit.chunkSize`), is at least one byte,
at most the limit (at most 1 for a zero limit), and `16 · concurrent` pieces fit into one second's allowance unless the
piece is the one-byte floor; with `concurrent = 0` the expression raises `ZeroDivisionError`. -/
theorem transfer_piece_bounds (site : String × List Gen.PieceTok) (hs : site ∈ Gen.pieceSites) (limit conc : Nat) :
    (1 ≤ conc → ∃ p, evalPiece site.2 limit conc = .ok p ∧ p = RateLimit.chunkSize limit conc ∧
        1 ≤ p ∧ p ≤ max limit 1 ∧ p * 16 * conc ≤ max limit (16 * conc)) ∧
    (conc = 0 → evalPiece site.2 limit conc = .error .zeroDivision) := by
  have hsite : site.2 = expectedPiece := by
    have := size_literal_source_facts.2.2.2.2.2.2.2.2.2.2.2.2.2.2.1
    rw [this] at hs
    simp at hs
    rcases hs with h | h | h | h <;> rw [h]
  rw [hsite, evalPiece_expected]
  constructor
  · intro hc
    have hne : ¬ conc * 16 = 0 := by omega
    refine ⟨max (limit / (conc * 16)) 1, by simp [hne], ?_, ?_, ?_, ?_⟩
    · have : Gen.rateDivisor = 16 := by decide
      simp [RateLimit.chunkSize, this]
    · exact Nat.le_max_right _ _
    · apply Nat.max_le.mpr
      exact ⟨Nat.le_trans (Nat.div_le_self _ _) (Nat.le_max_left _ _), Nat.le_max_right _ _⟩
    · by_cases hq : 1 ≤ limit / (conc * 16)
      · rw [Nat.max_eq_left hq]
        have := Nat.div_mul_le_self limit (conc * 16)
        have e : limit / (conc * 16) * 16 * conc = limit / (conc * 16) * (conc * 16) := by
          rw [Nat.mul_assoc, Nat.mul_comm 16 conc]
        rw [e]
        exact Nat.le_trans this (Nat.le_max_left _ _)
      · have : max (limit / (conc * 16)) 1 = 1 := by omega
        rw [this]
        have := Nat.le_max_right limit (16 * conc)
        omega
  · intro hc
    simp [hc]

/-! ## non-vacuity (size literals) -/
example : (⟨[1], some [5], 0, some (['M', 'i'], 1024 ^ 2), none⟩ : Lit).WF := by decide
example : parse ['1', '.', '5', 'M', 'i'] = some ⟨[1], some [5], 0, some (['M', 'i'], 1024 ^ 2), none⟩ := by decide +kernel
example : rateLimit ['1', '.', '5', 'M', 'i'] = .ok 1572864 := by decide +kernel
example : exactGuard ⟨[1], some [5], 0, some (['M', 'i'], 1024 ^ 2), none⟩ := by decide +kernel
example : rateLimit ['1', 'K', 'i', 'b'] = .ok 128 ∧ rateLimit ['7', 'b'] = .error .notNatural ∧ rateLimit ['8', 'b'] = .ok 1 := by decide +kernel
example : rateLimit ['1', '.'] = .error .noMatch ∧ rateLimit ['1', ' ', 'k', ' ', 'b'] = .error .noMatch ∧ rateLimit [] = .error .noMatch := by decide +kernel
example : ratValue ⟨[0], some [5], 0, none, none⟩ ≤ ratValue ⟨[1], none, 0, none, none⟩ := by decide +kernel
example : ("snapshot", expectedPiece) ∈ Gen.pieceSites := by decide
example : evalPiece expectedPiece 1000 5 = .ok 12 ∧ evalPiece expectedPiece 3 5 = .ok 1 := by decide

end SizeLiteral

/-! ## the wrapper stack of the commands and the loop that drains it (`ReplicatModel/IOStack.lean`)

Transparency clause of C20 for the WHOLE stack TQDMIOReader/Writer → CallbackIOWrapper → _RateLimitedFileWrapper → stream.
`Gen.ioWrapperTable` (probed from the classes), `Gen.ioStackSites` (order of wrapping at the four call sites) and
`Gen.ioIterChunksShape` are regenerated on every run; `iostack_source_facts` compares them with the model's own tables. -/
section IOStackSection
open Replicat.IOStack

/-- the source still has the shape the model was written from (per class and method: which method of the wrapped object gets
    the arguments, what is told to tracker / limiter / callback afterwards; the four stacks; the read loop) -/
theorem iostack_source_facts :
    Gen.ioWrapperTable = specTable ∧ Gen.ioStackSites = siteTable ∧ Gen.ioIterChunksShape = "read-until-empty" := by
  decide

/-- REFINEMENT, every stack (any layers in any order), every file, every sequence of operations: the results returned through
    the stack and the final underlying file are those of the bare file (a method the wrappers do not have raises, touches nothing) -/
theorem iostack_transparent (ls : List Layer) (f : File) (ops : List Op) :
    (runStack ls f ops).1 = (runBare ls f ops).1 ∧ (runStack ls f ops).2.1 = (runBare ls f ops).2 :=
  runStack_refines ls ops f

/-- … and when every operation is one the stack has, that is literally the plain file -/
theorem iostack_transparent_offered (ls : List Layer) (f : File) (ops : List Op)
    (h : ∀ op ∈ ops, offers ls op.meth = true) :
    (runStack ls f ops).1 = (runFile f ops).1 ∧ (runStack ls f ops).2.1 = (runFile f ops).2 := by
  have a := runStack_refines ls ops f
  rw [runBare_eq_runFile ls ops f h] at a
  exact a

/-- what the four stacks offer: seek and truncate always, read on the upload side, write on the download side, never tell -/
theorem iostack_command_stacks_offer (c : Cmd) (limited : Bool) :
    offers (commandStack c limited) .seek = true ∧ offers (commandStack c limited) .truncate = true ∧
    offers (commandStack c limited) .tell = false ∧
    offers (commandStack c limited) .read = decide (c = .snapshot ∨ c = .uploadObjects) ∧
    offers (commandStack c limited) .write = decide (c = .restore ∨ c = .downloadObjects) := by
  cases c <;> cases limited <;> decide

/-- `truncate` through a command's stack: the tracker is RESET — count 0, total = the new size — although the position of the
    stream does not move (mirrors `TQDMIOBase.truncate`; cosmetic: the bar restarts from 0 after b2/s3c/local `truncate(length)`) -/
theorem iostack_truncate_resets_tracker (c : Cmd) (limited : Bool) (f : File) (n : Option Int) (s : Nat)
    (h : (f.truncate n).2 = .num s) (n0 : Nat) (t0 : Option Nat) :
    (stackStep (commandStack c limited) f (.truncate n)).2.2 = [.reset (some s)] ∧
    trackerN n0 (stackStep (commandStack c limited) f (.truncate n)).2.2 = 0 ∧
    trackerTotal t0 (stackStep (commandStack c limited) f (.truncate n)).2.2 = some s ∧
    (stackStep (commandStack c limited) f (.truncate n)).1.pos = f.pos := by
  have hp : (f.truncate n).1.pos = f.pos := by
    cases n with
    | none =>
      have hp0 : ¬ ((f.pos : Int) < 0) := by omega
      simp [File.truncate, hp0]
    | some k => by_cases hk : k < 0 <;> simp [File.truncate, hk]
  cases c <;> cases limited <;>
    simp [commandStack, stackStep, layerSpec, Op.meth, File.apply, effEvents, h, hp, trackerN, trackerStep, trackerTotal, totalStep]

/-- so "the tracker shows the position" is FALSE after a truncate (kernel-checked witness; snapshot stack, 3 bytes read, truncate()) -/
theorem iostack_tracker_not_position_after_truncate :
    ∃ (f : File) (ops : List Op),
      trackerN 0 (runStack (commandStack .snapshot true) f ops).2.2 ≠ (runStack (commandStack .snapshot true) f ops).1.pos :=
  ⟨⟨.bytesio, [1, 2, 3, 4, 5], 0, 0⟩, [.read (some 3), .truncate none], by decide⟩

/-- `iter_chunks(stack, cs)`, cs ≥ 1, any stack that has `read`, any file INCLUDING a short-reading one: non-empty pieces of at
    most cs bytes (at most `cap` for a short-reading stream — more pieces, same bytes), concatenation = the content from the
    current position, the loop stops at the first empty read (which only the end of the stream produces), content untouched -/
theorem iostack_iter_chunks_delivers (ls : List Layer) (cs : Int) (f : File) (hoff : offers ls .read = true) (hcs : 1 ≤ cs) :
    (drain ls cs f).pieces.flatten = f.content.drop f.pos ∧ (drain ls cs f).ended = true ∧
    (∀ p ∈ (drain ls cs f).pieces, 0 < p.length ∧ (p.length : Int) ≤ cs ∧ (f.cap ≠ 0 → p.length ≤ f.cap)) ∧
    (drain ls cs f).file.content = f.content ∧ (drain ls cs f).file.pos = f.pos + f.avail := by
  have a := iterChunks_stack_eq_bare ls cs hoff (drainFuel f) f
  have b := iterChunks_bare cs hcs (drainFuel f) f (by simp [drainFuel])
  unfold drain
  rw [a.1, a.2.1, a.2.2]
  exact b

/-- chunk size 0: `read(0)` is empty, so the loop delivers NOTHING and reports a normal end (mirrors `iter(…, b'')`) -/
theorem iostack_iter_chunks_zero (ls : List Layer) (f : File) (hoff : offers ls .read = true) :
    (drain ls 0 f).pieces = [] ∧ (drain ls 0 f).ended = true ∧ (drain ls 0 f).file = f := by
  have a := iterChunks_stack_eq_bare ls 0 hoff (drainFuel f) f
  unfold drain
  rw [a.1, a.2.1, a.2.2]
  have hk : f.readLen (some 0) = 0 := by
    unfold File.readLen; by_cases hc : f.cap = 0 <;> simp [hc]
  simp [drainFuel, iterChunks, stackStep, File.apply, File.read, hk]

/-- a stack without `read` (the download side): the first call raises, nothing is delivered, nothing is touched -/
theorem iostack_iter_chunks_no_read (ls : List Layer) (cs : Int) (f : File) (hoff : offers ls .read = false) :
    (drain ls cs f).pieces = [] ∧ (drain ls cs f).ended = false ∧ (drain ls cs f).file = f := by
  have h := stackStep_fst_snd ls f (.read (some cs))
  simp [bareStep, Op.meth, hoff] at h
  simp [drain, drainFuel, iterChunks, h.1, h.2]

/-- RETRY: `seek(0)` through the whole stack, then a full drain, re-delivers exactly the content — whatever the position was
    (e.g. after an attempt that failed half way) — and leaves the content as it was, so every further retry delivers the same -/
theorem iostack_rewind_redelivers (ls : List Layer) (cs : Int) (f : File)
    (hr : offers ls .read = true) (hs : offers ls .seek = true) (hcs : 1 ≤ cs) :
    (rewindDrain ls cs f).pieces.flatten = f.content ∧ (rewindDrain ls cs f).ended = true ∧
    (rewindDrain ls cs f).file.content = f.content ∧
    (rewindDrain ls cs (rewindDrain ls cs f).file).pieces.flatten = (rewindDrain ls cs f).pieces.flatten := by
  have key : ∀ g : File, (rewindDrain ls cs g).pieces.flatten = g.content ∧ (rewindDrain ls cs g).ended = true ∧
      (rewindDrain ls cs g).file.content = g.content := by
    intro g
    have h := (stackStep_fst_snd ls g (.seek 0 0)).1
    have hb : (bareStep ls g (.seek 0 0)).1 = { g with pos := 0 } := by
      simp [bareStep, Op.meth, hs, File.apply, File.seek]
    rw [hb] at h
    have d := iostack_iter_chunks_delivers ls cs { g with pos := 0 } hr hcs
    unfold rewindDrain
    rw [h]
    exact ⟨by simpa using d.1, d.2.1, d.2.2.2.1⟩
  have k1 := key f
  have k2 := key (rewindDrain ls cs f).file
  exact ⟨k1.1, k1.2.1, k1.2.2, by rw [k2.1, k1.2.2, k1.1]⟩

/-! non-vacuity -/
example : (runStack (commandStack .uploadObjects true) ⟨.bytesio, [1, 2, 3, 4, 5], 1, 0⟩ [.read (some 2), .seek 0 0, .read none]).2
    = ([.bytes [2, 3], .num 0, .bytes [1, 2, 3, 4, 5]],
       [.pause false 2, .callback 2, .update 2, .reset none, .update 0, .pause false 5, .callback 5, .update 5]) := by decide
example : (drain (commandStack .snapshot true) 2 ⟨.bytesio, [1, 2, 3, 4, 5], 0, 0⟩).pieces = [[1, 2], [3, 4], [5]] := by decide
example : (drain (commandStack .snapshot false) 4 ⟨.bytesio, [1, 2, 3, 4, 5], 0, 3⟩).pieces = [[1, 2, 3], [4, 5]] := by decide
example : (runStack (commandStack .restore true) ⟨.osfile, [1, 2], 4, 0⟩ [.write [9], .truncate (some 7)]).1.content = [1, 2, 0, 0, 9, 0, 0] := by decide

end IOStackSection

end Replicat.C20
