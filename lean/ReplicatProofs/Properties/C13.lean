import ReplicatProofs.Lemmas.Store
import ReplicatProofs.Lemmas.Paging
import ReplicatProofs.Lemmas.LocalSpec
import ReplicatProofs.Lemmas.ObjCmd
import ReplicatProofs.Lemmas.StoreLocation
import ReplicatProofs.Lemmas.LocalConc
/-!
# C13 — all backends behave as the same simple object store

Specification: `Store.Spec = Name → Option Bytes` with `Store.SpecStep` (what every operation must return and do).
Property theorems only; helper lemmas live in `Lemmas/Store.lean`, `Lemmas/Paging.lean`, `Lemmas/LocalFS.lean`.
-/
namespace Replicat.C13
open Replicat Replicat.Store Replicat.Paging Replicat.LocalFS

/-- side conditions every adapter shares: the streamed variants are called with a chunk size ≥ 1 -/
def ChunkOk : Op → Prop
  | .uploadStream _ _ c => 1 ≤ c
  | .downloadStream _ c _ => 1 ≤ c
  | _ => True

/-- the name an operation addresses satisfies `P` (listings: no condition) -/
def NameOk (P : Name → Prop) (op : Op) : Prop :=
  match op.name? with
  | some n => P n
  | none => True

/-! ## pagination -/

/-- **S3 pagination is complete.** Against every protocol-conformant service (any split of the matching keys into pages,
any order of the XML elements inside a page) the `IsTruncated` / `NextContinuationToken` loop returns exactly the keys the
service holds, in order, each as often as served, sends exactly one request per page, and terminates: any fuel ≥ the number
of pages gives the same result. -/
theorem s3_paging_complete (respond : Option Name → List Elem) (ks : List Name) (n : Nat)
    (hc : S3Conf respond none ks n) (fuel : Nat) (hf : n ≤ fuel) :
    s3List respond fuel = some ks ∧ s3Requests respond fuel ⟨Gen.s3LoopStartsTruncated, none⟩ = n := by
  unfold s3List
  rw [gen_startsTruncated]
  exact s3Loop_conf respond none ks n hc fuel hf ⟨true, none⟩ rfl rfl

/-- **B2 pagination is complete** (`nextFileName` loop), same statement. -/
theorem b2_paging_complete (respond : Option Name → B2Page) (ks : List Name) (n : Nat)
    (hc : B2Conf respond none ks n) (fuel : Nat) (hf : n ≤ fuel) :
    b2List respond fuel = some ks ∧ b2Requests respond fuel none = n :=
  b2Loop_conf respond none ks n hc fuel hf

/-- **Every page size ≥ 1.** The services that cut the listing into pages of `ps` names are protocol-conformant, so both
loops return exactly the names the service holds, each once, however many pages that takes. -/
theorem paging_complete (ps : Nat) (hps : 1 ≤ ps) (names : List Name) (hnd : names.Nodup) :
    s3List (s3Serve ps names) (names.length + 1) = some names ∧
    b2List (b2Serve ps names) (names.length + 1) = some names := by
  obtain ⟨n, hn, hc⟩ := s3Serve_conf ps hps names
  obtain ⟨m, hm, hb⟩ := b2Serve_conf ps hps names hnd
  exact ⟨(s3_paging_complete _ names n hc _ hn).1, (b2_paging_complete _ names m hb _ hm).1⟩

/-- the flag test and the sticky token are what the loop really depends on: a page that says `IsTruncated = true` and
carries no token makes the loop ask for the same page again (so the conformance hypothesis is not vacuous) -/
theorem s3_nonconformant_witness :
    s3List (fun _ => [(tagIsTruncated, "true".toList), (tagKey, "k".toList)]) 5 = none := by decide

/-! ## streams -/

/-- **Streamed transfers are lossless** for every chunk size ≥ 1: the bytes that reach the service are the payload, and a
sink with arbitrary previous content holds exactly the object afterwards. -/
theorem stream_lossless (c : Nat) (hc : 1 ≤ c) (d sink : Bytes) : streamed c d = d ∧ sinkAfter sink c d = d :=
  ⟨streamed_eq c hc d, sinkAfter_eq sink c hc d⟩

/-! ## the executable specification and the S3 adapter -/

/-- the association-list store run by the driver is the specification -/
theorem map_refines (s : MapStore) (hinv : s.Inv) (op : Op) :
    (s.step op).1.Inv ∧ SpecStep s.abs op (s.step op).1.abs (s.step op).2 := by
  cases op with
  | upload n d => exact ⟨MapStore.inv_put s n d hinv, MapStore.abs_put s n d, rfl⟩
  | uploadStream n d c => exact ⟨MapStore.inv_put s n d hinv, MapStore.abs_put s n d, rfl⟩
  | delete n => exact ⟨MapStore.inv_erase s n hinv, MapStore.abs_erase s n, rfl⟩
  | exists_ n => exact ⟨hinv, rfl, rfl⟩
  | download n =>
    refine ⟨hinv, rfl, ?_⟩
    simp only [MapStore.step, MapStore.abs]
  | downloadStream n c sink =>
    refine ⟨hinv, rfl, ?_⟩
    simp only [MapStore.step, MapStore.abs]
  | list pfx =>
    obtain ⟨h1, h2⟩ := MapStore.list_ok s hinv pfx
    exact ⟨hinv, rfl, _, rfl, h1, h2⟩

/-- **The S3 adapter refines the map**, for every page size ≥ 1, on names without `.`/`..` segments: every operation
returns what the map returns and commutes with the abstraction (PUT replaces, DELETE is idempotent, HEAD/GET agree with the
map, listing = the live names with the prefix, each once). -/
theorem s3_refines (ps : Nat) (hps : 1 ≤ ps) (s : S3) (hinv : MapStore.Inv s) (op : Op)
    (hn : NameOk (fun n => hasDotSegment n = false) op) (hc : ChunkOk op) :
    MapStore.Inv (S3.step ps s op).1 ∧ SpecStep (MapStore.abs s) op (MapStore.abs (S3.step ps s op).1) (S3.step ps s op).2 := by
  cases op with
  | upload n d =>
    have hn' : hasDotSegment n = false := hn
    simp only [S3.step, s3Guard, hn', Bool.false_eq_true, if_false]
    exact ⟨MapStore.inv_put s n d hinv, MapStore.abs_put s n d, rfl⟩
  | uploadStream n d c =>
    have hn' : hasDotSegment n = false := hn
    have hc' : 1 ≤ c := hc
    simp only [S3.step, s3Guard, hn', Bool.false_eq_true, if_false, streamed_eq c hc' d]
    exact ⟨MapStore.inv_put s n d hinv, MapStore.abs_put s n d, rfl⟩
  | delete n =>
    have hn' : hasDotSegment n = false := hn
    simp only [S3.step, s3Guard, hn', Bool.false_eq_true, if_false]
    exact ⟨MapStore.inv_erase s n hinv, MapStore.abs_erase s n, rfl⟩
  | exists_ n =>
    have hn' : hasDotSegment n = false := hn
    simp only [S3.step, s3Guard, hn', Bool.false_eq_true, if_false]
    exact ⟨hinv, rfl, rfl⟩
  | download n =>
    have hn' : hasDotSegment n = false := hn
    simp only [S3.step, s3Guard, hn', Bool.false_eq_true, if_false]
    refine ⟨hinv, rfl, ?_⟩
    simp only [MapStore.abs]
  | downloadStream n c sink =>
    have hn' : hasDotSegment n = false := hn
    have hc' : 1 ≤ c := hc
    simp only [S3.step, s3Guard, hn', Bool.false_eq_true, if_false]
    refine ⟨hinv, rfl, ?_⟩
    simp only [MapStore.abs]
    cases MapStore.get s n with
    | none => rfl
    | some d => simp only [sinkAfter_eq sink c hc' d]
  | list pfx =>
    obtain ⟨h1, h2⟩ := MapStore.list_ok s hinv pfx
    have hp := (paging_complete ps hps _ h1).1
    simp only [S3.step, hp]
    exact ⟨hinv, rfl, _, rfl, h1, h2⟩

/-- forced hypothesis (D8): for a name with a dot segment the S3 adapter does not behave like the map — the signed path and
the path httpx sends differ, the service answers 403 and nothing is stored -/
theorem s3_dot_segment_witness :
    hasDotSegment "a/../b".toList = true ∧
    (S3.step 1000 [] (.upload "a/../b".toList [1])).2 = .error .forbidden ∧
    ¬ SpecStep (MapStore.abs []) (.upload "a/../b".toList [1]) (MapStore.abs (S3.step 1000 [] (.upload "a/../b".toList [1])).1)
      (S3.step 1000 [] (.upload "a/../b".toList [1])).2 := by
  refine ⟨by decide, by decide, ?_⟩
  intro h
  have : (S3.step 1000 [] (.upload "a/../b".toList [1])).2 = .unit := h.2
  exact absurd this (by decide)

/-! ## the B2 adapter -/

/-- **The B2 adapter refines the map**, for every page size ≥ 1, on names that survive being put unquoted into a URL
(`b2Addr n = some n`): uploads push a version, `delete` hides (idempotent because `already_hidden` / `no_such_file` are
tolerated — read from the source), download / exists see the newest version iff it is an upload, and listing returns the
names whose newest version is an upload, each once, whatever versions and hide markers lie below. -/
theorem b2_refines (ps : Nat) (hps : 1 ≤ ps) (s : B2) (hinv : s.Inv) (op : Op)
    (hn : NameOk (fun n => b2Addr n = some n) op) (hc : ChunkOk op) :
    (B2.step ps s op).1.Inv ∧ SpecStep s.abs op (B2.step ps s op).1.abs (B2.step ps s op).2 := by
  cases op with
  | upload n d => exact ⟨B2.inv_setVersions s n _ hinv, B2.abs_upload s n d _, rfl⟩
  | uploadStream n d c =>
    have hc' : 1 ≤ c := hc
    simp only [B2.step, streamed_eq c hc' d]
    exact ⟨B2.inv_setVersions s n _ hinv, B2.abs_upload s n d _, rfl⟩
  | delete n =>
    have htol1 : (400 = Gen.b2ToleratedHideStatus ∧ "no_such_file" ∈ Gen.b2ToleratedHideCodes) := by decide
    have htol2 : (400 = Gen.b2ToleratedHideStatus ∧ "already_hidden" ∈ Gen.b2ToleratedHideCodes) := by decide
    simp only [B2.step, B2.hideFile]
    cases hv : s.versions n with
    | nil =>
      have hvis : s.visible n = none := by simp [B2.visible, hv, headUp]
      simp only [htol1, and_self, if_true]
      exact ⟨hinv, (B2.abs_del_of_not_visible s n hvis).symm, rfl⟩
    | cons v vs =>
      cases v with
      | hide =>
        have hvis : s.visible n = none := by simp [B2.visible, hv, headUp]
        simp only [htol2, and_self, if_true]
        exact ⟨hinv, (B2.abs_del_of_not_visible s n hvis).symm, rfl⟩
      | up d => exact ⟨B2.inv_setVersions s n _ hinv, B2.abs_hide s n _, rfl⟩
  | exists_ n =>
    have hn' : b2Addr n = some n := hn
    simp only [B2.step, hn']
    exact ⟨hinv, rfl, rfl⟩
  | download n =>
    have hn' : b2Addr n = some n := hn
    simp only [B2.step, hn']
    refine ⟨hinv, rfl, ?_⟩
    simp only [B2.abs]
  | downloadStream n c sink =>
    have hn' : b2Addr n = some n := hn
    have hc' : 1 ≤ c := hc
    simp only [B2.step, hn']
    refine ⟨hinv, rfl, ?_⟩
    simp only [B2.abs]
    cases s.visible n with
    | none => rfl
    | some d => simp only [sinkAfter_eq sink c hc' d]
  | list pfx =>
    have h1 : (s.liveNames.filter (fun k => pfx.isPrefixOf k)).Nodup := (B2.nodup_liveNames s hinv).filter _
    have hp := (paging_complete ps hps _ h1).2
    simp only [B2.step, hp]
    refine ⟨hinv, rfl, _, rfl, h1, ?_⟩
    intro n
    simp only [List.mem_filter, B2.mem_liveNames s hinv, List.isPrefixOf_iff_prefix, B2.abs]

/-- the hypothesis of `b2_refines` in terms of characters: names without `.`/`..` segments and without `? # % +` qualify -/
theorem b2_safe_names (n : Name) (hdot : hasDotSegment n = false)
    (hchars : ∀ c ∈ n, c ≠ '?' ∧ c ≠ '#' ∧ c ≠ '%' ∧ c ≠ '+') : b2Addr n = some n :=
  b2Addr_safe n hdot hchars

/-- forced hypothesis (D8): B2 object names are put into the download URL unquoted; `?` ends the path, so `exists` looks at
another object — after uploading `a?b` the adapter reports it missing -/
theorem b2_url_metachar_witness :
    b2Addr "a?b".toList = some "a".toList ∧
    (B2.step 1000 (B2.step 1000 [] (.upload "a?b".toList [1])).1 (.exists_ "a?b".toList)).2 = .bool false ∧
    ((B2.step 1000 [] (.upload "a?b".toList [1])).1.abs "a?b".toList).isSome = true := by
  refine ⟨by decide, by decide, by decide⟩

/-! ## the local adapter -/

/-- **The local adapter refines the map** (every operation except listing, which has its own theorems below), for every
spelling `root` of the repository location, over a name universe `U` of canonical names none of which is a directory prefix
of another: the temp-file-and-rename upload replaces the object, `unlink(missing_ok=True)` makes delete idempotent,
`os.path.exists` / `read_bytes` agree with the map; the invariant `Inv U` (used by the listing theorems) is preserved. -/
theorem local_refines (U : Path → Prop) (hU : Universe U) (root : List Char) (fs : FS) (hinv : Inv U fs) (op : Op)
    (hn : NameOk (fun n => validName n = true ∧ U (splitSlash n)) op) (hc : ChunkOk op) (hop : op.name?.isSome = true) :
    Inv U (LocalFS.step root fs op).1 ∧
    SpecStep fs.abs op (LocalFS.step root fs op).1.abs (LocalFS.step root fs op).2 := by
  have hmiss : Gen.localUnlinkMissingOk = true := by decide
  cases op with
  | list pfx => simp [Op.name?] at hop
  | upload n d =>
    obtain ⟨hv, hu⟩ : validName n = true ∧ U (splitSlash n) := hn
    have hne : splitSlash n ≠ [] := splitSlash_ne_nil n
    simp only [LocalFS.step, relPath_valid hv, hne, not_blocked hU hinv hu, not_isDir hU hinv hu, false_or, Bool.false_eq_true,
      if_false]
    exact ⟨inv_upload hinv hu d, abs_upload fs hv d, rfl⟩
  | uploadStream n d c =>
    obtain ⟨hv, hu⟩ : validName n = true ∧ U (splitSlash n) := hn
    have hc' : 1 ≤ c := hc
    have hne : splitSlash n ≠ [] := splitSlash_ne_nil n
    simp only [LocalFS.step, relPath_valid hv, hne, not_blocked hU hinv hu, not_isDir hU hinv hu, false_or, Bool.false_eq_true,
      if_false, streamed_eq c hc' d]
    exact ⟨inv_upload hinv hu d, abs_upload fs hv d, rfl⟩
  | delete n =>
    obtain ⟨hv, hu⟩ : validName n = true ∧ U (splitSlash n) := hn
    simp only [LocalFS.step, relPath_valid hv, kind_of_U hU hinv hu]
    by_cases hf : fs.isFile (splitSlash n) = true
    · simp only [hf, if_true]
      exact ⟨inv_erase hinv _, abs_erase fs hv, rfl⟩
    · have hnone : fs.abs n = none := by
        unfold FS.abs; simp only [hv, if_true]
        simpa [FS.isFile] using hf
      simp only [hf, Bool.false_eq_true, if_false, not_blocked hU hinv hu, hmiss, if_true]
      exact ⟨hinv, (abs_del_of_none fs n hnone).symm, rfl⟩
  | exists_ n =>
    obtain ⟨hv, hu⟩ : validName n = true ∧ U (splitSlash n) := hn
    simp only [LocalFS.step, relPath_valid hv, kind_of_U hU hinv hu]
    refine ⟨hinv, rfl, ?_⟩
    unfold FS.abs; simp only [hv, if_true]
    by_cases hf : fs.isFile (splitSlash n) = true
    · have : (fs.get (splitSlash n)).isSome = true := hf
      simp [hf, this]
    · have : (fs.get (splitSlash n)).isSome = false := by simpa [FS.isFile] using hf
      simp [hf, this]
  | download n =>
    obtain ⟨hv, hu⟩ : validName n = true ∧ U (splitSlash n) := hn
    rw [step_download hU hinv root hv hu]
    exact ⟨hinv, rfl, rfl⟩
  | downloadStream n c sink =>
    obtain ⟨hv, hu⟩ : validName n = true ∧ U (splitSlash n) := hn
    have hc' : 1 ≤ c := hc
    rw [step_downloadStream hU hinv root hv hu]
    refine ⟨hinv, rfl, ?_⟩
    show (match fs.abs n with | some d => Ret.bytes (sinkAfter sink c d) | none => Ret.error Err.notFound) = _
    cases fs.abs n with
    | none => rfl
    | some d => simp only [sinkAfter_eq sink c hc' d]

/-- **Local listing, as the code computes it.**  For a repository location with at least one pathlib part and a prefix whose
directory part is normal, `list_files` (split the prefix, scan, recurse, drop `*.tmp`, slice by the root string) returns
exactly the live names that start with the prefix *and do not end in `.tmp`*, each once. -/
theorem local_list_spec (U : Path → Prop) (hU : Universe U) (fs : FS) (hinv : Inv U fs)
    (root : List Char) (hroot : goodRoot root = true) (pfx : Name) (hp : normalPrefix pfx = true) :
    ∃ l, LocalFS.list root fs pfx = .names l ∧ l.Nodup ∧
      ∀ n, n ∈ l ↔ (fs.abs n).isSome = true ∧ pfx <+: n ∧ tmpName n = false := by
  obtain ⟨ds, bn, hds, hbn, rfl⟩ := normalPrefix_split pfx hp
  have hroot' : (pparse root).parts ≠ [] := by simpa [goodRoot] using hroot
  refine ⟨_, list_normal_form hU hinv root hroot' ds hds bn hbn, (nodup_listNF hU hinv ds bn).filter _, ?_⟩
  intro n
  simp only [List.mem_filter, mem_listNF hU hinv ds hds bn hbn, abs_isSome_iff hU hinv, tmpName, Bool.not_eq_true']
  constructor
  · rintro ⟨⟨q, hq, rfl, hpre⟩, ht⟩; exact ⟨⟨q, hq, rfl⟩, hpre, ht⟩
  · rintro ⟨⟨q, hq, rfl⟩, hpre, ht⟩; exact ⟨⟨q, hq, rfl, hpre⟩, ht⟩

/-- **Local listing refines the map** — `_partial`: besides the universe of the property it needs (i) a repository location
with at least one pathlib part (fails for `.`, `''`, `./`: D6), (ii) a prefix whose directory part is a normal relative
path, (iii) no object name ending in `.tmp` (D7).  Missing for the full statement: (i) and (iii) are defects of the code
(witnesses below), (ii) is where `os.path.split` / pathlib normalisation and plain string prefixes part ways. -/
theorem local_list_refines_partial (U : Path → Prop) (hU : Universe U) (fs : FS) (hinv : Inv U fs)
    (root : List Char) (hroot : goodRoot root = true) (pfx : Name) (hp : normalPrefix pfx = true)
    (hnotmp : ∀ p, U p → tmpName (joinSlash p) = false) :
    Inv U (LocalFS.step root fs (.list pfx)).1 ∧
    SpecStep fs.abs (.list pfx) (LocalFS.step root fs (.list pfx)).1.abs (LocalFS.step root fs (.list pfx)).2 := by
  obtain ⟨l, hl, hnd, hmem⟩ := local_list_spec U hU fs hinv root hroot pfx hp
  refine ⟨hinv, rfl, l, hl, hnd, ?_⟩
  intro n
  rw [hmem]
  constructor
  · rintro ⟨h1, h2, _⟩; exact ⟨h1, h2⟩
  · rintro ⟨h1, h2⟩
    refine ⟨h1, h2, ?_⟩
    obtain ⟨q, hq, rfl⟩ := (abs_isSome_iff hU hinv n).mp h1
    exact hnotmp q (hinv.filesU q hq)

/-- **The spelling of the repository location does not matter**: two locations with at least one pathlib part give the same
listing (same list, not only the same set) for every prefix with a normal directory part, and every other operation does
not look at the spelling at all. -/
theorem root_spelling (U : Path → Prop) (hU : Universe U) (fs : FS) (hinv : Inv U fs)
    (r1 r2 : List Char) (h1 : goodRoot r1 = true) (h2 : goodRoot r2 = true) (op : Op)
    (hop : ∀ pfx, op = .list pfx → normalPrefix pfx = true) :
    LocalFS.step r1 fs op = LocalFS.step r2 fs op := by
  cases op with
  | list pfx =>
    obtain ⟨ds, bn, hds, hbn, rfl⟩ := normalPrefix_split pfx (hop pfx rfl)
    have h1' : (pparse r1).parts ≠ [] := by simpa [goodRoot] using h1
    have h2' : (pparse r2).parts ≠ [] := by simpa [goodRoot] using h2
    simp only [LocalFS.step, list_normal_form hU hinv r1 h1' ds hds bn hbn, list_normal_form hU hinv r2 h2' ds hds bn hbn]
  | upload n d => rfl
  | uploadStream n d c => rfl
  | delete n => rfl
  | exists_ n => rfl
  | download n => rfl
  | downloadStream n c sink => rfl

/-- D6, forced hypothesis (i): with the repository spelled `.` and a prefix that has a directory part, every returned name
has lost its first two characters (`Path('.') / 'data'` is `data`, not `./data`, but `len('.') + 1` characters are cut) -/
theorem d6_root_dot_witness :
    goodRoot ".".toList = false ∧
    LocalFS.list ".".toList (FS.empty.upload ["data".toList, "ab".toList] [1]) "data/".toList = .names ["ta/ab".toList] ∧
    LocalFS.list "repo".toList (FS.empty.upload ["data".toList, "ab".toList] [1]) "data/".toList = .names ["data/ab".toList] := by
  refine ⟨by decide, by decide, by decide⟩

/-- D7, forced hypothesis (iii): an object whose name ends in `.tmp` exists, can be downloaded, and is never listed -/
theorem d7_tmp_hidden_witness :
    ((FS.empty.upload ["a".toList, "x.tmp".toList] [1]).abs "a/x.tmp".toList).isSome = true ∧
    LocalFS.list "repo".toList (FS.empty.upload ["a".toList, "x.tmp".toList] [1]) "a/".toList = .names [] := by
  refine ⟨by decide, by decide⟩

/-- hypothesis (ii) is needed: for the prefix `a//` the code lists `a/b`, which does not start with `a//` -/
theorem abnormal_prefix_witness :
    normalPrefix "a//".toList = false ∧
    LocalFS.list "repo".toList (FS.empty.upload ["a".toList, "b".toList] [1]) "a//".toList = .names ["a/b".toList] ∧
    ¬ ("a//".toList <+: "a/b".toList) := by
  refine ⟨by decide, by decide, by decide⟩

/-- **An upload replaces the object atomically**: after each of the file-system steps of an upload (create the parent
directories, create the temporary, write it, rename it over the destination) every name that does not end in `.tmp` reads —
through `exists`, `download` and listings, i.e. through the abstraction — either as before the upload or as after it; the
switch happens at the rename.  (A failed attempt's cleanup and power-loss durability are not modelled here.) -/
theorem local_upload_atomic (fs : FS) (n : Name) (rnd : List Char) (d : Bytes) (k : Nat) :
    (∀ m, tmpName m = false → (uploadState fs (splitSlash n) rnd d k).abs m = fs.abs m) ∨
    (∀ m, tmpName m = false → (uploadState fs (splitSlash n) rnd d k).abs m = (fs.upload (splitSlash n) d).abs m) := by
  have key : ∀ m, tmpName m = false → splitSlash m ≠ tempPath (splitSlash n) rnd := fun m hm => ne_tempPath m hm _ _
  have hget : ∀ (F : List (Path × Bytes)) (v : Bytes) (m : Name), tmpName m = false →
      alookup (ainsert F (tempPath (splitSlash n) rnd) v) (splitSlash m) = alookup F (splitSlash m) := by
    intro F v m hm
    rw [alookup_ainsert, if_neg (key m hm)]
  match k with
  | 0 => left; intro m _; rfl
  | 1 => left; intro m _; rfl
  | 2 =>
    left; intro m hm
    simp only [FS.abs, FS.get, uploadState_2, hget _ _ m hm]
  | 3 =>
    left; intro m hm
    simp only [FS.abs, FS.get, uploadState_3, hget _ _ m hm]
  | k + 4 =>
    right; intro m hm
    rw [uploadState_final]
    simp only [FS.abs, FS.get, FS.upload, FS.write, FS.mkdirs]
    by_cases hv : validName m = true
    · simp only [hv, if_true, alookup_ainsert (k := splitSlash m) (n := splitSlash n)]
      by_cases hp : splitSlash m = splitSlash n
      · simp only [hp, if_true]
      · simp only [hp, if_false]
        rw [alookup_aerase_ne _ _ _ (key m hm), hget _ _ m hm, hget _ _ m hm]
    · simp only [hv, Bool.false_eq_true, if_false]

/-- what the models assume about the source beyond the constants they use (read from the current source by the extractor):
the B2 loop stops exactly when `nextFileName` is null, B2 uploads send the quoted name, `exists` maps exactly a 404 to False -/
theorem model_assumptions_hold :
    Gen.b2LoopStopsOnNullNext = true ∧ Gen.b2UploadNameQuoted = true ∧
    Gen.s3ExistsFalseStatus = 404 ∧ Gen.b2ExistsFalseStatus = 404 ∧ Gen.storeSectionOk = true := by decide

/-! ## histories -/

/-- **Refinement lifts to histories**: if every step of an adapter model refines the specification (under an invariant and a
side condition on the operations), every history returns what the map returns, operation by operation. -/
theorem history_refines {σ : Type} (step : σ → Op → σ × Ret) (abs : σ → Spec) (inv : σ → Prop) (ok : Op → Prop)
    (hstep : ∀ s op, inv s → ok op → inv (step s op).1 ∧ SpecStep (abs s) op (abs (step s op).1) (step s op).2)
    (s : σ) (hs : inv s) (ops : List Op) (hok : ∀ op ∈ ops, ok op) :
    inv (runHistory step s ops).1 ∧ SpecRun (abs s) ops (abs (runHistory step s ops).1) (runHistory step s ops).2 := by
  induction ops generalizing s with
  | nil => exact ⟨hs, SpecRun.nil _⟩
  | cons op ops ih =>
    obtain ⟨h1, h2⟩ := hstep s op hs (hok op (by simp))
    obtain ⟨h3, h4⟩ := ih (step s op).1 h1 (fun o ho => hok o (List.mem_cons_of_mem _ ho))
    exact ⟨h3, SpecRun.cons h2 h4⟩

/-- what a history over the local adapter may contain (the region of the theorems above) -/
def LocalOk (U : Path → Prop) (op : Op) : Prop :=
  ChunkOk op ∧ match op with
    | .list pfx => normalPrefix pfx = true
    | op => NameOk (fun n => validName n = true ∧ U (splitSlash n)) op

/-- **All three adapters, every history** (`_partial` through the hypotheses of the step theorems): starting empty, the S3
model (any page size ≥ 1), the B2 model (any page size ≥ 1) and the local model (any good spelling of the location) each
return, operation by operation, what the name-to-bytes map returns. -/
theorem all_adapters_history_partial (ps : Nat) (hps : 1 ≤ ps) (U : Path → Prop) (hU : Universe U)
    (hnotmp : ∀ p, U p → tmpName (joinSlash p) = false) (root : List Char) (hroot : goodRoot root = true)
    (ops : List Op)
    (hs3 : ∀ op ∈ ops, NameOk (fun n => hasDotSegment n = false) op ∧ ChunkOk op)
    (hb2 : ∀ op ∈ ops, NameOk (fun n => b2Addr n = some n) op ∧ ChunkOk op)
    (hloc : ∀ op ∈ ops, LocalOk U op) :
    SpecRun Spec.empty ops (MapStore.abs (runHistory (S3.step ps) [] ops).1) (runHistory (S3.step ps) [] ops).2 ∧
    SpecRun Spec.empty ops (B2.abs (runHistory (B2.step ps) [] ops).1) (runHistory (B2.step ps) [] ops).2 ∧
    SpecRun Spec.empty ops (FS.abs (runHistory (LocalFS.step root) FS.empty ops).1) (runHistory (LocalFS.step root) FS.empty ops).2 := by
  refine ⟨?_, ?_, ?_⟩
  · exact (history_refines (S3.step ps) MapStore.abs MapStore.Inv _
      (fun s op hi ho => s3_refines ps hps s hi op ho.1 ho.2) [] List.nodup_nil ops hs3).2
  · exact (history_refines (B2.step ps) B2.abs B2.Inv _
      (fun s op hi ho => b2_refines ps hps s hi op ho.1 ho.2) [] List.nodup_nil ops hb2).2
  · have h := (history_refines (LocalFS.step root) FS.abs (Inv U) (LocalOk U) ?_ FS.empty (Inv.empty U) ops hloc).2
    · have he : FS.empty.abs = Spec.empty := by
        funext n; unfold FS.abs Spec.empty; by_cases hv : validName n = true <;> simp [hv, FS.get, FS.empty, alookup]
      rw [he] at h; exact h
    · intro fs op hi ho
      cases op with
      | list pfx => exact local_list_refines_partial U hU fs hi root hroot pfx ho.2 hnotmp
      | upload n d => exact local_refines U hU root fs hi _ ho.2 ho.1 rfl
      | uploadStream n d c => exact local_refines U hU root fs hi _ ho.2 ho.1 rfl
      | delete n => exact local_refines U hU root fs hi _ ho.2 ho.1 rfl
      | exists_ n => exact local_refines U hU root fs hi _ ho.2 ho.1 rfl
      | download n => exact local_refines U hU root fs hi _ ho.2 ho.1 rfl
      | downloadStream n c sink => exact local_refines U hU root fs hi _ ho.2 ho.1 rfl

/-! ## the S3 adapter and the wall clock -/

/-- the clocks of the adapter and of the service agree up to the service's window when the call is made -/
abbrev ClockOk (skew : Nat) (t : Timed) : Prop := withinSkew skew t.client t.server = true

/-- **Every request the adapter prepares is accepted as far as time goes**, at every clock reading (any date, any time of
day): `x-amz-date`, the credential-scope date and the date of the signing key come from one reading of the clock, so the only
thing the service can object to is the distance between the two clocks. -/
theorem s3_stamp_accepted (skew : Nat) (client server : Time) (h : withinSkew skew client server = true) :
    s3Accepts skew server (s3Stamp client) = true := by
  rw [s3Accepts_stamp]; exact h

/-- **What an S3 call returns does not depend on when it is made**: for every state, operation and pair of clock readings
inside the window, the timed adapter model does what the untimed one does. -/
theorem s3_clock_independent (skew ps : Nat) (s : S3) (t : Timed) (h : ClockOk skew t) :
    S3.stepT skew ps s t = S3.step ps s t.op :=
  S3.stepT_of_within skew ps s t h

/-- **One long-lived S3 adapter object, every clock schedule**: however the wall clock moves between (and during) the calls
of a history — standing still, crossing any number of UTC date changes, stepping back — as long as the two clocks agree up to
the service's window at every call, the history returns, operation by operation, what the name-to-bytes map returns. -/
theorem s3_timed_history_refines (skew ps : Nat) (hps : 1 ≤ ps) (ts : List Timed)
    (hclock : ∀ t ∈ ts, ClockOk skew t)
    (hs3 : ∀ t ∈ ts, NameOk (fun n => hasDotSegment n = false) t.op ∧ ChunkOk t.op) :
    SpecRun Spec.empty (ts.map (·.op)) (MapStore.abs (S3.runT skew ps [] ts).1) (S3.runT skew ps [] ts).2 := by
  rw [S3.runT_eq skew ps [] ts hclock]
  refine (history_refines (S3.step ps) MapStore.abs MapStore.Inv
    (fun op => NameOk (fun n => hasDotSegment n = false) op ∧ ChunkOk op)
    (fun s op hi ho => s3_refines ps hps s hi op ho.1 ho.2) [] List.nodup_nil (ts.map (·.op)) ?_).2
  intro op hop
  obtain ⟨t, ht, rfl⟩ := List.mem_map.mp hop
  exact hs3 t ht

/-- forced hypothesis (environment, not a defect): a client whose clock is an hour ahead of the service's has every request
rejected (403 `RequestTimeTooSkewed`), so nothing is stored -/
theorem s3_clock_skew_witness :
    withinSkew 900 (1000000 + 3600) 1000000 = false ∧
    (S3.stepT 900 1000 [] ⟨1000000 + 3600, 1000000, .upload "a".toList [1]⟩).2 = .error .forbidden ∧
    (S3.stepT 900 1000 [] ⟨1000000 + 3600, 1000000, .upload "a".toList [1]⟩).1 = [] := by
  refine ⟨by decide, by decide, by decide⟩

/-- why `s3_stamp_accepted` rests on the ONE reading: a request whose signing key was derived on an earlier day than its
credential scope says is rejected by the service even when both clocks agree exactly (so the acceptance theorem is not vacuous) -/
theorem s3_stale_key_rejected (skew : Nat) (now : Time) (keyDay : Nat) (h : keyDay ≠ utcDay now) :
    s3Accepts skew now { amz := now, scopeDay := utcDay now, keyDay := keyDay } = false := by
  simp [s3Accepts, h]

/-- non-vacuity: one adapter object, a history that starts at 23:59:58 UTC of day 19 791 and ends on day 19 793 (the client's
clock 5 s ahead of the service's, a second date change inside the history, one step back across midnight): inside the hypotheses
of `s3_timed_history_refines`, and what the timed model returns -/
example :
    let ts : List Timed := [⟨1710028798 + 5, 1710028798, .upload "a/b".toList [1]⟩, ⟨1710028801 + 5, 1710028801, .upload "a/c".toList [2]⟩,
      ⟨1710028799, 1710028802, .delete "a/b".toList⟩, ⟨1710115300, 1710115300, .list "a/".toList⟩]
    (∀ t ∈ ts, ClockOk 900 t) ∧ utcDay 1710028798 + 1 = utcDay 1710028806 ∧ utcDay 1710028799 + 2 = utcDay 1710115300 ∧
    (S3.runT 900 1 [] ts).2 = [.unit, .unit, .unit, .names ["a/c".toList]] := by
  refine ⟨by decide, by decide, by decide, by decide⟩

/-- non-vacuity: a concrete universe, a concrete history inside every hypothesis above, and what the three models return -/
example :
    (runHistory (S3.step 1) [] [.upload "a/b".toList [1], .upload "a/c".toList [2], .delete "a/b".toList, .list "a/".toList]).2
      = [.unit, .unit, .unit, .names ["a/c".toList]] ∧
    (runHistory (B2.step 1) [] [.upload "a/b".toList [1], .upload "a/c".toList [2], .delete "a/b".toList, .list "a/".toList]).2
      = [.unit, .unit, .unit, .names ["a/c".toList]] ∧
    (runHistory (LocalFS.step "x/../repo/".toList) FS.empty
        [.upload "a/b".toList [1], .upload "a/c".toList [2], .delete "a/b".toList, .list "a/".toList]).2
      = [.unit, .unit, .unit, .names ["a/c".toList]] ∧
    goodRoot "x/../repo/".toList = true ∧ normalPrefix "a/".toList = true ∧ b2Addr "a/b".toList = some "a/b".toList := by
  refine ⟨by decide, by decide, by decide, by decide, by decide, by decide⟩

/-- non-vacuity: a name universe with a shared directory satisfies `Universe`, the empty tree satisfies `Inv` -/
example : Universe (fun p => p = ["a".toList, "b".toList] ∨ p = ["a".toList, "c".toList]) ∧
    Inv (fun p => p = ["a".toList, "b".toList] ∨ p = ["a".toList, "c".toList]) FS.empty := by
  refine ⟨⟨?_, ?_⟩, Inv.empty _⟩
  · rintro p (rfl | rfl) <;> decide
  · rintro p q (rfl | rfl) (rfl | rfl) <;> decide

/-! ## the B2 repository location: bucket name or bucket id

The README allows `-r b2:<bucket name>` and `-r b2:<bucket id>`.  The service takes only the NAME in download-by-name URLs and
only the ID in the JSON API calls; `B2Location.lean` puts `B2.step` behind that addressing (`B2.stepAt`), with the strings the
current source fills the two kinds of slot with (`Gen.b2DownloadBucketRef`, `Gen.b2ApiBucketRef`) and the fields it matches the
connection string against (`Gen.b2ListMatchFields`, `Gen.b2AllowedMatchFields`), all regenerated from `backends/b2.py`. -/

/-- what the location theorems use of the source (read by `tools/sections/13_b2loc.py` on every run): every `/file/<bucket>/`
URL carries the NAME of the looked-up bucket record, every `bucketId` its ID, the connection string is compared with both the
id and the name of a reported bucket (listing and restricted key alike), and the record is `(id, name)` as reported -/
theorem b2_location_assumptions_hold :
    Gen.b2DownloadBucketRef = "resolved.name" ∧ Gen.b2ApiBucketRef = "resolved.id" ∧
    Gen.b2ListMatchFields = ["bucketId", "bucketName"] ∧ Gen.b2AllowedMatchFields = ["bucketId", "bucketName"] ∧
    Gen.b2BucketRecordOk = true ∧ Gen.b2locSectionOk = true := by decide

/-- **The spelling of a B2 location does not matter.**  For every account (any buckets, in any order), with a master key or a
key restricted to our bucket, whether the connection string is our bucket's id or its name — provided it names no other bucket of
the account (`LocOk`) — every adapter call does exactly what the location-free model `B2.step` does: same return value, same
new state of the bucket. -/
theorem b2_location_spelling (l : B2Loc) (h : LocOk l) (ps : Nat) (s : B2) (op : Op) :
    B2.stepAt l ps s op = B2.step ps s op := by
  obtain ⟨h1, h2, h3, h4, _, _⟩ := b2_location_assumptions_hold
  unfold B2.stepAt
  rw [h1, h2]
  exact B2.stepAtWith_resolved l (B2Loc.resolve_of_ok l h h3 h4) ps s op

/-- **By id and by name are the same repository**: the two documented spellings of one bucket (each with any kind of key) give
the same result for every state and operation. -/
theorem b2_by_id_equals_by_name (buckets : List Bucket) (own : Bucket) (r1 r2 : Bool)
    (h1 : LocOk ⟨buckets, own, r1, own.id⟩) (h2 : LocOk ⟨buckets, own, r2, own.name⟩) (ps : Nat) (s : B2) (op : Op) :
    B2.stepAt ⟨buckets, own, r1, own.id⟩ ps s op = B2.stepAt ⟨buckets, own, r2, own.name⟩ ps s op := by
  rw [b2_location_spelling _ h1, b2_location_spelling _ h2]

/-- **One adapter object at a location, every history**: under either spelling the history returns, operation by operation,
what the name-to-bytes map returns (same region of names as `b2_refines`). -/
theorem b2_located_history_refines (l : B2Loc) (h : LocOk l) (ps : Nat) (hps : 1 ≤ ps) (ops : List Op)
    (hb2 : ∀ op ∈ ops, NameOk (fun n => b2Addr n = some n) op ∧ ChunkOk op) :
    SpecRun Spec.empty ops (B2.abs (runHistory (B2.stepAt l ps) [] ops).1) (runHistory (B2.stepAt l ps) [] ops).2 := by
  rw [runHistory_congr (B2.stepAt l ps) (B2.step ps) (fun s op => b2_location_spelling l h ps s op)]
  exact (history_refines (B2.step ps) B2.abs B2.Inv _
    (fun s op hi ho => b2_refines ps hps s hi op ho.1 ho.2) [] List.nodup_nil ops hb2).2

/-- why the download URLs must carry the record's NAME (so `b2_location_assumptions_hold` is not decoration): an adapter that
put the connection string as given into `/file/<…>/` would work for the name spelling and, for the id spelling, report a
freshly uploaded object as missing and fail to download it — while upload, listing and delete (addressed by id) still work -/
theorem b2_download_by_identifier_witness :
    let own : Bucket := ⟨"4a48fe88".toList, "my-backups".toList⟩
    let byId : B2Loc := ⟨[own], own, false, own.id⟩
    let byName : B2Loc := ⟨[own], own, false, own.name⟩
    let step := B2.stepAtWith "identifier" "resolved.id"
    (step byName 1000 (step byName 1000 [] (.upload "a".toList [1])).1 (.exists_ "a".toList)).2 = .bool true ∧
    (step byId 1000 [] (.upload "a".toList [1])).2 = .unit ∧
    (step byId 1000 (step byId 1000 [] (.upload "a".toList [1])).1 (.list [])).2 = .names ["a".toList] ∧
    (step byId 1000 (step byId 1000 [] (.upload "a".toList [1])).1 (.exists_ "a".toList)).2 = .bool false ∧
    (step byId 1000 (step byId 1000 [] (.upload "a".toList [1])).1 (.download "a".toList)).2 = .error .notFound := by
  refine ⟨by decide, by decide, by decide, by decide, by decide⟩

/-- forced hypothesis `LocOk.unambiguous` (a limit of the documented format, not of the adapter): bucket names may look like
ids, so when another bucket of the account, listed first, is NAMED like our bucket's id, the id spelling reaches that other bucket
and every API call is made against it -/
theorem b2_ambiguous_location_witness :
    let own : Bucket := ⟨"4a48fe88".toList, "my-backups".toList⟩
    let other : Bucket := ⟨"ffff0000".toList, "4a48fe88".toList⟩
    let l : B2Loc := ⟨[other, own], own, false, own.id⟩
    l.resolve = some other ∧ (B2.stepAt l 1000 [] (.upload "a".toList [1])).2 = .error (.http 400 "bad_bucket_id") ∧
    (B2.stepAt ⟨[own, other], own, false, own.id⟩ 1000 [] (.upload "a".toList [1])).2 = .unit := by
  refine ⟨by decide, by decide, by decide⟩

/-- non-vacuity: an account with three buckets, ours in the middle, a neighbour whose name extends ours; both spellings are
good locations (with a master key and with a restricted one), and a history under the id spelling returns what the map returns -/
example :
    let own : Bucket := ⟨"4a48fe88".toList, "my-backups".toList⟩
    let acct : List Bucket := [⟨"00aa".toList, "my-backups-2".toList⟩, own, ⟨"4a48fe89".toList, "zz".toList⟩]
    LocOk ⟨acct, own, false, own.id⟩ ∧ LocOk ⟨acct, own, true, own.name⟩ ∧
    (runHistory (B2.stepAt ⟨acct, own, false, own.id⟩ 1) []
        [.upload "a/b".toList [1], .upload "a/c".toList [2], .exists_ "a/b".toList, .delete "a/b".toList, .download "a/c".toList, .list "a/".toList]).2
      = [.unit, .unit, .bool true, .unit, .bytes [2], .names ["a/c".toList]] := by
  refine ⟨⟨Or.inl rfl, by simp, ?_⟩, ⟨Or.inr rfl, by simp, ?_⟩, by decide⟩
  · intro b hb hne
    simp only [List.mem_cons, List.not_mem_nil, or_false] at hb
    rcases hb with rfl | rfl | rfl
    · exact ⟨by decide, by decide⟩
    · exact absurd rfl hne
    · exact ⟨by decide, by decide⟩
  · intro b hb hne
    simp only [List.mem_cons, List.not_mem_nil, or_false] at hb
    rcases hb with rfl | rfl | rfl
    · exact ⟨by decide, by decide⟩
    · exact absurd rfl hne
    · exact ⟨by decide, by decide⟩

/-! ## the object-level commands: `upload_objects`, `download_objects`, `list_objects`, `delete_objects`

Model: `ObjCmd.lean` — every command is a program over the step function of a store model and records the backend calls it
makes.  The theorems below are stated for **any** `StoreModel` (step function + abstraction + invariant + region of operations +
proof that every step in the region refines `SpecStep`); `specModel`, `s3Model`, `b2Model`, `localModel` package the refinement
theorems above, so everything proved here holds for the map and for the three adapter models alike.  `U` is the name universe of
the property (canonical names, none a directory prefix of another); besides the objects it contains the files already present
in a download / cache directory. -/
section objcmd
open Replicat.ObjCmd

/-- the executable specification as a store model (no restriction on operations) -/
def specModel : StoreModel MapStore :=
  ⟨MapStore.step, MapStore.abs, MapStore.Inv, fun _ => True, fun s op hi _ => map_refines s hi op⟩

/-- the S3 adapter model, any page size ≥ 1 -/
def s3Model (ps : Nat) (hps : 1 ≤ ps) : StoreModel S3 :=
  ⟨S3.step ps, MapStore.abs, MapStore.Inv, fun op => NameOk (fun n => hasDotSegment n = false) op ∧ ChunkOk op,
    fun s op hi ho => s3_refines ps hps s hi op ho.1 ho.2⟩

/-- the B2 adapter model, any page size ≥ 1 -/
def b2Model (ps : Nat) (hps : 1 ≤ ps) : StoreModel B2 :=
  ⟨B2.step ps, B2.abs, B2.Inv, fun op => NameOk (fun n => b2Addr n = some n) op ∧ ChunkOk op,
    fun s op hi ho => b2_refines ps hps s hi op ho.1 ho.2⟩

/-- the local adapter model over a name universe without `*.tmp` names, any good spelling of the location -/
def localModel (U : Path → Prop) (hU : Universe U) (hnotmp : ∀ p, U p → tmpName (joinSlash p) = false) (root : List Char)
    (hroot : goodRoot root = true) : StoreModel FS :=
  ⟨LocalFS.step root, FS.abs, Inv U, LocalOk U, fun fs op hi ho => by
    cases op with
    | list pfx => exact local_list_refines_partial U hU fs hi root hroot pfx ho.2 hnotmp
    | upload n d => exact local_refines U hU root fs hi _ ho.2 ho.1 rfl
    | uploadStream n d c => exact local_refines U hU root fs hi _ ho.2 ho.1 rfl
    | delete n => exact local_refines U hU root fs hi _ ho.2 ho.1 rfl
    | exists_ n => exact local_refines U hU root fs hi _ ho.2 ho.1 rfl
    | download n => exact local_refines U hU root fs hi _ ho.2 ho.1 rfl
    | downloadStream n c sink => exact local_refines U hU root fs hi _ ho.2 ho.1 rfl⟩

/-- **Every object-level command is a composition of backend steps, hence of `SpecStep`s.**  For any step function, the calls a
command records, replayed as a history, lead from the state before the command to the state after it and return what the
command saw (so a command does nothing to the backend that is not in its record); and over a store model whose region contains
the recorded calls, the invariant is kept and the record is a run of the specification — everything proved about the three
adapters (`s3_refines`, `b2_refines`, `local_refines`, the listing and paging theorems) carries over to the commands. -/
theorem objcmd_refine_store {σ : Type} (M : StoreModel σ) (concurrent : Nat) (c : Cmd) (s : σ) (hinv : M.inv s) (loc : Tree)
    (hok : ∀ e ∈ (c.run M.step concurrent s loc).tr, M.ok e.1) :
    runHistory M.step s ((c.run M.step concurrent s loc).tr.map (·.1))
      = ((c.run M.step concurrent s loc).st, (c.run M.step concurrent s loc).tr.map (·.2)) ∧
    M.inv (c.run M.step concurrent s loc).st ∧
    SpecRun (M.abs s) ((c.run M.step concurrent s loc).tr.map (·.1)) (M.abs (c.run M.step concurrent s loc).st)
      ((c.run M.step concurrent s loc).tr.map (·.2)) := by
  have hch := cmd_chain M.step concurrent c s loc
  exact ⟨hch.runHistory, Chain.specRun M hinv hok hch⟩

/-- **`upload_objects`, `skip_existing`.**  For every list of path arguments that exist (`flatten … = ok fl`), every working
directory, rate limit and number of slots: the command succeeds and returns the files (`None` if there are none); with
`skip_existing` no object that existed before is changed — whatever the names of the files; objects whose name is not the name
of an uploaded file are untouched; and if the names are distinct, each uploaded file's object holds exactly the file's bytes,
unless `skip_existing` was given and the object existed. -/
theorem upload_skip_existing_preserves {σ : Type} (M : StoreModel σ) (concurrent : Nat) (hconc : 1 ≤ concurrent) (cwd : Path)
    (dirs paths : List Path) (rl : Option Nat) (hrl : rl ≠ some 0) (skip : Bool) (s : σ) (hinv : M.inv s) (t : Tree)
    (fl : List Path) (hfl : flatten t dirs paths = .ok fl) (hok : ∀ f ∈ fl, M.OkName (objectName cwd f)) :
    (uploadObjects M.step concurrent cwd dirs paths rl skip s t).res
        = .ok (if dedupFirst fl = [] then .none else .files (dedupFirst fl)) ∧
    M.inv (uploadObjects M.step concurrent cwd dirs paths rl skip s t).st ∧
    (skip = true → ∀ n, (M.abs s n).isSome = true →
        M.abs (uploadObjects M.step concurrent cwd dirs paths rl skip s t).st n = M.abs s n) ∧
    (∀ n, n ∉ fl.map (objectName cwd) → M.abs (uploadObjects M.step concurrent cwd dirs paths rl skip s t).st n = M.abs s n) ∧
    (((dedupFirst fl).map (objectName cwd)).Nodup → ∀ f ∈ fl, (skip = false ∨ M.abs s (objectName cwd f) = none) →
        M.abs (uploadObjects M.step concurrent cwd dirs paths rl skip s t).st (objectName cwd f) = t.get f) := by
  obtain ⟨h1, h2, _, h4⟩ := uploadObjects_spec M concurrent hconc cwd dirs paths rl hrl skip s hinv t fl hfl hok
  have hsome : ∀ f ∈ dedupFirst fl, (t.get f).isSome = true := fun f hf => flatten_mem hfl f ((mem_dedupFirst fl f).mp hf)
  refine ⟨h1, h2, ?_, ?_, ?_⟩
  · intro hs n hn
    rw [h4, hs]; exact upSpec_skip_keeps _ _ n hn
  · intro n hn
    rw [h4]
    apply upSpec_not_mem
    rw [items_names hsome]
    intro hm
    obtain ⟨f, hf, rfl⟩ := List.mem_map.mp hm
    exact hn (List.mem_map.mpr ⟨f, (mem_dedupFirst fl f).mp hf, rfl⟩)
  · intro hnd f hf hc
    obtain ⟨d, hd⟩ := Option.isSome_iff_exists.mp (flatten_mem hfl f hf)
    rw [h4, hd]
    apply upSpec_mem skip _ _ (by rw [items_names hsome]; exact hnd) _ d _ hc
    exact items_mem.mpr ⟨f, (mem_dedupFirst fl f).mpr hf, hd, rfl⟩

/-- forced hypothesis of the last clause (and of the round trip): names are derived relative to the *common* path with the
working directory, so a file under it and a file outside it can get the same object name — with the working directory `/a/b`,
the files `/a/b/c/f` and `/a/c/f` are both called `c/f`, and one upload silently replaces the other -/
theorem upload_name_collision_witness :
    objectName ["a".toList, "b".toList] ["a".toList, "b".toList, "c".toList, "f".toList] = "c/f".toList ∧
    objectName ["a".toList, "b".toList] ["a".toList, "c".toList, "f".toList] = "c/f".toList ∧
    (uploadObjects MapStore.step 2 ["a".toList, "b".toList] [] [["a".toList, "b".toList, "c".toList, "f".toList], ["a".toList, "c".toList, "f".toList]]
        none false [] [(["a".toList, "b".toList, "c".toList, "f".toList], [1]), (["a".toList, "c".toList, "f".toList], [2])]).st
      = [("c/f".toList, [2])] := by
  refine ⟨by decide, by decide, by decide⟩

/-- **`download_objects`, `skip_existing`.**  Over a store whose selected objects (prefix + predicate) and the files already in
the target directory lie in the name universe: the command succeeds and leaves the store as it was; with `skip_existing` no
file that existed before is changed; the file of every selected object holds exactly the object's bytes unless `skip_existing`
was given and the file existed; every path that is not the path of a selected object is as before (nothing else is created). -/
theorem download_skip_existing_preserves {σ : Type} (M : StoreModel σ) (U : Path → Prop) (hU : Universe U) (concurrent : Nat)
    (hconc : 1 ≤ concurrent) (pfx : Name) (keep : Name → Bool) (rl : Option Nat) (hrl : rl ≠ some 0) (skip : Bool) (s : σ)
    (hinv : M.inv s) (dir : Tree) (hdir : ∀ q ∈ dir.keys, U q) (hlist : M.ok (.list pfx))
    (hsel : ∀ n, (M.abs s n).isSome = true → pfx <+: n → keep n = true → validName n = true ∧ U (splitSlash n) ∧ M.OkName n) :
    (∃ l : List Name, l.Nodup ∧ (∀ n, n ∈ l ↔ (M.abs s n).isSome = true ∧ pfx <+: n ∧ keep n = true) ∧
      (downloadObjects M.step concurrent pfx keep rl skip s dir).res = .ok (if l = [] then .none else .names l)) ∧
    M.inv (downloadObjects M.step concurrent pfx keep rl skip s dir).st ∧
    M.abs (downloadObjects M.step concurrent pfx keep rl skip s dir).st = M.abs s ∧
    (skip = true → ∀ q, (dir.get q).isSome = true →
        (downloadObjects M.step concurrent pfx keep rl skip s dir).loc.get q = dir.get q) ∧
    (∀ n, (M.abs s n).isSome = true → pfx <+: n → keep n = true → (skip = false ∨ dir.get (splitSlash n) = none) →
        (downloadObjects M.step concurrent pfx keep rl skip s dir).loc.get (splitSlash n) = M.abs s n) ∧
    (∀ q, (¬ ∃ n, (M.abs s n).isSome = true ∧ pfx <+: n ∧ keep n = true ∧ splitSlash n = q) →
        (downloadObjects M.step concurrent pfx keep rl skip s dir).loc.get q = dir.get q) := by
  obtain ⟨l, hnd, hmem, hres, hi, ha, hloc⟩ :=
    downloadObjects_spec M hU concurrent hconc pfx keep rl hrl skip s hinv dir hdir hlist hsel
  have hlive : ∀ n ∈ l, (M.abs s n).isSome = true := fun n hn => ((hmem n).mp hn).1
  refine ⟨⟨l, hnd, hmem, hres⟩, hi, ha, ?_, ?_, ?_⟩
  · intro hs q hq
    rw [hloc, downSpec_get skip _ l hlive, hs]
    simp only [hq, and_self, if_true, ite_self]
  · intro n h1 h2 h3 hc
    have hin : splitSlash n ∈ l.map splitSlash := List.mem_map_of_mem ((hmem n).mpr ⟨h1, h2, h3⟩)
    rw [hloc, downSpec_get skip _ l hlive, if_pos hin, joinSlash_splitSlash]
    rcases hc with hc | hc
    · simp [hc]
    · simp [hc]
  · intro q hq
    have hnin : q ∉ l.map splitSlash := by
      intro hm
      obtain ⟨n, hn, rfl⟩ := List.mem_map.mp hm
      obtain ⟨h1, h2, h3⟩ := (hmem n).mp hn
      exact hq ⟨n, h1, h2, h3, rfl⟩
    rw [hloc, downSpec_get skip _ l hlive, if_neg hnin]

/-- **`list_objects`** returns exactly the names of the live objects that start with the prefix and satisfy the predicate (the
regular expression is an arbitrary predicate), each once, and changes nothing. -/
theorem list_objects_spec {σ : Type} (M : StoreModel σ) (pfx : Name) (keep : Name → Bool) (s : σ) (hinv : M.inv s) (loc : Tree)
    (hlist : M.ok (.list pfx)) :
    ∃ l : List Name, (listObjects M.step pfx keep s loc).res = .ok (.names l) ∧ l.Nodup ∧
      (∀ n, n ∈ l ↔ (M.abs s n).isSome = true ∧ pfx <+: n ∧ keep n = true) ∧
      M.inv (listObjects M.step pfx keep s loc).st ∧ M.abs (listObjects M.step pfx keep s loc).st = M.abs s ∧
      (listObjects M.step pfx keep s loc).loc = loc := by
  obtain ⟨l, h1, h2, h3, h4, h5, h6⟩ := listObjects_spec M pfx keep s hinv loc hlist
  exact ⟨l, h3, h1, h2, h4, h5, h6⟩

/-- **`delete_objects`.**  If the command proceeds (`confirm` off, or the answer is `y` / `Y`), exactly the given names are gone
and every other object is untouched; the cached copies of the given names — and nothing else — are removed from the cache
directory when one is configured; if it does not proceed, nothing changes.  The command is idempotent: run again on its own
result it succeeds and changes neither the store nor the cache (names that do not exist are no error). -/
theorem delete_objects_spec {σ : Type} (M : StoreModel σ) (U : Path → Prop) (hU : Universe U) (names : List Name) (confirm : Bool)
    (answer : List Char) (useCache : Bool) (s : σ) (hinv : M.inv s) (cache : Tree) (hok : ∀ n ∈ names, M.ok (.delete n))
    (hn : useCache = true → ∀ n ∈ names, validName n = true ∧ U (splitSlash n))
    (hc : useCache = true → ∀ q ∈ cache.keys, U q) :
    (deleteObjects M.step names confirm answer useCache s cache).res = .ok .none ∧
    M.inv (deleteObjects M.step names confirm answer useCache s cache).st ∧
    (∀ n, M.abs (deleteObjects M.step names confirm answer useCache s cache).st n =
      if proceeds confirm answer = true ∧ n ∈ names then none else M.abs s n) ∧
    (∀ q, (deleteObjects M.step names confirm answer useCache s cache).loc.get q =
      if proceeds confirm answer = true ∧ useCache = true ∧ q ∈ names.map splitSlash then none else cache.get q) ∧
    (deleteObjects M.step names confirm answer useCache (deleteObjects M.step names confirm answer useCache s cache).st
        (deleteObjects M.step names confirm answer useCache s cache).loc).res = .ok .none ∧
    M.abs (deleteObjects M.step names confirm answer useCache (deleteObjects M.step names confirm answer useCache s cache).st
        (deleteObjects M.step names confirm answer useCache s cache).loc).st
      = M.abs (deleteObjects M.step names confirm answer useCache s cache).st ∧
    (∀ q, (deleteObjects M.step names confirm answer useCache (deleteObjects M.step names confirm answer useCache s cache).st
        (deleteObjects M.step names confirm answer useCache s cache).loc).loc.get q
      = (deleteObjects M.step names confirm answer useCache s cache).loc.get q) := by
  obtain ⟨a1, a2, a3, a4, a5⟩ := deleteObjects_spec M hU names confirm answer useCache s hinv cache hok hn hc
  obtain ⟨b1, _, b3, b4, _⟩ := deleteObjects_spec M hU names confirm answer useCache _ a2 _ hok hn
    (fun hu q hq => hc hu q (a5 q hq))
  refine ⟨a1, a2, a3, a4, b1, ?_, ?_⟩
  · funext n
    rw [b3, a3]
    split <;> simp_all
  · intro q
    rw [b4, a4]
    split <;> simp_all

/-- **Round trip.**  For every tree of local files, every list of path arguments whose files lie under the working directory
(relative paths in the name universe), every store, filter, rate limits and flags: after `upload_objects` and then
`download_objects` into an empty directory, the directory holds — under the same relative path, byte for byte — exactly the
uploaded files the filter selects, each once, and nothing else.  Needed: an uploaded name that already exists is overwritten
(no `skip_existing` on upload, or the names are fresh), and no *other* object of the store passes the filter (with an empty
store, or the empty prefix and no regular expression on a store holding nothing else, the directory equals the uploaded tree). -/
theorem upload_then_download_roundtrip {σ : Type} (M : StoreModel σ) (U : Path → Prop) (hU : Universe U)
    (hnames : ∀ n, validName n = true → U (splitSlash n) → M.OkName n)
    (concurrent : Nat) (hconc : 1 ≤ concurrent) (cwd : Path) (dirs paths : List Path) (t : Tree) (fl : List Path)
    (hfl : flatten t dirs paths = .ok fl) (hunder : ∀ f ∈ fl, ∃ rel, f = cwd ++ rel ∧ U rel)
    (rlUp rlDown : Option Nat) (hr1 : rlUp ≠ some 0) (hr2 : rlDown ≠ some 0) (skipUp skipDown : Bool)
    (pfx : Name) (keep : Name → Bool) (hlist : M.ok (.list pfx)) (s : σ) (hinv : M.inv s)
    (hfresh : skipUp = true → ∀ f ∈ fl, M.abs s (objectName cwd f) = none)
    (hothers : ∀ n, (M.abs s n).isSome = true → pfx <+: n → keep n = true → ∃ f ∈ fl, n = objectName cwd f) :
    (uploadObjects M.step concurrent cwd dirs paths rlUp skipUp s t).res
        = .ok (if dedupFirst fl = [] then .none else .files (dedupFirst fl)) ∧
    (∃ l : List Name, l.Nodup ∧ (∀ n, n ∈ l ↔ (∃ f ∈ fl, n = objectName cwd f) ∧ pfx <+: n ∧ keep n = true) ∧
      (downloadObjects M.step concurrent pfx keep rlDown skipDown
        (uploadObjects M.step concurrent cwd dirs paths rlUp skipUp s t).st []).res = .ok (if l = [] then .none else .names l)) ∧
    (downloadObjects M.step concurrent pfx keep rlDown skipDown
        (uploadObjects M.step concurrent cwd dirs paths rlUp skipUp s t).st []).loc.keys.Nodup ∧
    ∀ rel, (downloadObjects M.step concurrent pfx keep rlDown skipDown
        (uploadObjects M.step concurrent cwd dirs paths rlUp skipUp s t).st []).loc.get rel
      = if cwd ++ rel ∈ fl ∧ pfx <+: joinSlash rel ∧ keep (joinSlash rel) = true then t.get (cwd ++ rel) else none := by
  -- names of the uploaded files
  have hname : ∀ f ∈ fl, ∃ rel, f = cwd ++ rel ∧ U rel ∧ objectName cwd f = joinSlash rel ∧ validPath rel = true := by
    intro f hf
    obtain ⟨rel, rfl, hu⟩ := hunder f hf
    have hv := hU.valid rel hu
    exact ⟨rel, rfl, hu, objectName_under cwd rel ((validPath_iff rel).mp hv).1, hv⟩
  have hokf : ∀ f ∈ fl, M.OkName (objectName cwd f) := by
    intro f hf
    obtain ⟨rel, _, hu, hn, hv⟩ := hname f hf
    rw [hn]
    exact hnames _ (validName_joinSlash hv) (by rw [split_join_valid hv]; exact hu)
  have hinj : ∀ f ∈ fl, ∀ g ∈ fl, objectName cwd f = objectName cwd g → f = g := by
    intro f hf g hg he
    obtain ⟨r1, rfl, _, h1, v1⟩ := hname f hf
    obtain ⟨r2, rfl, _, h2, v2⟩ := hname g hg
    rw [h1, h2] at he
    rw [joinSlash_inj_valid v1 v2 he]
  have hnd : ((dedupFirst fl).map (objectName cwd)).Nodup := by
    refine (List.nodup_map_iff_inj_on (nodup_dedupFirst fl)).mpr ?_
    intro f hf g hg he
    exact hinj f ((mem_dedupFirst fl f).mp hf) g ((mem_dedupFirst fl g).mp hg) he
  -- the upload
  obtain ⟨u1, u2, _, u4, u5⟩ := upload_skip_existing_preserves M concurrent hconc cwd dirs paths rlUp hr1 skipUp s hinv t fl hfl hokf
  have hup : ∀ f ∈ fl, M.abs (uploadObjects M.step concurrent cwd dirs paths rlUp skipUp s t).st (objectName cwd f) = t.get f := by
    intro f hf
    apply u5 hnd f hf
    cases skipUp with
    | false => exact Or.inl rfl
    | true => exact Or.inr (hfresh rfl f hf)
  have hget : ∀ f ∈ fl, (t.get f).isSome = true := flatten_mem hfl
  -- what the store holds afterwards, as far as the filter sees it
  have hlive : ∀ n, (M.abs (uploadObjects M.step concurrent cwd dirs paths rlUp skipUp s t).st n).isSome = true → pfx <+: n →
      keep n = true → ∃ f ∈ fl, n = objectName cwd f := by
    intro n h1 h2 h3
    by_cases hm : n ∈ fl.map (objectName cwd)
    · obtain ⟨f, hf, rfl⟩ := List.mem_map.mp hm
      exact ⟨f, hf, rfl⟩
    · rw [u4 n hm] at h1
      exact hothers n h1 h2 h3
  -- the download
  obtain ⟨⟨l, lnd, lmem, lres⟩, _, _, _, d5, d6⟩ := download_skip_existing_preserves M U hU concurrent hconc pfx keep rlDown hr2 skipDown
    _ u2 [] (by intro q hq; cases hq) hlist (by
      intro n h1 h2 h3
      obtain ⟨f, hf, rfl⟩ := hlive n h1 h2 h3
      obtain ⟨rel, _, hu, hn, hv⟩ := hname f hf
      rw [hn]
      exact ⟨validName_joinSlash hv, by rw [split_join_valid hv]; exact hu, hnames _ (validName_joinSlash hv) (by rw [split_join_valid hv]; exact hu)⟩)
  refine ⟨u1, ⟨l, lnd, ?_, lres⟩, ?_, ?_⟩
  · intro n
    rw [lmem]
    constructor
    · rintro ⟨h1, h2, h3⟩; exact ⟨hlive n h1 h2 h3, h2, h3⟩
    · rintro ⟨⟨f, hf, rfl⟩, h2, h3⟩
      exact ⟨by rw [hup f hf]; exact hget f hf, h2, h3⟩
  · obtain ⟨l', _, _, _, _, _, hloc⟩ := downloadObjects_spec M hU concurrent hconc pfx keep rlDown hr2 skipDown _ u2 []
      (by intro q hq; cases hq) hlist (by
        intro n h1 h2 h3
        obtain ⟨f, hf, rfl⟩ := hlive n h1 h2 h3
        obtain ⟨rel, _, hu, hn, hv⟩ := hname f hf
        rw [hn]
        exact ⟨validName_joinSlash hv, by rw [split_join_valid hv]; exact hu, hnames _ (validName_joinSlash hv) (by rw [split_join_valid hv]; exact hu)⟩)
    rw [hloc]
    exact downSpec_nodup _ _ _ _ List.nodup_nil
  · intro rel
    by_cases hc : cwd ++ rel ∈ fl ∧ pfx <+: joinSlash rel ∧ keep (joinSlash rel) = true
    · obtain ⟨hf, h2, h3⟩ := hc
      obtain ⟨rel', he, _, hn, hv⟩ := hname _ hf
      have hrel : rel' = rel := (List.append_cancel_left he).symm
      subst hrel
      rw [if_pos ⟨hf, h2, h3⟩]
      have h1 : (M.abs (uploadObjects M.step concurrent cwd dirs paths rlUp skipUp s t).st (joinSlash rel')).isSome = true := by
        rw [← hn, hup _ hf]; exact hget _ hf
      have := d5 (joinSlash rel') h1 h2 h3 (Or.inr rfl)
      rw [split_join_valid hv] at this
      rw [this, ← hn, hup _ hf]
    · rw [if_neg hc]
      apply d6
      rintro ⟨n, h1, h2, h3, rfl⟩
      obtain ⟨f, hf, rfl⟩ := hlive n h1 h2 h3
      obtain ⟨rel', rfl, _, hn, hv⟩ := hname f hf
      apply hc
      rw [hn, split_join_valid hv]
      rw [hn] at h2 h3
      exact ⟨hf, h2, h3⟩

/-- **The order in which the `asyncio.gather` tasks run does not matter** when the names are distinct: the loops of the three
mutating commands, taken at the level of the map / directory, give the same result for every permutation of the files /
objects / names (the model runs them in list order; the real tasks interleave). -/
theorem gather_order_irrelevant (skip : Bool) (m : Spec) :
    (∀ l1 l2 : List (Name × Bytes), l1.Perm l2 → (l1.map (·.1)).Nodup → upSpec skip m l1 = upSpec skip m l2) ∧
    (∀ (dir : Tree) (l1 l2 : List Name), l1.Perm l2 → (∀ n ∈ l1, (m n).isSome = true) →
        ∀ q, (downSpec skip m dir l1).get q = (downSpec skip m dir l2).get q) ∧
    (∀ l1 l2 : List Name, l1.Perm l2 → delAll m l1 = delAll m l2) := by
  refine ⟨?_, ?_, ?_⟩
  · intro l1 l2 hp hnd
    have hnd2 : (l2.map (·.1)).Nodup := (hp.map _).nodup_iff.mp hnd
    funext n
    by_cases hm : n ∈ l1.map (·.1)
    · obtain ⟨⟨k, d⟩, he, rfl⟩ := List.mem_map.mp hm
      by_cases hc : skip = true ∧ (m k).isSome = true
      · obtain ⟨rfl, hk⟩ := hc
        rw [upSpec_skip_keeps _ _ _ hk, upSpec_skip_keeps _ _ _ hk]
      · have hc' : skip = false ∨ m k = none := by
          cases skip with
          | false => exact Or.inl rfl
          | true => right; simpa using hc
        rw [upSpec_mem skip m l1 hnd k d he hc', upSpec_mem skip m l2 hnd2 k d (hp.mem_iff.mp he) hc']
    · have hm2 : n ∉ l2.map (·.1) := fun h => hm ((hp.map _).mem_iff.mpr h)
      rw [upSpec_not_mem _ _ _ _ hm, upSpec_not_mem _ _ _ _ hm2]
  · intro dir l1 l2 hp hl q
    have hl2 : ∀ n ∈ l2, (m n).isSome = true := fun n hn => hl n (hp.mem_iff.mpr hn)
    rw [downSpec_get skip m l1 hl, downSpec_get skip m l2 hl2]
    have : q ∈ l1.map splitSlash ↔ q ∈ l2.map splitSlash := (hp.map _).mem_iff
    by_cases h : q ∈ l1.map splitSlash
    · rw [if_pos h, if_pos (this.mp h)]
    · rw [if_neg h, if_neg (fun h2 => h (this.mpr h2))]
  · intro l1 l2 hp
    funext n
    rw [delAll_apply, delAll_apply]
    by_cases h : n ∈ l1
    · rw [if_pos h, if_pos (hp.mem_iff.mp h)]
    · rw [if_neg h, if_neg (fun h2 => h (hp.mem_iff.mpr h2))]

/-- **Every interleaving of the upload tasks gives the same store.**  With `skip_existing` each gathered task makes up to two
backend calls (`exists`, then `upload_stream` if the answer was `False`) and the calls of different tasks interleave (`runSchedule`:
every pick is the next backend call of the picked task).  For distinct names and
every schedule (any order, any repetition of picks, picks of finished or unknown tasks allowed) after which all tasks are done,
the map is the one the sequential model computes: no task's `exists` answer can be invalidated by another task, because the
others write to other names.  (For `download_objects` and `delete_objects` a task makes one backend call, so the task-level
permutations of `gather_order_irrelevant` are all the interleavings there are.) -/
theorem upload_interleaving_irrelevant (skip : Bool) (m0 : Spec) (items : List (Name × Bytes)) (hnd : (items.map (·.1)).Nodup)
    (sched : List Name) (hdone : ∀ t ∈ (runSchedule skip m0 (initTasks items) sched).2, t.phase = .done) :
    (runSchedule skip m0 (initTasks items) sched).1 = upSpec skip m0 items := by
  have hg := good_run skip m0 items sched m0 _ (good_init skip m0 items)
  funext n
  by_cases hn : n ∈ items.map (·.1)
  · rw [← hg.names] at hn
    obtain ⟨t, ht, rfl⟩ := List.mem_map.mp hn
    have hp := hg.phase t ht
    rw [hdone t ht] at hp
    simp only at hp
    rw [hp]
    by_cases hc : skip = true ∧ (m0 t.name).isSome = true
    · rw [if_pos hc, hc.1, upSpec_skip_keeps _ _ _ hc.2]
    · rw [if_neg hc]
      symm
      apply upSpec_mem skip m0 items hnd _ _ (hg.mem t ht)
      cases skip with
      | false => exact Or.inl rfl
      | true => right; simpa using hc
  · rw [hg.other n hn, upSpec_not_mem _ _ _ _ hn]

/-- non-vacuity: three tasks whose calls interleave (`exists c`, `exists a` — it exists, skipped —, `exists b`, `upload b`, a pick
of the finished `b`, `upload c`): the schedule completes and the store is the sequential one -/
example :
    let m0 : Spec := MapStore.abs [("a".toList, [7])]
    let r := runSchedule true m0 (initTasks [("a".toList, [1]), ("b".toList, [2]), ("c".toList, [3])])
      ["c".toList, "a".toList, "b".toList, "b".toList, "b".toList, "c".toList]
    r.2.map (·.phase) = [.done, .done, .done] ∧ r.1 "a".toList = some [7] ∧ r.1 "b".toList = some [2] ∧ r.1 "c".toList = some [3] := by
  refine ⟨by decide, by decide, by decide, by decide⟩

/-- what `ObjCmd.lean` assumes about the source of the four commands, read from the current source by the extractor
(`tools/sections/13_objcmd.py`): the name is the path relative to the common path with the working directory in POSIX form;
`skip_existing and await self._exists(name)` guards the upload; the chunk size under a rate limit has floor 1 and the default is
`DEFAULT_STREAM_CHUNK_SIZE`; the download opens with `'xb'` iff `skip_existing` and swallows `FileExistsError`; the selection is
`list_files(object_prefix)` filtered by `re.search`; `delete_objects` evicts the cached copy after the backend delete iff a cache
directory is configured, with `missing_ok=True` -/
theorem objcmd_model_assumptions_hold :
    Gen.objcmdNameIsRelativeToCommonPath = true ∧ Gen.objcmdUploadSkipChecksExists = true ∧ Gen.objcmdChunkFloor = 1 ∧
    Gen.objcmdDefaultChunkIsStreamChunk = true ∧ Gen.objcmdDownloadModeExclusiveIffSkip = true ∧
    Gen.objcmdDownloadSkipsOnFileExists = true ∧ Gen.objcmdFilterIsPrefixThenSearch = true ∧
    Gen.objcmdDeleteEvictsCache = true ∧ Gen.objcmdEvictMissingOk = true ∧ Gen.objcmdSectionOk = true := by decide

/-- the theorems above apply to the three adapter models: over the local model every canonical name of the universe is in the
region (`OkName`), over the S3 model every canonical name (no `.`/`..` segment), over the B2 model every canonical name without
`? # % +` -/
example (U : Path → Prop) (hU : Universe U) (hnotmp : ∀ p, U p → tmpName (joinSlash p) = false) (root : List Char)
    (hroot : goodRoot root = true) (n : Name) (hv : validName n = true) (hu : U (splitSlash n)) :
    (localModel U hU hnotmp root hroot).OkName n :=
  ⟨⟨trivial, hv, hu⟩, ⟨trivial, hv, hu⟩, fun _ _ hc => ⟨hc, hv, hu⟩, fun _ _ hc => ⟨hc, hv, hu⟩⟩

example (ps : Nat) (hps : 1 ≤ ps) (n : Name) (hv : validName n = true) : (s3Model ps hps).OkName n := by
  have hd : hasDotSegment n = false := by
    simp only [hasDotSegment, List.any_eq_false, decide_eq_true_eq]
    intro s hs
    have := (validSeg_iff s).mp (((validPath_iff _).mp hv).2 s hs)
    exact fun h => h.elim this.2.2.1 this.2.2.2
  exact ⟨⟨hd, trivial⟩, ⟨hd, trivial⟩, fun _ _ hc => ⟨hd, hc⟩, fun _ _ hc => ⟨hd, hc⟩⟩

example (ps : Nat) (hps : 1 ≤ ps) (n : Name) (hv : validName n = true)
    (hchars : ∀ c ∈ n, c ≠ '?' ∧ c ≠ '#' ∧ c ≠ '%' ∧ c ≠ '+') : (b2Model ps hps).OkName n := by
  have hd : hasDotSegment n = false := by
    simp only [hasDotSegment, List.any_eq_false, decide_eq_true_eq]
    intro s hs
    have := (validSeg_iff s).mp (((validPath_iff _).mp hv).2 s hs)
    exact fun h => h.elim this.2.2.1 this.2.2.2
  have ha := b2_safe_names n hd hchars
  exact ⟨⟨ha, trivial⟩, ⟨ha, trivial⟩, fun _ _ hc => ⟨ha, hc⟩, fun _ _ hc => ⟨ha, hc⟩⟩

/-- non-vacuity (round trip, both `skip_existing` theorems): a tree under `/w/cwd`, the path arguments "the directory" and "one of
its files again", a rate limit, a store that already holds `c` (skipped: not overwritten) and another object `x` (filtered out by
the predicate), a target directory that already holds `a/b` (skipped on download) — inside the hypotheses, and what the model
returns -/
example :
    let cwd : Path := ["w".toList, "cwd".toList]
    let t : Tree := [(cwd ++ ["a".toList, "b".toList], [1, 2]), (cwd ++ ["c".toList], [3])]
    let up := uploadObjects MapStore.step 2 cwd [] [cwd, cwd ++ ["c".toList]] (some 100) true [("x".toList, [9]), ("c".toList, [7])] t
    let down := downloadObjects MapStore.step 2 [] (fun n => n != "x".toList) none true up.st [(["a".toList, "b".toList], [0])]
    flatten t [] [cwd, cwd ++ ["c".toList]] = .ok [cwd ++ ["a".toList, "b".toList], cwd ++ ["c".toList], cwd ++ ["c".toList]] ∧
    up.res = .ok (.files [cwd ++ ["a".toList, "b".toList], cwd ++ ["c".toList]]) ∧
    up.tr.map (·.1) = [.exists_ "a/b".toList, .uploadStream "a/b".toList [1, 2] 3, .exists_ "c".toList] ∧
    MapStore.abs up.st "a/b".toList = some [1, 2] ∧ MapStore.abs up.st "c".toList = some [7] ∧
    down.res = .ok (.names ["a/b".toList, "c".toList]) ∧
    down.tr.map (·.1) = [.list [], .downloadStream "c".toList 128000 []] ∧
    down.loc.get ["a".toList, "b".toList] = some [0] ∧ down.loc.get ["c".toList] = some [7] ∧ down.loc.get ["x".toList] = none := by
  refine ⟨by decide, by decide, by decide, by decide, by decide, by decide, by decide, by decide, by decide, by decide⟩

/-- non-vacuity (`list_objects_spec`, `delete_objects_spec`): prefix `a/`, a predicate, a confirmation answered `Y`, a cache that holds a
copy of one deleted object; a second run changes nothing; an answer other than `y` leaves everything as it was -/
example :
    let s0 : MapStore := [("a/b".toList, [1]), ("a/c".toList, [2]), ("d".toList, [3])]
    let cache : Tree := [(["a".toList, "b".toList], [1]), (["k".toList], [5])]
    let del := deleteObjects MapStore.step ["a/b".toList, "zz".toList, "a/b".toList] true ['Y'] true s0 cache
    (listObjects MapStore.step "a/".toList (fun n => n != "a/c".toList) s0 []).res = .ok (.names ["a/b".toList]) ∧
    del.res = .ok .none ∧ del.st = [("a/c".toList, [2]), ("d".toList, [3])] ∧ del.loc = [(["k".toList], [5])] ∧
    (deleteObjects MapStore.step ["a/b".toList, "zz".toList, "a/b".toList] true ['Y'] true del.st del.loc).st = del.st ∧
    (deleteObjects MapStore.step ["a/b".toList] true "yes".toList true s0 cache).st = s0 ∧ proceeds true "yes".toList = false := by
  refine ⟨by decide, by decide, by decide, by decide, by decide, by decide, by decide⟩

/-- non-vacuity of the name universe used above -/
example : Universe (fun p => p = ["a".toList, "b".toList] ∨ p = ["c".toList] ∨ p = ["k".toList]) := by
  refine ⟨?_, ?_⟩
  · rintro p (rfl | rfl | rfl) <;> decide
  · rintro p q (rfl | rfl | rfl) (rfl | rfl | rfl) <;> decide

end objcmd

/-! ## overlapping calls on one local backend object: uploads in flight at the same time (the Repository's thread pool)

`LocalConc.lean`: every call of `upload` / `upload_stream` is its plan of file-system steps (`LocalUpload.uploadSteps`: mkdir -p, create
the temporary, one write per piece read from the input stream, rename over the destination); a schedule picks which call moves next
and may put deletes in between.  The specification is the log of map operations in the order of their linearisation points (the rename
of an upload, the unlink of a delete).  What other operations read (`exists`, `download`, `list_files`: names that do not end in the
temporary suffix) is `LocalUpload.vget`. -/
section overlap
open Replicat.LocalConc

/-- what the theorems of this section use of the source (read by `tools/sections/13_localtemp.py` on every run): in both upload
methods the path that is renamed over the destination comes from a generator of fresh names — it has a per-call component -/
theorem local_temp_assumptions_hold :
    Gen.localTempUniquePerCall = true ∧ Gen.localtempSectionOk = true := by decide

/-- **The temporaries of overlapping calls are private.**  The calls the source makes of any requests (same name, different names,
any directories), when the name generator hands out names that do not exist yet — which is what exclusive creation gives it while
the other temporaries are still there —, use pairwise different temporaries.  (With a temporary that is a function of the
destination alone this is false: `shared_temp_witness`, `long_siblings_share_a_deterministic_temp`.) -/
theorem source_temps_private (l : List (Req × String))
    (hfresh : ∀ (i j : Nat) (x y : Req × String), l[i]? = some x → l[j]? = some y → i ≠ j →
      tempName x.1.dirSlash x.1.base x.2 ≠ tempName y.1.dirSlash y.1.base y.2) :
    privateTemps (sourceCalls l) := by
  have hflag : Gen.localTempUniquePerCall = true := local_temp_assumptions_hold.1
  intro i j a b ha hb hij
  simp only [sourceCalls, List.getElem?_map, Option.map_eq_some_iff] at ha hb
  obtain ⟨x, hx, rfl⟩ := ha
  obtain ⟨y, hy, rfl⟩ := hb
  simp only [callOf, hflag, if_true]
  exact hfresh i j x y hx hy hij

/-- **Overlapping uploads are linearisable** (every schedule, any number of calls, same or different destinations): if the
temporaries are temporaries (`isTmp`), the destinations are not, the temporaries of the calls are private and deletes address
objects, then after EVERY prefix of every schedule each name reads exactly as in the plain map after the operations whose
linearisation point has passed, in that order — an upload takes effect at its rename, all at once, with its whole payload. -/
theorem concurrent_uploads_linearizable (calls : List Call) (fs0 : LocalUpload.FS)
    (htmp : ∀ (i : Nat) (c : Call), calls[i]? = some c → LocalUpload.isTmp c.tmp = true)
    (hdst : ∀ (i : Nat) (c : Call), calls[i]? = some c → LocalUpload.isTmp c.dst = false)
    (hpriv : privateTemps calls) (evs : List Ev) (hdel : deletesOk evs) (n : LocalUpload.Path) :
    LocalUpload.vget (run calls (init fs0) evs).fs n = LocalUpload.vget (spec fs0 (run calls (init fs0) evs).log) n :=
  (inv_run calls fs0 htmp hdst hpriv evs (init fs0) (inv_init calls fs0) hdel).obs n

/-- **Never a mixture or a prefix.**  Under the same hypotheses, at every moment of every schedule an object reads as it did before
the calls started, or not at all (deleted), or as the COMPLETE payload of one of the calls to that very name. -/
theorem overlapped_object_is_one_payload (calls : List Call) (fs0 : LocalUpload.FS)
    (htmp : ∀ (i : Nat) (c : Call), calls[i]? = some c → LocalUpload.isTmp c.tmp = true)
    (hdst : ∀ (i : Nat) (c : Call), calls[i]? = some c → LocalUpload.isTmp c.dst = false)
    (hpriv : privateTemps calls) (evs : List Ev) (hdel : deletesOk evs) (n : LocalUpload.Path)
    (hn : LocalUpload.isTmp n = false) :
    let now := LocalUpload.vget (run calls (init fs0) evs).fs n
    now = LocalUpload.vget fs0 n ∨ now = none ∨ ∃ c ∈ calls, c.dst = n ∧ now = some c.data := by
  intro now
  have hlin : now = LocalUpload.vget (spec fs0 (run calls (init fs0) evs).log) n :=
    concurrent_uploads_linearizable calls fs0 htmp hdst hpriv evs hdel n
  have hlog := log_run calls evs (init fs0) (fun _ _ h => by simp [init] at h)
  rw [hlin]
  simp only [LocalUpload.vget, hn, Bool.false_eq_true, if_false]
  rcases spec_lookup fs0 (run calls (init fs0) evs).log n with h | h | ⟨d, hd, h⟩
  · exact Or.inl h
  · exact Or.inr (Or.inl h)
  · obtain ⟨c, hc, hcn, hcd⟩ := hlog n d hd
    exact Or.inr (Or.inr ⟨c, hc, hcn, by rw [h, hcd]⟩)

/-- forced hypothesis `privateTemps`: two calls to ONE name that share their temporary.  Call 0 writes its payload `[1, 1]`; call 1
starts, re-creates (truncates) the temporary and writes the first of its two pieces; call 0 renames and returns — and the object
reads `[2]`: not the payload of the call that returned, not the other payload `[2, 2]`, not the old value. -/
theorem shared_temp_witness :
    let calls : List Call := [⟨"d", "d/a", "d/a_.tmp", [[1, 1]]⟩, ⟨"d", "d/a", "d/a_.tmp", [[2], [2]]⟩]
    let cf := run calls (init ⟨[], []⟩) [.step 0, .step 0, .step 0, .step 1, .step 1, .step 1, .step 0]
    ¬ privateTemps calls ∧ cf.pc 0 = (calls[0]?.map (·.plan.length)).getD 0 ∧
    LocalUpload.lookup cf.fs.files "d/a" = some [2] ∧ LocalUpload.lookup (spec ⟨[], []⟩ cf.log).files "d/a" = some [1, 1] := by
  refine ⟨?_, by decide, by decide, by decide⟩
  intro h
  exact h 0 1 _ _ rfl rfl (by decide) rfl

/-- … and two DIFFERENT names of one directory share it as well when the temporary is named after the destination's first
`Gen.localTempStemLen` characters without a per-call component: base names that agree on that many characters get the same
temporary.  (Why the per-call component, not the shortened base name, is what keeps overlapping uploads apart.) -/
theorem long_siblings_share_a_deterministic_temp (stem x y fixed : List Char) (h : stem.length = Gen.localTempStemLen) :
    tempBase (stem ++ x) fixed = tempBase (stem ++ y) fixed := by
  unfold tempBase
  rw [← h, List.take_left, List.take_left]

/-- **The temporary's name fits wherever the destination's does**: the shortened base name, the separator, the characters the
name generator adds and the suffix stay within `NAME_MAX`, for every base name and every drawn name of the generator's length. -/
theorem temp_name_fits (base rnd : List Char) (hr : rnd.length = Gen.localTempRandomLen) :
    (tempBase base rnd).length ≤ nameMax := by
  have hk : Gen.localTempStemLen + 1 + Gen.localTempRandomLen + Gen.localTempSuffix.toList.length ≤ nameMax := by decide
  unfold tempBase
  simp only [List.length_append, List.length_cons, List.length_take, hr]
  have := Nat.min_le_left Gen.localTempStemLen base.length
  omega

/-- non-vacuity: three calls with private temporaries — two to ONE name, one to a sibling — and a delete, interleaved piece by
piece; both uploads of `d/a` are in flight when the first one is renamed.  The hypotheses hold, and the object reads as the second
payload at the end, the sibling as its own. -/
example :
    let calls : List Call := [⟨"d", "d/a", "d/a_k1.tmp", [[1], [1]]⟩, ⟨"d", "d/a", "d/a_k2.tmp", [[2], [2]]⟩, ⟨"d", "d/b", "d/b_k3.tmp", [[3]]⟩]
    let evs : List Ev := [.step 0, .step 1, .step 0, .step 1, .step 2, .step 0, .step 1, .step 0, .step 2, .step 0, .delete "d/z", .step 1, .step 1,
      .step 2, .step 2]
    let cf := run calls (init ⟨[("d/z", [9])], []⟩) evs
    privateTempsB calls = true ∧
    LocalUpload.lookup cf.fs.files "d/a" = some [2, 2] ∧ LocalUpload.lookup cf.fs.files "d/b" = some [3] ∧
    LocalUpload.lookup cf.fs.files "d/z" = none ∧ cf.log = [.put "d/b" [3], .put "d/a" [2, 2], .del "d/z", .put "d/a" [1, 1]] := by
  refine ⟨by decide, by decide, by decide, by decide, by decide⟩

end overlap

end Replicat.C13
