import ReplicatModel.LocalFS
namespace Replicat.C13
theorem placeholder : True := trivial
end Replicat.C13
