import ReplicatProofs.Lemmas.Store
import ReplicatProofs.Lemmas.Paging
import ReplicatProofs.Lemmas.LocalSpec
/-!
# C13 — all backends behave as the same simple object store

Specification: `Store.Spec = Name → Option Bytes` with `Store.SpecStep` (what every operation must return and do).
Property theorems only; helper lemmas live in `Lemmas/Store.lean`, `Lemmas/Paging.lean`, `Lemmas/LocalFS.lean`.
-/
namespace Replicat.C13
open Replicat Replicat.Store Replicat.Paging Replicat.LocalFS

/-- side conditions every adapter shares: the streamed variants are called with a chunk size ≥ 1 -/
def ChunkOk : Op → Prop
  | .uploadStream _ _ c => 1 ≤ c
  | .downloadStream _ c _ => 1 ≤ c
  | _ => True

/-- the name an operation addresses satisfies `P` (listings: no condition) -/
def NameOk (P : Name → Prop) (op : Op) : Prop :=
  match op.name? with
  | some n => P n
  | none => True

/-! ## pagination -/

/-- **S3 pagination is complete.** Against every protocol-conformant service (any split of the matching keys into pages,
any order of the XML elements inside a page) the `IsTruncated` / `NextContinuationToken` loop returns exactly the keys the
service holds, in order, each as often as served, sends exactly one request per page, and terminates: any fuel ≥ the number
of pages gives the same result. -/
theorem s3_paging_complete (respond : Option Name → List Elem) (ks : List Name) (n : Nat)
    (hc : S3Conf respond none ks n) (fuel : Nat) (hf : n ≤ fuel) :
    s3List respond fuel = some ks ∧ s3Requests respond fuel ⟨Gen.s3LoopStartsTruncated, none⟩ = n := by
  unfold s3List
  rw [gen_startsTruncated]
  exact s3Loop_conf respond none ks n hc fuel hf ⟨true, none⟩ rfl rfl

/-- **B2 pagination is complete** (`nextFileName` loop), same statement. -/
theorem b2_paging_complete (respond : Option Name → B2Page) (ks : List Name) (n : Nat)
    (hc : B2Conf respond none ks n) (fuel : Nat) (hf : n ≤ fuel) :
    b2List respond fuel = some ks ∧ b2Requests respond fuel none = n :=
  b2Loop_conf respond none ks n hc fuel hf

/-- **Every page size ≥ 1.** The services that cut the listing into pages of `ps` names are protocol-conformant, so both
loops return exactly the names the service holds, each once, however many pages that takes. -/
theorem paging_complete (ps : Nat) (hps : 1 ≤ ps) (names : List Name) (hnd : names.Nodup) :
    s3List (s3Serve ps names) (names.length + 1) = some names ∧
    b2List (b2Serve ps names) (names.length + 1) = some names := by
  obtain ⟨n, hn, hc⟩ := s3Serve_conf ps hps names
  obtain ⟨m, hm, hb⟩ := b2Serve_conf ps hps names hnd
  exact ⟨(s3_paging_complete _ names n hc _ hn).1, (b2_paging_complete _ names m hb _ hm).1⟩

/-- the flag test and the sticky token are what the loop really depends on: a page that says `IsTruncated = true` and
carries no token makes the loop ask for the same page again (so the conformance hypothesis is not vacuous) -/
theorem s3_nonconformant_witness :
    s3List (fun _ => [(tagIsTruncated, "true".toList), (tagKey, "k".toList)]) 5 = none := by decide

/-! ## streams -/

/-- **Streamed transfers are lossless** for every chunk size ≥ 1: the bytes that reach the service are the payload, and a
sink with arbitrary previous content holds exactly the object afterwards. -/
theorem stream_lossless (c : Nat) (hc : 1 ≤ c) (d sink : Bytes) : streamed c d = d ∧ sinkAfter sink c d = d :=
  ⟨streamed_eq c hc d, sinkAfter_eq sink c hc d⟩

/-! ## the executable specification and the S3 adapter -/

/-- the association-list store run by the driver is the specification -/
theorem map_refines (s : MapStore) (hinv : s.Inv) (op : Op) :
    (s.step op).1.Inv ∧ SpecStep s.abs op (s.step op).1.abs (s.step op).2 := by
  cases op with
  | upload n d => exact ⟨MapStore.inv_put s n d hinv, MapStore.abs_put s n d, rfl⟩
  | uploadStream n d c => exact ⟨MapStore.inv_put s n d hinv, MapStore.abs_put s n d, rfl⟩
  | delete n => exact ⟨MapStore.inv_erase s n hinv, MapStore.abs_erase s n, rfl⟩
  | exists_ n => exact ⟨hinv, rfl, rfl⟩
  | download n =>
    refine ⟨hinv, rfl, ?_⟩
    simp only [MapStore.step, MapStore.abs]
  | downloadStream n c sink =>
    refine ⟨hinv, rfl, ?_⟩
    simp only [MapStore.step, MapStore.abs]
  | list pfx =>
    obtain ⟨h1, h2⟩ := MapStore.list_ok s hinv pfx
    exact ⟨hinv, rfl, _, rfl, h1, h2⟩

/-- **The S3 adapter refines the map**, for every page size ≥ 1, on names without `.`/`..` segments: every operation
returns what the map returns and commutes with the abstraction (PUT replaces, DELETE is idempotent, HEAD/GET agree with the
map, listing = the live names with the prefix, each once). -/
theorem s3_refines (ps : Nat) (hps : 1 ≤ ps) (s : S3) (hinv : MapStore.Inv s) (op : Op)
    (hn : NameOk (fun n => hasDotSegment n = false) op) (hc : ChunkOk op) :
    MapStore.Inv (S3.step ps s op).1 ∧ SpecStep (MapStore.abs s) op (MapStore.abs (S3.step ps s op).1) (S3.step ps s op).2 := by
  cases op with
  | upload n d =>
    have hn' : hasDotSegment n = false := hn
    simp only [S3.step, s3Guard, hn', Bool.false_eq_true, if_false]
    exact ⟨MapStore.inv_put s n d hinv, MapStore.abs_put s n d, rfl⟩
  | uploadStream n d c =>
    have hn' : hasDotSegment n = false := hn
    have hc' : 1 ≤ c := hc
    simp only [S3.step, s3Guard, hn', Bool.false_eq_true, if_false, streamed_eq c hc' d]
    exact ⟨MapStore.inv_put s n d hinv, MapStore.abs_put s n d, rfl⟩
  | delete n =>
    have hn' : hasDotSegment n = false := hn
    simp only [S3.step, s3Guard, hn', Bool.false_eq_true, if_false]
    exact ⟨MapStore.inv_erase s n hinv, MapStore.abs_erase s n, rfl⟩
  | exists_ n =>
    have hn' : hasDotSegment n = false := hn
    simp only [S3.step, s3Guard, hn', Bool.false_eq_true, if_false]
    exact ⟨hinv, rfl, rfl⟩
  | download n =>
    have hn' : hasDotSegment n = false := hn
    simp only [S3.step, s3Guard, hn', Bool.false_eq_true, if_false]
    refine ⟨hinv, rfl, ?_⟩
    simp only [MapStore.abs]
  | downloadStream n c sink =>
    have hn' : hasDotSegment n = false := hn
    have hc' : 1 ≤ c := hc
    simp only [S3.step, s3Guard, hn', Bool.false_eq_true, if_false]
    refine ⟨hinv, rfl, ?_⟩
    simp only [MapStore.abs]
    cases MapStore.get s n with
    | none => rfl
    | some d => simp only [sinkAfter_eq sink c hc' d]
  | list pfx =>
    obtain ⟨h1, h2⟩ := MapStore.list_ok s hinv pfx
    have hp := (paging_complete ps hps _ h1).1
    simp only [S3.step, hp]
    exact ⟨hinv, rfl, _, rfl, h1, h2⟩

/-- forced hypothesis (D8): for a name with a dot segment the S3 adapter does not behave like the map — the signed path and
the path httpx sends differ, the service answers 403 and nothing is stored -/
theorem s3_dot_segment_witness :
    hasDotSegment "a/../b".toList = true ∧
    (S3.step 1000 [] (.upload "a/../b".toList [1])).2 = .error .forbidden ∧
    ¬ SpecStep (MapStore.abs []) (.upload "a/../b".toList [1]) (MapStore.abs (S3.step 1000 [] (.upload "a/../b".toList [1])).1)
      (S3.step 1000 [] (.upload "a/../b".toList [1])).2 := by
  refine ⟨by decide, by decide, ?_⟩
  intro h
  have : (S3.step 1000 [] (.upload "a/../b".toList [1])).2 = .unit := h.2
  exact absurd this (by decide)

/-! ## the B2 adapter -/

/-- **The B2 adapter refines the map**, for every page size ≥ 1, on names that survive being put unquoted into a URL
(`b2Addr n = some n`): uploads push a version, `delete` hides (idempotent because `already_hidden` / `no_such_file` are
tolerated — read from the source), download / exists see the newest version iff it is an upload, and listing returns the
names whose newest version is an upload, each once, whatever versions and hide markers lie below. -/
theorem b2_refines (ps : Nat) (hps : 1 ≤ ps) (s : B2) (hinv : s.Inv) (op : Op)
    (hn : NameOk (fun n => b2Addr n = some n) op) (hc : ChunkOk op) :
    (B2.step ps s op).1.Inv ∧ SpecStep s.abs op (B2.step ps s op).1.abs (B2.step ps s op).2 := by
  cases op with
  | upload n d => exact ⟨B2.inv_setVersions s n _ hinv, B2.abs_upload s n d _, rfl⟩
  | uploadStream n d c =>
    have hc' : 1 ≤ c := hc
    simp only [B2.step, streamed_eq c hc' d]
    exact ⟨B2.inv_setVersions s n _ hinv, B2.abs_upload s n d _, rfl⟩
  | delete n =>
    have htol1 : (400 = Gen.b2ToleratedHideStatus ∧ "no_such_file" ∈ Gen.b2ToleratedHideCodes) := by decide
    have htol2 : (400 = Gen.b2ToleratedHideStatus ∧ "already_hidden" ∈ Gen.b2ToleratedHideCodes) := by decide
    simp only [B2.step, B2.hideFile]
    cases hv : s.versions n with
    | nil =>
      have hvis : s.visible n = none := by simp [B2.visible, hv, headUp]
      simp only [htol1, and_self, if_true]
      exact ⟨hinv, (B2.abs_del_of_not_visible s n hvis).symm, rfl⟩
    | cons v vs =>
      cases v with
      | hide =>
        have hvis : s.visible n = none := by simp [B2.visible, hv, headUp]
        simp only [htol2, and_self, if_true]
        exact ⟨hinv, (B2.abs_del_of_not_visible s n hvis).symm, rfl⟩
      | up d => exact ⟨B2.inv_setVersions s n _ hinv, B2.abs_hide s n _, rfl⟩
  | exists_ n =>
    have hn' : b2Addr n = some n := hn
    simp only [B2.step, hn']
    exact ⟨hinv, rfl, rfl⟩
  | download n =>
    have hn' : b2Addr n = some n := hn
    simp only [B2.step, hn']
    refine ⟨hinv, rfl, ?_⟩
    simp only [B2.abs]
  | downloadStream n c sink =>
    have hn' : b2Addr n = some n := hn
    have hc' : 1 ≤ c := hc
    simp only [B2.step, hn']
    refine ⟨hinv, rfl, ?_⟩
    simp only [B2.abs]
    cases s.visible n with
    | none => rfl
    | some d => simp only [sinkAfter_eq sink c hc' d]
  | list pfx =>
    have h1 : (s.liveNames.filter (fun k => pfx.isPrefixOf k)).Nodup := (B2.nodup_liveNames s hinv).filter _
    have hp := (paging_complete ps hps _ h1).2
    simp only [B2.step, hp]
    refine ⟨hinv, rfl, _, rfl, h1, ?_⟩
    intro n
    simp only [List.mem_filter, B2.mem_liveNames s hinv, List.isPrefixOf_iff_prefix, B2.abs]

/-- the hypothesis of `b2_refines` in terms of characters: names without `.`/`..` segments and without `? # % +` qualify -/
theorem b2_safe_names (n : Name) (hdot : hasDotSegment n = false)
    (hchars : ∀ c ∈ n, c ≠ '?' ∧ c ≠ '#' ∧ c ≠ '%' ∧ c ≠ '+') : b2Addr n = some n :=
  b2Addr_safe n hdot hchars

/-- forced hypothesis (D8): B2 object names are put into the download URL unquoted; `?` ends the path, so `exists` looks at
another object — after uploading `a?b` the adapter reports it missing -/
theorem b2_url_metachar_witness :
    b2Addr "a?b".toList = some "a".toList ∧
    (B2.step 1000 (B2.step 1000 [] (.upload "a?b".toList [1])).1 (.exists_ "a?b".toList)).2 = .bool false ∧
    ((B2.step 1000 [] (.upload "a?b".toList [1])).1.abs "a?b".toList).isSome = true := by
  refine ⟨by decide, by decide, by decide⟩

/-! ## the local adapter -/

/-- **The local adapter refines the map** (every operation except listing, which has its own theorems below), for every
spelling `root` of the repository location, over a name universe `U` of canonical names none of which is a directory prefix
of another: the temp-file-and-rename upload replaces the object, `unlink(missing_ok=True)` makes delete idempotent,
`os.path.exists` / `read_bytes` agree with the map; the invariant `Inv U` (used by the listing theorems) is preserved. -/
theorem local_refines (U : Path → Prop) (hU : Universe U) (root : List Char) (fs : FS) (hinv : Inv U fs) (op : Op)
    (hn : NameOk (fun n => validName n = true ∧ U (splitSlash n)) op) (hc : ChunkOk op) (hop : op.name?.isSome = true) :
    Inv U (LocalFS.step root fs op).1 ∧
    SpecStep fs.abs op (LocalFS.step root fs op).1.abs (LocalFS.step root fs op).2 := by
  have hmiss : Gen.localUnlinkMissingOk = true := by decide
  cases op with
  | list pfx => simp [Op.name?] at hop
  | upload n d =>
    obtain ⟨hv, hu⟩ : validName n = true ∧ U (splitSlash n) := hn
    have hne : splitSlash n ≠ [] := splitSlash_ne_nil n
    simp only [LocalFS.step, relPath_valid hv, hne, not_blocked hU hinv hu, not_isDir hU hinv hu, false_or, Bool.false_eq_true,
      if_false]
    exact ⟨inv_upload hinv hu d, abs_upload fs hv d, rfl⟩
  | uploadStream n d c =>
    obtain ⟨hv, hu⟩ : validName n = true ∧ U (splitSlash n) := hn
    have hc' : 1 ≤ c := hc
    have hne : splitSlash n ≠ [] := splitSlash_ne_nil n
    simp only [LocalFS.step, relPath_valid hv, hne, not_blocked hU hinv hu, not_isDir hU hinv hu, false_or, Bool.false_eq_true,
      if_false, streamed_eq c hc' d]
    exact ⟨inv_upload hinv hu d, abs_upload fs hv d, rfl⟩
  | delete n =>
    obtain ⟨hv, hu⟩ : validName n = true ∧ U (splitSlash n) := hn
    simp only [LocalFS.step, relPath_valid hv, kind_of_U hU hinv hu]
    by_cases hf : fs.isFile (splitSlash n) = true
    · simp only [hf, if_true]
      exact ⟨inv_erase hinv _, abs_erase fs hv, rfl⟩
    · have hnone : fs.abs n = none := by
        unfold FS.abs; simp only [hv, if_true]
        simpa [FS.isFile] using hf
      simp only [hf, Bool.false_eq_true, if_false, not_blocked hU hinv hu, hmiss, if_true]
      exact ⟨hinv, (abs_del_of_none fs n hnone).symm, rfl⟩
  | exists_ n =>
    obtain ⟨hv, hu⟩ : validName n = true ∧ U (splitSlash n) := hn
    simp only [LocalFS.step, relPath_valid hv, kind_of_U hU hinv hu]
    refine ⟨hinv, rfl, ?_⟩
    unfold FS.abs; simp only [hv, if_true]
    by_cases hf : fs.isFile (splitSlash n) = true
    · have : (fs.get (splitSlash n)).isSome = true := hf
      simp [hf, this]
    · have : (fs.get (splitSlash n)).isSome = false := by simpa [FS.isFile] using hf
      simp [hf, this]
  | download n =>
    obtain ⟨hv, hu⟩ : validName n = true ∧ U (splitSlash n) := hn
    rw [step_download hU hinv root hv hu]
    exact ⟨hinv, rfl, rfl⟩
  | downloadStream n c sink =>
    obtain ⟨hv, hu⟩ : validName n = true ∧ U (splitSlash n) := hn
    have hc' : 1 ≤ c := hc
    rw [step_downloadStream hU hinv root hv hu]
    refine ⟨hinv, rfl, ?_⟩
    show (match fs.abs n with | some d => Ret.bytes (sinkAfter sink c d) | none => Ret.error Err.notFound) = _
    cases fs.abs n with
    | none => rfl
    | some d => simp only [sinkAfter_eq sink c hc' d]

/-- **Local listing, as the code computes it.**  For a repository location with at least one pathlib part and a prefix whose
directory part is normal, `list_files` (split the prefix, scan, recurse, drop `*.tmp`, slice by the root string) returns
exactly the live names that start with the prefix *and do not end in `.tmp`*, each once. -/
theorem local_list_spec (U : Path → Prop) (hU : Universe U) (fs : FS) (hinv : Inv U fs)
    (root : List Char) (hroot : goodRoot root = true) (pfx : Name) (hp : normalPrefix pfx = true) :
    ∃ l, LocalFS.list root fs pfx = .names l ∧ l.Nodup ∧
      ∀ n, n ∈ l ↔ (fs.abs n).isSome = true ∧ pfx <+: n ∧ tmpName n = false := by
  obtain ⟨ds, bn, hds, hbn, rfl⟩ := normalPrefix_split pfx hp
  have hroot' : (pparse root).parts ≠ [] := by simpa [goodRoot] using hroot
  refine ⟨_, list_normal_form hU hinv root hroot' ds hds bn hbn, (nodup_listNF hU hinv ds bn).filter _, ?_⟩
  intro n
  simp only [List.mem_filter, mem_listNF hU hinv ds hds bn hbn, abs_isSome_iff hU hinv, tmpName, Bool.not_eq_true']
  constructor
  · rintro ⟨⟨q, hq, rfl, hpre⟩, ht⟩; exact ⟨⟨q, hq, rfl⟩, hpre, ht⟩
  · rintro ⟨⟨q, hq, rfl⟩, hpre, ht⟩; exact ⟨⟨q, hq, rfl, hpre⟩, ht⟩

/-- **Local listing refines the map** — `_partial`: besides the universe of the property it needs (i) a repository location
with at least one pathlib part (fails for `.`, `''`, `./`: D6), (ii) a prefix whose directory part is a normal relative
path, (iii) no object name ending in `.tmp` (D7).  Missing for the full statement: (i) and (iii) are defects of the code
(witnesses below), (ii) is where `os.path.split` / pathlib normalisation and plain string prefixes part ways. -/
theorem local_list_refines_partial (U : Path → Prop) (hU : Universe U) (fs : FS) (hinv : Inv U fs)
    (root : List Char) (hroot : goodRoot root = true) (pfx : Name) (hp : normalPrefix pfx = true)
    (hnotmp : ∀ p, U p → tmpName (joinSlash p) = false) :
    Inv U (LocalFS.step root fs (.list pfx)).1 ∧
    SpecStep fs.abs (.list pfx) (LocalFS.step root fs (.list pfx)).1.abs (LocalFS.step root fs (.list pfx)).2 := by
  obtain ⟨l, hl, hnd, hmem⟩ := local_list_spec U hU fs hinv root hroot pfx hp
  refine ⟨hinv, rfl, l, hl, hnd, ?_⟩
  intro n
  rw [hmem]
  constructor
  · rintro ⟨h1, h2, _⟩; exact ⟨h1, h2⟩
  · rintro ⟨h1, h2⟩
    refine ⟨h1, h2, ?_⟩
    obtain ⟨q, hq, rfl⟩ := (abs_isSome_iff hU hinv n).mp h1
    exact hnotmp q (hinv.filesU q hq)

/-- **The spelling of the repository location does not matter**: two locations with at least one pathlib part give the same
listing (same list, not only the same set) for every prefix with a normal directory part, and every other operation does
not look at the spelling at all. -/
theorem root_spelling (U : Path → Prop) (hU : Universe U) (fs : FS) (hinv : Inv U fs)
    (r1 r2 : List Char) (h1 : goodRoot r1 = true) (h2 : goodRoot r2 = true) (op : Op)
    (hop : ∀ pfx, op = .list pfx → normalPrefix pfx = true) :
    LocalFS.step r1 fs op = LocalFS.step r2 fs op := by
  cases op with
  | list pfx =>
    obtain ⟨ds, bn, hds, hbn, rfl⟩ := normalPrefix_split pfx (hop pfx rfl)
    have h1' : (pparse r1).parts ≠ [] := by simpa [goodRoot] using h1
    have h2' : (pparse r2).parts ≠ [] := by simpa [goodRoot] using h2
    simp only [LocalFS.step, list_normal_form hU hinv r1 h1' ds hds bn hbn, list_normal_form hU hinv r2 h2' ds hds bn hbn]
  | upload n d => rfl
  | uploadStream n d c => rfl
  | delete n => rfl
  | exists_ n => rfl
  | download n => rfl
  | downloadStream n c sink => rfl

/-- D6, forced hypothesis (i): with the repository spelled `.` and a prefix that has a directory part, every returned name
has lost its first two characters (`Path('.') / 'data'` is `data`, not `./data`, but `len('.') + 1` characters are cut) -/
theorem d6_root_dot_witness :
    goodRoot ".".toList = false ∧
    LocalFS.list ".".toList (FS.empty.upload ["data".toList, "ab".toList] [1]) "data/".toList = .names ["ta/ab".toList] ∧
    LocalFS.list "repo".toList (FS.empty.upload ["data".toList, "ab".toList] [1]) "data/".toList = .names ["data/ab".toList] := by
  refine ⟨by decide, by decide, by decide⟩

/-- D7, forced hypothesis (iii): an object whose name ends in `.tmp` exists, can be downloaded, and is never listed -/
theorem d7_tmp_hidden_witness :
    ((FS.empty.upload ["a".toList, "x.tmp".toList] [1]).abs "a/x.tmp".toList).isSome = true ∧
    LocalFS.list "repo".toList (FS.empty.upload ["a".toList, "x.tmp".toList] [1]) "a/".toList = .names [] := by
  refine ⟨by decide, by decide⟩

/-- hypothesis (ii) is needed: for the prefix `a//` the code lists `a/b`, which does not start with `a//` -/
theorem abnormal_prefix_witness :
    normalPrefix "a//".toList = false ∧
    LocalFS.list "repo".toList (FS.empty.upload ["a".toList, "b".toList] [1]) "a//".toList = .names ["a/b".toList] ∧
    ¬ ("a//".toList <+: "a/b".toList) := by
  refine ⟨by decide, by decide, by decide⟩

/-- **An upload replaces the object atomically**: after each of the file-system steps of an upload (create the parent
directories, create the temporary, write it, rename it over the destination) every name that does not end in `.tmp` reads —
through `exists`, `download` and listings, i.e. through the abstraction — either as before the upload or as after it; the
switch happens at the rename.  (A failed attempt's cleanup and power-loss durability are not modelled here.) -/
theorem local_upload_atomic (fs : FS) (n : Name) (rnd : List Char) (d : Bytes) (k : Nat) :
    (∀ m, tmpName m = false → (uploadState fs (splitSlash n) rnd d k).abs m = fs.abs m) ∨
    (∀ m, tmpName m = false → (uploadState fs (splitSlash n) rnd d k).abs m = (fs.upload (splitSlash n) d).abs m) := by
  have key : ∀ m, tmpName m = false → splitSlash m ≠ tempPath (splitSlash n) rnd := fun m hm => ne_tempPath m hm _ _
  have hget : ∀ (F : List (Path × Bytes)) (v : Bytes) (m : Name), tmpName m = false →
      alookup (ainsert F (tempPath (splitSlash n) rnd) v) (splitSlash m) = alookup F (splitSlash m) := by
    intro F v m hm
    rw [alookup_ainsert, if_neg (key m hm)]
  match k with
  | 0 => left; intro m _; rfl
  | 1 => left; intro m _; rfl
  | 2 =>
    left; intro m hm
    simp only [FS.abs, FS.get, uploadState_2, hget _ _ m hm]
  | 3 =>
    left; intro m hm
    simp only [FS.abs, FS.get, uploadState_3, hget _ _ m hm]
  | k + 4 =>
    right; intro m hm
    rw [uploadState_final]
    simp only [FS.abs, FS.get, FS.upload, FS.write, FS.mkdirs]
    by_cases hv : validName m = true
    · simp only [hv, if_true, alookup_ainsert (k := splitSlash m) (n := splitSlash n)]
      by_cases hp : splitSlash m = splitSlash n
      · simp only [hp, if_true]
      · simp only [hp, if_false]
        rw [alookup_aerase_ne _ _ _ (key m hm), hget _ _ m hm, hget _ _ m hm]
    · simp only [hv, Bool.false_eq_true, if_false]

/-- what the models assume about the source beyond the constants they use (read from the current source by the extractor):
the B2 loop stops exactly when `nextFileName` is null, B2 uploads send the quoted name, `exists` maps exactly a 404 to False -/
theorem model_assumptions_hold :
    Gen.b2LoopStopsOnNullNext = true ∧ Gen.b2UploadNameQuoted = true ∧
    Gen.s3ExistsFalseStatus = 404 ∧ Gen.b2ExistsFalseStatus = 404 ∧ Gen.storeSectionOk = true := by decide

/-! ## histories -/

/-- **Refinement lifts to histories**: if every step of an adapter model refines the specification (under an invariant and a
side condition on the operations), every history returns what the map returns, operation by operation. -/
theorem history_refines {σ : Type} (step : σ → Op → σ × Ret) (abs : σ → Spec) (inv : σ → Prop) (ok : Op → Prop)
    (hstep : ∀ s op, inv s → ok op → inv (step s op).1 ∧ SpecStep (abs s) op (abs (step s op).1) (step s op).2)
    (s : σ) (hs : inv s) (ops : List Op) (hok : ∀ op ∈ ops, ok op) :
    inv (runHistory step s ops).1 ∧ SpecRun (abs s) ops (abs (runHistory step s ops).1) (runHistory step s ops).2 := by
  induction ops generalizing s with
  | nil => exact ⟨hs, SpecRun.nil _⟩
  | cons op ops ih =>
    obtain ⟨h1, h2⟩ := hstep s op hs (hok op (by simp))
    obtain ⟨h3, h4⟩ := ih (step s op).1 h1 (fun o ho => hok o (List.mem_cons_of_mem _ ho))
    exact ⟨h3, SpecRun.cons h2 h4⟩

/-- what a history over the local adapter may contain (the region of the theorems above) -/
def LocalOk (U : Path → Prop) (op : Op) : Prop :=
  ChunkOk op ∧ match op with
    | .list pfx => normalPrefix pfx = true
    | op => NameOk (fun n => validName n = true ∧ U (splitSlash n)) op

/-- **All three adapters, every history** (`_partial` through the hypotheses of the step theorems): starting empty, the S3
model (any page size ≥ 1), the B2 model (any page size ≥ 1) and the local model (any good spelling of the location) each
return, operation by operation, what the name-to-bytes map returns. -/
theorem all_adapters_history_partial (ps : Nat) (hps : 1 ≤ ps) (U : Path → Prop) (hU : Universe U)
    (hnotmp : ∀ p, U p → tmpName (joinSlash p) = false) (root : List Char) (hroot : goodRoot root = true)
    (ops : List Op)
    (hs3 : ∀ op ∈ ops, NameOk (fun n => hasDotSegment n = false) op ∧ ChunkOk op)
    (hb2 : ∀ op ∈ ops, NameOk (fun n => b2Addr n = some n) op ∧ ChunkOk op)
    (hloc : ∀ op ∈ ops, LocalOk U op) :
    SpecRun Spec.empty ops (MapStore.abs (runHistory (S3.step ps) [] ops).1) (runHistory (S3.step ps) [] ops).2 ∧
    SpecRun Spec.empty ops (B2.abs (runHistory (B2.step ps) [] ops).1) (runHistory (B2.step ps) [] ops).2 ∧
    SpecRun Spec.empty ops (FS.abs (runHistory (LocalFS.step root) FS.empty ops).1) (runHistory (LocalFS.step root) FS.empty ops).2 := by
  refine ⟨?_, ?_, ?_⟩
  · exact (history_refines (S3.step ps) MapStore.abs MapStore.Inv _
      (fun s op hi ho => s3_refines ps hps s hi op ho.1 ho.2) [] List.nodup_nil ops hs3).2
  · exact (history_refines (B2.step ps) B2.abs B2.Inv _
      (fun s op hi ho => b2_refines ps hps s hi op ho.1 ho.2) [] List.nodup_nil ops hb2).2
  · have h := (history_refines (LocalFS.step root) FS.abs (Inv U) (LocalOk U) ?_ FS.empty (Inv.empty U) ops hloc).2
    · have he : FS.empty.abs = Spec.empty := by
        funext n; unfold FS.abs Spec.empty; by_cases hv : validName n = true <;> simp [hv, FS.get, FS.empty, alookup]
      rw [he] at h; exact h
    · intro fs op hi ho
      cases op with
      | list pfx => exact local_list_refines_partial U hU fs hi root hroot pfx ho.2 hnotmp
      | upload n d => exact local_refines U hU root fs hi _ ho.2 ho.1 rfl
      | uploadStream n d c => exact local_refines U hU root fs hi _ ho.2 ho.1 rfl
      | delete n => exact local_refines U hU root fs hi _ ho.2 ho.1 rfl
      | exists_ n => exact local_refines U hU root fs hi _ ho.2 ho.1 rfl
      | download n => exact local_refines U hU root fs hi _ ho.2 ho.1 rfl
      | downloadStream n c sink => exact local_refines U hU root fs hi _ ho.2 ho.1 rfl

/-! ## the S3 adapter and the wall clock -/

/-- the clocks of the adapter and of the service agree up to the service's window when the call is made -/
abbrev ClockOk (skew : Nat) (t : Timed) : Prop := withinSkew skew t.client t.server = true

/-- **Every request the adapter prepares is accepted as far as time goes**, at every clock reading (any date, any time of
day): `x-amz-date`, the credential-scope date and the date of the signing key come from one reading of the clock, so the only
thing the service can object to is the distance between the two clocks. -/
theorem s3_stamp_accepted (skew : Nat) (client server : Time) (h : withinSkew skew client server = true) :
    s3Accepts skew server (s3Stamp client) = true := by
  rw [s3Accepts_stamp]; exact h

/-- **What an S3 call returns does not depend on when it is made**: for every state, operation and pair of clock readings
inside the window, the timed adapter model does what the untimed one does. -/
theorem s3_clock_independent (skew ps : Nat) (s : S3) (t : Timed) (h : ClockOk skew t) :
    S3.stepT skew ps s t = S3.step ps s t.op :=
  S3.stepT_of_within skew ps s t h

/-- **One long-lived S3 adapter object, every clock schedule**: however the wall clock moves between (and during) the calls
of a history — standing still, crossing any number of UTC date changes, stepping back — as long as the two clocks agree up to
the service's window at every call, the history returns, operation by operation, what the name-to-bytes map returns. -/
theorem s3_timed_history_refines (skew ps : Nat) (hps : 1 ≤ ps) (ts : List Timed)
    (hclock : ∀ t ∈ ts, ClockOk skew t)
    (hs3 : ∀ t ∈ ts, NameOk (fun n => hasDotSegment n = false) t.op ∧ ChunkOk t.op) :
    SpecRun Spec.empty (ts.map (·.op)) (MapStore.abs (S3.runT skew ps [] ts).1) (S3.runT skew ps [] ts).2 := by
  rw [S3.runT_eq skew ps [] ts hclock]
  refine (history_refines (S3.step ps) MapStore.abs MapStore.Inv
    (fun op => NameOk (fun n => hasDotSegment n = false) op ∧ ChunkOk op)
    (fun s op hi ho => s3_refines ps hps s hi op ho.1 ho.2) [] List.nodup_nil (ts.map (·.op)) ?_).2
  intro op hop
  obtain ⟨t, ht, rfl⟩ := List.mem_map.mp hop
  exact hs3 t ht

/-- forced hypothesis (environment, not a defect): a client whose clock is an hour ahead of the service's has every request
rejected (403 `RequestTimeTooSkewed`), so nothing is stored -/
theorem s3_clock_skew_witness :
    withinSkew 900 (1000000 + 3600) 1000000 = false ∧
    (S3.stepT 900 1000 [] ⟨1000000 + 3600, 1000000, .upload "a".toList [1]⟩).2 = .error .forbidden ∧
    (S3.stepT 900 1000 [] ⟨1000000 + 3600, 1000000, .upload "a".toList [1]⟩).1 = [] := by
  refine ⟨by decide, by decide, by decide⟩

/-- why `s3_stamp_accepted` rests on the ONE reading: a request whose signing key was derived on an earlier day than its
credential scope says is rejected by the service even when both clocks agree exactly (so the acceptance theorem is not vacuous) -/
theorem s3_stale_key_rejected (skew : Nat) (now : Time) (keyDay : Nat) (h : keyDay ≠ utcDay now) :
    s3Accepts skew now { amz := now, scopeDay := utcDay now, keyDay := keyDay } = false := by
  simp [s3Accepts, h]

/-- non-vacuity: one adapter object, a history that starts at 23:59:58 UTC of day 19 791 and ends on day 19 793 (the client's
clock 5 s ahead of the service's, a second date change inside the history, one step back across midnight): inside the hypotheses
of `s3_timed_history_refines`, and what the timed model returns -/
example :
    let ts : List Timed := [⟨1710028798 + 5, 1710028798, .upload "a/b".toList [1]⟩, ⟨1710028801 + 5, 1710028801, .upload "a/c".toList [2]⟩,
      ⟨1710028799, 1710028802, .delete "a/b".toList⟩, ⟨1710115300, 1710115300, .list "a/".toList⟩]
    (∀ t ∈ ts, ClockOk 900 t) ∧ utcDay 1710028798 + 1 = utcDay 1710028806 ∧ utcDay 1710028799 + 2 = utcDay 1710115300 ∧
    (S3.runT 900 1 [] ts).2 = [.unit, .unit, .unit, .names ["a/c".toList]] := by
  refine ⟨by decide, by decide, by decide, by decide⟩

/-- non-vacuity: a concrete universe, a concrete history inside every hypothesis above, and what the three models return -/
example :
    (runHistory (S3.step 1) [] [.upload "a/b".toList [1], .upload "a/c".toList [2], .delete "a/b".toList, .list "a/".toList]).2
      = [.unit, .unit, .unit, .names ["a/c".toList]] ∧
    (runHistory (B2.step 1) [] [.upload "a/b".toList [1], .upload "a/c".toList [2], .delete "a/b".toList, .list "a/".toList]).2
      = [.unit, .unit, .unit, .names ["a/c".toList]] ∧
    (runHistory (LocalFS.step "x/../repo/".toList) FS.empty
        [.upload "a/b".toList [1], .upload "a/c".toList [2], .delete "a/b".toList, .list "a/".toList]).2
      = [.unit, .unit, .unit, .names ["a/c".toList]] ∧
    goodRoot "x/../repo/".toList = true ∧ normalPrefix "a/".toList = true ∧ b2Addr "a/b".toList = some "a/b".toList := by
  refine ⟨by decide, by decide, by decide, by decide, by decide, by decide⟩

/-- non-vacuity: a name universe with a shared directory satisfies `Universe`, the empty tree satisfies `Inv` -/
example : Universe (fun p => p = ["a".toList, "b".toList] ∨ p = ["a".toList, "c".toList]) ∧
    Inv (fun p => p = ["a".toList, "b".toList] ∨ p = ["a".toList, "c".toList]) FS.empty := by
  refine ⟨⟨?_, ?_⟩, Inv.empty _⟩
  · rintro p (rfl | rfl) <;> decide
  · rintro p q (rfl | rfl) (rfl | rfl) <;> decide

end Replicat.C13
