import ReplicatProofs.Lemmas.SymBasic
import ReplicatProofs.Lemmas.SymB64
import ReplicatProofs.Properties.C01
/-!
# C14 — what replicat writes follows the documented repository format

Property theorems only.  Object: the writer and reader of `ReplicatModel/Sym.lean` (symbolic terms), base64 / the JSON
byte-string hint / the legacy timestamp fallback (second half of that file), and the tiling theorem of C01.

PARTIAL by design (DESIGN.md §6 C14): that Python's `json`, `base64`, `hashlib` and `cryptography` produce the BYTES the format
prescribes is not a theorem about this model; it is established in the supporting role by the independent reader/writer
`harness/ref/repo_format.py` run against the real code in both directions (see `harness/props/c14.py`).
-/
namespace Replicat.C14
open Replicat Replicat.Sym
open Term (pub sec nonce key nil pair mac kdf enc)

/-- **The source still has the shape the model mirrors**: every guard / scheme flag regenerated from replicat's source by
`tools/sections/14_format.py` is `true`, the MAC depths are 1 (name) and 2 (tag) for chunks and 1 for snapshot tags, the
byte-string hint key and the metadata keys are the documented ones. -/
theorem source_scheme_recognised :
    Gen.chunkDigestVerified = true ∧ Gen.chunkReadKeyFromDigest = true ∧ Gen.chunkReadLocFromDigest = true ∧
    Gen.chunkWriteKeyFromDigest = true ∧ Gen.chunkNameMacDepth = 1 ∧ Gen.chunkTagMacDepth = 2 ∧
    Gen.chunkPlainNameIsDigest = true ∧ Gen.snapTagMacDepth = 1 ∧ Gen.snapNameIsDigest = true ∧
    Gen.snapPlainTagIsDigest = true ∧ Gen.snapStoredUnderOwnDigest = true ∧ Gen.snapTagChecked = true ∧
    Gen.snapExpectedDigestIsName = true ∧ Gen.snapDigestVerified = true ∧ Gen.snapBodyWriteScheme = true ∧
    Gen.snapBodyReadScheme = true ∧ Gen.snapForeignDataTolerated = true ∧ Gen.privateEncryptedBeforeEmit = true ∧
    Gen.configUploadIsConfigOnly = true ∧ Gen.userKeyIsKdfOfPassword = true ∧ Gen.nonceFreshPerEncrypt = true ∧
    Gen.sharedSubkeyScheme = true ∧ Gen.macScheme = true ∧ Gen.serializeUsesHints = true ∧
    Gen.bytesHintStandardB64 = true ∧ Gen.typeReverseRequiresSingleKey = true ∧ Gen.bytesHintKey = "!b" ∧
    Gen.metaNsKeys = ["st_atime_ns", "st_mtime_ns"] ∧ Gen.metaLegacyKeys = ["st_atime", "st_mtime"] ∧
    Gen.metaFallbackOnKeyError = true ∧
    Gen.privateSectionKeys = ["shared_key", "shared_kdf", "shared_kdf_params", "mac", "mac_params", "chunker_params"] ∧
    Gen.formatSectionOk = true := by
  decide

/-- **Chunk scheme.**  Encrypted: name = `Mac(digest)`, tag = `Mac(Mac(digest))`, object = `Encrypt(chunk, FastKdf(SharedKey,
SharedKdfParams, digest))`; unencrypted: name = tag = digest, object = the chunk. -/
theorem scheme_chunk (p : Props) (n c : Term) :
    (p.encrypted = true →
      chunkName p (digest c) = mac p.sh.macKey (Term.hash c) ∧
      chunkTag p (digest c) = mac p.sh.macKey (mac p.sh.macKey (Term.hash c)) ∧
      chunkObject p n c = enc (kdf p.sh.sharedKey p.sh.sharedParams (Term.hash c)) n c) ∧
    (p.encrypted = false →
      chunkName p (digest c) = Term.hash c ∧ chunkTag p (digest c) = Term.hash c ∧ chunkObject p n c = c) := by
  have h1 : Gen.chunkNameMacDepth = 1 := rfl
  have h2 : Gen.chunkTagMacDepth = 2 := rfl
  have h3 : Gen.chunkWriteKeyFromDigest = true := rfl
  constructor
  · intro he
    simp [chunkName, chunkTag, chunkObject, he, h1, h2, h3, macN, digest, subKey]
  · intro he
    simp [chunkName, chunkTag, chunkObject, he, digest]

/-- **Snapshot scheme.**  Encrypted: `{chunks: Encrypt(table, FastKdf(SharedKey, SharedKdfParams, Hash(data'))), data: data' =
Encrypt(data, UserKey)}`, name = `Hash(stored)`, tag = `Mac(name)`; unencrypted: `{chunks: table, data: data}`, tag = name. -/
theorem scheme_snapshot (p : Props) (n1 n2 table data : Term) :
    (p.encrypted = true →
      snapshotStored p n1 n2 table data =
        pair (enc (kdf p.sh.sharedKey p.sh.sharedParams (Term.hash (enc p.userKey n1 data))) n2 table) (enc p.userKey n1 data) ∧
      snapshotTag p (snapshotName (snapshotStored p n1 n2 table data)) =
        mac p.sh.macKey (Term.hash (snapshotStored p n1 n2 table data))) ∧
    (p.encrypted = false →
      snapshotStored p n1 n2 table data = pair table data ∧
      snapshotTag p (snapshotName (snapshotStored p n1 n2 table data)) = Term.hash (pair table data)) := by
  have h1 : Gen.snapTagMacDepth = 1 := rfl
  constructor
  · intro he
    simp [snapshotStored, snapshotTag, snapshotName, he, h1, macN, subKey]
  · intro he
    simp [snapshotStored, snapshotTag, snapshotName, he]

/-- **Key scheme.**  `{kdf, kdf_params: salt, private: Encrypt({SharedKey, SharedKdfParams, SharedMacKey, SharedChunkerKey, …},
UserKey)}` with `UserKey = SlowKdf(Password, salt)`. -/
theorem scheme_key (kdfcfg salt pw n : Term) (sh : Shared) :
    keyFile kdfcfg salt pw sh n =
      pair kdfcfg (pair salt (enc (kdf pw salt nil) n
        (pair sh.cfg (pair sh.sharedKey (pair sh.sharedParams (pair sh.macKey (pair sh.chunkerKey nil))))))) := rfl

/-- **reader ∘ writer = id, chunks.** -/
theorem read_written_chunk (p : Props) (n c : Term) : verifyChunk p (digest c) (chunkObject p n c) = .ok c := by
  have h1 : Gen.chunkReadKeyFromDigest = true := rfl
  have h2 : Gen.chunkWriteKeyFromDigest = true := rfl
  have h3 : Gen.chunkDigestVerified = true := rfl
  by_cases he : p.encrypted = true
  · simp [verifyChunk, chunkObject, he, h1, h2, h3]
  · simp [verifyChunk, chunkObject, he, h3]

/-- **reader ∘ writer = id, snapshots**: under the name and tag the writer files it, the snapshot object loads and yields the
chunk table and the private data that were written. -/
theorem read_written_snapshot (p : Props) (n1 n2 : Term) (table : List Term) (data : Data) :
    loadSnapshot p (snapshotTag p (snapshotName (snapshotStored p n1 n2 (encTable table) (encData data))))
        (snapshotName (snapshotStored p n1 n2 (encTable table) (encData data)))
        (snapshotStored p n1 n2 (encTable table) (encData data)) = .ok (some (table, some data)) := by
  simp [loadSnapshot, snapshotName, decryptBody_stored]

/-- **Snapshot split**: the holder of a shared key (same family secrets, another user key) reads the chunk table but not the
file data (`data = None`). -/
theorem read_written_shared (p q : Props) (hp : p.encrypted = true) (hq : q.encrypted = true) (hsh : q.sh = p.sh)
    (hk : q.userKey ≠ p.userKey) (n1 n2 : Term) (table : List Term) (data : Data) :
    loadSnapshot q (snapshotTag p (snapshotName (snapshotStored p n1 n2 (encTable table) (encData data))))
        (snapshotName (snapshotStored p n1 n2 (encTable table) (encData data)))
        (snapshotStored p n1 n2 (encTable table) (encData data)) = .ok (some (table, none)) := by
  have ht : snapshotTag q = snapshotTag p := by funext x; simp [snapshotTag, hp, hq, hsh]
  simp [loadSnapshot, snapshotName, decryptBody_foreign p q hp hq hsh hk, ht]

/-- **reader ∘ writer = id, keys**: the right password recovers the private section and the user key. -/
theorem unlock_written (kdfcfg salt pw n : Term) (sh : Shared) :
    unlock (keyFile kdfcfg salt pw sh n) pw = .ok (userKeyOf pw salt, sh) := by
  simp [unlock, keyFile]

/-- … and any other password is refused (authentication of the private section fails). -/
theorem unlock_wrong_password (kdfcfg salt pw pw' n : Term) (sh : Shared) (h : pw' ≠ pw) :
    unlock (keyFile kdfcfg salt pw sh n) pw' = .error .decryption := by
  have : userKeyOf pw salt ≠ userKeyOf pw' salt := by
    intro e
    unfold userKeyOf at e
    injection e with e1
    exact h e1.symm
  simp [unlock, keyFile, dec_enc_ne this]

/-- **base64 round trip** on byte strings of every length. -/
theorem b64_roundtrip (bs : Bytes) : B64.decode (B64.encode bs) = some bs := B64.decode_encode bs

/-- **`type_reverse ∘ type_hint = id` on byte strings.** -/
theorem type_hint_roundtrip (bs : Bytes) : typeReverse (typeHint bs) = some (.bytes bs) := by
  simp [typeReverse, typeHint, B64.decode_encode]

/-- … and `type_reverse` leaves every other JSON value alone: objects with another single key, objects with zero or several
members, strings, numbers. -/
theorem type_reverse_passthrough :
    (∀ k v, k ≠ Gen.bytesHintKey → typeReverse (.obj1 k v) = some (.obj1 k v)) ∧
    (∀ i, typeReverse (.objN i) = some (.objN i)) ∧ (∀ s, typeReverse (.str s) = some (.str s)) ∧
    (∀ i, typeReverse (.other i) = some (.other i)) := by
  refine ⟨?_, fun _ => rfl, fun _ => rfl, fun _ => rfl⟩
  intro k v hk
  cases v <;> simp [typeReverse, hk]

/-- **Legacy metadata.**  `restore_metadata` applies nanosecond timestamps exactly when both `_ns` keys are present, and
falls back to `(st_atime, st_mtime)` (pre-1.3 snapshots) exactly when an `_ns` key is absent and both legacy keys exist. -/
theorem legacy_metadata (m : Meta) :
    (∀ a t, restoreTimes m = .ns a t ↔ m.get "st_atime_ns" = some a ∧ m.get "st_mtime_ns" = some t) ∧
    (∀ a t, restoreTimes m = .times a t ↔
      (m.get "st_atime_ns" = none ∨ m.get "st_mtime_ns" = none) ∧ m.get "st_atime" = some a ∧ m.get "st_mtime" = some t) := by
  have k1 : Gen.metaNsKeys = ["st_atime_ns", "st_mtime_ns"] := rfl
  have k2 : Gen.metaLegacyKeys = ["st_atime", "st_mtime"] := rfl
  have k3 : Gen.metaFallbackOnKeyError = true := rfl
  constructor <;> intro a t <;>
    cases h1 : m.get "st_atime_ns" <;> cases h2 : m.get "st_mtime_ns" <;>
    cases h3 : m.get "st_atime" <;> cases h4 : m.get "st_mtime" <;>
    simp [restoreTimes, getAll, k1, k2, k3, h1, h2, h3, h4]

/-- **The recorded ranges tile each file exactly** — this is `C01.refs_tile` (cited, not re-proved): the slices named by a
file's references, in counter order, are the file's byte range of the padded stream. -/
theorem records_tile (s : Bytes) (f : Span) (hf : f.1 ≤ f.2) (lens : List Nat) (hsum : lens.sum = s.length) (hfe : f.2 ≤ s.length) :
    ((planFrom 0 (fileRefs f 0 (spansFrom 0 lens))).map (partData (chunksOf s lens))).flatten = slice s f.1 f.2 :=
  C01.refs_tile s f hf lens hsum hfe

/-- non-vacuity: concrete base64 texts (`"Zm9v"`, `"Zm8="`, `"Zg=="`), a legacy and a modern metadata record -/
example :
    B64.encode [102, 111, 111] = [90, 109, 57, 118] ∧ B64.encode [102, 111] = [90, 109, 56, 61] ∧
    B64.encode [102] = [90, 103, 61, 61] ∧ B64.decode [90, 109, 56, 61] = some [102, 111] ∧
    restoreTimes [("st_mode", 1), ("st_atime", 5), ("st_mtime", 6)] = .times 5 6 ∧
    restoreTimes [("st_atime_ns", 7), ("st_mtime_ns", 8), ("st_atime", 5), ("st_mtime", 6)] = .ns 7 8 ∧
    restoreTimes [("st_atime_ns", 7), ("st_mtime", 6)] = .keyError := by
  decide +kernel

end Replicat.C14
