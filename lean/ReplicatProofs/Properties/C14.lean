import ReplicatProofs.Lemmas.SymBasic
import ReplicatProofs.Lemmas.SymB64
import ReplicatProofs.Lemmas.SymNames
import ReplicatProofs.Properties.C01
import ReplicatProofs.Lemmas.Inflight
/-!
# C14 — what replicat writes follows the documented repository format

Property theorems only.  Object: the writer and reader of `ReplicatModel/Sym.lean` (symbolic terms), base64 / the JSON
byte-string hint / the legacy timestamp fallback (second half of that file), and the tiling theorem of C01.

PARTIAL by design (DESIGN.md §6 C14): that Python's `json`, `base64`, `hashlib` and `cryptography` produce the BYTES the format
prescribes is not a theorem about this model; it is established in the supporting role by the independent reader/writer
`harness/ref/repo_format.py` run against the real code in both directions (see `harness/props/c14.py`).
-/
namespace Replicat.C14
open Replicat Replicat.Sym
open Term (pub sec nonce key nil pair mac kdf enc)

/-- **The source still has the shape the model mirrors**: every guard / scheme flag regenerated from replicat's source by
`tools/sections/14_format.py` is `true`, the MAC depths are 1 (name) and 2 (tag) for chunks and 1 for snapshot tags, the
byte-string hint key and the metadata keys are the documented ones. -/
theorem source_scheme_recognised :
    Gen.chunkDigestVerified = true ∧ Gen.chunkReadKeyFromDigest = true ∧ Gen.chunkReadLocFromDigest = true ∧
    Gen.chunkWriteKeyFromDigest = true ∧ Gen.chunkNameMacDepth = 1 ∧ Gen.chunkTagMacDepth = 2 ∧
    Gen.chunkPlainNameIsDigest = true ∧ Gen.snapTagMacDepth = 1 ∧ Gen.snapNameIsDigest = true ∧
    Gen.snapPlainTagIsDigest = true ∧ Gen.snapStoredUnderOwnDigest = true ∧ Gen.snapTagChecked = true ∧
    Gen.snapExpectedDigestIsName = true ∧ Gen.snapDigestVerified = true ∧ Gen.snapBodyWriteScheme = true ∧
    Gen.snapBodyReadScheme = true ∧ Gen.snapForeignDataTolerated = true ∧ Gen.privateEncryptedBeforeEmit = true ∧
    Gen.configUploadIsConfigOnly = true ∧ Gen.userKeyIsKdfOfPassword = true ∧ Gen.nonceFreshPerEncrypt = true ∧
    Gen.sharedSubkeyScheme = true ∧ Gen.macScheme = true ∧ Gen.serializeUsesHints = true ∧
    Gen.bytesHintStandardB64 = true ∧ Gen.typeReverseRequiresSingleKey = true ∧ Gen.bytesHintKey = "!b" ∧
    Gen.metaNsKeys = ["st_atime_ns", "st_mtime_ns"] ∧ Gen.metaLegacyKeys = ["st_atime", "st_mtime"] ∧
    Gen.metaFallbackOnKeyError = true ∧
    Gen.privateSectionKeys = ["shared_key", "shared_kdf", "shared_kdf_params", "mac", "mac_params", "chunker_params"] ∧
    Gen.formatSectionOk = true := by
  decide

/-- **Chunk scheme.**  Encrypted: name = `Mac(digest)`, tag = `Mac(Mac(digest))`, object = `Encrypt(chunk, FastKdf(SharedKey,
SharedKdfParams, digest))`; unencrypted: name = tag = digest, object = the chunk. -/
theorem scheme_chunk (p : Props) (n c : Term) :
    (p.encrypted = true →
      chunkName p (digest c) = mac p.sh.macKey (Term.hash c) ∧
      chunkTag p (digest c) = mac p.sh.macKey (mac p.sh.macKey (Term.hash c)) ∧
      chunkObject p n c = enc (kdf p.sh.sharedKey p.sh.sharedParams (Term.hash c)) n c) ∧
    (p.encrypted = false →
      chunkName p (digest c) = Term.hash c ∧ chunkTag p (digest c) = Term.hash c ∧ chunkObject p n c = c) := by
  have h1 : Gen.chunkNameMacDepth = 1 := rfl
  have h2 : Gen.chunkTagMacDepth = 2 := rfl
  have h3 : Gen.chunkWriteKeyFromDigest = true := rfl
  constructor
  · intro he
    simp [chunkName, chunkTag, chunkObject, he, h1, h2, h3, macN, digest, subKey]
  · intro he
    simp [chunkName, chunkTag, chunkObject, he, digest]

/-- **Snapshot scheme.**  Encrypted: `{chunks: Encrypt(table, FastKdf(SharedKey, SharedKdfParams, Hash(data'))), data: data' =
Encrypt(data, UserKey)}`, name = `Hash(stored)`, tag = `Mac(name)`; unencrypted: `{chunks: table, data: data}`, tag = name. -/
theorem scheme_snapshot (p : Props) (n1 n2 table data : Term) :
    (p.encrypted = true →
      snapshotStored p n1 n2 table data =
        pair (enc (kdf p.sh.sharedKey p.sh.sharedParams (Term.hash (enc p.userKey n1 data))) n2 table) (enc p.userKey n1 data) ∧
      snapshotTag p (snapshotName (snapshotStored p n1 n2 table data)) =
        mac p.sh.macKey (Term.hash (snapshotStored p n1 n2 table data))) ∧
    (p.encrypted = false →
      snapshotStored p n1 n2 table data = pair table data ∧
      snapshotTag p (snapshotName (snapshotStored p n1 n2 table data)) = Term.hash (pair table data)) := by
  have h1 : Gen.snapTagMacDepth = 1 := rfl
  constructor
  · intro he
    simp [snapshotStored, snapshotTag, snapshotName, he, h1, macN, subKey]
  · intro he
    simp [snapshotStored, snapshotTag, snapshotName, he]

/-- **Key scheme.**  `{kdf, kdf_params: salt, private: Encrypt({SharedKey, SharedKdfParams, SharedMacKey, SharedChunkerKey, …},
UserKey)}` with `UserKey = SlowKdf(Password, salt)`. -/
theorem scheme_key (kdfcfg salt pw n : Term) (sh : Shared) :
    keyFile kdfcfg salt pw sh n =
      pair kdfcfg (pair salt (enc (kdf pw salt nil) n
        (pair sh.cfg (pair sh.sharedKey (pair sh.sharedParams (pair sh.macKey (pair sh.chunkerKey nil))))))) := rfl

/-- **reader ∘ writer = id, chunks.** -/
theorem read_written_chunk (p : Props) (n c : Term) : verifyChunk p (digest c) (chunkObject p n c) = .ok c := by
  have h1 : Gen.chunkReadKeyFromDigest = true := rfl
  have h2 : Gen.chunkWriteKeyFromDigest = true := rfl
  have h3 : Gen.chunkDigestVerified = true := rfl
  by_cases he : p.encrypted = true
  · simp [verifyChunk, chunkObject, he, h1, h2, h3]
  · simp [verifyChunk, chunkObject, he, h3]

/-- **reader ∘ writer = id, snapshots**: under the name and tag the writer files it, the snapshot object loads and yields the
chunk table and the private data that were written. -/
theorem read_written_snapshot (p : Props) (n1 n2 : Term) (table : List Term) (data : Data) :
    loadSnapshot p (snapshotTag p (snapshotName (snapshotStored p n1 n2 (encTable table) (encData data))))
        (snapshotName (snapshotStored p n1 n2 (encTable table) (encData data)))
        (snapshotStored p n1 n2 (encTable table) (encData data)) = .ok (some (table, some data)) := by
  simp [loadSnapshot, snapshotName, decryptBody_stored]

/-- **Snapshot split**: the holder of a shared key (same family secrets, another user key) reads the chunk table but not the
file data (`data = None`). -/
theorem read_written_shared (p q : Props) (hp : p.encrypted = true) (hq : q.encrypted = true) (hsh : q.sh = p.sh)
    (hk : q.userKey ≠ p.userKey) (n1 n2 : Term) (table : List Term) (data : Data) :
    loadSnapshot q (snapshotTag p (snapshotName (snapshotStored p n1 n2 (encTable table) (encData data))))
        (snapshotName (snapshotStored p n1 n2 (encTable table) (encData data)))
        (snapshotStored p n1 n2 (encTable table) (encData data)) = .ok (some (table, none)) := by
  have ht : snapshotTag q = snapshotTag p := by funext x; simp [snapshotTag, hp, hq, hsh]
  simp [loadSnapshot, snapshotName, decryptBody_foreign p q hp hq hsh hk, ht]

/-- **reader ∘ writer = id, keys**: the right password recovers the private section and the user key. -/
theorem unlock_written (kdfcfg salt pw n : Term) (sh : Shared) :
    unlock (keyFile kdfcfg salt pw sh n) pw = .ok (userKeyOf pw salt, sh) := by
  simp [unlock, keyFile]

/-- … and any other password is refused (authentication of the private section fails). -/
theorem unlock_wrong_password (kdfcfg salt pw pw' n : Term) (sh : Shared) (h : pw' ≠ pw) :
    unlock (keyFile kdfcfg salt pw sh n) pw' = .error .decryption := by
  have : userKeyOf pw salt ≠ userKeyOf pw' salt := by
    intro e
    unfold userKeyOf at e
    injection e with e1
    exact h e1.symm
  simp [unlock, keyFile, dec_enc_ne this]

/-- **base64 round trip** on byte strings of every length. -/
theorem b64_roundtrip (bs : Bytes) : B64.decode (B64.encode bs) = some bs := B64.decode_encode bs

/-- **`type_reverse ∘ type_hint = id` on byte strings.** -/
theorem type_hint_roundtrip (bs : Bytes) : typeReverse (typeHint bs) = some (.bytes bs) := by
  simp [typeReverse, typeHint, B64.decode_encode]

/-- … and `type_reverse` leaves every other JSON value alone: objects with another single key, objects with zero or several
members, strings, numbers. -/
theorem type_reverse_passthrough :
    (∀ k v, k ≠ Gen.bytesHintKey → typeReverse (.obj1 k v) = some (.obj1 k v)) ∧
    (∀ i, typeReverse (.objN i) = some (.objN i)) ∧ (∀ s, typeReverse (.str s) = some (.str s)) ∧
    (∀ i, typeReverse (.other i) = some (.other i)) := by
  refine ⟨?_, fun _ => rfl, fun _ => rfl, fun _ => rfl⟩
  intro k v hk
  cases v <;> simp [typeReverse, hk]

/-- **Legacy metadata.**  `restore_metadata` applies nanosecond timestamps exactly when both `_ns` keys are present, and
falls back to `(st_atime, st_mtime)` (pre-1.3 snapshots) exactly when an `_ns` key is absent and both legacy keys exist. -/
theorem legacy_metadata (m : Meta) :
    (∀ a t, restoreTimes m = .ns a t ↔ m.get "st_atime_ns" = some a ∧ m.get "st_mtime_ns" = some t) ∧
    (∀ a t, restoreTimes m = .times a t ↔
      (m.get "st_atime_ns" = none ∨ m.get "st_mtime_ns" = none) ∧ m.get "st_atime" = some a ∧ m.get "st_mtime" = some t) := by
  have k1 : Gen.metaNsKeys = ["st_atime_ns", "st_mtime_ns"] := rfl
  have k2 : Gen.metaLegacyKeys = ["st_atime", "st_mtime"] := rfl
  have k3 : Gen.metaFallbackOnKeyError = true := rfl
  constructor <;> intro a t <;>
    cases h1 : m.get "st_atime_ns" <;> cases h2 : m.get "st_mtime_ns" <;>
    cases h3 : m.get "st_atime" <;> cases h4 : m.get "st_mtime" <;>
    simp [restoreTimes, getAll, k1, k2, k3, h1, h2, h3, h4]

/-- **The recorded ranges tile each file exactly** — this is `C01.refs_tile` (cited, not re-proved): the slices named by a
file's references, in counter order, are the file's byte range of the padded stream. -/
theorem records_tile (s : Bytes) (f : Span) (hf : f.1 ≤ f.2) (lens : List Nat) (hsum : lens.sum = s.length) (hfe : f.2 ≤ s.length) :
    ((planFrom 0 (fileRefs f 0 (spansFrom 0 lens))).map (partData (chunksOf s lens))).flatten = slice s f.1 f.2 :=
  C01.refs_tile s f hf lens hsum hfe

/-! ## Files spanning several read blocks: `_chunk_done` while the producer is still reading

`_stream_files` reads every file in blocks of `Gen.pieceSize` bytes and the chunker adapter looks ONE block ahead, so for a
file of two or more blocks the chunks cut from its earlier blocks are uploaded and attributed (`_chunk_done`, event loop)
while the producer thread has not read its later blocks yet.  `ReplicatModel/Inflight.lean` models what `state.files` holds at
every moment of the producer (`stateAt align sizes t` = after `t` of its events: record appended / block read and counted /
digest stored / padding yielded) and `recordsAt` runs every `_chunk_done` on the view of its own moment.  The theorems below say
that this changes nothing that selects a byte — PROVIDED the record of the file being read is advanced inside the read loop
before the block is handed to the chunker (`Gen.streamEndAdvancedInReadLoop`, regenerated from the source by
`tools/sections/14_format.py`; every proof here discharges it by `decide`). -/

/-- **The producer still has the shape the model mirrors**: `stream_end` of the record is advanced by `len(block)` inside the
read loop before the block is yielded, the record starts empty at the stream position, blocks have a positive size, and the
guards of `_chunk_done` / the padding expression were recognised. -/
theorem producer_shape_recognised :
    Gen.streamEndAdvancedInReadLoop = true ∧ 0 < Gen.pieceSize ∧ Gen.chunkDoneRecognised = true ∧ Gen.paddingRecognised = true := by
  decide

/-- **What `_chunk_done` can see at ANY moment of the producer**: the files started so far are a prefix of the final layout, each
with its final start and with `stream_end` = the final end clipped to the bytes handed to the chunker so far (`viewOf`); every
file not started yet begins at or after that position. -/
theorem inflight_view (align : Nat) (sizes : List Nat) (t : Nat) :
    ∃ k, (Inflight.stateAt align sizes t).files
          = Inflight.viewOf (layout align sizes) k (Inflight.stateAt align sizes t).yielded ∧
      ∀ f ∈ (layout align sizes).drop k, (Inflight.stateAt align sizes t).yielded ≤ f.1 :=
  Inflight.stateAt_view (by decide) (by decide) align sizes t

/-- … and when `_stream_files` is exhausted the records are exactly the layout `Layout.records` / C01 work with. -/
theorem inflight_final (align : Nat) (sizes : List Nat) :
    (Inflight.run (Inflight.events align Gen.pieceSize sizes)).files = layout align sizes := by
  have := Inflight.runFrom_eventsFrom_files (by decide) align Gen.pieceSize (by decide) sizes none [] 0
  simpa [Inflight.run, Inflight.events, layout, Inflight.padOf] using this

/-- **Attribution does not depend on WHEN `_chunk_done` runs.**  For every list of file sizes (any number of read blocks per
file), every chunking of the stream, every completion order of the upload workers and every schedule `when_` (chunk `j` is
attributed after `when_ j` events of the producer) that is causal — a chunk is cut only from bytes already handed to the
chunker —, the references of every file that select at least one byte are exactly those the final layout gives (same chunk,
same range, same order).  Only zero-length references to a file that had not been started yet can be missing. -/
theorem inflight_attribution (align : Nat) (sizes lens : List Nat) (order : List Nat) (when_ : Nat → Nat)
    (hcausal : ∀ j ∈ order, ∀ c, (spansFrom 0 lens)[j]? = some c → c.2 ≤ (Inflight.stateAt align sizes (when_ j)).yielded)
    (i : Nat) :
    (refsOfIn (Inflight.recordsAt (fun j => (Inflight.stateAt align sizes (when_ j)).files) (spansFrom 0 lens) order) i).filter
        Inflight.nonEmpty
      = (refsOfIn (records (layout align sizes) (spansFrom 0 lens) order) i).filter Inflight.nonEmpty := by
  apply Inflight.recordsAt_nonEmpty _ _ (layoutFrom_sorted align 0 sizes)
  intro j hj
  obtain ⟨k, hv, hdrop⟩ := inflight_view align sizes (when_ j)
  refine ⟨k, _, hv, hdrop, ?_⟩
  intro c hc
  have := spansFrom_mem_bounds (List.mem_of_getElem? hc)
  exact ⟨this.2.1, hcausal j hj c hc⟩

/-- **The ranges recorded while files are in flight tile every file exactly.**  For every tree (files of any number of read
blocks, empty files, any alignment), every chunking of the padded stream, every completion order and every causal schedule:
the references recorded for file `i`, sorted by counter as `restore` does, select exactly the file's bytes. -/
theorem inflight_records_tile (align : Nat) (files : List Bytes) (lens : List Nat)
    (hsum : lens.sum = (streamOf align files).length) (order : List Nat) (horder : order.Perm (List.range lens.length))
    (when_ : Nat → Nat)
    (hcausal : ∀ j ∈ order, ∀ c, (spansFrom 0 lens)[j]? = some c →
      c.2 ≤ (Inflight.stateAt align (files.map List.length) (when_ j)).yielded)
    (i : Nat) (b : Bytes) (hb : files[i]? = some b) :
    ((plan (refsOfIn (Inflight.recordsAt (fun j => (Inflight.stateAt align (files.map List.length) (when_ j)).files)
        (spansFrom 0 lens) order) i)).map (partData (chunksOf (streamOf align files) lens))).flatten = b := by
  have hi : i < files.length := by
    rcases Nat.lt_or_ge i files.length with h | h
    · exact h
    · rw [List.getElem?_eq_none h] at hb; cases hb
  have hlay : (layout align (files.map List.length)).length = files.length := by
    unfold layout; rw [layoutFrom_length, List.length_map]
  obtain ⟨f, hf⟩ : ∃ f, (layout align (files.map List.length))[i]? = some f := by
    rw [List.getElem?_eq_getElem (by omega)]; exact ⟨_, rfl⟩
  have hsorted := layoutFrom_sorted align 0 (files.map List.length)
  have hfle : f.1 ≤ f.2 := hsorted.2 f (List.mem_of_getElem? hf)
  obtain ⟨b', hb', hslice, hlen⟩ := streamOf_slice align files i f [] (by simpa [layout] using hf)
  simp only [List.nil_append] at hslice hlen
  have hbb : b' = b := by rw [hb] at hb'; exact (Option.some.inj hb').symm
  subst hbb
  have hperm := C01.records_perm (layout align (files.map List.length)) (spansFrom 0 lens) hsorted order
    (by rw [spansFrom_length]; exact horder) i f hf
  have hne := inflight_attribution align (files.map List.length) lens order when_ hcausal i
  have hsort := Inflight.sort_filter_eq (fileRefs f 0 (spansFrom 0 lens)) _ (fileRefs_counters f 0 (spansFrom 0 lens)).1
    (by rw [hne]; exact hperm.filter _)
  unfold plan
  rw [← Inflight.parts_filter_nonEmpty, hsort, Inflight.parts_filter_nonEmpty,
    C01.refs_tile (streamOf align files) f hfle lens hsum hlen, hslice]

/-- **Why the record must be advanced inside the read loop** (negation witness for a producer that does not): a 5-byte file
and a file of 40 000 001 bytes (three read blocks); after the first block of the large file has been handed to the chunker
(6 events) a chunk `[0, 1 000 000)` of the stream is attributed.  With the record left at `stream_end = stream_start` until the
file has been read (here: never, no later assignment is modelled), `_chunk_done` gives the large file the EMPTY range `[8, 8)`
of that chunk and the small one `[0, 0)`; the final layout — and the producer that advances the record — give `[8, 1 000 000)`
and `[0, 5)`. -/
theorem unadvanced_record_loses_ranges :
    let evs := (Inflight.events 4 Gen.pieceSize [5, 40000001]).take 6
    let stale := (evs.foldl (Inflight.stepWith false) ⟨[], 0⟩).files
    (evs.foldl (Inflight.stepWith false) ⟨[], 0⟩).yielded = 16777224 ∧ stale = [(0, 0), (8, 8)] ∧
    chunkDone stale 0 (0, 1000000) = [(1, ⟨1, 8, 8⟩), (0, ⟨1, 0, 0⟩)] ∧
    chunkDone (Inflight.stateAt 4 [5, 40000001] 6).files 0 (0, 1000000) = [(1, ⟨1, 8, 1000000⟩), (0, ⟨1, 0, 5⟩)] ∧
    chunkDone (layout 4 [5, 40000001]) 0 (0, 1000000) = [(1, ⟨1, 8, 1000000⟩), (0, ⟨1, 0, 5⟩)] := by
  decide +kernel

/-- non-vacuity: the same tree cut into four chunks, attributed as early as causality allows (after 6, 6, 7 and 8 events: the
large file's record then ends at 16 777 224, 16 777 224, 33 554 440 and 40 000 009) by workers finishing out of order — the
records are those of the final layout; the view after 6 events is not the layout. -/
example :
    let lens := [1000000, 9000000, 10000000, 20000009]
    let whenOf : Nat → Nat := fun j => [6, 6, 7, 8].getD j 0
    (Inflight.stateAt 4 [5, 40000001] 6).files = [(0, 5), (8, 16777224)] ∧
    layout 4 [5, 40000001] = [(0, 5), (8, 40000009)] ∧
    (List.range 4).all (fun j => decide (((spansFrom 0 lens).getD j (0, 0)).2 ≤ (Inflight.stateAt 4 [5, 40000001] (whenOf j)).yielded)) = true ∧
    Inflight.recordsAt (fun j => (Inflight.stateAt 4 [5, 40000001] (whenOf j)).files) (spansFrom 0 lens) [1, 0, 3, 2]
      = [(1, [⟨2, 0, 9000000⟩, ⟨1, 8, 1000000⟩, ⟨4, 0, 20000009⟩, ⟨3, 0, 10000000⟩]), (0, [⟨1, 0, 5⟩])] ∧
    records (layout 4 [5, 40000001]) (spansFrom 0 lens) [1, 0, 3, 2]
      = [(1, [⟨2, 0, 9000000⟩, ⟨1, 8, 1000000⟩, ⟨4, 0, 20000009⟩, ⟨3, 0, 10000000⟩]), (0, [⟨1, 0, 5⟩])] := by
  decide +kernel

/-! ## History level: what the readers return on the store a whole history produces

`run a ops` is the store after `init` with arguments `a` and the commands `ops` (add-key shared / independent, snapshots by any
key, removals); `taken a ops` lists what every snapshot command captured (`Taken`: the key that wrote it, the plaintext chunks
in stream order, the private data, the two nonces) and `wfHist a ops` says that every snapshot's file list is path-unique with
references inside its chunk table and that no removal takes a chunk of a snapshot it leaves behind (`opOk`; what C02 / C08
establish for `delete` / `clean`).  These are definitions of `ReplicatModel/Sym.lean`, executed by the driver (`sym.run_restore`)
on the histories the real `Repository` is driven through. -/

/-- the key recorded for a snapshot is key number `t.user` of the history -/
theorem taken_by_key_of_history (a : InitArgs) (ops : List Op) (hwf : wfHist a ops = true) (t : Taken) (ht : t ∈ taken a ops) :
    ∃ u, (run a ops).users[t.user]? = some u ∧ t.p = u.props a.encrypted := by
  obtain ⟨⟨u, hu, hp⟩, _⟩ := (ti_run a ops hwf).ok t ht
  rw [run_encrypted] at hp
  exact ⟨u, hu, hp⟩

/-- **Restore after any well-formed history.**  For every snapshot `t` taken in the history whose object is still present in
the final store, `restore` by its name with the key that wrote it returns normally, and returns exactly what was recorded when
it was taken: per file (in recorded order) the path, the captured ranges of the captured chunk plaintexts in counter order
(`recordedFiles` = `honestParts` of the de-duplicated plaintext table) and the metadata record handed to `restore_metadata`.
Whatever else the history did — other keys, other families, de-duplicated or re-uploaded chunks, later removals — is invisible.
(That the ranges tile the file is `records_tile`; that nothing ELSE can be returned from a tampered store is C04.) -/
theorem restore_after_run (a : InitArgs) (ops : List Op) (hwf : wfHist a ops = true) (t : Taken) (ht : t ∈ taken a ops)
    (hpres : lookup (run a ops).store t.loc ≠ none) :
    ∃ out, recordedFiles t.contents t.data.files = some out ∧
      restoreMd t.p (run a ops).store t.name = .ok out ∧
      restore t.p (run a ops).store t.name = .ok (out.map fun w => (w.1, w.2.1)) := by
  obtain ⟨out, h1, h2⟩ := restoreMd_taken (hinv_run a ops) (ti_run a ops hwf) t ht hpres
  refine ⟨out, h1, h2, ?_⟩
  rw [restore_eq_restoreMd, h2]
  rfl

/-- … spelled out per column: the restored paths and metadata records are the recorded ones in recorded order, and every
file's parts are `honestParts` of its references sorted by counter.  The metadata record is what `restore_metadata` receives;
which timestamps it then sets is `legacy_metadata`. -/
theorem restore_after_run_columns (a : InitArgs) (ops : List Op) (hwf : wfHist a ops = true) (t : Taken) (ht : t ∈ taken a ops)
    (hpres : lookup (run a ops).store t.loc ≠ none) :
    ∃ out, restoreMd t.p (run a ops).store t.name = .ok out ∧
      out.map (fun w => (w.1, w.2.2)) = t.data.files.map (fun f => (f.path, f.md)) ∧
      out.map (fun w => some w.2.1) = t.data.files.map (fun f => honestParts t.contents (isort Sym.refLE f.refs)) := by
  obtain ⟨out, h1, h2, _⟩ := restore_after_run a ops hwf t ht hpres
  exact ⟨out, h2, recordedFiles_md _ _ _ h1, recordedFiles_parts _ _ _ h1⟩

/-- **Another key of the same family** (any key `j ≠ t.user` of the history with the same private section — added with
`--shared`, directly or transitively): `_load_snapshots` by the snapshot's name yields its chunk table and no private data, and
`restore` writes nothing (as `read_written_shared`, now for the whole store). -/
theorem restore_after_run_shared (a : InitArgs) (ops : List Op) (hwf : wfHist a ops = true) (he : a.encrypted = true)
    (t : Taken) (ht : t ∈ taken a ops) (hpres : lookup (run a ops).store t.loc ≠ none)
    (j : Nat) (v : User) (hj : (run a ops).users[j]? = some v) (hne : j ≠ t.user) (hfam : v.sh = t.p.sh) :
    loadBodies (v.props true) t.name (snapEntries (run a ops).store) = .ok [(t.table, none)] ∧
    restoreMd (v.props true) (run a ops).store t.name = .ok [] ∧
    restore (v.props true) (run a ops).store t.name = .ok [] := by
  obtain ⟨u, hu, hp⟩ := taken_by_key_of_history a ops hwf t ht
  have hi := hinv_run a ops
  have hk : (v.props true).userKey ≠ t.p.userKey := by
    rw [hp]
    exact userKey_ne hi.hu hu hj (fun e => hne e.symm) _
  have hte : t.p.encrypted = true := by rw [hp]; exact he
  obtain ⟨h1, h2⟩ := shared_taken hi t hpres (v.props true) hte rfl hfam hk
  refine ⟨h1, h2, ?_⟩
  rw [restore_eq_restoreMd, h2]
  rfl

/-- **A key of another family** (any key of the history whose MAC key differs — added without `--shared`, or shared from
such a key): nothing of the snapshot is visible — the listing skips it (tag check) and `restore` writes nothing. -/
theorem restore_after_run_independent (a : InitArgs) (ops : List Op) (hwf : wfHist a ops = true) (he : a.encrypted = true)
    (t : Taken) (ht : t ∈ taken a ops) (hpres : lookup (run a ops).store t.loc ≠ none)
    (v : User) (hfam : v.sh.macKey ≠ t.p.sh.macKey) :
    loadBodies (v.props true) t.name (snapEntries (run a ops).store) = .ok [] ∧
    restoreMd (v.props true) (run a ops).store t.name = .ok [] ∧
    restore (v.props true) (run a ops).store t.name = .ok [] := by
  obtain ⟨u, _, hp⟩ := taken_by_key_of_history a ops hwf t ht
  have hte : t.p.encrypted = true := by rw [hp]; exact he
  obtain ⟨h1, h2⟩ := independent_taken (hinv_run a ops) t hpres (v.props true) hte rfl hfam
  refine ⟨h1, h2, ?_⟩
  rw [restore_eq_restoreMd, h2]
  rfl

/-- **Two keys of a history are in the same family or have different MAC keys** — so the two theorems above cover every
other key of the history. -/
theorem families_partition (a : InitArgs) (ops : List Op) (u v : User) (hu : u ∈ (run a ops).users) (hv : v ∈ (run a ops).users) :
    u.sh = v.sh ∨ u.sh.macKey ≠ v.sh.macKey := by
  by_cases h : u.sh.macKey = v.sh.macKey
  · exact Or.inl ((hinv_run a ops).hu.fam u hu v hv h)
  · exact Or.inr h

/-- **No name collisions** (EVERY history, no hypothesis): two entries ever emitted under one name — backend uploads and key
files — carry the same content, up to the nonce of a repeated AEAD encryption of the same plaintext under the same key (a chunk
that was removed and uploaded again). -/
theorem names_unique (a : InitArgs) (ops : List Op) (e1 e2 : Term × Term) (h1 : e1 ∈ written a ops) (h2 : e2 ∈ written a ops)
    (hn : e1.1 = e2.1) : e1.2 = e2.2 ∨ ∃ k n n' m, e1.2 = enc k n m ∧ e2.2 = enc k n' m :=
  sameUpToNonce_spec (log_names_unique (hinv_run a ops) e1 e2 h1 h2 hn)

/-- … and in a history without removals the contents are EQUAL: nothing is ever emitted twice under one name with other bytes. -/
theorem names_unique_no_removal (a : InitArgs) (ops : List Op) (hops : ∀ op ∈ ops, op.isRemove = false) (e1 e2 : Term × Term)
    (h1 : e1 ∈ written a ops) (h2 : e2 ∈ written a ops) (hn : e1.1 = e2.1) : e1.2 = e2.2 := by
  have hnr := nr_run a ops hops
  have hi := hinv_run a ops
  rcases hnr e1 h1 with ⟨i, hk⟩ | hl1
  · exact hi.hl.keyUniq e1 h1 e2 h2 i hk (by rw [← hn]; exact hk)
  · rcases hnr e2 h2 with ⟨i, hk⟩ | hl2
    · exact hi.hl.keyUniq e1 h1 e2 h2 i (by rw [hn]; exact hk) hk
    · rw [hn, hl2] at hl1
      exact (Option.some.inj hl1).symm

/-- **The store is a map** (EVERY history): no location occurs twice, every stored object was emitted, and `lookup` finds
exactly the stored pairs — which is what makes `run` a function from locations to objects. -/
theorem store_is_map (a : InitArgs) (ops : List Op) :
    ((run a ops).store.map (·.1)).Nodup ∧ (∀ e ∈ (run a ops).store, e ∈ written a ops) ∧
    ∀ loc obj, (loc, obj) ∈ (run a ops).store ↔ lookup (run a ops).store loc = some obj := by
  have hi := hinv_run a ops
  exact ⟨hi.hs.nodup, hi.hs.sub, fun loc obj => ⟨lookup_of_mem_nodup hi.hs.nodup, lookup_some_mem⟩⟩

/-! non-vacuity of the history-level theorems: an encrypted repository with three keys — key 1 shared from key 0, key 2
independent —, four snapshots by keys 0, 1, 2, 0, the first one removed together with the chunk only it uses.  The history is
well formed; the snapshots of keys 1, 2 and the second of key 0 are present; each restores for its owner to what was recorded;
key 0 sees the table of key 1's snapshot without data, key 2 nothing of it.  The last snapshot uploads chunk `sec 1` AGAIN (it
was removed), so `written` holds two different ciphertexts under that chunk's name: the strict form of `names_unique` is false
for histories with removals. -/
private def exA : InitArgs := ⟨true, pub 10, pub 11, pub 12, sec 100⟩
private def exD0 : Data :=
  ⟨1, [⟨sec 50, [⟨1, 2, 0, 3⟩, ⟨0, 1, 0, 4⟩], Term.hash (sec 60), sec 70⟩, ⟨sec 51, [⟨0, 1, 4, 8⟩], Term.hash (sec 61), sec 71⟩], sec 80⟩
private def exD1 : Data := ⟨2, [⟨sec 50, [⟨1, 2, 0, 2⟩, ⟨0, 1, 0, 5⟩], Term.hash (sec 62), sec 72⟩], nil⟩
private def exOps0 : List Op :=
  [.addKey 0 true (pub 11) (pub 12) (sec 101), .addKey 0 false (pub 11) (pub 13) (sec 102),
   .snapshot 0 [sec 1, sec 2, sec 1] exD0, .snapshot 1 [sec 2, sec 3] exD1]
private def exRemove : Op :=
  match taken exA exOps0 with
  | t0 :: _ => .remove [t0.loc, chunkLoc t0.p (digest (sec 1))]
  | _ => .remove []
private def exOps : List Op :=
  exOps0 ++ [exRemove, .snapshot 2 [sec 1] ⟨3, [⟨sec 52, [⟨0, 1, 0, 1⟩], nil, sec 73⟩], nil⟩, .snapshot 0 [sec 1] ⟨4, [], nil⟩]
private def exStore : Store := (run exA exOps).store
private def exProps (i : Nat) : Props := ((run exA exOps).users.getD i default).props true

example :
    wfHist exA exOps = true ∧
    (taken exA exOps).map (fun t => (t.user, (lookup exStore t.loc).isSome)) = [(0, false), (1, true), (2, true), (0, true)] := by
  decide +kernel

set_option synthInstance.maxSize 1024 in
example :
    (taken exA exOps).map (fun t => restoreMd t.p exStore t.name) =
      [.ok [], .ok [(sec 50, [(sec 2, 0, 5), (sec 3, 0, 2)], sec 72)], .ok [(sec 52, [(sec 1, 0, 1)], sec 73)], .ok []] ∧
    (taken exA exOps).map (fun t => restoreMd (exProps 2) exStore t.name) =
      [.ok [], .ok [], .ok [(sec 52, [(sec 1, 0, 1)], sec 73)], .ok []] := by
  decide +kernel

set_option synthInstance.maxSize 1024 in
example :
    (taken exA exOps).map (fun t => loadBodies (exProps 0) t.name (snapEntries exStore)) =
      [.ok [], .ok [([digest (sec 2), digest (sec 3)], none)], .ok [], .ok [([digest (sec 1)], some ⟨4, [], nil⟩)]] := by
  decide +kernel

/-- **The strict form of `names_unique` is false once chunks are removed and uploaded again** (model and code: the second
upload is a fresh encryption): in the history above two entries of `written` have the same name and different contents. -/
theorem reupload_changes_ciphertext :
    ∃ e1 ∈ written exA exOps, ∃ e2 ∈ written exA exOps, e1.1 = e2.1 ∧ e1.2 ≠ e2.2 := by
  decide +kernel

/-- non-vacuity: concrete base64 texts (`"Zm9v"`, `"Zm8="`, `"Zg=="`), a legacy and a modern metadata record -/
example :
    B64.encode [102, 111, 111] = [90, 109, 57, 118] ∧ B64.encode [102, 111] = [90, 109, 56, 61] ∧
    B64.encode [102] = [90, 103, 61, 61] ∧ B64.decode [90, 109, 56, 61] = some [102, 111] ∧
    restoreTimes [("st_mode", 1), ("st_atime", 5), ("st_mtime", 6)] = .times 5 6 ∧
    restoreTimes [("st_atime_ns", 7), ("st_mtime_ns", 8), ("st_atime", 5), ("st_mtime", 6)] = .ns 7 8 ∧
    restoreTimes [("st_atime_ns", 7), ("st_mtime", 6)] = .keyError := by
  decide +kernel

end Replicat.C14
