import ReplicatProofs.Lemmas.SchedSnap
import ReplicatProofs.Lemmas.SchedLocks
import ReplicatProofs.Lemmas.SchedFin
import ReplicatProofs.Lemmas.SchedLife
import ReplicatProofs.Lemmas.SchedLat
import ReplicatProofs.Lemmas.SlotQ
import ReplicatProofs.Properties.C01
/-!
# C09 — snapshot and restore do not depend on thread or I/O scheduling

Property theorems only.  Objects: the transition systems of `ReplicatModel/Sched.lean`; a schedule is a list of events,
`run step s₀ evs = some s` = "every event was enabled when it was taken", so every theorem below quantifies over ALL schedules
(any number of slots, workers, chunks, writer jobs, loaders, files).  The shapes the proofs depend on (slot numbering, release in
`finally`, the worker's loop test, the abort protocol incl. the producer's put that re-tests the abort flag while the queue is full,
delete-at-zero, decision under the lock, slot requests that block without a time-out and the absence of any other finite wait
that gives up) are the *generated* `Replicat.Gen` definitions and are discharged by `decide`: an edit to /repo that changes one of them breaks the proof.

PARTIAL claim: pre-emption inside CPython byte code between the instrumented points, the GIL and the event loop's internals are
not modelled; liveness = deadlock freedom + a bound on the number of progress steps, not a time bound.
-/
namespace Replicat.C09
open Replicat Replicat.Sched List

/-! ## S1 — connection slots -/

/-- **Slots are conserved and bound the transfers.**  Along every schedule of acquire / transfer start / transfer end / release
events: the free and the held slots together are exactly the `n` slot numbers `base … base+n-1` (nothing is lost or duplicated),
so holders + free = `n`, and the number of backend transfers in flight never exceeds `n`. -/
theorem slots_invariant (n : Nat) (evs : List SlotEv) (σ : Slots)
    (h : run (Slots.step Gen.slotReleaseInFinally) (Slots.init n) evs = some σ) :
    (σ.free ++ σ.held) ~ List.range' Gen.slotBase n ∧ σ.free.length + σ.held.length = n ∧ σ.inflight ≤ n := by
  have hfin : Gen.slotReleaseInFinally = true := by decide
  -- the model's `start` presupposes a holder: every transfer of the source sits inside `with self._acquire_slot…`
  have _hunder : Gen.transfersUnderSlot = true := by decide
  rw [hfin] at h
  have hinv : SlotsInv n σ ∧ σ.leaked = [] :=
    run_inv (Slots.step true) (fun σ => SlotsInv n σ ∧ σ.leaked = [])
      (fun s e s' hi hs => ⟨slots_step_inv true n s e s' hi.1 hs, slots_step_noleak s e s' hi.2 hs⟩)
      evs _ _ ⟨slots_init_inv n, rfl⟩ h
  obtain ⟨hp, hl⟩ := hinv
  unfold SlotsInv at hp
  rw [hl, append_nil] at hp
  have hlen := hp.length_eq
  simp only [length_append, length_range'] at hlen
  refine ⟨hp, hlen, ?_⟩
  unfold Slots.inflight
  have := length_filter_le (fun s => σ.phase s == HPhase.calling) σ.held
  omega

/-- **All slots are available again at quiescence** — whether the transfers succeeded or raised: when no `with _acquire_slot`
block is open, the queue holds exactly the `n` slot numbers again. -/
theorem slots_restored (n : Nat) (evs : List SlotEv) (σ : Slots)
    (h : run (Slots.step Gen.slotReleaseInFinally) (Slots.init n) evs = some σ) (hq : σ.held = []) :
    σ.free ~ List.range' Gen.slotBase n ∧ σ.free.length = n := by
  obtain ⟨hp, hl, _⟩ := slots_invariant n evs σ h
  rw [hq, append_nil] at hp
  rw [hq] at hl
  exact ⟨hp, by simpa using hl⟩

/-- *Negation witness for the release outside `finally`* (what the model says about a slot context manager without `try/finally`):
one failed transfer and the slot is gone for good. -/
theorem slots_leak_without_finally_witness :
    (run (Slots.step false) (Slots.init 1) [.acquire 2, .start 2, .finish 2 false, .release 2]).map
      (fun σ => (σ.held, σ.free, σ.leaked)) = some ([], [], [2]) := by decide

/-! ## S1′ — slots, loader threads and the end of the event loop -/

/-- **After a successful operation nothing is left behind**: when the operation has returned without a failure, no download is
queued, no thread waits for a slot, no slot is held and all `n` slots are in the queue — whether or not the loop then stops. -/
theorem slots_restored_after_success (joins : Bool) (n jobs : Nat) (evs : List LifeEv) (σ : Life)
    (h : run (Life.step joins) (Life.init n jobs) evs = some σ) (hr : σ.returned = true) (hf : σ.failed = false) :
    σ.queued = 0 ∧ σ.waiting = 0 ∧ σ.held = 0 ∧ σ.free = n := by
  have inv : (LifeInv n σ ∧ SettledOk σ) ∧ (σ.failed = false → σ.lost = 0) := by
    refine run_inv (Life.step joins) (fun σ => (LifeInv n σ ∧ SettledOk σ) ∧ (σ.failed = false → σ.lost = 0)) ?_ evs _ _
      ⟨⟨life_init_inv n jobs, fun hr => by simp [Life.init] at hr⟩, fun _ => rfl⟩ h
    intro a e b hi hs
    refine ⟨⟨life_step_inv joins n a e b hi.1.1 hs, life_step_settledOk joins a e b hi.1.2 hs⟩, ?_⟩
    intro hfb
    cases e <;> simp only [Life.step] at hs
    · split at hs <;> cases hs; exact hi.2 hfb
    · split at hs <;> cases hs; exact hi.2 hfb
    · split at hs
      · rename_i hh
        split at hs
        · rename_i hcl
          cases hs
          simp only [Bool.or_eq_false_iff] at hfb
          have := hi.1.2 (hi.1.1.closed_ret hcl) hfb.1
          omega
        · cases hs
          simp only [Bool.or_eq_false_iff] at hfb
          exact hi.2 hfb.1
      · cases hs
    · split at hs <;> cases hs; exact hi.2 hfb
    · split at hs
      · cases hs
      · split at hs
        · cases hs; exact hi.2 hfb
        · split at hs <;> cases hs; exact hi.2 hfb
    · split at hs <;> cases hs; cases hfb
    · split at hs <;> cases hs; exact hi.2 hfb
  obtain ⟨q, w, hh⟩ := inv.1.2 hr hf
  have := inv.1.1.cons
  have := inv.2 hf
  exact ⟨q, w, hh, by omega⟩

/-- **After a failed operation nothing is left behind — PARTIAL: only for code that joins its loaders before re-raising.**
Full statement of the property ("all slots available again after success or failure", "never a hang") for the failure path, with
the extra hypothesis spelled out: `Gen.restoreJoinsLoadersOnFailure = true` (the shape of the candidate patch; it is `false` for
the current source, see `blocked_loader_witness` for what happens then).  Under it: whenever the operation has returned —
normally or by re-raising — nothing is queued, no thread waits for a slot, none is held, all `n` slots are free, and stopping the
loop afterwards strands nobody. -/
theorem slots_restored_after_return_partial (hj : Gen.restoreJoinsLoadersOnFailure = true) (n jobs : Nat) (evs : List LifeEv) (σ : Life)
    (h : run (Life.step Gen.restoreJoinsLoadersOnFailure) (Life.init n jobs) evs = some σ) (hr : σ.returned = true) :
    σ.queued = 0 ∧ σ.waiting = 0 ∧ σ.held = 0 ∧ σ.free = n := by
  rw [hj] at h
  have inv : (LifeInv n σ ∧ Settled σ) ∧ σ.lost = 0 := by
    refine run_inv (Life.step true) (fun σ => (LifeInv n σ ∧ Settled σ) ∧ σ.lost = 0) ?_ evs _ _
      ⟨⟨life_init_inv n jobs, fun hr => by simp [Life.init] at hr⟩, rfl⟩ h
    intro a e b hi hs
    refine ⟨⟨life_step_inv true n a e b hi.1.1 hs, life_step_settled a e b hi.1.2 hs⟩, ?_⟩
    cases e <;> simp only [Life.step] at hs
    · split at hs <;> cases hs; exact hi.2
    · split at hs <;> cases hs; exact hi.2
    · split at hs
      · rename_i hh
        split at hs
        · rename_i hcl
          have := hi.1.2 (hi.1.1.closed_ret hcl)
          omega
        · cases hs; exact hi.2
      · cases hs
    · split at hs <;> cases hs; exact hi.2
    · split at hs
      · cases hs
      · split at hs
        · cases hs; exact hi.2
        · split at hs <;> cases hs; exact hi.2
    · split at hs <;> cases hs; exact hi.2
    · split at hs <;> cases hs; exact hi.2
  obtain ⟨q, w, hh⟩ := inv.1.2 hr
  have := inv.1.1.cons
  exact ⟨q, w, hh, by omega⟩

/-- **After a failed operation nothing is left behind** (full statement).  On the current `/repo` (fix b6c77ef: `restore` drops the
downloads that have not started, lets the running ones finish and only then re-raises) the hypothesis of
`slots_restored_after_return_partial` is discharged by `decide` from the regenerated shape flag; if the join is removed this
proof stops compiling. -/
theorem slots_restored_after_return (n jobs : Nat) (evs : List LifeEv) (σ : Life)
    (h : run (Life.step Gen.restoreJoinsLoadersOnFailure) (Life.init n jobs) evs = some σ) (hr : σ.returned = true) :
    σ.queued = 0 ∧ σ.waiting = 0 ∧ σ.held = 0 ∧ σ.free = n :=
  slots_restored_after_return_partial (by decide) n jobs evs σ h hr

/-- **Defect witness (current code, `joins = false`).**  One slot, three downloads: the first fails, `restore` re-raises at once,
`asyncio.run` cancels the waiting request, that loader thread takes the next queued download and asks for a slot again, the loop
stops: a thread is blocked in `_acquire_slot_threadsafe` and the loop is gone.  Replayed on the real code by the harness
(sig `restore:failure-leaves-blocked-loaders`). -/
theorem blocked_loader_witness :
    run (Life.step false) (Life.init 1 3) [.begin, .grant, .begin, .finish false, .ret, .cancelWaiter, .begin, .close]
      = some ⟨1, 0, 1, 0, true, true, true, 0⟩ := by decide

/-- … and such a thread stays blocked for ever: once the loop has stopped, no schedule makes the number of waiting threads
smaller (so the non-daemon executor thread never ends and the interpreter cannot exit). -/
theorem blocked_forever (joins : Bool) (σ : Life) (hc : σ.closed = true) (evs : List LifeEv) (σ' : Life)
    (h : run (Life.step joins) σ evs = some σ') : σ.waiting ≤ σ'.waiting := by
  have := run_inv (Life.step joins) (fun s => s.closed = true ∧ σ.waiting ≤ s.waiting)
    (fun a e b hi hs => by
      have := life_step_stuck joins a e b hi.1 hs
      exact ⟨this.1, Nat.le_trans hi.2 this.2⟩) evs σ σ' ⟨hc, Nat.le_refl _⟩ h
  exact this.2

/-- non-vacuity of `slots_restored_after_return_partial`: the same failure with the joining code — the early `ret` is not
enabled; after dropping the queue and letting the running loader finish, the operation returns with the slot back -/
example : run (Life.step true) (Life.init 1 3) [.begin, .grant, .begin, .finish false, .ret] = none := by decide
example : run (Life.step true) (Life.init 1 3) [.begin, .grant, .begin, .finish false, .dropQueued, .grant, .finish true, .ret, .close]
      = some ⟨1, 0, 0, 0, true, true, true, 0⟩ := by decide

/-! ## S1″ — the outcome does not depend on how long a transfer takes -/

/-- **No wait of the source gives up after a while** (shape read from the source on every run): the two slot requests
(`_acquire_slot`, `_acquire_slot_threadsafe`) block until a slot is free, and repository.py has no other wait with a finite
time-out that is not retried — the model has no transition for one.  A request with a time-out (`….result(timeout=30)`,
`wait_for(…, 30)`) makes `slotWaitBounded` true and this stops compiling, together with the two theorems below. -/
theorem timed_waits_covered : Gen.slotWaitBounded = false ∧ Gen.unmodelledTimedWaits = [] := by decide

/-- **However slow the backend is, no job fails for it.**  Along every schedule of slot requests, grants, transfer ends and
arbitrary delays (`delay d`: `d` ms pass, at any moment), with the request as the source has it (`Lat.tmo`), no
job ever gives up waiting: the only failures of an operation are failed transfers. -/
theorem latency_never_fails (n jobs : Nat) (evs : List LatEv) (σ : Lat)
    (h : run (Lat.step Lat.tmo) (Lat.init n jobs) evs = some σ) : σ.timedOut = 0 := by
  have ht : Lat.tmo = none := by decide
  rw [ht] at h
  exact run_inv (Lat.step none) (fun σ => σ.timedOut = 0)
    (fun s e s' hi hs => (lat_step_no_timeout s e s' hs).trans hi) evs _ _ rfl h

/-- **The result is the one of the zero-latency run.**  Whatever the delays: slots are conserved; while the operation is not over
something other than the passage of time is enabled (no deadlock, `n ≥ 1`); and when nothing is queued, waiting or in flight any
more, *every* job has completed its transfer and all `n` slots are back — exactly the state the sequential run ends in. -/
theorem latency_result_independent (n jobs : Nat) (hn : 0 < n) (evs : List LatEv) (σ : Lat)
    (h : run (Lat.step Lat.tmo) (Lat.init n jobs) evs = some σ) :
    σ.free + σ.held = n ∧
    (σ.quiet = true → σ.done = jobs ∧ σ.free = n) ∧
    (σ.quiet = false → ∃ e ∈ Lat.moves, (Lat.step Lat.tmo σ e).isSome = true) := by
  have h0 := latency_never_fails n jobs evs σ h
  have hinv : LatInv n jobs σ :=
    run_inv (Lat.step Lat.tmo) (LatInv n jobs) (fun s e s' hi hs => lat_step_inv Lat.tmo n jobs s e s' hi hs) evs _ _ (lat_init_inv n jobs) h
  refine ⟨hinv.slots, ?_, fun hq => lat_progress Lat.tmo n jobs hn σ hinv hq⟩
  intro hq
  obtain ⟨h1, h2⟩ := hinv
  simp only [Lat.quiet, Bool.and_eq_true, beq_iff_eq, List.isEmpty_iff] at hq
  obtain ⟨⟨hq1, hq2⟩, hq3⟩ := hq
  rw [hq2] at h2
  simp only [List.length_nil] at h2
  exact ⟨by omega, by omega⟩

/-- *Negation witness for a bounded slot request* (what the model says about `….result(timeout=T)`): one slot, two jobs, the first
transfer takes `T` ms — the second job gives up and raises although no transfer failed, for every bound `T`. -/
theorem bounded_slot_wait_fails_witness (T : Nat) :
    (run (Lat.step (some T)) (Lat.init 1 2) (Lat.slowSchedule T)).map (fun σ => (σ.timedOut, σ.done, σ.held)) = some (1, 0, 1) := by
  simp [run, Lat.step, Lat.init, Lat.slowSchedule, slotCount_eq]

example : (run (Lat.step Lat.tmo) (Lat.init 1 2) [.request, .grant, .request, .delay 1000000, .finish, .grant, .finish]).map
    (fun σ => (σ.done, σ.free, σ.timedOut, σ.quiet)) = some (2, 1, 0, true) := by decide
example : run (Lat.step Lat.tmo) (Lat.init 1 2) (Lat.slowSchedule 30000) = none := by decide

/-! ## S2 — snapshot: producer, bounded queue, workers -/

/-- **No chunk is dropped or processed twice.**  When all `n ≥ 1` workers have left their loop normally, the chunks for which
`_chunk_done` ran are exactly the chunks `0 … total-1`, each once (in some order — `result_schedule_independent` says the order
does not matter).  Holds for both shapes of the producer's put (`r`). -/
theorem snapshot_all_processed (r : Bool) (total n : Nat) (hn : 0 < n) (evs : List SnapEv) (s : Snap)
    (h : run (Snap.step r) (Snap.init total n) evs = some s) (hex : allExited s.workers = true) :
    s.processed ~ List.range total ∧ s.queue = [] ∧ s.produced = total := by
  have hinv := snap_reach_inv r total n evs s h
  have hstat : s.workers.length = n ∧ s.total = total := by
    have := run_inv (Snap.step r) (fun t => t.workers.length = n ∧ t.total = total)
      (fun a e b hi hs => by
        have := snap_step_static r a e b hs
        exact ⟨this.1.trans hi.1, this.2.2.trans hi.2⟩) evs _ _ (by simp [Snap.init]) h
    exact this
  rw [allExited_iff] at hex
  have h0 : (0 : Nat) < s.workers.length := by omega
  have hE : HasE s.workers := ⟨0, by
    have := hex 0 s.workers[0] (by simp [h0])
    simp [h0, this]⟩
  obtain ⟨hd, hq⟩ := hinv.exited_done hE
  have hnoF : ¬ HasF s.workers := by
    rintro ⟨i, hi⟩
    have := hex i _ hi
    cases this
  have hprod : s.produced = total := by
    rcases hinv.fin_all (hinv.done_fin hd) with h1 | h1
    · rw [h1, hstat.2]
    · exact absurd (hinv.abort_failed h1) hnoF
  have hbusy : busyList s.workers = [] := busyList_eq_nil _ (fun i p hp k hk => by
    have := hex i p hp
    rw [this] at hk; cases hk)
  have hp := hinv.perm
  rw [hbusy, hq, hinv.lost_failed hnoF, hprod] at hp
  simp only [append_nil] at hp
  exact ⟨hp, hq, hprod⟩

/-- **No worker leaves early.**  A worker can take the `exit` step only when the queue is empty and the producer is done, i.e.
never while a chunk is queued or yet to be produced (unless a worker failed and the run is being aborted). -/
theorem snapshot_no_early_exit (r : Bool) (total n : Nat) (evs : List SnapEv) (s s' : Snap) (w : Nat)
    (h : run (Snap.step r) (Snap.init total n) evs = some s) (hstep : Snap.step r s (.exit w) = some s') :
    s.queue = [] ∧ s.prodDone = true ∧ (s.produced = s.total ∨ HasF s.workers) := by
  have hinv := snap_reach_inv r total n evs s h
  simp only [Snap.step] at hstep
  split at hstep
  · split at hstep
    · rename_i hc
      obtain ⟨he, hd⟩ := continues_false _ _ hc
      refine ⟨by simpa using he, hd, ?_⟩
      rcases hinv.fin_all (hinv.done_fin hd) with h1 | h1
      · exact Or.inl h1
      · exact Or.inr (hinv.abort_failed h1)
    · cases hstep
  · cases hstep

/-- **No deadlock — PARTIAL: for a producer whose put re-tests the abort flag while the queue is full.**  The full statement
("never a hang": in every reachable state in which the operation is not over, some progress step — anything but the polling
stutter — is enabled, with at least one worker) with the one hypothesis it needs spelled out: `rechecks = true`, i.e. the put is a
loop of timed attempts with the abort test in between.  It is false without it, see `blocking_put_deadlock_witness`. -/
theorem snapshot_no_deadlock_partial (total n : Nat) (hn : 0 < n) (evs : List SnapEv) (s : Snap)
    (h : run (Snap.step true) (Snap.init total n) evs = some s) (hnf : s.finished = false) :
    ∃ e, e.progress = true ∧ (Snap.step true s e).isSome = true := by
  have hinv := snap_reach_inv true total n evs s h
  have hstat : s.workers.length = n ∧ s.cap = Gen.queueFactor * n :=
    run_inv (Snap.step true) (fun t => t.workers.length = n ∧ t.cap = Gen.queueFactor * n)
      (fun a e b hi hs => by
        have := snap_step_static true a e b hs
        exact ⟨this.1.trans hi.1, this.2.1.trans hi.2⟩) evs _ _ (by simp [Snap.init]) h
  have hcap : 0 < s.cap := by
    rw [hstat.2]
    have : 0 < Gen.queueFactor := by decide
    exact Nat.mul_pos this hn
  have hA : Gen.abortOnWorkerFailure = true := by decide
  have hP : Gen.producerStopsOnAbort = true := by decide
  -- a busy worker can always finish
  by_cases hb : ∃ (w : Nat) (k : Nat), s.workers[w]? = some (WPhase.busy k)
  · obtain ⟨w, k, hw⟩ := hb
    exact ⟨.finish w true, rfl, by simp [Snap.step, hw]⟩
  -- an idle worker: take, or exit, or the producer side moves
  by_cases hi : ∃ w : Nat, s.workers[w]? = some WPhase.idle
  · obtain ⟨w, hw⟩ := hi
    cases hq : s.queue with
    | cons k rest =>
      exact ⟨.take w, rfl, by simp [Snap.step, hw, hq, continues_nonempty]⟩
    | nil =>
      cases hd : s.prodDone with
      | true =>
        exact ⟨.exit w, rfl, by simp [Snap.step, hw, hq, hd, continues_done]⟩
      | false =>
        cases hf : s.prodFinished with
        | true => exact ⟨.prodVisible, rfl, by simp [Snap.step, hf, hd]⟩
        | false =>
          by_cases hpt : s.produced = s.total
          · exact ⟨.prodStop, rfl, by simp [Snap.step, hf, hpt]⟩
          · have := hinv.le
            have h1 : s.produced < s.total := by omega
            cases hin : s.inPut with
            | true => exact ⟨.put, rfl, by simp [Snap.step, hf, hin, h1, hq, hcap]⟩
            | false =>
              cases ha : s.abort with
              | true => exact ⟨.prodStop, rfl, by simp [Snap.step, hf, ha, hP]⟩
              | false => exact ⟨.enterPut, rfl, by simp [Snap.step, hf, hin, h1, ha]⟩
  -- every worker has stopped
  · have hstop : ∀ (i : Nat) (p : WPhase), s.workers[i]? = some p → p = WPhase.exited ∨ p = WPhase.failed := by
      intro i p hp
      cases p with
      | idle => exact absurd ⟨i, hp⟩ hi
      | busy k => exact absurd ⟨i, k, hp⟩ hb
      | exited => exact Or.inl rfl
      | failed => exact Or.inr rfl
    have hall : allStopped s.workers = true := (allStopped_iff _).mpr hstop
    cases hd : s.prodDone with
    | true =>
      by_cases hF : HasF s.workers
      · -- finished: contradiction
        have : anyFailed s.workers = true := (anyFailed_iff _).mpr hF
        simp [Snap.finished, hall, hd, this] at hnf
      · have hallE : allExited s.workers = true := by
          rw [allExited_iff]
          intro i p hp
          rcases hstop i p hp with h1 | h1
          · exact h1
          · exact absurd ⟨i, h1 ▸ hp⟩ hF
        cases hu : s.uploaded with
        | true => simp [Snap.finished, hall, hd, hu] at hnf
        | false => exact ⟨.upload, rfl, by simp [Snap.step, hallE, hd, hu]⟩
    | false =>
      cases hf : s.prodFinished with
      | true => exact ⟨.prodVisible, rfl, by simp [Snap.step, hf, hd]⟩
      | false =>
        by_cases hpt : s.produced = s.total
        · exact ⟨.prodStop, rfl, by simp [Snap.step, hf, hpt]⟩
        · -- no exited worker (that would need prodDone), so with n ≥ 1 some worker failed: abort, then the producer stops —
          -- also when it is waiting inside the put on a full queue, because the put re-tests the flag
          have h0 : (0 : Nat) < s.workers.length := by omega
          have hF : HasF s.workers := by
            rcases hstop 0 s.workers[0] (by simp [h0]) with h1 | h1
            · have := (hinv.exited_done ⟨0, by simp [h0, h1]⟩).1
              rw [hd] at this; cases this
            · exact ⟨0, by simp [h0, h1]⟩
          have hFb : anyFailed s.workers = true := (anyFailed_iff _).mpr hF
          cases ha : s.abort with
          | true => exact ⟨.prodStop, rfl, by simp [Snap.step, hf, ha, hP]⟩
          | false => exact ⟨.raiseAbort, rfl, by simp [Snap.step, hFb, hA, ha]⟩

/-- **No deadlock** (full statement, for the source as it is).  The hypothesis of `snapshot_no_deadlock_partial` is the regenerated
shape flag `Gen.producerRechecksWhileFull` and is discharged by `decide`: if the producer's put becomes one blocking call this
proof stops compiling. -/
theorem snapshot_no_deadlock (total n : Nat) (hn : 0 < n) (evs : List SnapEv) (s : Snap)
    (h : run (Snap.step Gen.producerRechecksWhileFull) (Snap.init total n) evs = some s) (hnf : s.finished = false) :
    ∃ e, e.progress = true ∧ (Snap.step Gen.producerRechecksWhileFull s e).isSome = true := by
  have hr : Gen.producerRechecksWhileFull = true := by decide
  rw [hr] at h ⊢
  exact snapshot_no_deadlock_partial total n hn evs s h hnf

/-- **Negation witness for one blocking put** (`rechecks = false`: `chunk_queue.put(chunk)` after a single abort test).  One
worker, queue bound c = `Gen.queueFactor`·1, c + 2 chunks, the schedule `Snap.floodSchedule c`: the producer fills the queue, the
worker takes the first chunk, the producer queues one more and enters the put of the last chunk on the full queue; the worker's
transfer fails, `abort` is set.  Now nothing is enabled — no worker is left to take a chunk, the producer never looks at the flag
again, `await chunk_producer` never returns — and the operation is not over: a hang (`Snap.stuck` = not finished ∧ no progress
event enabled; by `stuck_is_final` for ever).  Found on real code with such a producer by the harness (flood cases × fault plans
that leave no worker; sig `snapshot:hang`). -/
theorem blocking_put_deadlock_witness :
    (run (Snap.step false) (Snap.init (Gen.queueFactor + 2) 1) (Snap.floodSchedule Gen.queueFactor)).map
      (fun s => (s.queue.length == s.cap, s.inPut, s.abort, s.finished, Snap.stuck false s)) = some (true, true, true, false, true) := by
  decide

/-- … whereas the polling producer gets out of the very same state: after the same schedule `prodStop` is enabled (the abort test
between two timed attempts), the producer becomes done and the operation is over. -/
theorem polling_put_same_schedule_finishes :
    (run (Snap.step true) (Snap.init (Gen.queueFactor + 2) 1) (Snap.floodSchedule Gen.queueFactor ++ [.prodStop, .prodVisible])).map
      (fun s => (s.finished, s.uploaded, Snap.stuck true s)) = some (true, false, false) := by decide

/-- `Snap.stuck` means what it says: in a reachable stuck state NO event at all is enabled (the candidate list misses nothing, and
the polling stutter needs a producer that can still move), so no schedule leads anywhere from it — the state is final although the
operation is not over: the hang is for ever. -/
theorem stuck_is_final (r : Bool) (total n : Nat) (evs₀ : List SnapEv) (s : Snap)
    (hreach : run (Snap.step r) (Snap.init total n) evs₀ = some s) (hs : Snap.stuck r s = true) (evs : List SnapEv) (s' : Snap)
    (h : run (Snap.step r) s evs = some s') : s' = s ∧ evs = [] ∧ s.finished = false := by
  have hle := (snap_reach_inv r total n evs₀ s hreach).le
  have hstat : s.workers.length = n ∧ s.cap = Gen.queueFactor * n :=
    run_inv (Snap.step r) (fun t => t.workers.length = n ∧ t.cap = Gen.queueFactor * n)
      (fun a e b hi hs => by
        have := snap_step_static r a e b hs
        exact ⟨this.1.trans hi.1, this.2.1.trans hi.2⟩) evs₀ _ _ (by simp [Snap.init]) hreach
  simp only [Snap.stuck, Bool.and_eq_true, Bool.not_eq_true', List.all_eq_true] at hs
  obtain ⟨hfin, hall⟩ := hs
  have hnone : ∀ e, Snap.step r s e = none := by
    intro e
    have hc : ∀ e ∈ Snap.candidates s.workers.length, Snap.step r s e = none := by
      intro e he; have := hall e he; simpa using this
    have hw : ∀ (w : Nat) (p : WPhase), s.workers[w]? = some p →
        (Snap.step r s (.take w) = none ∧ Snap.step r s (.exit w) = none ∧ Snap.step r s (.finish w true) = none
          ∧ Snap.step r s (.finish w false) = none) := by
      intro w p hp
      have hwl : w < s.workers.length := by
        rw [List.getElem?_eq_some_iff] at hp; exact hp.1
      have hm : ∀ e ∈ [SnapEv.take w, .exit w, .finish w true, .finish w false], e ∈ Snap.candidates s.workers.length := by
        intro e he
        simp only [Snap.candidates, mem_append, mem_flatMap, mem_range]
        exact Or.inr ⟨w, hwl, he⟩
      exact ⟨hc _ (hm _ (by simp)), hc _ (hm _ (by simp)), hc _ (hm _ (by simp)), hc _ (hm _ (by simp))⟩
    have hbase : ∀ e ∈ [SnapEv.enterPut, .put, .prodStop, .prodVisible, .raiseAbort, .upload], Snap.step r s e = none := by
      intro e he
      exact hc e (by simp only [Snap.candidates, mem_append]; exact Or.inl he)
    cases e with
    | enterPut => exact hbase _ (by simp)
    | put => exact hbase _ (by simp)
    | prodStop => exact hbase _ (by simp)
    | prodVisible => exact hbase _ (by simp)
    | raiseAbort => exact hbase _ (by simp)
    | upload => exact hbase _ (by simp)
    | take w =>
      cases hp : s.workers[w]? with
      | none => simp [Snap.step, hp]
      | some p => exact (hw w p hp).1
    | exit w =>
      cases hp : s.workers[w]? with
      | none => simp [Snap.step, hp]
      | some p => exact (hw w p hp).2.1
    | finish w ok =>
      cases hp : s.workers[w]? with
      | none => simp [Snap.step, hp]
      | some p => cases ok with
        | true => exact (hw w p hp).2.2.1
        | false => exact (hw w p hp).2.2.2
    | poll w =>
      -- a poll needs an idle worker and an empty queue while the producer is not done; then a progress event is enabled too
      cases hp : s.workers[w]? with
      | none => simp [Snap.step, hp]
      | some p =>
        cases p with
        | idle =>
          have hex := (hw w _ hp).2.1
          simp only [Snap.step, hp] at hex ⊢
          by_cases hc2 : Gen.workerContinues s.queue.isEmpty s.prodDone = false
          · simp [hc2] at hex
          · have hct : Gen.workerContinues s.queue.isEmpty s.prodDone = true := by simpa using hc2
            cases hq : s.queue with
            | nil =>
              -- empty queue, the worker continues ⇒ the producer is not done ⇒ something on the producer side is enabled
              rw [hq] at hct
              simp only [List.isEmpty_nil] at hct
              have hd : s.prodDone = false := by
                cases hd : s.prodDone with
                | false => rfl
                | true => rw [hd, continues_done] at hct; cases hct
              exfalso
              have hwl : w < s.workers.length := by
                rw [List.getElem?_eq_some_iff] at hp; exact hp.1
              have hcap : 0 < s.cap := by
                rw [hstat.2]
                have : 0 < Gen.queueFactor := by decide
                exact Nat.mul_pos this (by omega)
              have h1 := hbase .prodVisible (by simp)
              have h2 := hbase .prodStop (by simp)
              have h3 := hbase .enterPut (by simp)
              have h4 := hbase .put (by simp)
              simp only [Snap.step, hd] at h1 h2 h3 h4
              cases hf : s.prodFinished with
              | true => simp [hf] at h1
              | false =>
                simp only [hf, hq, List.length_nil] at h2 h3 h4
                revert h2 h3 h4
                cases s.inPut <;> cases s.abort <;> cases Gen.producerStopsOnAbort <;> cases r <;> simp <;> omega
            | cons k rest =>
              simp
        | busy k => simp [Snap.step, hp]
        | exited => simp [Snap.step, hp]
        | failed => simp [Snap.step, hp]
  cases evs with
  | nil => simp only [run, Option.some.injEq] at h; exact ⟨h.symm, rfl, hfin⟩
  | cons e es => simp [run, hnone e] at h

/-- **Every schedule is short.**  A schedule without polling stutters has at most `4·total + n + 5` steps (per chunk: enter the
put, put, take, finish) — so under a fair scheduler (polls do not starve the other agents) the operation reaches `finished` (by
`snapshot_no_deadlock`) or, with a blocking put, possibly a stuck state (`blocking_put_deadlock_witness`).  Both shapes of the put. -/
theorem snapshot_bounded_progress (r : Bool) (total n : Nat) (evs : List SnapEv) (s : Snap)
    (h : run (Snap.step r) (Snap.init total n) evs = some s) (hp : ∀ e ∈ evs, e.progress = true) :
    evs.length ≤ 4 * total + n + 5 := by
  have key : ∀ (evs : List SnapEv) (a b : Snap), run (Snap.step r) a evs = some b → (∀ e ∈ evs, e.progress = true) →
      evs.length + b.measure ≤ a.measure := by
    intro evs
    induction evs with
    | nil => intro a b hr _; simp only [run, Option.some.injEq] at hr; subst hr; simp
    | cons e es ih =>
      intro a b hr hpe
      simp only [run] at hr
      cases hs : Snap.step r a e with
      | none => simp [hs] at hr
      | some a1 =>
        rw [hs] at hr
        have h1 := snap_step_measure r a e a1 (hpe e (by simp)) hs
        have h2 := ih a1 b hr (fun x hx => hpe x (by simp [hx]))
        simp only [length_cons]
        omega
  have := key evs _ _ h hp
  have hm : (Snap.init total n).measure = 4 * total + n + 5 := by
    simp only [Snap.measure, Snap.init, length_nil, map_replicate, wWeight, sum_replicate_nat]
    simp
  omega

/-- **A failed worker means no snapshot object** — in every reachable state, if a worker raised (or the abort flag is set) the
snapshot object has not been and will not be uploaded (`upload` needs all workers to have exited normally, and `failed` is final). -/
theorem abort_no_snapshot (r : Bool) (total n : Nat) (evs : List SnapEv) (s : Snap)
    (h : run (Snap.step r) (Snap.init total n) evs = some s) (hf : anyFailed s.workers = true ∨ s.abort = true) :
    s.uploaded = false ∧ ∀ s', Snap.step r s .upload ≠ some s' := by
  have hinv := snap_reach_inv r total n evs s h
  have hF : HasF s.workers := by
    rcases hf with h1 | h1
    · exact (anyFailed_iff _).mp h1
    · exact hinv.abort_failed h1
  have hnotall : allExited s.workers = false := by
    cases hx : allExited s.workers with
    | false => rfl
    | true =>
      rw [allExited_iff] at hx
      obtain ⟨i, hi⟩ := hF
      have := hx i _ hi
      cases this
  constructor
  · cases hu : s.uploaded with
    | false => rfl
    | true => have := (hinv.up hu).1; rw [hnotall] at this; cases this
  · intro s' hs
    simp [Snap.step, hnotall] at hs

/-- non-vacuity: two workers, three chunks, a schedule in which the second chunk finishes first -/
example : (run (Snap.step Gen.producerRechecksWhileFull) (Snap.init 3 2)
    [.enterPut, .put, .enterPut, .put, .take 0, .take 1, .enterPut, .put, .finish 1 true, .take 1, .prodStop, .finish 0 true, .finish 1 true,
     .prodVisible, .exit 0, .exit 1, .upload]).map (fun s => (s.processed, s.uploaded, s.finished)) = some ([2, 0, 1], true, true) := by decide

/-- non-vacuity of the failure path: one worker, its transfer fails while the producer is inside a put on the full queue; with the
source's put the producer stops at the abort test between two attempts and the operation ends without a snapshot object -/
example : (run (Snap.step Gen.producerRechecksWhileFull) (Snap.init (Gen.queueFactor + 2) 1)
    (Snap.floodSchedule Gen.queueFactor ++ [.prodStop, .prodVisible])).map
      (fun s => (s.finished, s.uploaded, s.produced == Gen.queueFactor + 1)) = some (true, false, true) := by decide

/-! ## S3 — restore: per-file write locks -/

/-- **At most one writer per file; the lock of a file is stable while somebody counts on it.**  Along every schedule of the
writer jobs (any number of jobs and files, `glock` also taken by loaders): no `KeyError`; two jobs inside `with flock:` for the same
file are the same job; and every job between its registration and its un-registration uses exactly the lock object the table maps
its file to, with a positive reference count. -/
theorem file_lock_mutex (fileOf : Nat → Nat) (evs : List LockEv) (σ : Locks)
    (h : run (Locks.step Gen.flockDelAtZero fileOf) Locks.init evs = some σ) :
    σ.err = false ∧
    (∀ j₁ j₂, fileOf j₁ = fileOf j₂ → inCrit (σ.pc j₁) = true → inCrit (σ.pc j₂) = true → j₁ = j₂) ∧
    (∀ j, registered (σ.pc j) = true → ∃ l, σ.lk j = some l ∧ σ.flocks (fileOf j) = some l ∧ 0 < σ.refc (fileOf j)) := by
  have hz : Gen.flockDelAtZero = true := by decide
  -- the job program `gAcq look commit gRel fAcq write fRel gAcq unreg gRel` is the recognised shape of `_write_chunk_ref`
  have _hshape : Gen.flockShapeRecognised = true := by decide
  rw [hz] at h
  have inv := locks_reach_inv fileOf evs σ h
  have hreg : ∀ j, registered (σ.pc j) = true → ∃ l, σ.lk j = some l ∧ σ.flocks (fileOf j) = some l ∧ 0 < σ.refc (fileOf j) := by
    intro j hr
    have hm := (inv.regs_iff j).mp hr
    have hlk := inv.lk j hr
    cases hf : σ.flocks (fileOf j) with
    | none => have := (inv.fl_none _).mp hf; rw [this] at hm; cases hm
    | some l =>
      refine ⟨l, by rw [hlk, hf], rfl, ?_⟩
      rw [inv.refc]
      exact length_pos_of_mem hm
  refine ⟨inv.noerr, ?_, hreg⟩
  intro j₁ j₂ hf h1 h2
  have r1 : registered (σ.pc j₁) = true := by rw [inCrit_iff] at h1; rw [registered_iff]; omega
  have r2 : registered (σ.pc j₂) = true := by rw [inCrit_iff] at h2; rw [registered_iff]; omega
  obtain ⟨l1, a1, b1, _⟩ := hreg j₁ r1
  obtain ⟨l2, a2, b2, _⟩ := hreg j₂ r2
  rw [hf, b2] at b1
  cases b1
  obtain ⟨l1', c1, d1⟩ := inv.crit j₁ h1
  obtain ⟨l2', c2, d2⟩ := inv.crit j₂ h2
  rw [a1] at c1; cases c1
  rw [a2] at c2; cases c2
  rw [d1] at d2
  cases d2; rfl

/-- *Negation witness for an unguarded delete* (what the model says when the table entry is dropped without looking at the
count): job 0 leaves, job 1 still holds the old lock object, job 2 creates a new one — two writers inside the same file. -/
theorem file_lock_needs_refcount_witness :
    (run (Locks.step false (fun _ => 0)) Locks.init
      [.gAcq 0, .look 0, .commit 0, .gRel 0, .fAcq 0, .gAcq 1, .look 1, .commit 1, .gRel 1, .write 0, .fRel 0, .gAcq 0, .unreg 0, .gRel 0,
       .fAcq 1, .gAcq 2, .look 2, .commit 2, .gRel 2, .fAcq 2]).map
      (fun σ => (inCrit (σ.pc 1), inCrit (σ.pc 2), σ.lk 1, σ.lk 2)) = some (true, true, some 0, some 1) := by decide

/-! ## S3 — restore: pending digest sets and the finaliser -/

/-- **Every file is finalised exactly once, after all its writes** — for the code that decides under the lock
(`Gen.finaliseDecidedUnderLock = true`, discharged by `decide`), for every well-formed loader table and every schedule:
no loader ever raises `KeyError`; no file is finalised twice; whenever a file has been finalised or a loader is about to finalise
it, every loader that references the file has completed all of its writes; and when all loaders are done every referenced file
has been finalised exactly once and its metadata entry is gone. -/
theorem finalise_once_after_writes (L : List Loader) (hwf : LoadersWF L) (evs : List FinEv) (σ : Fin)
    (h : run (Fin.step Gen.finaliseDecidedUnderLock L) (Fin.init L) evs = some σ) :
    (∀ d, σ.phase d ≠ LPhase.failed) ∧ (∀ f, σ.finCount f ≤ 1) ∧
    (∀ f, (σ.finCount f = 1 ∨ ∃ d, poppingFile (σ.phase d) = some f) → ∀ l ∈ L, f ∈ l.refs → σ.written l.d ~ l.refs) ∧
    ((∀ l ∈ L, σ.phase l.d = LPhase.done) → ∀ l ∈ L, ∀ f ∈ l.refs, σ.finCount f = 1 ∧ σ.hasMeta f = false) := by
  have hu : Gen.finaliseDecidedUnderLock = true := by decide
  -- `remove` and `pop` are atomic steps of the model because the source performs them inside `with glock:`
  have _hrm : Gen.removeUnderGlock = true := by decide
  have _hin : Gen.decisionInsideRemoveBlock = true := by decide
  have _hpop : Gen.popUnderGlock = true := by decide
  rw [hu] at h
  obtain ⟨core, aux⟩ := fin_reach_inv L hwf evs σ h
  have hcnt : ∀ f, σ.finCount f ≤ 1 := by
    intro f
    by_cases h0 : σ.finCount f = 0
    · omega
    · have := (core.cnt1 f h0).1; omega
  refine ⟨aux.nofail, hcnt, ?_, ?_⟩
  · intro f hfin l hl hfr
    have hpe : σ.pending f = [] := by
      rcases hfin with h1 | ⟨d, h1⟩
      · exact (core.cnt1 f (by omega)).2.1
      · exact (core.pop1 d f h1).2.1
    have hlook := lookup_of_mem hwf.1 hl
    have hfp : f ∈ l.paths := (hwf.2 l hl).2.2 f hfr
    have hnot : f ∉ owesD L σ.phase l.d := by
      rw [← core.pend f l.d, hpe]; simp
    have hpast : pastWriting (σ.phase l.d) = true := by
      simp only [owesD, hlook] at hnot
      cases hph : σ.phase l.d with
      | dl => rw [hph] at hnot; exact absurd hfp hnot
      | writing t => rw [hph] at hnot; exact absurd hfp hnot
      | _ => rfl
    exact (aux.wr l.d l hlook).2.2 hpast
  · intro hdone l hl f hfr
    have hfp : f ∈ l.paths := (hwf.2 l hl).2.2 f hfr
    have hphase : ∀ d, σ.phase d = LPhase.done := by
      intro d
      cases hd : lookupLoader L d with
      | none => exact aux.absent d hd
      | some l' =>
        obtain ⟨h1, h2⟩ := lookup_some hd
        rw [← h2]; exact hdone l' h1
    have hpe : σ.pending f = [] := by
      apply eq_nil_iff_forall_not_mem.mpr
      intro d hd
      rw [core.pend f d] at hd
      simp only [owesD] at hd
      cases hl' : lookupLoader L d with
      | none => rw [hl'] at hd; cases hd
      | some l' => rw [hl', hphase d] at hd; cases hd
    have h1 : σ.finCount f = 1 := by
      rcases core.tok f hpe with p | p | ⟨d, p⟩
      · have : l.d ∈ pending₀ L f := (mem_pending₀ hwf.1 f l.d).mpr ⟨l, lookup_of_mem hwf.1 hl, hfp⟩
        rw [p] at this; cases this
      · exact p
      · rw [hphase d] at p; cases p
    refine ⟨h1, ?_⟩
    cases hm : σ.hasMeta f with
    | false => rfl
    | true => have := (core.hmeta f).mp hm; omega

/-- **D4 — the code before 6be86ef finalises twice.**  With the emptiness test outside the lock (`underLock = false`) there is a
schedule of two loaders that reference one file in which both see the empty set; the second `files_metadata.pop` raises
`KeyError` (loader 1 ends in `failed`).  Replayed on the real pre-fix code by the harness (sig `restore:double-finalise`). -/
theorem finalise_twice_witness :
    (run (Fin.step false [⟨0, [0], [0]⟩, ⟨1, [0], [0]⟩]) (Fin.init [⟨0, [0], [0]⟩, ⟨1, [0], [0]⟩])
      [.downloaded 0, .downloaded 1, .write 0 0, .write 1 0, .joined 0, .joined 1, .remove 0 0, .remove 1 0,
       .test 0 0, .test 1 0, .pop 0 0, .pop 1 0]).map
      (fun σ => (σ.phase 0, σ.phase 1, σ.finCount 0)) = some (LPhase.fin [], LPhase.failed, 1) := by decide

/-- non-vacuity: the same two loaders under the current code — the corresponding schedule is legal and ends well -/
example :
    (run (Fin.step Gen.finaliseDecidedUnderLock [⟨0, [0], [0]⟩, ⟨1, [0], [0]⟩]) (Fin.init [⟨0, [0], [0]⟩, ⟨1, [0], [0]⟩])
      [.downloaded 0, .downloaded 1, .write 0 0, .write 1 0, .joined 0, .joined 1, .remove 0 0, .remove 1 0,
       .pop 1 0, .finish 0, .finish 1]).map
      (fun σ => (σ.phase 0, σ.phase 1, σ.finCount 0, σ.hasMeta 0)) = some (LPhase.done, LPhase.done, 1, false) := by decide

example : LoadersWF [⟨0, [0, 0, 1], [0, 1]⟩, ⟨1, [0], [0]⟩] := by decide

/-! ## The result does not depend on the schedule -/

/-- **Same manifest and same restored bytes under every schedule** (cites `Replicat.C01.records_perm` and
`Replicat.C01.restore_file_exact`).  Take ANY schedule of the snapshot pipeline that ends with all workers exited; the order in
which `_chunk_done` ran is `s.processed.reverse`.  The references recorded for every file are a permutation of those of the
sequential run, and restoring the file from them — the writer jobs executed in ANY order `ws`, whatever was at the target path
before — yields exactly the file's bytes. -/
theorem result_schedule_independent (r : Bool) (n : Nat) (hn : 0 < n) (evs : List SnapEv) (st : Snap)
    (strm : Bytes) (lens : List Nat) (hsum : lens.sum = strm.length)
    (h : run (Snap.step r) (Snap.init lens.length n) evs = some st) (hex : allExited st.workers = true)
    (files : List Span) (hs : SpansSorted files) (i : Nat) (f : Span) (hf : files[i]? = some f) (hle : f.1 ≤ f.2) (hfe : f.2 ≤ strm.length)
    (old : Option Bytes) (ws : List PlanEntry)
    (hws : ws ~ plan (refsOfIn (records files (spansFrom 0 lens) st.processed.reverse) i)) :
    refsOfIn (records files (spansFrom 0 lens) st.processed.reverse) i ~ fileRefs f 0 (spansFrom 0 lens) ∧
    restoreFile (chunksOf strm lens) old (refsOfIn (records files (spansFrom 0 lens) st.processed.reverse) i) ws
      = some (slice strm f.1 f.2) := by
  have hproc := (snapshot_all_processed r lens.length n hn evs st h hex).1
  have hlen : (spansFrom 0 lens).length = lens.length := by
    have : ∀ (o : Nat) (l : List Nat), (spansFrom o l).length = l.length := by
      intro o l
      induction l generalizing o with
      | nil => rfl
      | cons a t ih => simp [spansFrom, ih]
    exact this 0 lens
  have horder : st.processed.reverse ~ List.range (spansFrom 0 lens).length := by
    rw [hlen]; exact (reverse_perm _).trans hproc
  have hperm := C01.records_perm files (spansFrom 0 lens) hs st.processed.reverse horder i f hf
  exact ⟨hperm, C01.restore_file_exact strm f hle lens hsum hfe _ hperm old ws hws⟩


/-! ## S6 — thread affinity of the slot queue (`ReplicatModel/SlotQ.lean`)

`Slots`, `Lat` and `Life` above treat a slot request, its grant and the give-back as atomic events.  The queue is an `asyncio` queue:
that atomicity holds only when every step of the queue runs on the event-loop thread.  `Gen.slotQueueOnLoopOnly` is read from the
source: every use of the queue attribute is inside a coroutine or inside the arguments of `call_soon_threadsafe` /
`run_coroutine_threadsafe`. -/

/-- **The slot queue is only ever touched on the loop thread** — the extracted fact the three theorems below are about; an edit that
lets a loader thread use the queue itself (`self._slots.put_nowait(slot)` in the thread-side manager) makes this stop compiling. -/
theorem slot_queue_thread_affine :
    Gen.slotQueueOnLoopOnly = true ∧ 2 ≤ Gen.slotQueueThreadSideRefs ∧ 1 ≤ Gen.slotQueueLoopSideRefs := by decide

/-- **An on-loop action is exactly its micro-steps, uninterrupted**: the macro system is a sub-system of the micro system
(refinement by construction, stated so that it cannot drift). -/
theorem slot_queue_action_is_microsteps (σ : SlotQ.Q) (a : SlotQ.Act) :
    SlotQ.astep σ a = SlotQ.run σ (SlotQ.expand σ a) := rfl

/-- **No lost wake-up on the loop thread.**  For every number of slots `n ≥ 1` and EVERY sequence of requests, getter runs, give-backs
and idle periods performed as loop callbacks: slots are conserved, no getter is ever between its emptiness test and its registration
when a callback ends, and whenever a getter is parked either a woken getter is runnable on an awake loop or some slot is still held
(its give-back will wake one) — a getter never sleeps on a non-empty queue. -/
theorem slot_queue_no_lost_wakeup (n : Nat) (hn : 0 < n) (as : List SlotQ.Act) (σ : SlotQ.Q)
    (h : SlotQ.arun (SlotQ.init n) as = some σ) :
    σ.items + σ.held = n ∧ σ.sawEmpty = 0 ∧
    (σ.parked > 0 → (σ.ready > 0 ∧ σ.asleep = false) ∨ σ.held > 0) ∧ SlotQ.lostWakeup σ = false := by
  obtain ⟨hc, hs, hp, hz⟩ := SlotQ.arun_inv n _ σ as (SlotQ.init_inv n) h
  have key : σ.parked > 0 → (σ.ready > 0 ∧ σ.asleep = false) ∨ σ.held > 0 := by
    intro hpk
    have hle := hp hpk
    by_cases hh : σ.held > 0
    · exact Or.inr hh
    · left
      have hi : σ.items = n := by omega
      have hr : σ.ready > 0 := by omega
      refine ⟨hr, ?_⟩
      cases ha : σ.asleep with
      | false => rfl
      | true => have := (hz ha).1; omega
  refine ⟨hc, hs, key, ?_⟩
  unfold SlotQ.lostWakeup
  by_cases hr : σ.ready > 0
  · have ha : σ.asleep = false := by
      cases ha : σ.asleep with
      | false => rfl
      | true => have := (hz ha).1; omega
    have : (σ.ready == 0) = false := by simp; omega
    simp [this, ha]
  · by_cases hpk : σ.parked > 0
    · rcases key hpk with ⟨hr', _⟩ | hh
      · exact absurd hr' hr
      · have : (σ.held == 0) = false := by simp; omega
        simp [this]
    · have h1 : decide (σ.parked + σ.ready > 0) = false := by simp; omega
      simp [h1]

/-- **A give-back executed by the loader thread itself loses a wake-up** (kernel-checked schedule, one slot, two loaders): the getter
tested the queue while the slot was held, the foreign `put_nowait` found nobody to wake, the getter then registered: it is parked on a
queue that holds the slot, nothing is held, nothing is ready — nothing will ever happen. -/
theorem foreign_put_loses_wakeup :
    (SlotQ.run (SlotQ.init 1) SlotQ.foreignPutSchedule).map (fun σ => (σ.items, σ.parked, σ.held, σ.ready, SlotQ.lostWakeup σ))
      = some (1, 1, 0, 0, true) := by decide

/-- **… and without any unlucky timing** when the loop sleeps in `select()`: the properly parked getter's future is resolved from the
foreign thread, its continuation is put on the ready list of a loop nobody wakes. -/
theorem foreign_wake_sleeping_loop :
    (SlotQ.run (SlotQ.init 1) SlotQ.foreignWakeSchedule).map (fun σ => (σ.items, σ.parked, σ.held, σ.ready, σ.asleep, SlotQ.lostWakeup σ))
      = some (1, 0, 0, 1, true, true) := by decide

/-- non-vacuity: an on-loop history with two loaders and one slot in which the second loader really parks, is woken by the give-back
and gets the slot -/
example : (SlotQ.arun (SlotQ.init 1) [.request, .runFresh, .request, .runFresh, .idle, .giveBack, .runWoken, .giveBack]).map
    (fun σ => (σ.items, σ.parked, σ.held)) = some (1, 0, 0) := by decide

end Replicat.C09
