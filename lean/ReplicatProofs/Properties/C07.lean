import ReplicatProofs.Lemmas.RepoExact
import ReplicatProofs.Lemmas.RepoConcCount
/-!
# C07 — identical data is stored once

Property theorems only, over the repository state machine `ReplicatModel/Repo.lean`.
Ideal cryptography (DESIGN.md §4): a chunk's content id *is* its digest and the storage name is `mac_family(digest)`, rendered
as the constructor `Name.chunk family content`; `name_injective` states exactly this modelling assumption (a function of
(family, content), injective) — it is a definition-level fact, everything else below is proved from the behaviour of the
commands.  That chunk *boundaries* are a pure function of content and family key is C10 (`chunk_deterministic`, `chunk_no_oob`).

`Exact f s`: the chunk objects of family `f` are precisely the chunks referenced by the family's snapshots.
`RunOk`: crash-free admissible history (each snapshot's name is new at the moment it is written — it is the digest of the
stored bytes).
-/
namespace Replicat.C07
open Replicat.Repo List

/-- the storage name of a chunk is a function of (family, content) and injective in both -/
theorem name_injective (f f' : Fam) (c c' : Content) : Name.chunk f c = Name.chunk f' c' ↔ f = f' ∧ c = c' := by
  constructor
  · intro h; cases h; exact ⟨rfl, rfl⟩
  · rintro ⟨rfl, rfl⟩; rfl

/-- **One object per distinct chunk**: in every reachable (well-formed) state a given chunk (family, content) is the payload of
at most one backend object, and that object lives under the chunk's own name. -/
theorem stored_once (enc : Bool) (s : Store) (ops : List Op) (h : Consistent enc s) (hops : ∀ op ∈ ops, OpOk enc op)
    (f : Fam) (c : Content) :
    ((run enc s ops).filter (fun e => e.2 == Obj.chunk f c)).length ≤ 1 ∧
      ∀ e ∈ run enc s ops, e.2 = Obj.chunk f c → e.1 = Name.chunk f c := by
  have hc : Consistent enc (run enc s ops) := by
    unfold run
    induction ops generalizing s with
    | nil => exact h
    | cons op ops ih =>
      simp only [foldl_cons]
      exact ih _ (step_consistent h (hops op (by simp))) (fun o ho => hops o (mem_cons_of_mem _ ho))
  exact stored_once_wf hc.1 f c

/-- every command of a crash-free history keeps `Exact`, for every family -/
theorem exact_step (enc : Bool) (s : Store) (op : Op) (f : Fam) (h : Consistent enc s) (hop : OpOk enc op)
    (hfresh : FreshOp s op) (hex : Exact f s) : Exact f (step enc s op) := step_exact h hop hfresh f hex

/-- **After every crash-free history of snapshots, deletes and cleans by any users, the chunk objects of every family are
precisely the distinct chunks its snapshots reference** (from any consistent `Exact` state, in particular from `init`). -/
theorem exact_after_history (enc : Bool) (s : Store) (ops : List Op) (h : Consistent enc s) (hrun : RunOk enc s ops)
    (hex : ∀ f, Exact f s) : ∀ f, Exact f (run enc s ops) := fun f => run_exact ops s h hrun f (hex f)

theorem exact_from_init (enc : Bool) (ops : List Op) (hrun : RunOk enc initStore ops) : ∀ f, Exact f (run enc initStore ops) :=
  exact_after_history enc initStore ops (initStore_consistent enc) hrun initStore_exact

/-- **A snapshot whose chunks all exist uploads nothing.** -/
theorem repeat_uploads_nothing (u : User) (stream : List Content) (files : List FileRec) (ts sid : Nat) (s : Store)
    (hpres : ∀ c ∈ stream, (get s (.chunk u.fam c)).isSome) : (snapshot u stream files ts sid s).2 = [] :=
  snapshot_uploads_nil u stream files ts sid s hpres

/-- **Unchanged data transfers no chunk payload**: after a snapshot of `stream` by `u`, and any crash-free history during which
those chunks stay referenced (e.g. the first snapshot is not deleted), a snapshot of the same data by the same user, a clone or a
shared-key user (`u'.fam = u.fam`) uploads nothing — whatever its file list, time stamp or name.  Stated for the state right
after the first snapshot and, via `hpres`, for any later state in which the chunks are still present. -/
theorem repeat_snapshot_uploads_nothing (u u' : User) (stream : List Content) (files files' : List FileRec) (ts sid ts' sid' : Nat)
    (s : Store) (hfam : u'.fam = u.fam) :
    (snapshot u' stream files' ts' sid' (snapshot u stream files ts sid s).1).2 = [] := by
  apply snapshot_uploads_nil
  intro c hc
  rw [hfam, snapshot_get_chunk, fold_get_stream u stream (s, []) hc]
  rfl

/-- **Data already uploaded by a shared-key user is reused**: whatever a user of the same family snapshots afterwards, none of
the chunks that `u`'s snapshot made present is uploaded again. -/
theorem shared_reuse (u u' : User) (stream stream' : List Content) (files files' : List FileRec) (ts sid ts' sid' : Nat)
    (s : Store) (hfam : u'.fam = u.fam) (c : Content) (hc : c ∈ stream) :
    Name.chunk u.fam c ∉ (snapshot u' stream' files' ts' sid' (snapshot u stream files ts sid s).1).2 := by
  intro hm
  obtain ⟨_, hnone⟩ := (snapshot_uploaded_iff u' stream' files' ts' sid' _ _).mp hm
  rw [snapshot_get_chunk, fold_get_stream u stream (s, []) hc] at hnone
  cases hnone

/-- **Each distinct new chunk is uploaded once**: the upload list of a snapshot has no repetition, however often a block
repeats inside the data. -/
theorem uploads_distinct (u : User) (stream : List Content) (files : List FileRec) (ts sid : Nat) (s : Store) :
    (snapshot u stream files ts sid s).2.Nodup :=
  fold_names_nodup u stream (s, []) (by simp) (by simp)

/-- **Users of independent keys never alias each other's objects**: a snapshot by `u'` only creates names of its own family
and leaves every chunk and snapshot object of another family exactly as it was. -/
theorem independent_no_alias (u u' : User) (stream : List Content) (files : List FileRec) (ts sid : Nat) (s : Store)
    (hfam : u'.fam ≠ u.fam) :
    (∀ n ∈ (snapshot u' stream files ts sid s).2, ∃ c, n = Name.chunk u'.fam c) ∧
    (∀ c, get (snapshot u' stream files ts sid s).1 (.chunk u.fam c) = get s (.chunk u.fam c)) ∧
    (∀ sid', get (snapshot u' stream files ts sid s).1 (.snap u.fam sid') = get s (.snap u.fam sid')) := by
  refine ⟨?_, ?_, ?_⟩
  · intro n hn
    obtain ⟨⟨c, _, rfl⟩, _⟩ := (snapshot_uploaded_iff u' stream files ts sid s n).mp hn
    exact ⟨c, rfl⟩
  · intro c
    rw [snapshot_get_chunk, fold_get_other]
    intro c' _ heq
    injection heq with h1 _
    exact hfam h1.symm
  · intro sid'
    exact snapshot_get_snap_other u' stream files ts sid s (by intro heq; injection heq with h1 _; exact hfam h1.symm)

/-! ## racy uploads of overlapping snapshot commands (`ReplicatModel/RepoConc.lean`)

Workers — of one snapshot command or of several overlapping ones — observe a chunk with `exists` and upload it later if it was
absent; two of them may both see one new chunk absent and both upload it.  `uploads tr i c` / `absents tr i c`: how often command
`i` uploaded chunk `c` / how often one of its workers saw it absent, in the trace `tr` of completed backend calls. -/

/-- **Racy uploads are bounded, harmless and leave exactly the referenced chunks.**  In every complete concurrent execution
of any number of snapshot commands by any users, started in a consistent repository:
1. every upload is the upload of one worker that observed the chunk absent — exactly one per such observation;
2. a command uploads one chunk at most once per worker of its pool and at most once per occurrence of the chunk in its data,
   and never uploads a chunk that was stored when the execution began;
3. every new chunk of every command is uploaded at least once (by a command of the family);
4. all uploads of one name carry the same payload (it is a function of (family, content));
5. if the snapshot names are new and pairwise different and the chunk objects were exactly the referenced ones at the start,
   they are exactly the referenced ones at the end, for every family (`Exact`). -/
theorem racy_upload_bounded (enc : Bool) (s : Store) (cmds : List SnapCmd) (tr : List Ev) (st : CState)
    (h : Consistent enc s) (hok : ∀ cmd ∈ cmds, OpOk enc cmd.op)
    (hrun : crun cmds (CState.init s cmds) tr = some st) (hdone : st.complete = true) :
    (∀ (i : Nat) cmd, cmds[i]? = some cmd → ∀ c, uploads tr i c = absents tr i c) ∧
    (∀ (i : Nat) cmd, cmds[i]? = some cmd → ∀ c,
      uploads tr i c ≤ cmd.workers ∧ uploads tr i c ≤ cmd.stream.count c ∧
        ((Repo.get s (.chunk cmd.u.fam c)).isSome → uploads tr i c = 0)) ∧
    (∀ cmd ∈ cmds, ∀ c ∈ cmd.stream, Repo.get s (.chunk cmd.u.fam c) = none →
      ∃ (j : Nat) (cmd' : SnapCmd), cmds[j]? = some cmd' ∧ cmd'.u.fam = cmd.u.fam ∧ 1 ≤ uploads tr j c) ∧
    (∀ i j n o o', Ev.upload i n o ∈ tr → Ev.upload j n o' ∈ tr → o = o') ∧
    (FreshCmds s cmds → (∀ f, Exact f s) → ∀ f, Exact f st.store) := by
  have hcount := countInv_run hrun
  have hpi := progInv_run (progInv_init s cmds) hrun
  have hci := concInv_run hok (concInv_init cmds h) hrun
  -- at the end every command has no outstanding upload
  have hfin : ∀ (i : Nat) cmd, cmds[i]? = some cmd → ∃ p, st.progs[i]? = some p ∧ p.todo = [] ∧ p.pending = [] := by
    intro i cmd hc
    obtain ⟨p, hp⟩ := prog_of_cmd hpi.len hc
    obtain ⟨h1, h2⟩ := hpi.done_empty i p hp (complete_done hdone hp)
    exact ⟨p, hp, h1, h2⟩
  have heq : ∀ (i : Nat) cmd, cmds[i]? = some cmd → ∀ c, uploads tr i c = absents tr i c := by
    intro i cmd hc c
    obtain ⟨p, hp, _, hpe⟩ := hfin i cmd hc
    have := (hcount.worker i cmd p hc hp).k1 c
    rw [hpe] at this
    simpa using this.symm
  refine ⟨heq, ?_, ?_, ?_, ?_⟩
  · intro i cmd hc c
    obtain ⟨p, hp, hte, _⟩ := hfin i cmd hc
    have W := hcount.worker i cmd p hc hp
    rw [heq i cmd hc c]
    refine ⟨W.k4 c, ?_, W.k6 c⟩
    have := W.k5 c
    omega
  · intro cmd hm c hc h0
    obtain ⟨i, hi⟩ := getElem?_of_mem hm
    obtain ⟨p, hp, hte, hpe⟩ := hfin i cmd hi
    apply hcount.src cmd.u.fam c h0
    rcases hci.2 i cmd p hi hp c hc with h1 | h1 | h1
    · rw [hte] at h1; cases h1
    · rw [hpe] at h1; cases h1
    · rw [h1]; simp
  · intro i j n o o' h1 h2
    obtain ⟨f, c, hn, ho⟩ := hcount.payload i n o h1
    obtain ⟨f', c', hn', ho'⟩ := hcount.payload j n o' h2
    rw [hn] at hn'
    cases hn'
    rw [ho, ho']
  · intro hfresh hex f
    have hget := (isFinal_conc h hok hfresh.namesOk hrun hdone).unique (isFinal_run enc cmds s hfresh.namesOk)
    exact exact_of_get_eq hget (exact_after_history enc s (cmds.map SnapCmd.op) h (runOk_of_fresh cmds s hok hfresh) hex f)

/-! ## non-vacuity -/

/-- owner ⟨1,1⟩ snapshots blocks [10,11,10,12] (10 repeats inside the data): three uploads; the shared-key user ⟨2,1⟩ snapshots
[11,12,13]: only 13 is uploaded; the independent user ⟨3,2⟩ uploads all of his own; a repeat by the owner uploads nothing. -/
example :
    let s1 := snapshot ⟨1, 1⟩ [10, 11, 10, 12] [] 1 100 initStore
    let s2 := snapshot ⟨2, 1⟩ [11, 12, 13] [] 2 101 s1.1
    let s3 := snapshot ⟨3, 2⟩ [10, 11] [] 3 102 s2.1
    let s4 := snapshot ⟨1, 1⟩ [10, 11, 10, 12] [] 4 103 s3.1
    s1.2 = [.chunk 1 10, .chunk 1 11, .chunk 1 12] ∧ s2.2 = [.chunk 1 13] ∧ s3.2 = [.chunk 2 10, .chunk 2 11] ∧ s4.2 = [] := by
  decide +kernel

/-- a racy execution: one command with two workers whose data repeats chunk 10, and a second command of the same family with
chunk 10 as well — three workers see 10 absent and all three upload it (the first command twice = its pool size); the trace is
accepted and complete, 10 ends up stored once.  With a pool of ONE worker the second `exists` of the first command is not
possible before its upload (rejected). -/
example :
    let cmds : List SnapCmd := [⟨⟨1, 1⟩, [10, 10, 11], [], 1, 100, 2⟩, ⟨⟨2, 1⟩, [10], [], 2, 101, 1⟩]
    let tr : List Ev := [.exists 0 10 false, .exists 1 10 false, .exists 0 10 false, .upload 0 (.chunk 1 10) (.chunk 1 10),
      .upload 1 (.chunk 1 10) (.chunk 1 10), .upload 0 (.chunk 1 10) (.chunk 1 10), .exists 0 11 false, .commit 1,
      .upload 0 (.chunk 1 11) (.chunk 1 11), .commit 0]
    (crun cmds (CState.init initStore cmds) tr).map (·.complete) = some true ∧
    uploads tr 0 10 = 2 ∧ uploads tr 1 10 = 1 ∧ absents tr 0 10 = 2 ∧
    (crun cmds (CState.init initStore cmds) tr).map (fun st => (st.store.filter (fun e => e.2 == Obj.chunk 1 10)).length) = some 1 ∧
    FreshCmds initStore cmds ∧
    (crun [⟨⟨1, 1⟩, [10, 10, 11], [], 1, 100, 1⟩] (CState.init initStore [⟨⟨1, 1⟩, [10, 10, 11], [], 1, 100, 1⟩])
      [.exists 0 10 false, .exists 0 10 false]).isNone = true := by
  refine ⟨by decide +kernel, by decide +kernel, by decide +kernel, by decide +kernel, by decide +kernel, ?_, by decide +kernel⟩
  refine ⟨by decide +kernel, ?_, by decide +kernel, ?_, trivial⟩
  · intro b hb
    simp only [mem_cons, not_mem_nil, or_false] at hb
    subst hb
    simp [SnapCmd.name]
  · intro b hb
    cases hb

/-- `RunOk` is satisfiable by a history with all three kinds of commands -/
example : RunOk true initStore [.snapshot ⟨1, 1⟩ [10, 11] [⟨1, 1, [10]⟩] 1 100, .snapshot ⟨2, 1⟩ [11] [] 2 101,
    .delete ⟨1, 1⟩ [100], .clean ⟨2, 1⟩] := by
  refine ⟨⟨by simp [UserOk], by simp, by simp⟩, by (show Repo.get _ _ = none); decide +kernel,
    ⟨by simp [UserOk], by simp, by simp⟩, by (show Repo.get _ _ = none); decide +kernel,
    by simp [OpOk, UserOk], trivial, by simp [OpOk, UserOk], trivial, trivial⟩

end Replicat.C07
