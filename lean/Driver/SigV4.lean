import Driver.Util
open Lean Replicat
namespace Driver

/-- requests `sigv4.*` (see DESIGN.md Appendix A) -/
def handleSigV4 (op : String) (j : Json) : Except String Json := do
  match op with
  | _ => throw s!"unknown op {op}"

end Driver
