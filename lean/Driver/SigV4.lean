import Driver.Util
open Lean Replicat
namespace Driver.HSigV4
open Replicat.SigV4

def realCrypto : Crypto where
  hmac := Sha256.hmac
  sha := fun m => Sha256.hexOf (Sha256.sha256 m)
  hexOf := Sha256.hexOf

def jhex (b : Bytes) : Json := Json.str (hex b)

def getPairs (j : Json) (k : String) : Except String (List (Bytes × Bytes)) := do
  let a ← getArr j k
  a.toList.mapM fun x => do
    let p ← x.getArr?
    match p.toList with
    | [n, v] => pure (← unhex (← n.getStr?), ← unhex (← v.getStr?))
    | _ => throw "pair expected"

def jpairs (ps : List (Bytes × Bytes)) : Json := Json.arr (ps.map fun p => Json.arr #[jhex p.1, jhex p.2]).toArray

def getOptBytes (j : Json) (k : String) : Except String (Option Bytes) :=
  match j.getObjVal? k with
  | .ok (Json.str t) => do pure (some (← unhex t))
  | _ => pure none

/-- `query`: explicit pairs, or — when `list` is present — the dict `_list_objects` builds for (`token`, `prefix`) -/
def getQuery (j : Json) : Except String (List (Bytes × Bytes)) := do
  match j.getObjVal? "list" with
  | .ok _ => pure (listQuery (← getOptBytes j "token") (← getBytes j "prefix"))
  | .error _ => getPairs j "query"

/-- `clock`: [year, month, day, hour, minute, second] → (`x-amz-date`, scope date); else explicit `amz_date` / `date` -/
def getDates (j : Json) : Except String (Bytes × Bytes) := do
  match j.getObjVal? "clock" with
  | .ok _ =>
    match (← getNatList j "clock") with
    | [y, mo, d, h, mi, s] =>
      let t : ClockReading := ⟨y, mo, d, h, mi, s⟩
      pure (fmtAmzDate t, fmtDate t)
    | _ => throw "clock: six numbers expected"
  | .error _ => pure (← getBytes j "amz_date", ← getBytes j "date")

def getInputs (j : Json) : Except String Inputs := do
  let (amz, date) ← getDates j
  pure { method := ← getBytes j "method", host := ← getBytes j "host", scheme := ← getBytes j "scheme",
         path := ← getBytes j "path", query := ← getQuery j, payloadDigest := ← getBytes j "payload_digest",
         amzDate := amz, date := date, region := ← getBytes j "region",
         keyId := ← getBytes j "key_id", secret := ← getBytes j "secret" }

def getWire (j : Json) : Except String Wire := do
  pure { method := ← getBytes j "method", path := ← getBytes j "path", query := ← getPairs j "query",
         host := ← getBytes j "host", contentSha := ← getBytes j "content_sha", amzDate := ← getBytes j "amz_date",
         authorization := [] }

/-- the fields of a `sigv4.sign` reply for the signing inputs `i` and the request `w` on the wire (`w = toWire c i`, or a request
the HTTP library derived from it) -/
def signFields (c : Crypto) (i : Inputs) (w : Wire) : List (String × Json) :=
  let cr := clientCanonicalRequest i
  let scope := scopeOf i.date i.region
  [ ("path", jhex (clientPath i.path)), ("query_string", jhex (clientQueryString i.query)),
    ("canonical_request", jhex cr), ("scope", jhex scope),
    ("string_to_sign", jhex (stringToSignOf c i.amzDate scope cr)),
    ("signature", jhex (clientSignature c i)), ("authorization", jhex w.authorization),
    ("wire_method", jhex w.method),
    ("wire_target", jhex w.target), ("wire_host", jhex w.host), ("wire_content_sha", jhex w.contentSha),
    ("wire_amz_date", jhex w.amzDate), ("wire_query", jpairs w.query),
    ("ref_canonical_request", jhex (refCanonicalRequest true w)),
    ("ref_signature", jhex (refSignature c true i.secret i.region w)),
    ("ref_signature_plus_literal", jhex (refSignature c false i.secret i.region w)),
    ("dot_segments", Json.bool (hasDotSegment (clientPath i.path))),
    ("host_normal", Json.bool (hostIsNormal i.scheme i.host)) ]

def parseReply (x : Json) : Except String Reply := do
  match (← getStr x "k") with
  | "answer" => pure .answer
  | "fail" => pure (.fail (if (← getNat x "cls") == 0 then .status else .transport))
  | "odd" => pure .odd
  | "redirect" =>
    pure (.redirect (← getNat x "status") ⟨← getBool x "same_origin", ← getBool x "https_upgrade", ← getBytes x "host",
      ← getBytes x "path", ← getPairs x "query"⟩)
  | k => throw s!"unknown reply kind {k}"

def withClock (base : Inputs) (t : ClockReading) (q : List (Bytes × Bytes)) : Inputs :=
  { base with amzDate := fmtAmzDate t, date := fmtDate t, query := q }

/-- the adapter functions of one call, page after page (one page for everything but a listing): every page is one retried
function (`callRequests`), the script of replies and the numbering of the signings run on.  A listing that is handed a redirect
response as if it were a page (possible only behind a hook that lets redirects pass) finds neither `IsTruncated` nor a token in
it and asks for the same page again; `fuel` bounds that (every such round consumes a reply). -/
def exchangeLoop (c : Crypto) (base : Inputs) (clock : Nat → ClockReading) (queryOf : Nat → List (Bytes × Bytes)) (tries : Nat)
    (listing : Bool) : Nat → Nat → Nat → Nat → List Reply → List (Nat × Nat × Wire) × Bool × Nat
  | 0, _, _, j, _ => ([], false, j)
  | _ + 1, 0, _, j, _ => ([], true, j)
  | fuel + 1, n + 1, page, j, rs =>
    let r := callRequests (fun k => toWire c (withClock base (clock k) (queryOf page))) tries j rs
    let here := r.1.map fun p => (page, p.1, p.2)
    if r.2.1 then
      let again := listing && r.2.2.2.2
      let r' := if again then exchangeLoop c base clock queryOf tries listing fuel (n + 1) page r.2.2.2.1 r.2.2.1
                else exchangeLoop c base clock queryOf tries listing fuel n (page + 1) r.2.2.2.1 r.2.2.1
      (here ++ r'.1, r'.2)
    else (here, false, r.2.2.2.1)

/-- number every request within its signing: 0 = the request `_prepare_request` built, ≥ 1 = emitted by the HTTP library -/
def withHops : Option Nat → Nat → List (Nat × Nat × Wire) → List (Nat × Nat × Nat × Wire)
  | _, _, [] => []
  | prev, h, (page, k, w) :: rest =>
    let hop := if prev == some k then h + 1 else 0
    (page, k, hop, w) :: withHops (some k) hop rest

/-- requests `sigv4.*` (see DESIGN.md Appendix A) -/
def handleSigV4 (op : String) (j : Json) : Except String Json := do
  match op with
  | "sigv4.gen" =>
    pure (Json.mkObj [
      ("path_safe", jhex Gen.s3PathSafeB), ("path_safe_str", Json.str Gen.s3PathSafe),
      ("query_via_quote_plus", Json.bool Gen.s3QueryViaQuotePlus), ("query_via_str", Json.str Gen.s3QueryQuoteVia),
      ("query_safe", jhex Gen.s3QuerySafeB), ("query_safe_str", Json.str Gen.s3QuerySafe),
      ("query_sorted", Json.bool Gen.s3QuerySortedB), ("query_sorted_base", Json.bool Gen.s3QuerySorted),
      ("signed_headers", Json.arr (Gen.s3SignedHeadersB.map jhex).toArray),
      ("signed_headers_str", Json.arr (Gen.s3SignedHeaders.map Json.str).toArray),
      ("signed_header_sources", natArr Gen.s3SignedHeaderSources),
      ("canonical_request_order", natArr Gen.s3CanonicalRequestOrder),
      ("string_to_sign_order", natArr Gen.s3StringToSignOrder),
      ("scope_order", natArr Gen.s3ScopeOrder), ("key_chain", natArr Gen.s3KeyChain),
      ("algorithm", jhex Gen.s3Algorithm), ("terminator", jhex Gen.s3Terminator), ("key_prefix", jhex Gen.s3KeyPrefix),
      ("key_terminator", jhex Gen.s3KeyTerminator), ("service", jhex Gen.s3Service),
      ("list_keys", Json.arr #[jhex Gen.s3ListTypeKey, jhex Gen.s3ListTypeValue, jhex Gen.s3TokenKey, jhex Gen.s3PrefixKey]),
      ("stream_rewind_to", match Gen.s3StreamRewindTo with | some p => jnat p | none => Json.null),
      ("follow_redirects", Json.bool Gen.s3FollowRedirects), ("hook_raises_on_non_2xx", Json.bool Gen.s3HookRaisesOnNon2xx),
      ("max_redirects", jnat Gen.s3MaxRedirects),
      ("host_header_explicit", Json.bool hostHeaderExplicit),
      ("sent_headers", Json.arr (Gen.s3SentHeaders.map fun h => Json.arr #[jhex h.1, jnat h.2]).toArray),
      ("shape_flags", Json.mkObj [
        ("signed_strings_are_sent_strings", Json.bool Gen.s3SignedStringsAreSentStrings),
        ("canonical_headers_shape", Json.bool Gen.s3CanonicalHeadersShape),
        ("key_chain_standard", Json.bool Gen.s3KeyChainStandard),
        ("clock_standard", Json.bool Gen.s3ClockStandard),
        ("stream_digest_shape", Json.bool Gen.s3StreamDigestShape),
        ("upload_shape", Json.bool Gen.s3UploadShape),
        ("list_shape", Json.bool Gen.s3ListShape)])])
  | "sigv4.encode" =>
    let s ← getBytes j "s"
    let safe ← getBytes j "safe"
    pure (Json.mkObj [
      ("aws_path", jhex (awsUriEncode false s)), ("aws_query", jhex (awsUriEncode true s)),
      ("quote", jhex (pyQuote safe s)), ("quote_plus", jhex (pyQuotePlus safe s)),
      ("client_path", jhex (clientPath s)), ("client_query", jhex (queryQuote s)),
      ("decode", jhex (pctDecode false s)), ("decode_plus", jhex (pctDecode true s)),
      ("httpx_path", jhex (httpxPath s))])
  | "sigv4.host" =>
    let scheme ← getBytes j "scheme"
    let host ← getBytes j "host"
    pure (Json.mkObj [("host", jhex (httpxHost scheme host)), ("normal", Json.bool (hostIsNormal scheme host)),
      ("explicit", jhex (wireHost true scheme host)), ("wire", jhex (wireHost hostHeaderExplicit scheme host))])
  | "sigv4.list_query" =>
    let pfx ← getBytes j "prefix"
    let tok ← getOptBytes j "token"
    pure (Json.mkObj [("query", jpairs (listQuery tok pfx))])
  | "sigv4.sign" =>
    let i ← getInputs j
    let c := realCrypto
    let w := toWire c i
    let cr := clientCanonicalRequest i
    let scope := scopeOf i.date i.region
    pure (Json.mkObj [
      ("path", jhex (clientPath i.path)), ("query_string", jhex (clientQueryString i.query)),
      ("canonical_request", jhex cr), ("scope", jhex scope),
      ("string_to_sign", jhex (stringToSignOf c i.amzDate scope cr)),
      ("signature", jhex (clientSignature c i)), ("authorization", jhex (clientAuthorization c i)),
      ("wire_method", jhex w.method),
      ("wire_target", jhex w.target), ("wire_host", jhex w.host), ("wire_content_sha", jhex w.contentSha),
      ("wire_amz_date", jhex w.amzDate), ("wire_query", jpairs w.query),
      ("ref_canonical_request", jhex (refCanonicalRequest true w)),
      ("ref_signature", jhex (refSignature c true i.secret i.region w)),
      ("ref_signature_plus_literal", jhex (refSignature c false i.secret i.region w)),
      ("dot_segments", Json.bool (hasDotSegment (clientPath i.path))),
      ("host_normal", Json.bool (hostIsNormal i.scheme i.host))])
  | "sigv4.exchange" =>
    -- one adapter call against a script of replies: which requests reach the wire (page, signing, hop) and what each looks like
    let base ← getInputs j
    let c := realCrypto
    let clocks ← (← getArr j "clocks").toList.mapM fun x => do
      match (← x.getArr?).toList with
      | [y, mo, d, h, mi, s] => pure (⟨← y.getNat?, ← mo.getNat?, ← d.getNat?, ← h.getNat?, ← mi.getNat?, ← s.getNat?⟩ : ClockReading)
      | _ => throw "clocks: six numbers per reading expected"
    let clock : Nat → ClockReading := fun k => match clocks[k]? with | some t => t | none => ⟨0, 0, 0, 0, 0, 0⟩
    let replies ← (← getArr j "replies").toList.mapM parseReply
    let tries ← match j.getObjVal? "tries" with
      | .ok _ => getNat j "tries"
      | .error _ => match Gen.retryS3MaxTries with | some n => pure n | none => throw "max_tries is None: tries must be given"
    let (pages, listing, queryOf) ← match j.getObjVal? "list" with
      | .ok _ => do
        let pfx ← getBytes j "prefix"
        let toks ← (← getArr j "tokens").toList.mapM fun x => do unhex (← x.getStr?)
        let q : Nat → List (Bytes × Bytes) := fun page => listQuery (match page with | 0 => none | p + 1 => toks[p]?) pfx
        pure (toks.length + 1, true, q)
      | .error _ => do
        let q ← getPairs j "query"
        pure (1, false, (fun _ => q))
    let r := exchangeLoop c base clock queryOf tries listing (replies.length + pages + 1) pages 0 0 replies
    let reqs := (withHops none 0 r.1).map fun (page, k, hop, w) =>
      Json.mkObj ([("page", jnat page), ("signing", jnat k), ("hop", jnat hop), ("clock_given", Json.bool (k < clocks.length))]
        ++ signFields c (withClock base (clock k) (queryOf page)) w)
    pure (Json.mkObj [("requests", Json.arr reqs.toArray), ("ok", Json.bool r.2.1), ("signings", jnat r.2.2),
      ("follow_redirects", Json.bool Gen.s3FollowRedirects), ("hook_raises_on_non_2xx", Json.bool Gen.s3HookRaisesOnNon2xx)])
  | "sigv4.ref" =>
    let w ← getWire j
    let secret ← getBytes j "secret"
    let region ← getBytes j "region"
    let c := realCrypto
    pure (Json.mkObj [
      ("canonical_request", jhex (refCanonicalRequest true w)),
      ("signature", jhex (refSignature c true secret region w)),
      ("signature_plus_literal", jhex (refSignature c false secret region w))])
  | "sigv4.hash" =>
    let m ← getBytes j "msg"
    let k ← getBytes j "key"
    pure (Json.mkObj [("sha256", jhex (Sha256.sha256 m)), ("hmac", jhex (Sha256.hmac k m))])
  | "sigv4.payload" =>
    let data ← getBytes j "data"
    let c : Crypto := { realCrypto with sha := fun m => m }   -- identity "hash": the harness hashes both sides itself
    match (← getStr j "kind") with
    | "bytes" =>
      let p := uploadBytes c data
      pure (Json.mkObj [("digest_of", jhex p.declaredDigest), ("length", jnat p.declaredLength), ("body", jhex p.body)])
    | "stream" =>
      let p := uploadStream c ⟨data, ← getNat j "pos"⟩ (← getNat j "length") (← getNat j "chunk")
      pure (Json.mkObj [("digest_of", jhex p.declaredDigest), ("length", jnat p.declaredLength), ("body", jhex p.body)])
    | k => throw s!"unknown payload kind {k}"
  | "sigv4.retry" =>
    -- `faults`: [[class (0 = error status, 1 = transport error), parts pulled], …] → one entry per PUT attempt
    let data ← getBytes j "data"
    let c : Crypto := { realCrypto with sha := fun m => m }
    let fs ← (← getArr j "faults").toList.mapM fun x => do
      let p ← x.getArr?
      match p.toList with
      | [k, n] =>
        let k ← k.getNat?
        let n ← n.getNat?
        if k == 0 then pure (⟨FaultClass.status, n⟩ : Fault)
        else if k == 1 then pure ⟨FaultClass.transport, n⟩
        else throw "fault class 0 or 1 expected"
      | _ => throw "fault: [class, pulled] expected"
    let as := uploadStreamRetried c ⟨data, ← getNat j "pos"⟩ (← getNat j "length") (← getNat j "chunk") fs
    pure (Json.mkObj [("attempts", Json.arr (as.map fun a => Json.mkObj [("digest_of", jhex a.put.declaredDigest),
      ("length", jnat a.put.declaredLength), ("body", jhex a.put.body), ("sent", jhex a.sent)]).toArray),
      ("rewind_on_status", Json.bool Gen.s3PutRewindOnStatus), ("rewind_on_transport", Json.bool Gen.s3PutRewindOnTransport),
      ("rewind_to", jnat Gen.s3PutRewindTo)])
  | _ => throw s!"unknown op {op}"

end Driver.HSigV4

def Driver.handleSigV4 := Driver.HSigV4.handleSigV4