import Driver.Util
open Lean Replicat
namespace Driver.HRetry
/-- requests `retry.*` (see DESIGN.md Appendix A) -/
def handleRetry (op : String) (j : Json) : Except String Json := do
  match op with
  | _ => throw s!"unknown op {op}"

end Driver.HRetry

def Driver.handleRetry := Driver.HRetry.handleRetry