import Driver.Util
import Driver.RetryCred
open Lean Replicat
namespace Driver.HRetry
open Replicat.Retry

def parseBackend (s : String) : Except String Backend :=
  match s with
  | "local" => pure .local
  | "s3" => pure .s3
  | "b2" => pure .b2
  | _ => throw s!"unknown backend {s}"

/-- `{"kind": …, "errno": k}`: the (local) fault surfaces as an OSError of class `k`; without the field: the default class (EIO) -/
def parseFaultBase (j : Json) : Except String Fault := do
  let k ← getStr j "kind"
  match k with
  | "pre" => pure .pre
  | "mktemp" => pure .mktemp
  | "src" => pure (.src (← getNat j "j"))
  | "mid" => pure (.mid (← getNat j "j"))
  | "sink" => pure (.sink (← getNat j "j"))
  | "trunc" => pure .trunc
  | "cut" => pure (.cut (← getNat j "k"))
  | "status" => pure (.status (← getNat j "code") ((getBool j "ra").toOption.getD false))
  | "lost" => pure .lost
  | "rename" => pure .rename
  | _ => throw s!"unknown fault kind {k}"

def parseFault (j : Json) : Except String Fault := do
  let f ← parseFaultBase j
  match j.getObjVal? "errno" with
  | .ok Json.null => pure f
  | .ok v => do pure (.errno (← v.getNat?) f)
  | .error _ => pure f

def natListField (j : Json) (k : String) (dflt : List Nat) : Except String (List Nat) :=
  match j.getObjVal? k with
  | .error _ => pure dflt
  | .ok v => do
    let a ← v.getArr?
    a.toList.mapM (·.getNat?)

/-- optional field: absent = keep, `null` = none, number = some -/
def optNatField (j : Json) (k : String) (dflt : Option Nat) : Except String (Option Nat) :=
  match j.getObjVal? k with
  | .error _ => pure dflt
  | .ok Json.null => pure none
  | .ok v => do pure (some (← v.getNat?))

def boolField (j : Json) (k : String) (dflt : Bool) : Except String Bool :=
  match j.getObjVal? k with
  | .error _ => pure dflt
  | .ok v => v.getBool?

/-- `"cfg": {…}` overrides single fields of the extracted configuration (used for the what-if runs of the harness) -/
def parseCfg (base : Cfg) (j : Json) : Except String Cfg :=
  match j.getObjVal? "cfg" with
  | .error _ => pure base
  | .ok o => do
    pure { base with
      maxTries := ← optNatField o "maxTries" base.maxTries
      upRewind := ← optNatField o "upRewind" base.upRewind
      downRewind := ← optNatField o "downRewind" base.downRewind
      digestRewind := ← optNatField o "digestRewind" base.digestRewind
      reauthLimit := ← optNatField o "reauthLimit" base.reauthLimit
      giveupOs := ← natListField o "giveupOs" base.giveupOs
      downTruncate := ← boolField o "downTruncate" base.downTruncate
      upUnlink := ← boolField o "upUnlink" base.upUnlink
      upCatchAll := ← boolField o "upCatchAll" base.upCatchAll
      downCatchAll := ← boolField o "downCatchAll" base.downCatchAll }

def errStr : Err → String
  | .os _ => "os"
  | .transport => "transport"
  | .status c _ => s!"status:{c}"
  | .auth => "auth"

/-- errno class of the OSError a call ended with (`null`: the call did not end with an OSError) -/
def outcomeErrno : Outcome → Json
  | .error (.os k) => Json.num k
  | _ => Json.null

def outcomeStr : Outcome → String
  | .ok => "ok"
  | .error e => errStr e
  | .fuel => "fuel"

def optBytes : Option Bytes → Json
  | some b => Json.str (hex b)
  | none => Json.null

def optNat : Option Nat → Json
  | some n => jnat n
  | none => Json.null

def cfgJson (c : Cfg) : Json := Json.mkObj [
  ("maxTries", optNat c.maxTries), ("catches", Json.bool c.catches), ("giveupStatus", optNat c.giveupStatus),
  ("upRewind", optNat c.upRewind), ("upCatchAll", Json.bool c.upCatchAll), ("upUnlink", Json.bool c.upUnlink),
  ("upDecorated", Json.bool c.upDecorated), ("downRewind", optNat c.downRewind), ("downCatchAll", Json.bool c.downCatchAll),
  ("downTruncate", Json.bool c.downTruncate), ("downDecorated", Json.bool c.downDecorated), ("digestRewind", optNat c.digestRewind),
  ("hookAuthStatus", optNat c.hookAuthStatus), ("plainRetryStatus", optNat c.plainRetryStatus),
  ("handlerRaisesAuth", Json.bool c.handlerRaisesAuth), ("handlerSleepsRetryAfter", Json.bool c.handlerSleepsRetryAfter),
  ("upRequiresAuth", Json.bool c.upRequiresAuth), ("downRequiresAuth", Json.bool c.downRequiresAuth),
  ("reauthOnAuthRequired", Json.bool c.reauthOnAuthRequired), ("reauthLimit", optNat c.reauthLimit), ("budget", jnat c.budget),
  ("giveupOs", natArr c.giveupOs), ("osUniverse", natArr Gen.retryOsUniverse), ("giveupOsExact", Json.bool Gen.retryLocalGiveupExact)]

/-- requests `retry.*` (see DESIGN.md Appendix A) -/
def handleRetry (op : String) (j : Json) : Except String Json := do
  if op.startsWith "retry.session" then return ← Driver.handleRetryCred op j      -- sessions on one object: Driver/RetryCred.lean
  match op with
  | "retry.cfg" =>
    let b ← parseBackend (← getStr j "backend")
    pure (cfgJson (cfgOf b))
  | "retry.run" =>
    let b ← parseBackend (← getStr j "backend")
    let cfg ← parseCfg (cfgOf b) j
    let dir ← getStr j "dir"
    let data ← getBytes j "data"
    let c ← getNat j "chunk"
    if c = 0 then throw "chunk size 0 is outside the model"
    let fuel ← getNat j "fuel"
    let plan ← (← getArr j "plan").toList.mapM parseFault
    match dir with
    | "up" =>
      let pos0 := (getNat j "pos0").toOption.getD 0
      let declared := (getNat j "declared").toOption.getD data.length
      let old ← match j.getObjVal? "old" with
        | .ok (Json.str s) => do pure (some (← unhex s))
        | _ => pure none
      let r := runUp b cfg c fuel plan data pos0 declared old
      pure (Json.mkObj [("outcome", Json.str (outcomeStr r.outcome)), ("attempts", jnat r.attempts), ("sleeps", jnat r.sleeps),
        ("reauths", jnat r.reauths), ("received", natArr r.received), ("visible", optBytes r.final.visible),
        ("history", Json.arr (r.history.map optBytes).toArray), ("pos", jnat r.final.src.pos), ("temps", jnat r.final.temps),
        ("oserrno", outcomeErrno r.outcome)])
    | "down" =>
      let sink0 := (getBytes j "sink").toOption.getD []
      let spos0 := (getNat j "spos").toOption.getD 0
      let file := (getBool j "file").toOption.getD false
      let r := runDown b cfg c fuel plan data sink0 spos0 file
      pure (Json.mkObj [("outcome", Json.str (outcomeStr r.outcome)), ("attempts", jnat r.attempts), ("sleeps", jnat r.sleeps),
        ("reauths", jnat r.reauths), ("received", natArr r.received), ("sink", Json.str (hex r.final.buf)),
        ("pos", jnat r.final.pos), ("oserrno", outcomeErrno r.outcome)])
    | _ => throw s!"unknown direction {dir}"
  | _ => throw s!"unknown op {op}"

end Driver.HRetry

def Driver.handleRetry := Driver.HRetry.handleRetry
