import Driver.Util
open Lean Replicat
namespace Driver

/-- requests `retry.*` (see DESIGN.md Appendix A) -/
def handleRetry (op : String) (j : Json) : Except String Json := do
  match op with
  | _ => throw s!"unknown op {op}"

end Driver
