import Driver.Util
open Lean Replicat
namespace Driver

/-- requests `repo.* / trace.* / cache.*` (see DESIGN.md Appendix A) -/
def handleRepo (op : String) (j : Json) : Except String Json := do
  match op with
  | _ => throw s!"unknown op {op}"

end Driver
