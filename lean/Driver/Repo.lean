import Driver.Util
import ReplicatModel.Repo
import ReplicatModel.RepoConc
open Lean Replicat Replicat.Repo
namespace Driver.HRepo
def nameJson : Repo.Name → Json
  | .config => Json.arr #[Json.str "config"]
  | .chunk f c => Json.arr #[Json.str "chunk", jnat f, jnat c]
  | .snap f sid => Json.arr #[Json.str "snap", jnat f, jnat sid]
  | .other n => Json.arr #[Json.str "other", jnat n]

def fileJson (f : FileRec) : Json := Json.arr #[jnat f.path, jnat f.ver, natArr f.needs]

def bodyJson (b : Body) : Json :=
  Json.mkObj [("owner", jnat b.owner), ("ts", jnat b.ts), ("chunks", natArr b.chunks), ("files", Json.arr (b.files.map fileJson).toArray)]

def objJson : Obj → Json
  | .config => Json.arr #[Json.str "config"]
  | .chunk f c => Json.arr #[Json.str "chunk", jnat f, jnat c]
  | .snap f sid b => Json.arr #[Json.str "snap", jnat f, jnat sid, bodyJson b]
  | .blob n => Json.arr #[Json.str "blob", jnat n]

def parseNats (j : Json) : Except String (List Nat) := do (← j.getArr?).toList.mapM (·.getNat?)

def parseName (j : Json) : Except String Repo.Name := do
  let a ← j.getArr?
  match a.toList with
  | [Json.str "config"] => pure .config
  | [Json.str "chunk", f, c] => pure (.chunk (← f.getNat?) (← c.getNat?))
  | [Json.str "snap", f, s] => pure (.snap (← f.getNat?) (← s.getNat?))
  | [Json.str "other", n] => pure (.other (← n.getNat?))
  | _ => throw "bad name"

def parseFile (j : Json) : Except String FileRec := do
  match (← j.getArr?).toList with
  | [p, v, n] => pure ⟨← p.getNat?, ← v.getNat?, ← parseNats n⟩
  | _ => throw "bad file"

def parseBody (j : Json) : Except String Body := do
  pure ⟨← getNat j "owner", ← getNat j "ts", ← getNatList j "chunks", ← (← getArr j "files").toList.mapM parseFile⟩

def parseObj (j : Json) : Except String Obj := do
  let a ← j.getArr?
  match a.toList with
  | [Json.str "config"] => pure .config
  | [Json.str "chunk", f, c] => pure (.chunk (← f.getNat?) (← c.getNat?))
  | [Json.str "snap", f, s, b] => pure (.snap (← f.getNat?) (← s.getNat?) (← parseBody b))
  | [Json.str "blob", n] => pure (.blob (← n.getNat?))
  | _ => throw "bad obj"

def parseStore (j : Json) : Except String Store := do
  (← j.getArr?).toList.mapM fun e => do
    match (← e.getArr?).toList with
    | [n, o] => pure (← parseName n, ← parseObj o)
    | _ => throw "bad store entry"

def storeJson (s : Store) : Json := Json.arr (s.map (fun e => Json.arr #[nameJson e.1, objJson e.2])).toArray

def parseUser (j : Json) : Except String User := do
  match (← j.getArr?).toList with
  | [k, f] => pure ⟨← k.getNat?, ← f.getNat?⟩
  | _ => throw "bad user"

/-- a regex is passed as the list of ids it accepts (the harness evaluates the real regex); null = no filter -/
def parsePred (j : Json) (k : String) : Except String (Nat → Bool) := do
  match j.getObjVal? k with
  | .ok (Json.arr a) => do
    let l ← a.toList.mapM (·.getNat?)
    pure (fun n => l.contains n)
  | _ => pure (fun _ => true)

def errJson : Err → Json
  | .corrupted => Json.str "corrupted"
  | .notAvailable => Json.str "not_available"
  | .differentKey => Json.str "different_key"
  | .missing => Json.str "missing"

def mutJson : Mut → Json
  | .put n o => Json.arr #[Json.str "put", nameJson n, objJson o]
  | .del n => Json.arr #[Json.str "del", nameJson n]

def parseMut (j : Json) : Except String Mut := do
  match (← j.getArr?).toList with
  | [Json.str "put", n, o] => pure (.put (← parseName n) (← parseObj o))
  | [Json.str "del", n] => pure (.del (← parseName n))
  | _ => throw "bad mutation"

def planJson (p : Plan) : Json := Json.arr (p.map (fun st => Json.arr (st.map mutJson).toArray)).toArray

def parseOp (j : Json) : Except String Op := do
  let kind ← getStr j "kind"
  let u ← parseUser (← j.getObjVal? "user")
  match kind with
  | "snapshot" =>
    pure (.snapshot u (← getNatList j "stream") (← (← getArr j "files").toList.mapM parseFile) (← getNat j "ts") (← getNat j "sid"))
  | "delete" => pure (.delete u (← getNatList j "sids"))
  | "clean" => pure (.clean u)
  | _ => throw s!"bad op kind {kind}"

def parseCache (j : Json) : Except String (Option Cache) := do
  match j.getObjVal? "cache" with
  | .ok Json.null => pure none
  | .ok c => (parseStore c).map some
  | .error _ => pure none

def loadedJson (l : Loaded) : Json :=
  Json.mkObj [("fam", jnat l.fam), ("sid", jnat l.sid), ("chunks", natArr l.chunks),
              ("data", match l.data with | some b => bodyJson b | none => Json.null)]

/-! ## `repo.conc`: replay of a per-call event trace of overlapping commands on the concurrent semantics (RepoConc.lean) -/

def parseSnapCmd (j : Json) : Except String SnapCmd := do
  pure ⟨← parseUser (← j.getObjVal? "user"), ← getNatList j "stream", ← (← getArr j "files").toList.mapM parseFile,
        ← getNat j "ts", ← getNat j "sid", ← getNat j "workers"⟩

def parseFilter (j : Json) (k : String) : Except String (Option (List Nat)) := do
  match j.getObjVal? k with
  | .ok (Json.arr a) => do pure (some (← a.toList.mapM (·.getNat?)))
  | _ => pure none

def parseQuery (j : Json) : Except String Query := do
  let kind ← getStr j "kind"
  let u ← parseUser (← j.getObjVal? "user")
  let sre ← parseFilter j "sre"
  let fre ← parseFilter j "fre"
  match kind with
  | "list" => pure (.list u sre)
  | "listfiles" => pure (.listFiles u sre fre)
  | "restore" => pure (.restore u sre fre)
  | _ => throw s!"bad query kind {kind}"

def parseEv (j : Json) : Except String Ev := do
  match (← j.getArr?).toList with
  | [Json.str "exists", i, c, r] => pure (.exists (← i.getNat?) (← c.getNat?) (← r.getBool?))
  | [Json.str "upload", i, n, o] => pure (.upload (← i.getNat?) (← parseName n) (← parseObj o))
  | [Json.str "commit", i] => pure (.commit (← i.getNat?))
  | [Json.str "read", q] => pure (.read (← parseQuery q))
  | _ => throw "bad event"

def optNat : Option Nat → Json
  | some t => jnat t
  | none => Json.null

def replyJson : Reply → Json
  | .rows (.ok rows) => Json.mkObj [("kind", Json.str "list"), ("error", Json.null),
      ("rows", Json.arr (rows.map fun r => Json.arr #[jnat r.sid, optNat r.ts, optNat r.files]).toArray)]
  | .rows (.error e) => Json.mkObj [("kind", Json.str "list"), ("error", errJson e)]
  | .fileRows (.ok rows) => Json.mkObj [("kind", Json.str "listfiles"), ("error", Json.null),
      ("rows", Json.arr (rows.map fun r => natArr [r.1, r.2.1, r.2.2]).toArray)]
  | .fileRows (.error e) => Json.mkObj [("kind", Json.str "listfiles"), ("error", errJson e)]
  | .files (.ok fs) => Json.mkObj [("kind", Json.str "restore"), ("error", Json.null), ("files", Json.arr (fs.map fileJson).toArray)]
  | .files (.error e) => Json.mkObj [("kind", Json.str "restore"), ("error", errJson e)]

def pickCmds (cmds : List SnapCmd) (order : List Nat) : List SnapCmd := order.filterMap (fun i => cmds[i]?)

/-- distinct (command, chunk) pairs that occur in an `exists` or `upload` event, with the model's two counters -/
def countRows (tr : List Ev) : List (Nat × Content) :=
  (tr.filterMap fun e => match e with
    | .exists i c _ => some (i, c)
    | .upload i (.chunk _ c) _ => some (i, c)
    | _ => none).eraseDups

def handleConc (enc : Bool) (j : Json) : Except String Json := do
  let s ← parseStore (← j.getObjVal? "store")
  let cmds ← (← getArr j "cmds").toList.mapM parseSnapCmd
  let tr ← (← getArr j "trace").toList.mapM parseEv
  let orders ← (← getArr j "orders").toList.mapM parseNats
  let st0 := CState.init s cmds
  let seqs := orders.map fun o => storeJson (run enc s ((pickCmds cmds o).map SnapCmd.op))
  -- the sequential schedule, replayed as a concurrent execution (`sequential_is_concurrent`)
  let seqOk : Bool := match crun cmds st0 (seqTraceAll 0 s cmds) with
    | some st => st.complete && (storeJson st.store == storeJson (run enc s (cmds.map SnapCmd.op)))
    | none => false
  match crun cmds st0 tr with
  | none =>
    pure (Json.mkObj [("accepts", Json.bool false),
      ("rejected_at", match firstRejected cmds st0 tr 0 with | some k => jnat k | none => Json.null)])
  | some st =>
    pure (Json.mkObj [("accepts", Json.bool true), ("complete", Json.bool st.complete), ("store", storeJson st.store),
      ("replies", Json.arr ((replies enc cmds st0 tr).map replyJson).toArray),
      ("counts", Json.arr ((countRows tr).map fun (i, c) => natArr [i, c, uploads tr i c, absents tr i c]).toArray),
      ("sequential", Json.arr seqs.toArray), ("sequential_schedule_accepted", Json.bool seqOk)])

/-- requests `repo.*` / `trace.*` / `cache.*` (see DESIGN.md Appendix A) -/
def handleRepo (op : String) (j : Json) : Except String Json := do
  let enc ← (getBool j "enc" <|> pure true)
  match op with
  | "repo.step" =>
    let s ← parseStore (← j.getObjVal? "store")
    let o ← parseOp (← j.getObjVal? "cmd")
    let err : Json := match o with
      | .snapshot .. => Json.null
      | .delete u sids => (match deleteSnapshots enc u sids s with | .ok _ => Json.null | .error e => errJson e)
      | .clean u => (match clean enc u s with | .ok _ => Json.null | .error e => errJson e)
    let puts : Json := match o with
      | .snapshot u st fs ts sid => Json.arr ((snapshot u st fs ts sid s).2.map nameJson).toArray
      | _ => Json.arr #[]
    pure (Json.mkObj [("store", storeJson (step enc s o)), ("error", err), ("uploaded", puts), ("plan", planJson (planOf enc s o))])
  | "repo.restore" =>
    let s ← parseStore (← j.getObjVal? "store")
    let u ← parseUser (← j.getObjVal? "user")
    let sre ← parsePred j "sre"
    let fre ← parsePred j "fre"
    match restore enc u sre fre s with
    | .ok fs => pure (Json.mkObj [("files", Json.arr (fs.map fileJson).toArray), ("error", Json.null)])
    | .error e => pure (Json.mkObj [("error", errJson e)])
  | "repo.list" =>
    let s ← parseStore (← j.getObjVal? "store")
    let u ← parseUser (← j.getObjVal? "user")
    let sre ← parsePred j "sre"
    match listSnapshots enc u sre s with
    | .ok rows => pure (Json.mkObj [("rows", Json.arr (rows.map fun r => Json.arr #[jnat r.sid,
          (match r.ts with | some t => jnat t | none => Json.null), (match r.files with | some t => jnat t | none => Json.null)]).toArray), ("error", Json.null)])
    | .error e => pure (Json.mkObj [("error", errJson e)])
  | "repo.listfiles" =>
    let s ← parseStore (← j.getObjVal? "store")
    let u ← parseUser (← j.getObjVal? "user")
    let sre ← parsePred j "sre"
    let fre ← parsePred j "fre"
    match listFiles enc u sre fre s with
    | .ok rows => pure (Json.mkObj [("rows", Json.arr (rows.map fun r => natArr [r.1, r.2.1, r.2.2]).toArray), ("error", Json.null)])
    | .error e => pure (Json.mkObj [("error", errJson e)])
  | "cache.load" =>
    let s ← parseStore (← j.getObjVal? "store")
    let u ← parseUser (← j.getObjVal? "user")
    let sre ← parsePred j "sre"
    let cache ← parseCache j
    let res : Json := match loadSnapshotsC cache enc u sre s with
      | .ok ls => Json.mkObj [("loaded", Json.arr (ls.map loadedJson).toArray), ("error", Json.null)]
      | .error e => Json.mkObj [("error", errJson e)]
    let after : Json := match cache with
      | some c => storeJson (cacheAfterLoad c enc u sre s)
      | none => Json.null
    pure (res.setObjVal! "cache_after" after)
  | "trace.accepts" =>
    let s ← parseStore (← j.getObjVal? "store")
    let o ← parseOp (← j.getObjVal? "cmd")
    let tr ← (← getArr j "trace").toList.mapM parseMut
    pure (Json.mkObj [("accepts", Json.bool (acceptsPrefix (planOf enc s o) tr)), ("store_after_prefix", storeJson (applyMuts s tr))])
  | "repo.conc" => handleConc enc j
  | _ => throw s!"unknown op {op}"

end Driver.HRepo

def Driver.handleRepo := Driver.HRepo.handleRepo