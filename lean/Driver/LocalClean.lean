import Driver.Util
import ReplicatModel.LocalClean
open Lean Replicat Replicat.Store Replicat.LocalFS Replicat.LocalClean
namespace Driver.HLocalClean

def toPath (s : String) : LocalFS.Path := (splitSlash s.toList).filter (· ≠ [])
def ofPath (p : LocalFS.Path) : String := String.ofList (joinSlash p)

def insertSorted (x : String × String) : List (String × String) → List (String × String)
  | [] => [x]
  | y :: ys => if x.1 < y.1 then x :: y :: ys else y :: insertSorted x ys

def sortPairs (l : List (String × String)) : List (String × String) := l.foldl (fun acc x => insertSorted x acc) []

/-- requests `localclean.*`:
`localclean.run` — `files`: [[relative '/'-path, content tag]], `dirs`: [relative '/'-path] of a repository directory →
the directory after `Local.clean()`: `status` (`ok` | `os_error` | `unmodelled`), `error`, `files`, `dirs` (sorted), `plan`. -/
def handleLocalClean (op : String) (j : Json) : Except String Json := do
  match op with
  | "localclean.run" =>
    let files ← (← getArr j "files").toList.mapM fun e => do
      match (← e.getArr?).toList with
      | [p, d] => pure (toPath (← p.getStr?), (← d.getStr?).toUTF8.toList)
      | _ => throw "bad file entry"
    let dirs ← (← getArr j "dirs").toList.mapM fun e => do pure (toPath (← e.getStr?))
    let fs : FS := ⟨files, dirs⟩
    let out (fs' : FS) (status : String) (err : Json) : Json :=
      Json.mkObj [
        ("status", Json.str status), ("error", err),
        ("files", Json.arr ((sortPairs (fs'.files.map (fun e => (ofPath e.1, String.ofList (e.2.map (fun b => Char.ofNat b.toNat)))))).map
          (fun e => Json.arr #[Json.str e.1, Json.str e.2])).toArray),
        ("dirs", Json.arr ((sortPairs (fs'.dirs.map (fun d => (ofPath d, "")))).map (fun e => Json.str e.1)).toArray),
        ("plan", Json.arr ((plan fs).map (fun d => Json.str (ofPath d))).toArray)]
    match clean fs with
    | .ok fs' => pure (out fs' "ok" Json.null)
    | .osError _ => pure (out fs "os_error" (Json.str "os_error"))
    | .unmodelled => pure (Json.mkObj [("status", Json.str "unmodelled"),
        ("why", Json.str s!"file removers {Gen.localCleanFileRemovers}, directory removers {Gen.localCleanDirRemovers}, flags of non-directories {Gen.localCleanNonDirFlags}")])
  | _ => throw s!"unknown op {op}"

end Driver.HLocalClean

def Driver.handleLocalClean := Driver.HLocalClean.handleLocalClean
