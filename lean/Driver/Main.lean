import Driver.Util
import Driver.Chunk
import Driver.Layout
import Driver.Repo
import Driver.Sym
import Driver.Store
import Driver.Retry
import Driver.SigV4
import Driver.SigV4Reads
import Driver.Settings
import Driver.Options
import Driver.RateLimit
import Driver.Sched
import Driver.Access
import Driver.Format
import Driver.LocalFS
import Driver.SymSession
import Driver.CacheFS
import Driver.LocalConc
import Driver.LocalClean
import Driver.SymMulti
import Driver.LocalDuel
import Driver.RepoListing
import Driver.PathWalk
import Driver.IOStack
import Driver.SlotQ
open Lean

/-- one handler file per model (Driver/<Model>.lean); the request prefix selects it -/
def dispatch (j : Json) : Except String Json := do
  let op ← Driver.getStr j "op"
  if op.startsWith "chunk." then Driver.handleChunk op j
  else if op.startsWith "layout." then Driver.handleLayout op j
  else if op.startsWith "restore." then Driver.handleLayout op j
  else if op.startsWith "repo." then Driver.handleRepo op j
  else if op.startsWith "trace." then Driver.handleRepo op j
  else if op.startsWith "cache." then Driver.handleRepo op j
  else if op.startsWith "sym." then Driver.handleSym op j
  else if op.startsWith "store." then Driver.handleStore op j
  else if op.startsWith "retry." then Driver.handleRetry op j
  else if op.startsWith "sigv4." then Driver.handleSigV4 op j
  else if op.startsWith "sigv4r." then Driver.handleSigV4Reads op j
  else if op.startsWith "settings." then Driver.handleSettings op j
  else if op.startsWith "options." then Driver.handleOptions op j
  else if op.startsWith "rate." then Driver.handleRateLimit op j
  else if op.startsWith "sched." then Driver.handleSched op j
  else if op.startsWith "access." then Driver.handleAccess op j
  else if op.startsWith "format." then Driver.handleFormat op j
  else if op.startsWith "localfs." then Driver.handleLocalFS op j
  else if op.startsWith "symsess." then Driver.handleSymSession op j
  else if op.startsWith "cachefs." then Driver.handleCacheFS op j
  else if op.startsWith "lconc." then Driver.handleLocalConc op j
  else if op.startsWith "localclean." then Driver.handleLocalClean op j
  else if op.startsWith "symmulti." then Driver.handleSymMulti op j
  else if op.startsWith "localduel." then Driver.handleLocalDuel op j
  else if op.startsWith "repolist." then Driver.handleRepoListing op j
  else if op.startsWith "pathwalk." then Driver.handlePathWalk op j
  else if op.startsWith "iostack." then Driver.handleIOStack op j
  else if op.startsWith "slotq." then Driver.handleSlotQ op j
  else throw s!"unknown op {op}"

partial def loop (h : IO.FS.Stream) (out : IO.FS.Stream) : IO Unit := do
  let line ← h.getLine
  if line.isEmpty then return ()
  let reply := match Json.parse line with
    | .ok j => match dispatch j with
      | .ok r => r
      | .error e => Json.mkObj [("error", Json.str e)]
    | .error e => Json.mkObj [("error", Json.str ("parse: " ++ e))]
  out.putStrLn reply.compress
  out.flush
  loop h out

def main : IO Unit := do loop (← IO.getStdin) (← IO.getStdout)
