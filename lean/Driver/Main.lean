import Driver.Util
import Driver.Chunk
open Lean

def dispatch (j : Json) : Except String Json := do
  let op ← Driver.getStr j "op"
  if op.startsWith "chunk." then Driver.handleChunk op j
  else throw s!"unknown op {op}"

partial def loop (h : IO.FS.Stream) (out : IO.FS.Stream) : IO Unit := do
  let line ← h.getLine
  if line.isEmpty then return ()
  let reply := match Json.parse line with
    | .ok j => match dispatch j with
      | .ok r => r
      | .error e => Json.mkObj [("error", Json.str e)]
    | .error e => Json.mkObj [("error", Json.str ("parse: " ++ e))]
  out.putStrLn reply.compress
  out.flush
  loop h out

def main : IO Unit := do loop (← IO.getStdin) (← IO.getStdout)
