import Driver.Sym
import ReplicatModel.SymMulti
open Lean Replicat Replicat.Sym
/-! requests `symmulti.*`: commands that select among SEVERAL snapshots (`ReplicatModel/SymMulti.lean`), in the world of
`sym.restore` (same descriptors for snapshots, locations and objects, plus the object `["empty"]` = the zero-length object).
`symmulti.run` : {encrypted, snaps, store, cmds: [{cmd: "restore" | "list-files" | "list-snapshots", filter: null | snapshot index}]} →
  {sound, cmds: [{outcome: "ok" | "error", error?, load_errors, chunk_errors,
                  files? (restore: [{path, parts}]), rows? (list-files: [[snapshot index, path]]), snaps? (list-snapshots: [index])}]}
`sound` = `Gen.snapLoadNeverSkipsListedOwn`; when it is false the model takes the boundary reading: the EMPTY object is dropped.
`symmulti.flags` : {} → {sound} -/
namespace Driver.HSymMulti
open Driver.HSym

def skipEmpty (t : STerm) : Bool := t == .nil

def objOf (p : Props) (snaps : List SnapDesc) (j : Json) : Except String STerm := do
  match (← j.getArr?).toList with
  | [Json.str "empty"] => pure .nil
  | _ => worldObj p snaps j

def snapIndex (p : Props) (snaps : List SnapDesc) (name : STerm) : Json :=
  match (List.range snaps.length).find? (fun i => match snaps[i]? with
      | some d => snapshotName (snapStoredOf p i d) == name
      | none => false) with
  | some i => jnat i
  | none => Json.null

def errsJson (es : List Sym.Err) : Json := Json.arr (es.map symErrJson).toArray

/-- the errors the selected entries can raise one by one (the loaders run concurrently: any of them may be the one reported) -/
def loadErrors (sound : Bool) (p : Props) (filter : Option STerm) (entries : List (STerm × STerm × STerm)) : List Sym.Err :=
  entries.filterMap fun e =>
    if selectedBy filter e.2.1 then
      match loadSnapshotL sound skipEmpty p e.1 e.2.1 e.2.2 with
      | .error err => some err
      | .ok _ => none
    else none

def cmdReply (sound : Bool) (p : Props) (snaps : List SnapDesc) (store : Store) (cmd : String) (filter : Option STerm) : Except String Json := do
  let entries := snapEntries store
  let loadR := loadSel sound skipEmpty p filter entries
  let lerrs := loadErrors sound p filter entries
  let chunkErrs : List Json := match loadR with
    | .error _ => []
    | .ok bs =>
      let sel := selectFiles (isort newestFirst (readable bs)) []
      (sel.flatMap fun x => (isort refLE x.2.refs).filterMap fun r =>
        match x.1[r.index]? with
        | none => some (Json.str "malformed")
        | some d => match fetchChunk p store d with
          | .error e => some (symErrJson e)
          | .ok _ => none)
  let base := [("load_errors", errsJson lerrs), ("chunk_errors", Json.arr (if cmd == "restore" then chunkErrs.toArray else #[]))]
  match cmd with
  | "restore" =>
    match restoreSel sound skipEmpty p store filter with
    | .ok out => pure (Json.mkObj (base ++ [("outcome", Json.str "ok"),
        ("files", Json.arr (out.map (fun w => Json.mkObj [("path", termJson w.1), ("parts", partsJson w.2)])).toArray)]))
    | .error e => pure (Json.mkObj (base ++ [("outcome", Json.str "error"), ("error", symErrJson e)]))
  | "list-files" =>
    match listFilesSel sound skipEmpty p store filter with
    | .ok rows => pure (Json.mkObj (base ++ [("outcome", Json.str "ok"),
        ("rows", Json.arr (rows.map (fun r => Json.arr #[snapIndex p snaps r.1, termJson r.2])).toArray)]))
    | .error e => pure (Json.mkObj (base ++ [("outcome", Json.str "error"), ("error", symErrJson e)]))
  | "list-snapshots" =>
    match listSnapshotsSel sound skipEmpty p store filter with
    | .ok names => pure (Json.mkObj (base ++ [("outcome", Json.str "ok"), ("snaps", Json.arr (names.map (snapIndex p snaps)).toArray)]))
    | .error e => pure (Json.mkObj (base ++ [("outcome", Json.str "error"), ("error", symErrJson e)]))
  | c => throw s!"unknown command {c}"

def handleSymMulti (op : String) (j : Json) : Except String Json := do
  match op with
  | "symmulti.run" =>
    let p := worldProps (← getBool j "encrypted")
    let sound := Gen.snapLoadNeverSkipsListedOwn
    let snaps ← (← getArr j "snaps").toList.mapM fun x => do
      pure (⟨← getNatList x "table", ← parseData (← x.getObjVal? "data")⟩ : SnapDesc)
    let store ← (← getArr j "store").toList.mapM fun e => do
      match (← e.getArr?).toList with
      | [l, o] => pure ((← worldLoc p snaps l), (← objOf p snaps o))
      | _ => throw "bad store entry"
    let replies ← (← getArr j "cmds").toList.mapM fun c => do
      let filter : Option STerm ← match c.getObjVal? "filter" with
        | .ok (Json.num n) => do
          let i := n.mantissa.toNat
          match snaps[i]? with
          | some d => pure (some (snapshotName (snapStoredOf p i d)))
          | none => throw "unknown filter snapshot"
        | _ => pure none
      cmdReply sound p snaps store (← getStr c "cmd") filter
    pure (Json.mkObj [("sound", Json.bool sound), ("cmds", Json.arr replies.toArray)])
  | "symmulti.flags" => pure (Json.mkObj [("sound", Json.bool Gen.snapLoadNeverSkipsListedOwn)])
  | _ => throw s!"unknown op {op}"

end Driver.HSymMulti

def Driver.handleSymMulti := Driver.HSymMulti.handleSymMulti
