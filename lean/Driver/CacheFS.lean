import Driver.Util
import ReplicatModel.CacheCmd
open Lean Replicat Replicat.Repo Replicat.CacheCmd
/-! requests `cachefs.*` (C18): the plan of `_store_cached` read by the extractor, and the state of one entry's names after a
hard kill of that plan.  File contents cross the tie as classes: "missing" | "valid" (the payload being stored) | "empty" |
"torn" | "other". -/
namespace Driver.HCacheFS

def payload : Obj := .snap 1 1 ⟨1, 1, [], []⟩

def parseCls (s : String) : Except String (Option Obj) :=
  match s with
  | "missing" => pure none
  | "valid" => pure (some payload)
  | "empty" => pure (some (.blob 0))
  | "torn" => pure (some (.blob 1))
  | "other" => pure (some (.blob 1000))
  | _ => throw s!"bad content class {s}"

def clsJson : Option Obj → Json
  | none => Json.str "missing"
  | some (.blob 0) => Json.str "empty"
  | some (.blob n) => Json.str (if n < 1000 then "torn" else "other")
  | some o => Json.str (if o == payload then "valid" else "other")

def slotStr : Slot → String
  | .entry => "entry"
  | .temp => "temp"

def opJson : FsOp → Json
  | .mkdirParents ok => Json.arr #[Json.str "mkdir", Json.bool ok]
  | .create t excl => Json.arr #[Json.str "create", Json.str (slotStr t), Json.str (if excl then "excl" else "trunc")]
  | .write t => Json.arr #[Json.str "write", Json.str (slotStr t)]
  | .rename a b => Json.arr #[Json.str "rename", Json.str (slotStr a), Json.str (slotStr b)]
  | .unlink t mo => Json.arr #[Json.str "unlink", Json.str (slotStr t), Json.bool mo]

def locJson (l : Loc) : Json :=
  Json.mkObj [("entry", clsJson l.entry), ("temp", clsJson l.temp), ("parent", Json.bool l.parent)]

end Driver.HCacheFS

namespace Driver
open Driver.HCacheFS

def handleCacheFS (op : String) (j : Json) : Except String Json := do
  match op with
  | "cachefs.plan" =>
    match storePlan with
    | none => pure (Json.mkObj [("plan", Json.null), ("recognised", Json.bool false)])
    | some p =>
      pure (Json.mkObj [("plan", Json.arr (p.map opJson).toArray), ("recognised", Json.bool true),
                        ("temp_unique", Json.bool Gen.cacheTempUnique), ("safe", Json.bool (planSafe Gen.cacheTempUnique p)),
                        ("effective", Json.bool (planEffective p))])
  | "cachefs.kill" =>
    let some p := storePlan | throw "plan not recognised"
    let l : Loc := ⟨← parseCls (← getStr j "entry"), ← parseCls (← getStr j "temp"), ← getBool j "parent"⟩
    let k ← getNat j "k"
    let tear : Option Nat := match j.getObjVal? "tear" with
      | .ok v => (match v.getNat? with | .ok n => some n | .error _ => none)
      | .error _ => none
    match killed p Gen.cacheTempUnique k tear payload l with
    | .ok l' => pure ((locJson l').setObjVal! "error" Json.null)
    | .error .exists => pure (Json.mkObj [("error", Json.str "exists")])
    | .error .missing => pure (Json.mkObj [("error", Json.str "missing")])
  | _ => throw s!"unknown op {op}"

end Driver
