import Driver.Util
import Driver.LocalFS
import ReplicatModel.LocalUpload
open Lean Replicat Replicat.LocalUpload
namespace Driver.HLocalDuel
open Driver.HLocalFS

def parseStep (j : Json) : Except String Step := do
  match (← j.getArr?).toList with
  | [k, a] =>
    match (← k.getStr?) with
    | "mkdir" => pure (.mkdirP (← a.getStr?))
    | "create" => pure (.createTemp (← a.getStr?))
    | "unlink" => pure (.unlink (← a.getStr?))
    | s => throw s!"bad step {s}"
  | [k, a, b] =>
    match (← k.getStr?) with
    | "write" => pure (.write (← a.getStr?) (← unhex (← b.getStr?)))
    | "rename" => pure (.rename (← a.getStr?) (← b.getStr?))
    | s => throw s!"bad step {s}"
  | _ => throw "bad step"

def parseCfg (j : Json) : Except String UpCfg := do
  let pieces ← (← getArr j "pieces").toList.mapM (fun p => do unhex (← p.getStr?))
  pure ⟨← getStr j "dir", ← getStr j "name", ← getStr j "tmp", pieces⟩

def observe (fs : FS) (name : LocalUpload.Path) (extra : List (String × Json)) : Json :=
  let listing := (LocalUpload.listFiles fs "").foldl (fun acc x => insertSorted (x, "") acc) []
  Json.mkObj ([
    ("files", filesJson fs.files),
    ("listing", Json.arr (listing.map (fun e => Json.str e.1)).toArray),
    ("exists", Json.bool (existsFile fs name)),
    ("download", match download fs name with | some b => Json.str (hex b) | none => Json.null)] ++ extra)

/-- requests `localduel.*`:
`localduel.run`  — the file system after a list of steps (the plain step semantics `LocalUpload.apply`);
`localduel.duel` — the two-worker machine `duelRun` under a schedule (0 / 1 = the worker that moves), with what the code's choice of
temporaries is assumed to be (`private` = `Gen.localTempPrivate`) and whether the two temporaries of the request differ. -/
def handleLocalDuel (op : String) (j : Json) : Except String Json := do
  match op with
  | "localduel.run" =>
    let files ← parseFiles (← j.getObjVal? "files")
    let steps ← (← getArr j "steps").toList.mapM parseStep
    let name ← getStr j "name"
    pure (observe (LocalUpload.run ⟨files, []⟩ steps) name [])
  | "localduel.duel" =>
    let files ← parseFiles (← j.getObjVal? "files")
    let c0 ← parseCfg (← j.getObjVal? "c0")
    let c1 ← parseCfg (← j.getObjVal? "c1")
    let sched := (← getNatList j "sched").map (fun n => n != 0)
    let d := duelRun c0 c1 ⟨files, []⟩ sched
    pure (observe d.fs c0.name [
      ("private", Json.bool Gen.localTempPrivate),
      ("per_call", Json.bool Gen.localTempPerCall),
      ("tmp_distinct", Json.bool (c0.tmp != c1.tmp)),
      ("tmps_are_tmp", Json.bool (isTmp c0.tmp && isTmp c1.tmp)),
      ("code_tmp0", Json.str (codeTemp c0.name c0.tmp)),
      ("code_tmp1", Json.str (codeTemp c1.name c1.tmp))])
  | _ => throw s!"unknown op {op}"

end Driver.HLocalDuel

def Driver.handleLocalDuel := Driver.HLocalDuel.handleLocalDuel
