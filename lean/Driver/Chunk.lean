import Driver.Util
open Lean Replicat
namespace Driver

def chunkParams (j : Json) : Except String (CParams × Hash) := do
  let mn ← getNat j "min"
  let mx ← getNat j "max"
  let key ← getBytes j "key"
  pure (⟨mn, mx⟩, clmulHash key)

def handleChunk (op : String) (j : Json) : Except String Json := do
  match op with
  | "chunk.next_cut" =>
    let (p, h) ← chunkParams j
    let buf ← getBytes j "buf"
    let fin ← getBool j "final"
    match nextCut p h buf fin with
    | some c => pure (Json.mkObj [("cut", jnat c)])
    | none => pure (Json.mkObj [("oob", Json.bool true)])
  | "chunk.all" =>
    let (p, h) ← chunkParams j
    let pieces ← (← getArr j "pieces").toList.mapM (fun x => do unhex (← x.getStr?))
    let s := pieces.flatten
    let g := match greedy p h (s.length + 1) s with
      | some cs => natArr (cs.map List.length)
      | none => Json.null
    match chunkAll p h pieces with
    | some cs => pure (Json.mkObj [("chunks", natArr (cs.map List.length)), ("greedy", g)])
    | none => pure (Json.mkObj [("oob", Json.bool true), ("greedy", g)])
  | "chunk.hash" =>
    let key ← getBytes j "key"
    let w ← getBytes j "w"
    pure (Json.mkObj [("h", Json.str (toString (clmulHash key w)))])
  | _ => throw s!"unknown op {op}"

end Driver
