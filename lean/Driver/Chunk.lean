import Driver.Util
open Lean Replicat
namespace Driver.HChunk
def chunkParams (j : Json) : Except String (CParams × Hash) := do
  let mn ← getNat j "min"
  let mx ← getNat j "max"
  let key ← getBytes j "key"
  pure (⟨mn, mx⟩, clmulHash key)

def handleChunk (op : String) (j : Json) : Except String Json := do
  match op with
  | "chunk.next_cut" =>
    let (p, h) ← chunkParams j
    let buf ← getBytes j "buf"
    let fin ← getBool j "final"
    match nextCut p h buf fin with
    | some c => pure (Json.mkObj [("cut", jnat c)])
    | none => pure (Json.mkObj [("oob", Json.bool true)])
  | "chunk.all" =>
    let (p, h) ← chunkParams j
    let pieces ← (← getArr j "pieces").toList.mapM (fun x => do unhex (← x.getStr?))
    let s := pieces.flatten
    let g := match greedy p h (s.length + 1) s with
      | some cs => natArr (cs.map List.length)
      | none => Json.null
    match chunkAll p h pieces with
    | some cs => pure (Json.mkObj [("chunks", natArr (cs.map List.length)), ("greedy", g)])
    | none => pure (Json.mkObj [("oob", Json.bool true), ("greedy", g)])
  | "chunk.reuse" =>
    -- C10: pieces handed over through reused buffers: `now` / `later` contents per piece (see `Replicat.Handed`)
    let (p, h) ← chunkParams j
    let now ← (← getArr j "now").toList.mapM (fun x => do unhex (← x.getStr?))
    let later ← (← getArr j "later").toList.mapM (fun x => do unhex (← x.getStr?))
    if now.length ≠ later.length then throw "now / later differ in length"
    let hs := (now.zip later).map (fun x => (⟨x.1, x.2⟩ : Handed))
    match chunkAllHanded p h hs with
    | some cs => pure (Json.mkObj [("chunks", natArr (cs.map List.length)), ("data", Json.str (hex cs.flatten)),
        ("copyFirst", Json.bool Gen.adapterCopiesBeforePull)])
    | none => pure (Json.mkObj [("oob", Json.bool true), ("copyFirst", Json.bool Gen.adapterCopiesBeforePull)])
  | "chunk.sync" =>
    -- C11 observable of two streams P₁ ++ X (pieces `a`, |P₁| = pa) and P₂ ++ X (pieces `b`, |P₂| = pb)
    let (p, h) ← chunkParams j
    let a ← (← getArr j "a").toList.mapM (fun x => do unhex (← x.getStr?))
    let b ← (← getArr j "b").toList.mapM (fun x => do unhex (← x.getStr?))
    let pa ← getNat j "pa"
    let pb ← getNat j "pb"
    let o := Sync.syncObs p h a b pa pb
    let optArr : Option (List Nat) → Json := fun x => match x with | some l => natArr l | none => Json.null
    pure (Json.mkObj [("lensA", optArr o.lensA), ("lensB", optArr o.lensB),
      ("common", match o.common with | some c => jnat c | none => Json.null),
      ("afterA", natArr o.afterA), ("afterB", natArr o.afterB), ("greedyX", optArr o.greedyX)])
  | "chunk.pad_stream" =>
    -- model of Repository.snapshot._stream_files: pieces, stream_start of every file
    let files ← (← getArr j "files").toList.mapM (fun x => do unhex (← x.getStr?))
    let pieces := Sync.padPieces files
    pure (Json.mkObj [("pieces", Json.arr (pieces.map (fun x => Json.str (hex x))).toArray),
      ("starts", natArr (Sync.fileStarts 0 files)), ("length", jnat (Sync.padStream files).length)])
  | "chunk.hash" =>
    let key ← getBytes j "key"
    let w ← getBytes j "w"
    pure (Json.mkObj [("h", Json.str (toString (clmulHash key w)))])
  | _ => throw s!"unknown op {op}"

end Driver.HChunk

def Driver.handleChunk := Driver.HChunk.handleChunk