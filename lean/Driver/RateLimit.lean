import Driver.Util
import ReplicatModel.SizeLit
open Lean Replicat Replicat.RateLimit
namespace Driver.HRateLimit
/-! requests `rate.*` (see DESIGN.md Appendix A).  Rationals cross the tie as `[numerator, denominator]`
(normalised, denominator > 0) so that nothing is rounded. -/

def jrat (q : Rat) : Json := Json.arr #[jint q.num, jnat q.den]

def ratOf (v : Json) : Except String Rat := do
  match v with
  | .arr a =>
    if a.size ≠ 2 then throw "rational: expected [num, den]"
    let n ← a[0]!.getInt?
    let d ← a[1]!.getNat?
    if d = 0 then throw "rational: zero denominator"
    pure (mkRat n d)
  | _ => do
    let n ← v.getInt?
    pure (n : Rat)

def getRat (j : Json) (k : String) : Except String Rat := do
  ratOf (← j.getObjVal? k)

def getRatD (j : Json) (k : String) (dflt : Rat) : Except String Rat :=
  match j.getObjVal? k with
  | .ok v => ratOf v
  | .error _ => pure dflt

def evOf (j : Json) : Except String Ev := do
  let s ← getNat j "s"
  match j.getObjVal? "idle" with
  | .ok v => pure (.idle s (← ratOf v))
  | .error _ =>
    let b ← getNat j "b"
    pure (.io s b (← getRatD j "lat" 0) (← getRatD j "ov" 0))

def dirOf (s : String) : Except String Dir :=
  if s = "r" then pure .read else if s = "w" then pure .write else throw s!"bad dir {s}"

def dirStr : Dir → String
  | .read => "r"
  | .write => "w"

def ev2Of (j : Json) : Except String Ev2 := do
  let s ← getNat j "s"
  match j.getObjVal? "idle" with
  | .ok v => pure (.idle s (← ratOf v))
  | .error _ =>
    let b ← getNat j "b"
    let d ← dirOf (← getStr j "dir")
    pure (.io d s b (← getRatD j "lat" 0) (← getRatD j "ov" 0))

def obsFields (o : Obs) : List (String × Json) :=
  [("s", jnat o.stream), ("b", jnat o.bytes), ("lat", jrat o.lat), ("tPre", jrat o.tPre), ("tAcq", jrat o.tAcq),
   ("tRel", jrat o.tRel), ("slept", jrat o.slept), ("debt", jrat o.debt), ("forgiven", jrat o.forgiven)]

def obsJson (o : Obs) : Json := Json.mkObj (obsFields o)
def obs2Json (p : Dir × Obs) : Json := Json.mkObj (("dir", Json.str (dirStr p.1)) :: obsFields p.2)

def evJson : Ev → Json
  | .io s b lat ov => Json.mkObj [("s", jnat s), ("b", jnat b), ("lat", jrat lat), ("ov", jrat ov)]
  | .idle s dt => Json.mkObj [("s", jnat s), ("idle", jrat dt)]

def fopOf (j : Json) : Except String (FOp × Rat × Rat) := do
  let op ← getStr j "op"
  let lat ← getRatD j "lat" 0
  let ov ← getRatD j "ov" 0
  let optNat (k : String) : Except String (Option Nat) :=
    match j.getObjVal? k with
    | .ok Json.null => pure none
    | .ok v => do pure (some (← v.getNat?))
    | .error _ => pure none
  match op with
  | "read" => pure (.read (← optNat "size"), lat, ov)
  | "write" => pure (.write (← getBytes j "data"), lat, ov)
  | "seek" => pure (.seek (← getInt j "off") (← getNat j "whence"), lat, ov)
  | "tell" => pure (.tell, lat, ov)
  | "truncate" => pure (.truncate (← optNat "size"), lat, ov)
  | _ => throw s!"bad file op {op}"

def fresJson : FRes → Json
  | .data b => Json.mkObj [("data", Json.str (hex b))]
  | .num n => Json.mkObj [("num", jnat n)]
  | .err k => Json.mkObj [("err", Json.str k)]

def handleRateLimit (op : String) (j : Json) : Except String Json := do
  match op with
  | "rate.run" =>
    let L ← getRat j "L"
    let t0 ← getRatD j "t0" 0
    let evs ← (← getArr j "events").toList.mapM evOf
    match runChecked L (St.init t0) evs with
    | .error .zeroDivision => pure (Json.mkObj [("raises", Json.str "ZeroDivisionError")])
    | .ok (s, obs) =>
      pure (Json.mkObj [("obs", Json.arr (obs.map obsJson).toArray), ("debt", jrat s.debt), ("lockFree", jrat s.lockFree)])
  | "rate.run2" =>
    let Lr ← getRat j "Lr"
    let Lw ← getRat j "Lw"
    let t0 ← getRatD j "t0" 0
    let evs ← (← getArr j "events").toList.mapM ev2Of
    let bad := evs.any (fun e => match e with
      | .io .read .. => Lr == 0
      | .io .write .. => Lw == 0
      | .idle .. => false)
    if bad then pure (Json.mkObj [("raises", Json.str "ZeroDivisionError")])
    else
      let (s, obs) := run2 Lr Lw (St2.init t0) evs
      pure (Json.mkObj [("obs", Json.arr (obs.map obs2Json).toArray), ("rdebt", jrat s.rd.debt), ("wdebt", jrat s.wr.debt)])
  | "rate.wrap" =>
    let Lr ← getRat j "Lr"
    let Lw ← getRat j "Lw"
    let t0 ← getRatD j "t0" 0
    let i ← getNat j "s"
    let data ← getBytes j "data"
    let pos ← getNat j "pos"
    let ops ← (← getArr j "ops").toList.mapM fopOf
    let (f, res, s, obs) := wrapRun MemFile.apply Lr Lw i ⟨data, pos⟩ (St2.init t0) ops
    pure (Json.mkObj [("results", Json.arr (res.map fresJson).toArray), ("data", Json.str (hex f.data)), ("pos", jnat f.pos),
      ("obs", Json.arr (obs.map obs2Json).toArray), ("rdebt", jrat s.rd.debt), ("wdebt", jrat s.wr.debt)])
  | "rate.burst" =>
    let L ← getRat j "L"
    let eps ← getRatD j "eps" 0
    let dmax ← getNat j "dmax"
    pure (Json.mkObj [("post", jrat (burst L eps dmax)), ("pre", jrat (burstPre L eps dmax)),
      ("general", jrat (L * (Gen.pauseThreshold + eps))), ("threshold", jrat Gen.pauseThreshold), ("limit", jrat Gen.pauseLimit)])
  | "rate.chunk" =>
    let limit ← getNat j "limit"
    let conc ← getNat j "concurrent"
    pure (Json.mkObj [("chunk", jnat (chunkSize limit conc)), ("divisor", jnat Gen.rateDivisor)])
  | "rate.d16" =>
    -- the witness of `multi_stream_counterexample`: N threads, K rounds, d bytes, latency d / L
    let L ← getRat j "L"
    let t0 ← getRatD j "t0" 0
    let N ← getNat j "N"
    let d ← getNat j "d"
    let K ← getNat j "K"
    if L = 0 then throw "L = 0"
    let evs := rounds N d ((d : Rat) / L) K
    let (s, obs) := run L (St.init t0) evs
    let b := t0 + K * ((d : Rat) / L)
    pure (Json.mkObj [("events", Json.arr (evs.map evJson).toArray), ("obs", Json.arr (obs.map obsJson).toArray),
      ("debt", jrat s.debt), ("window", Json.arr #[jrat t0, jrat b]),
      ("bytes_in_window", jrat (winBytes (·.tRel) t0 b obs)), ("allowed", jrat (L * (b - t0) + burst L 0 d))])
  | _ => throw s!"unknown op {op}"

/-! ## requests `rate.parse*` — the size literal of `-L` / `--limit-rate` and the transfer piece sizes (`ReplicatModel/SizeLit.lean`).
Strings cross the tie as lists of code points (a lone surrogate, which Lean's `Char` cannot hold, arrives as NUL — both are
"any other character" for the grammar); integers that may exceed 2^53 as decimal strings. -/
section SizeLit
open Replicat.SizeLit

def jbig (n : Nat) : Json := Json.str (toString n)

def charsOf (j : Json) (k : String) : Except String (List Char) := do
  pure ((← getNatList j k).map Char.ofNat)

def optStr : Option (List Char) → Json
  | none => Json.null
  | some cs => Json.str (String.ofList cs)

def litJson (l : Lit) : Json :=
  Json.mkObj [("ip", natArr l.ip), ("fp", match l.fp with | none => Json.null | some f => natArr f), ("ws", jnat l.ws),
    ("prefix", optStr (l.pre.map (·.1))), ("unit", optStr (l.unit.map (fun u => [u.1])))]

def optField (j : Json) (k : String) : Option Json :=
  match j.getObjVal? k with
  | .ok Json.null => none
  | .ok v => some v
  | .error _ => none

def litOf (j : Json) : Except String Lit := do
  let ip ← getNatList j "ip"
  let fp ← match optField j "fp" with
    | none => pure none
    | some v => do pure (some (← (← v.getArr?).toList.mapM (·.getNat?)))
  let ws ← getNat j "ws"
  let pre ← match optField j "prefix" with
    | none => pure none
    | some v => do
      let key := (← v.getStr?).toList
      match Gen.sizePrefixes.find? (fun p => p.1 == key) with
      | some p => pure (some p)
      | none => throw "prefix: no such key in the table"
  let unit ← match optField j "unit" with
    | none => pure none
    | some v => do
      match (← v.getStr?).toList with
      | [c] => match Gen.sizeUnits.find? (fun u => u.1 == c) with
        | some u => pure (some u)
        | none => throw "unit: no such key in the table"
      | _ => throw "unit: one character expected"
  pure ⟨ip, fp, ws, pre, unit⟩

def litFacts (l : Lit) : List (String × Json) :=
  [("lit", litJson l), ("wf", Json.bool (decide l.WF)), ("coeff", jbig l.coeff), ("scale", jnat l.scale), ("mult", jbig l.mult),
   ("unitCoeff", jnat l.unitCoeff), ("unitScale", jnat l.unitScale), ("bytes", jbig (bytes l)), ("bytesDec", jbig (bytesDec l)),
   ("guard", Json.bool (decide (exactGuard l))),
   ("value", Json.arr #[Json.str (toString (ratValue l).num), Json.str (toString (ratValue l).den)])]

def resultJson : Except Reject Nat → Json
  | .ok n => Json.mkObj [("ok", jbig n)]
  | .error .noMatch => Json.mkObj [("reject", Json.str "noMatch")]
  | .error .notNatural => Json.mkObj [("reject", Json.str "notNatural")]

def handleSizeLit (op : String) (j : Json) : Except String Json := do
  match op with
  | "rate.parse" =>
    let s ← charsOf j "cps"
    let res := ("result", resultJson (rateLimit s))
    let cmd := ("command", match limitOfCommand (some s) with
      | .ok (some n) => Json.mkObj [("limit", jbig n)]
      | .ok none => Json.mkObj [("limit", Json.null)]
      | .error _ => Json.mkObj [("exit", jnat 2)])
    match parse s with
    | none => pure (Json.mkObj [("match", Json.bool false), res, cmd])
    | some l => pure (Json.mkObj (("match", Json.bool true) :: res :: cmd :: litFacts l))
  | "rate.parse.render" =>
    let l ← litOf (← j.getObjVal? "lit")
    let s := render l
    pure (Json.mkObj (("cps", natArr (s.map (·.toNat))) :: ("reparsed", Json.bool (parse s == some l)) ::
      ("result", resultJson (rateLimit s)) :: litFacts l))
  | "rate.parse.absent" =>
    -- the option is not on the command line: no limiter, whatever the configuration file or the environment say
    pure (match limitOfCommand none with
      | .ok none => Json.mkObj [("limit", Json.null)]
      | .ok (some n) => Json.mkObj [("limit", jbig n)]
      | .error _ => Json.mkObj [("exit", jnat 2)])
  | "rate.parse.piece" =>
    let site ← getStr j "site"
    let limit ← getNat j "limit"
    let conc ← getNat j "concurrent"
    pure (match pieceSize site limit conc with
      | .ok p => Json.mkObj [("piece", jnat p), ("chunkSize", jnat (chunkSize limit conc))]
      | .error .zeroDivision => Json.mkObj [("raises", Json.str "ZeroDivisionError")]
      | .error .malformed => Json.mkObj [("malformed", Json.bool true)])
  | "rate.parse.tables" =>
    pure (Json.mkObj [
      ("prefixes", Json.arr (Gen.sizePrefixes.map (fun p => Json.arr #[Json.str (String.ofList p.1), jbig p.2])).toArray),
      ("units", Json.arr (Gen.sizeUnits.map (fun u => Json.arr #[Json.str (String.ofList [u.1]), jnat u.2.1, jnat u.2.2])).toArray),
      ("prec", jnat Gen.decimalPrec), ("zeros", natArr Gen.decimalZeros), ("spaces", natArr Gen.spaceChars),
      ("fromFile", Json.bool Gen.rateLimitFromFile), ("fromEnv", Json.bool Gen.rateLimitFromEnv),
      ("sites", Json.arr (Gen.pieceSites.map (fun s => Json.str s.1)).toArray),
      ("options", Json.arr (Gen.rateLimitOptions.map (fun o => Json.mkObj [
        ("flags", Json.arr (o.1.map Json.str).toArray), ("type", Json.str o.2.1)])).toArray),
      ("regexAsExpected", Json.bool (decide (Gen.sizeRegex = expectedRegex (Gen.sizePrefixes.map (·.1)) (Gen.sizeUnits.map (·.1)))))])
  | _ => throw s!"unknown op {op}"

end SizeLit

end Driver.HRateLimit

def Driver.handleRateLimit (op : String) (j : Lean.Json) : Except String Lean.Json :=
  if op.startsWith "rate.parse" then Driver.HRateLimit.handleSizeLit op j else Driver.HRateLimit.handleRateLimit op j