import Driver.Util
import Driver.LocalFS
import ReplicatModel.LocalConc
open Lean Replicat Replicat.LocalUpload Replicat.LocalConc
namespace Driver.HLocalConc


def parseEv (j : Json) : Except String Ev := do
  match j.getObjVal? "step" with
  | .ok v => pure (.step (← v.getNat?))
  | .error _ => pure (.delete (← getStr j "delete"))

/-- what the other operations can read: the files whose names are not temporaries -/
def view (fs : FS) : List (LocalUpload.Path × Bytes) := fs.files.filter (fun e => !isTmp e.1)

/-- run-length form of a byte string: `[[byte, count], …]` (exact, and short for the filler payloads of the harness) -/
def rleOf (bs : Bytes) : List (Nat × Nat) :=
  (bs.foldl (fun acc b => match acc with
    | (c, n) :: rest => if c = b.toNat then (c, n + 1) :: rest else (b.toNat, 1) :: acc
    | [] => [(b.toNat, 1)]) []).reverse

/-- a byte string of a request: lower-case hex, or its run-length form `[[byte, count], …]` -/
def parseBytes (j : Json) : Except String Bytes := do
  match j.getStr? with
  | .ok h => unhex h
  | .error _ =>
    let runs ← (← j.getArr?).toList.mapM (fun r => do
      match (← r.getArr?).toList with
      | [b, n] => pure (List.replicate (← n.getNat?) (UInt8.ofNat (← b.getNat?)))
      | _ => throw "bad run")
    pure runs.flatten

def rleFilesJson (l : List (LocalUpload.Path × Bytes)) : Json :=
  let sorted := (l.map (fun e => (e.1, ""))).foldl (fun acc x => Driver.HLocalFS.insertSorted x acc) []
  Json.arr (sorted.map (fun e =>
    let d := (lookup l e.1).getD []
    Json.arr #[Json.str e.1, Json.arr ((rleOf d).map (fun r => natArr [r.1, r.2])).toArray])).toArray

def parseCall (j : Json) : Except String Call := do
  let pieces ← (← getArr j "pieces").toList.mapM parseBytes
  pure ⟨← getStr j "dir", ← getStr j "dst", ← getStr j "tmp", pieces⟩

def parseFilesR (j : Json) : Except String (List (LocalUpload.Path × Bytes)) := do
  (← j.getArr?).toList.mapM fun e => do
    match (← e.getArr?).toList with
    | [p, d] => pure (← p.getStr?, ← parseBytes d)
    | _ => throw "bad file entry"

def logJson (log : List MapOp) : Json :=
  Json.arr (log.reverse.map (fun
    | .put n d => Json.arr #[Json.str "put", Json.str n, Json.arr ((rleOf d).map (fun r => natArr [r.1, r.2])).toArray]
    | .del n => Json.arr #[Json.str "del", Json.str n])).toArray

/-- requests `lconc.*`:
`lconc.run` — overlapping uploads of one local backend object under a schedule (`LocalConc.run`): the readable files after every
event (the initial configuration first), how many temporaries exist at each of these moments, the log of linearisation points
(oldest first), whether the hypotheses of `concurrent_uploads_linearizable` hold for the calls, and whether every configuration reads
as the map its log denotes (the theorem's conclusion, evaluated).
`lconc.tempname` — the temporary the source's naming rule gives (`LocalConc.tempName`), whether it is a temporary for the listing, and
whether its base name fits `NAME_MAX`. -/
def handleLocalConc (op : String) (j : Json) : Except String Json := do
  match op with
  | "lconc.run" =>
    let files ← parseFilesR (← j.getObjVal? "files")
    let calls ← (← getArr j "calls").toList.mapM parseCall
    let evs ← (← getArr j "evs").toList.mapM parseEv
    let fs0 : FS := ⟨files, []⟩
    let confs := trace calls (init fs0) evs
    let hyp := calls.all (fun c => isTmp c.tmp && !isTmp c.dst) && evs.all (fun e => match e with | .delete n => !isTmp n | .step _ => true)
    let lin := confs.all (fun cf =>
      let a := view cf.fs
      let b := view (spec fs0 cf.log)
      a.length == b.length && a.all (fun e => lookup b e.1 == some e.2))
    let last := confs.getLast?.getD (init fs0)
    pure (Json.mkObj [
      ("states", Json.arr (confs.map (fun cf => rleFilesJson (view cf.fs))).toArray),
      ("temps", natArr (confs.map (fun cf => (cf.fs.files.filter (fun e => isTmp e.1)).length))),
      ("returned", natArr ((List.range calls.length).filter (fun i => match calls[i]? with | some c => last.pc i == c.plan.length | none => false))),
      ("log", logJson last.log),
      ("private", Json.bool (privateTempsB calls)),
      ("hypotheses", Json.bool hyp),
      ("linearised", Json.bool lin)])
  | "lconc.tempname" =>
    let dirSlash ← getStr j "dir_slash"
    let base ← getStr j "base"
    let rnd ← getStr j "rnd"
    let t := tempName dirSlash base rnd
    pure (Json.mkObj [
      ("tmp", Json.str t),
      ("is_tmp", Json.bool (isTmp t)),
      ("stem_len", jnat Gen.localTempStemLen),
      ("fits", Json.bool ((tempBase base.toList rnd.toList).length ≤ nameMax))])
  | _ => throw s!"unknown op {op}"

end Driver.HLocalConc

def Driver.handleLocalConc := Driver.HLocalConc.handleLocalConc
