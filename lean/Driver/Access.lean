import Driver.Util
open Lean Replicat
namespace Driver.HAccess
/-- requests `access.*` -/
def handleAccess (op : String) (j : Json) : Except String Json := do
  match op with
  | _ => throw s!"unknown op {op}"

end Driver.HAccess

def Driver.handleAccess := Driver.HAccess.handleAccess