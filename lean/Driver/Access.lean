import Driver.Util
import ReplicatModel.Access
open Lean Replicat Replicat.Access
namespace Driver

def parseKind (s : String) : Except String Kind :=
  match s with
  | "independent" => pure .independent
  | "shared" => pure .shared
  | "clone" => pure .clone
  | _ => throw s!"bad kind {s}"

def parseAddKey (j : Json) : Except String AddKey := do
  pure ⟨← getNat j "base", ← parseKind (← getStr j "kind"), ← getNat j "password", ← getNat j "cfg"⟩

def userJson (u : Option Repo.User) : Json :=
  match u with
  | some u => Json.arr #[jnat u.key, jnat u.fam]
  | none => Json.null

/-- requests `access.*`:
`access.graph` — build the key graph of `init(password, cfg)` followed by `steps` (add-key independent / shared / clone issued
by the holder of entry `base`); reply: per entry `[keyId, fam]` as unlocked with its own password, whether the private section
is sealed, and for every `attempts` pair `[entry index, password]` the user the unlock yields or null (DecryptionError). -/
def handleAccess (op : String) (j : Json) : Except String Json := do
  match op with
  | "access.graph" =>
    let pw ← getNat j "password"
    let cfg ← getNat j "cfg"
    let steps ← (← getArr j "steps").toList.mapM parseAddKey
    let g := build symKdf pw cfg steps
    let attempts ← (← getArr j "attempts").toList.mapM fun a => do
      match (← a.getArr?).toList with
      | [i, p] => pure ((← i.getNat?), (← p.getNat?))
      | _ => throw "bad attempt"
    let own := g.entries.map fun e => userJson (userOf symKdf e e.password)
    let sealed := g.entries.map fun e => match e.file.priv with | .enc .. => Json.bool true | .plain _ => Json.bool false
    let res := attempts.map fun (i, p) =>
      match g.entries[i]? with
      | some e => userJson (userOf symKdf e p)
      | none => Json.str "no such entry"
    pure (Json.mkObj [("entries", Json.arr own.toArray), ("sealed", Json.arr sealed.toArray), ("unlock", Json.arr res.toArray),
                      ("salts", natArr (g.entries.map (·.file.salt))), ("cfgs", natArr (g.entries.map (·.file.cfg)))])
  | _ => throw s!"unknown op {op}"

end Driver
