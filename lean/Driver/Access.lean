import Driver.Util
import Driver.Repo
import ReplicatModel.Access
import ReplicatModel.CacheCmd
open Lean Replicat Replicat.Access
namespace Driver.HAccess
open Driver.HRepo
def parseKind (s : String) : Except String Kind :=
  match s with
  | "independent" => pure .independent
  | "shared" => pure .shared
  | "clone" => pure .clone
  | _ => throw s!"bad kind {s}"

def parseAddKey (j : Json) : Except String AddKey := do
  pure ⟨← getNat j "base", ← parseKind (← getStr j "kind"), ← getNat j "password", ← getNat j "cfg"⟩

def userJson (u : Option Repo.User) : Json :=
  match u with
  | some u => Json.arr #[jnat u.key, jnat u.fam]
  | none => Json.null

def optNat (o : Option Nat) : Json := match o with | some t => jnat t | none => Json.null

/-- one query of `access.observe` against a fixed store: what a user's listing / restore / delete decision returns -/
def observeOne (enc : Bool) (s : Repo.Store) (q : Json) : Except String Json := do
  let kind ← getStr q "kind"
  let u ← parseUser (← q.getObjVal? "user")
  let sre ← parsePred q "sre"
  let fre ← parsePred q "fre"
  match kind with
  | "list" =>
    match Repo.listSnapshots enc u sre s with
    | .ok rows => pure (Json.mkObj [("rows", Json.arr (rows.map fun r => Json.arr #[jnat r.sid, optNat r.ts, optNat r.files]).toArray), ("error", Json.null)])
    | .error e => pure (Json.mkObj [("error", errJson e)])
  | "listfiles" =>
    match Repo.listFiles enc u sre fre s with
    | .ok rows => pure (Json.mkObj [("rows", Json.arr (rows.map fun r => natArr [r.1, r.2.1, r.2.2]).toArray), ("error", Json.null)])
    | .error e => pure (Json.mkObj [("error", errJson e)])
  | "restore" =>
    match Repo.restore enc u sre fre s with
    | .ok fs => pure (Json.mkObj [("files", Json.arr (fs.map fileJson).toArray), ("error", Json.null)])
    | .error e => pure (Json.mkObj [("error", errJson e)])
  | "deleteplan" =>
    let sids ← getNatList q "sids"
    match Repo.deletePlan enc u sids s with
    | .ok p => pure (Json.mkObj [("snaps", Json.arr (p.snaps.map nameJson).toArray), ("chunks", Json.arr (p.chunks.map nameJson).toArray), ("error", Json.null)])
    | .error e => pure (Json.mkObj [("error", errJson e)])
  | _ => throw s!"bad query kind {kind}"

/-- requests `access.*`:
`access.observe` — `{enc, store, queries: [{kind: list|listfiles|restore|deleteplan, user, sre?, fre?, sids?}]}`: the model's
`listSnapshots` / `listFiles` / `restore` / `deletePlan` for several users and filters on ONE store (parsed once).
`access.graph` — build the key graph of `init(password, cfg)` followed by `steps` (add-key independent / shared / clone issued
by the holder of entry `base`); reply: per entry `[keyId, fam]` as unlocked with its own password, whether the private section
is sealed, and for every `attempts` pair `[entry index, password]` the user the unlock yields or null (DecryptionError).
`access.client` — `{enc, store, cache, cmd}`: one mutating command issued through a client whose cache directory holds `cache`
(null = no cache directory): `CacheCmd.stepC` / `stepErrC`, and what the directory holds afterwards (`snapshot` does not touch
it, `clean` leaves `cacheAfterLoad`, `delete` leaves `cacheAfterDelete`). -/
def handleAccess (op : String) (j : Json) : Except String Json := do
  match op with
  | "access.observe" =>
    let enc ← (getBool j "enc" <|> pure true)
    let s ← parseStore (← j.getObjVal? "store")
    let qs ← getArr j "queries"
    let res ← qs.toList.mapM (observeOne enc s)
    pure (Json.mkObj [("results", Json.arr res.toArray)])
  | "access.client" =>
    let enc ← (getBool j "enc" <|> pure true)
    let s ← parseStore (← j.getObjVal? "store")
    let cache ← parseCache j
    let o ← parseOp (← j.getObjVal? "cmd")
    let err : Json := match CacheCmd.stepErrC cache enc s o with | some e => errJson e | none => Json.null
    let after : Json := match cache with
      | none => Json.null
      | some c => storeJson (match o with
          | .snapshot .. => c
          | .delete u sids => CacheCmd.cacheAfterDelete c enc u sids s
          | .clean u => Repo.cacheAfterLoad c enc u CacheCmd.all s)
    pure (Json.mkObj [("store", storeJson (CacheCmd.stepC cache enc s o)), ("error", err), ("cache_after", after)])
  | "access.graph" =>
    let pw ← getNat j "password"
    let cfg ← getNat j "cfg"
    let steps ← (← getArr j "steps").toList.mapM parseAddKey
    let g := build symKdf pw cfg steps
    let attempts ← (← getArr j "attempts").toList.mapM fun a => do
      match (← a.getArr?).toList with
      | [i, p] => pure ((← i.getNat?), (← p.getNat?))
      | _ => throw "bad attempt"
    let own := g.entries.map fun e => userJson (userOf symKdf e e.password)
    let sealed := g.entries.map fun e => match e.file.priv with | .enc .. => Json.bool true | .plain _ => Json.bool false
    let res := attempts.map fun (i, p) =>
      match g.entries[i]? with
      | some e => userJson (userOf symKdf e p)
      | none => Json.str "no such entry"
    pure (Json.mkObj [("entries", Json.arr own.toArray), ("sealed", Json.arr sealed.toArray), ("unlock", Json.arr res.toArray),
                      ("salts", natArr (g.entries.map (·.file.salt))), ("cfgs", natArr (g.entries.map (·.file.cfg)))])
  | _ => throw s!"unknown op {op}"

end Driver.HAccess

def Driver.handleAccess := Driver.HAccess.handleAccess