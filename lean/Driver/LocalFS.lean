import Driver.Util
import ReplicatModel.LocalUpload
open Lean Replicat Replicat.LocalUpload
namespace Driver.HLocalFS
def parseFiles (j : Json) : Except String (List (LocalUpload.Path × Bytes)) := do
  (← j.getArr?).toList.mapM fun e => do
    match (← e.getArr?).toList with
    | [p, d] => pure (← p.getStr?, ← unhex (← d.getStr?))
    | _ => throw "bad file entry"

def insertSorted (x : String × String) : List (String × String) → List (String × String)
  | [] => [x]
  | y :: ys => if x.1 < y.1 then x :: y :: ys else y :: insertSorted x ys

def sortFiles (l : List (LocalUpload.Path × Bytes)) : List (String × String) :=
  (l.map (fun e => (e.1, hex e.2))).foldl (fun acc x => insertSorted x acc) []

def filesJson (l : List (LocalUpload.Path × Bytes)) : Json :=
  Json.arr ((sortFiles l).map (fun e => Json.arr #[Json.str e.1, Json.str e.2])).toArray

/-- requests `localfs.*`:
`localfs.upload` — the file system after the first `k` file-system steps of one upload attempt (`k = null`: all of them;
`cleanup = true`: the `except` branch ran after those `k` preparation steps), with what `list_files('')` / `exists(name)` /
`download(name)` then return. -/
def handleLocalFS (op : String) (j : Json) : Except String Json := do
  match op with
  | "localfs.upload" =>
    let files ← parseFiles (← j.getObjVal? "files")
    let dir ← getStr j "dir"
    let name ← getStr j "name"
    let tmp ← getStr j "tmp"
    let pieces ← (← getArr j "pieces").toList.mapM (fun p => do unhex (← p.getStr?))
    let cleanup ← (getBool j "cleanup" <|> pure false)
    let steps := uploadSteps dir name tmp pieces
    let k : Nat := match j.getObjVal? "k" with
      | .ok v => (match v.getNat? with | .ok n => n | .error _ => steps.length)
      | .error _ => steps.length
    let fs0 : FS := ⟨files, []⟩
    let fs := if cleanup then LocalUpload.run fs0 (failedAttempt dir tmp pieces k) else LocalUpload.run fs0 (steps.take k)
    let listing := (LocalUpload.listFiles fs "").foldl (fun acc x => insertSorted (x, "") acc) []
    pure (Json.mkObj [
      ("files", filesJson fs.files),
      ("listing", Json.arr (listing.map (fun e => Json.str e.1)).toArray),
      ("exists", Json.bool (existsFile fs name)),
      ("download", match download fs name with | some b => Json.str (hex b) | none => Json.null),
      ("steps", jnat steps.length),
      ("tmp_is_tmp", Json.bool (isTmp tmp)),
      ("name_is_tmp", Json.bool (isTmp name))])
  | _ => throw s!"unknown op {op}"

end Driver.HLocalFS

def Driver.handleLocalFS := Driver.HLocalFS.handleLocalFS