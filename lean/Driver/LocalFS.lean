import Driver.Util
open Lean Replicat
namespace Driver.HLocalFS
/-- requests `localfs.*` -/
def handleLocalFS (op : String) (j : Json) : Except String Json := do
  match op with
  | _ => throw s!"unknown op {op}"

end Driver.HLocalFS

def Driver.handleLocalFS := Driver.HLocalFS.handleLocalFS