import Driver.Util
import ReplicatModel.PathWalk
open Lean
namespace Driver
open Replicat.PathWalk

/-- tree description: `{"t":"f","size":n}` | `{"t":"d","es":[[name, node], …]}` | `{"t":"l","abs":b,"to":[comp, …]}` | `{"t":"o"}` -/
partial def parseNode (j : Json) : Except String Node := do
  let t ← getStr j "t"
  if t == "f" then return .file (← getNat j "size")
  else if t == "d" then
    let es ← getArr j "es"
    let rec go : List Json → Except String Entries
      | [] => pure .nil
      | e :: rest => do
        let pair ← e.getArr?
        match pair.toList with
        | [nm, nd] => do
          let name ← nm.getStr?
          let n ← parseNode nd
          let r ← go rest
          pure (.cons name n r)
        | _ => throw "entry: [name, node] expected"
    return .dir (← go es.toList)
  else if t == "l" then
    let to ← getArr j "to"
    return .link (← getBool j "abs") (← to.toList.mapM (·.getStr?))
  else return .other

def errName : Err → String
  | .enoent => "enoent" | .enotdir => "enotdir" | .eloop => "eloop" | .loopRT => "loopRT" | .fuel => "fuel"

def recsJson (l : List Rec) : Json :=
  Json.arr (l.map (fun r => Json.arr #[Json.str r.1, jnat r.2])).toArray

/-- `pathwalk.flatten`: `{root, args:[[comp,…],…], arg_fuel, walk_fuel}` → `{ok, files:[[str,size],…] (order of `_flatten_resolve_paths`),
sorted:[…] (order after the snapshot sort)}` or `{ok:false, err}` -/
def handlePathWalk (op : String) (j : Json) : Except String Json := do
  if op == "pathwalk.flatten" then
    let root ← parseNode (← j.getObjVal? "root")
    let args ← (← getArr j "args").toList.mapM (fun a => do (← a.getArr?).toList.mapM (·.getStr?))
    let cfg := genCfg (← getNat j "arg_fuel") (← getNat j "walk_fuel")
    match flattenResolve cfg root args with
    | .error e => return Json.mkObj [("ok", Json.bool false), ("err", Json.str (errName e))]
    | .ok l => return Json.mkObj [("ok", Json.bool true), ("files", recsJson l), ("sorted", recsJson (sortFiles l))]
  else throw s!"unknown op {op}"

end Driver
