import Driver.Util
open Lean Replicat
namespace Driver.HSched
/-- requests `sched.*` (see DESIGN.md Appendix A) -/
def handleSched (op : String) (j : Json) : Except String Json := do
  match op with
  | _ => throw s!"unknown op {op}"

end Driver.HSched

def Driver.handleSched := Driver.HSched.handleSched