import Driver.Util
import ReplicatModel.Sched
open Lean Replicat Replicat.Sched
namespace Driver.HSched
/-! requests `sched.*` (DESIGN.md Appendix A): `sched.flags`, `sched.accepts` for the four systems of ReplicatModel/Sched.lean.
Events are JSON arrays `["name", arg…]`.  Reply: `{"ok":true, …final state…}` or `{"ok":false,"index":i,"why":…}` (first event that
is not enabled). -/

def evName (e : Json) : Except String (String × List Json) := do
  let a ← e.getArr?
  match a.toList with
  | n :: rest => pure (← n.getStr?, rest)
  | [] => throw "empty event"

def argNat (l : List Json) (i : Nat) : Except String Nat :=
  match l[i]? with
  | some v => v.getNat?
  | none => throw s!"missing event argument {i}"

def argBool (l : List Json) (i : Nat) : Except String Bool :=
  match l[i]? with
  | some v => v.getBool?
  | none => throw s!"missing event argument {i}"

def optBool (j : Json) (k : String) (dflt : Bool) : Bool :=
  match j.getObjVal? k with
  | .ok (.bool b) => b
  | _ => dflt

def notOk (i : Nat) (why : String) : Json :=
  Json.mkObj [("ok", Json.bool false), ("index", jnat i), ("why", Json.str why)]

/-! ### slots -/

def parseSlotEv (e : Json) : Except String SlotEv := do
  let (n, a) ← evName e
  match n with
  | "acquire" => pure (.acquire (← argNat a 0))
  | "start" => pure (.start (← argNat a 0))
  | "finish" => pure (.finish (← argNat a 0) (← argBool a 1))
  | "release" => pure (.release (← argNat a 0))
  | _ => throw s!"unknown slot event {n}"

def runSlots (fin : Bool) : Slots → List SlotEv → Nat → Nat → Nat → Except Nat (Slots × Nat × Nat)
  | σ, [], _, mx, mh => .ok (σ, mx, mh)
  | σ, e :: es, i, mx, mh =>
    match Slots.step fin σ e with
    | some σ' => runSlots fin σ' es (i + 1) (Nat.max mx σ'.inflight) (Nat.max mh σ'.held.length)
    | none => .error i

def sortNat (l : List Nat) : List Nat := (l.toArray.qsort (· < ·)).toList

def handleSlots (j : Json) : Except String Json := do
  let n ← getNat j "n"
  let evs ← (← getArr j "events").toList.mapM parseSlotEv
  let fin := optBool j "releaseInFinally" Gen.slotReleaseInFinally
  match runSlots fin (Slots.init n) evs 0 0 0 with
  | .error i => pure (notOk i "slot event not enabled")
  | .ok (σ, mx, mh) =>
    pure (Json.mkObj [("ok", Json.bool true), ("free", natArr (sortNat σ.free)), ("held", natArr (sortNat σ.held)),
      ("leaked", natArr (sortNat σ.leaked)), ("inflight", jnat σ.inflight), ("max_inflight", jnat mx), ("max_held", jnat mh)])

/-! ### snapshot -/

/-- event + the chunk the implementation reported for it (`take`, `finish`), checked against the model's queue / worker -/
def parseSnapEv (e : Json) : Except String (SnapEv × Option Nat) := do
  let (n, a) ← evName e
  match n with
  | "enterPut" => pure (.enterPut, (argNat a 0).toOption)
  | "put" => pure (.put, (argNat a 0).toOption)
  | "prodStop" => pure (.prodStop, none)
  | "prodVisible" => pure (.prodVisible, none)
  | "take" => pure (.take (← argNat a 0), (argNat a 1).toOption)
  | "poll" => pure (.poll (← argNat a 0), none)
  | "exit" => pure (.exit (← argNat a 0), none)
  | "finish" => pure (.finish (← argNat a 0) (← argBool a 1), (argNat a 2).toOption)
  | "raiseAbort" => pure (.raiseAbort, none)
  | "upload" => pure (.upload, none)
  | _ => throw s!"unknown snapshot event {n}"

def chunkMatches (s : Snap) : SnapEv → Option Nat → Bool
  | .enterPut, some k => s.produced == k
  | .put, some k => s.produced == k
  | .take _, some k => s.queue.head? == some k
  | .finish w _, some k => s.workers[w]? == some (.busy k)
  | _, _ => true

def runSnap (rechecks : Bool) : Snap → List (SnapEv × Option Nat) → Nat → Except (Nat × String) Snap
  | s, [], _ => .ok s
  | s, (e, k) :: es, i =>
    if !chunkMatches s e k then .error (i, "chunk differs from the model's (FIFO queue / worker's chunk)") else
    match Snap.step rechecks s e with
    | some s' => runSnap rechecks s' es (i + 1)
    | none => .error (i, "snapshot event not enabled")

def wphaseJson : WPhase → Json
  | .idle => Json.str "idle"
  | .busy k => Json.arr #[Json.str "busy", jnat k]
  | .exited => Json.str "exited"
  | .failed => Json.str "failed"

def handleSnap (j : Json) : Except String Json := do
  let total ← getNat j "total"
  let n ← getNat j "n"
  let evs ← (← getArr j "events").toList.mapM parseSnapEv
  let rechecks := optBool j "rechecks" Gen.producerRechecksWhileFull
  match runSnap rechecks (Snap.init total n) evs 0 with
  | .error (i, why) => pure (notOk i why)
  | .ok s =>
    pure (Json.mkObj [("ok", Json.bool true), ("processed", natArr s.processed.reverse), ("queue", natArr s.queue),
      ("produced", jnat s.produced), ("prodDone", Json.bool s.prodDone), ("abort", Json.bool s.abort),
      ("workers", Json.arr (s.workers.map wphaseJson).toArray), ("uploaded", Json.bool s.uploaded),
      ("finished", Json.bool s.finished), ("lost", natArr s.lost), ("cap", jnat s.cap), ("measure", jnat s.measure),
      ("inPut", Json.bool s.inPut), ("prodFinished", Json.bool s.prodFinished), ("rechecks", Json.bool rechecks),
      ("stuck", Json.bool (Snap.stuck rechecks s))])

/-! ### restore: writer locks -/

def parseLockEv (e : Json) : Except String (LockEv × Option Nat) := do
  let (n, a) ← evName e
  match n with
  | "gAcq" => pure (.gAcq (← argNat a 0), none)
  | "look" => pure (.look (← argNat a 0), none)
  | "commit" => pure (.commit (← argNat a 0), (argNat a 1).toOption)
  | "gRel" => pure (.gRel (← argNat a 0), none)
  | "fAcq" => pure (.fAcq (← argNat a 0), (argNat a 1).toOption)
  | "write" => pure (.write (← argNat a 0), none)
  | "fRel" => pure (.fRel (← argNat a 0), none)
  | "unreg" => pure (.unreg (← argNat a 0), none)
  | "extAcq" => pure (.extAcq (← argNat a 0), none)
  | "extRel" => pure (.extRel (← argNat a 0), none)
  | _ => throw s!"unknown lock event {n}"

def lockEvJob : LockEv → Option Nat
  | .gAcq j | .look j | .commit j | .gRel j | .fAcq j | .write j | .fRel j | .unreg j => some j
  | _ => none

/-- the lock object the implementation used (numbered in creation order) must be the model's -/
def lockMatches (σ' : Locks) : LockEv → Option Nat → Bool
  | .commit j, some l => σ'.lk j == some l
  | .fAcq j, some l => σ'.lk j == some l
  | _, _ => true

def critPerFile (fileOf : Nat → Nat) (σ : Locks) (jobs : Nat) : Nat :=
  let fs := (List.range jobs).filter (fun j => inCrit (σ.pc j))
  (fs.map (fun j => (fs.filter (fun j' => fileOf j' == fileOf j)).length)).foldl Nat.max 0

def runLocks (atZero : Bool) (fileOf : Nat → Nat) (jobs : Nat) : Locks → List (LockEv × Option Nat) → Nat → Nat → Except (Nat × String) (Locks × Nat)
  | σ, [], _, mx => .ok (σ, mx)
  | σ, (e, l) :: es, i, mx =>
    match Locks.step atZero fileOf σ e with
    | some σ' =>
      if !lockMatches σ' e l then .error (i, "lock object differs from the model's") else
      runLocks atZero fileOf jobs σ' es (i + 1) (Nat.max mx (critPerFile fileOf σ' jobs))
    | none => .error (i, "lock event not enabled")

def handleLocks (j : Json) : Except String Json := do
  let files ← getNatList j "files"
  let evs ← (← getArr j "events").toList.mapM parseLockEv
  let atZero := optBool j "delAtZero" Gen.flockDelAtZero
  let fileOf : Nat → Nat := fun k => files.getD k 0
  match runLocks atZero fileOf files.length Locks.init evs 0 0 with
  | .error (i, why) => pure (notOk i why)
  | .ok (σ, mx) =>
    let allFiles := sortNat files.eraseDups
    pure (Json.mkObj [("ok", Json.bool true), ("err", Json.bool σ.err), ("pcs", natArr ((List.range files.length).map σ.pc)),
      ("glock_free", Json.bool σ.glock.isNone), ("max_writers_per_file", jnat mx),
      ("table", Json.arr (allFiles.map (fun f => Json.arr #[jnat f, match σ.flocks f with | some l => jnat l | none => Json.null, jnat (σ.refc f)])).toArray),
      ("locks_created", jnat σ.next)])

/-! ### restore: loaders / finaliser -/

def parseFinEv (e : Json) : Except String FinEv := do
  let (n, a) ← evName e
  match n with
  | "downloaded" => pure (.downloaded (← argNat a 0))
  | "write" => pure (.write (← argNat a 0) (← argNat a 1))
  | "joined" => pure (.joined (← argNat a 0))
  | "remove" => pure (.remove (← argNat a 0) (← argNat a 1))
  | "test" => pure (.test (← argNat a 0) (← argNat a 1))
  | "pop" => pure (.pop (← argNat a 0) (← argNat a 1))
  | "finish" => pure (.finish (← argNat a 0))
  | _ => throw s!"unknown finaliser event {n}"

def lphaseJson : LPhase → Json
  | .dl => Json.str "dl"
  | .writing t => Json.arr #[Json.str "writing", natArr t]
  | .fin t => Json.arr #[Json.str "fin", natArr t]
  | .removed f t => Json.arr #[Json.str "removed", jnat f, natArr t]
  | .popping f t => Json.arr #[Json.str "popping", jnat f, natArr t]
  | .done => Json.str "done"
  | .failed => Json.str "failed"

def handleFin (j : Json) : Except String Json := do
  let ls ← (← getArr j "loaders").toList.mapM fun x => do
    pure (⟨← getNat x "d", ← getNatList x "refs", ← getNatList x "paths"⟩ : Loader)
  let evs ← (← getArr j "events").toList.mapM parseFinEv
  let under := optBool j "underLock" (Gen.finaliseDecidedUnderLock && Gen.decisionInsideRemoveBlock)
  let wf : Bool := decide (LoadersWF ls)
  match accepts (Fin.step under ls) (Fin.init ls) evs 0 with
  | .error i => pure (notOk i "finaliser event not enabled")
  | .ok σ =>
    let files := sortNat (ls.flatMap (·.paths)).eraseDups
    pure (Json.mkObj [("ok", Json.bool true), ("wf", Json.bool wf), ("underLock", Json.bool under),
      ("phases", Json.arr (ls.map (fun l => Json.arr #[jnat l.d, lphaseJson (σ.phase l.d)])).toArray),
      ("files", Json.arr (files.map (fun f => Json.arr #[jnat f, jnat (σ.finCount f), Json.bool (σ.hasMeta f), natArr (sortNat (σ.pending f))])).toArray)])

/-! ### loop life -/

def parseLifeEv (e : Json) : Except String LifeEv := do
  let (n, a) ← evName e
  match n with
  | "begin" => pure .begin
  | "grant" => pure .grant
  | "finish" => pure (.finish (← argBool a 0))
  | "dropQueued" => pure .dropQueued
  | "ret" => pure .ret
  | "cancelWaiter" => pure .cancelWaiter
  | "close" => pure .close
  | _ => throw s!"unknown life event {n}"

def handleLife (j : Json) : Except String Json := do
  let n ← getNat j "n"
  let jobs ← getNat j "jobs"
  let evs ← (← getArr j "events").toList.mapM parseLifeEv
  let joins := optBool j "joins" Gen.restoreJoinsLoadersOnFailure
  match accepts (Life.step joins) (Life.init n jobs) evs 0 with
  | .error i => pure (Json.mkObj [("ok", Json.bool false), ("index", jnat i), ("why", Json.str "life event not enabled"), ("joins", Json.bool joins)])
  | .ok σ =>
    pure (Json.mkObj [("ok", Json.bool true), ("joins", Json.bool joins), ("free", jnat σ.free), ("held", jnat σ.held), ("waiting", jnat σ.waiting),
      ("queued", jnat σ.queued), ("failed", Json.bool σ.failed), ("returned", Json.bool σ.returned), ("closed", Json.bool σ.closed),
      ("lost", jnat σ.lost), ("stuck", Json.bool (σ.closed && decide (0 < σ.waiting)))])

/-! ### slot requests under transfer latency (virtual time) -/

def parseLatEv (e : Json) : Except String LatEv := do
  let (n, a) ← evName e
  match n with
  | "request" => pure .request
  | "grant" => pure .grant
  | "finish" => pure .finish
  | "delay" => pure (.delay (← argNat a 0))
  | "expire" => pure .expire
  | _ => throw s!"unknown latency event {n}"

def handleLat (j : Json) : Except String Json := do
  let n ← getNat j "n"
  let jobs ← getNat j "jobs"
  let evs ← (← getArr j "events").toList.mapM parseLatEv
  let tmo : Option Nat := match j.getObjVal? "timeoutMs" with
    | .ok v => (match v.getNat? with | .ok t => some t | _ => none)
    | _ => Lat.tmo
  let tmoJ : Json := match tmo with | some t => jnat t | none => Json.null
  match accepts (Lat.step tmo) (Lat.init n jobs) evs 0 with
  | .error i => pure (Json.mkObj [("ok", Json.bool false), ("index", jnat i), ("why", Json.str "latency event not enabled"), ("timeoutMs", tmoJ)])
  | .ok σ =>
    pure (Json.mkObj [("ok", Json.bool true), ("timeoutMs", tmoJ), ("free", jnat σ.free), ("held", jnat σ.held),
      ("waiting", jnat σ.waiting.length), ("queued", jnat σ.queued), ("done", jnat σ.done), ("timedOut", jnat σ.timedOut),
      ("now", jnat σ.now), ("quiet", Json.bool σ.quiet)])

def handleSched (op : String) (j : Json) : Except String Json := do
  match op with
  | "sched.flags" =>
    pure (Json.mkObj [("slotBase", jnat Gen.slotBase), ("slotCountIsConcurrent", Json.bool Gen.slotCountIsConcurrent),
      ("slotReleaseInFinally", Json.bool Gen.slotReleaseInFinally), ("transfersUnderSlot", Json.bool Gen.transfersUnderSlot),
      ("workerContinues", Json.arr #[Json.bool (Gen.workerContinues false false), Json.bool (Gen.workerContinues false true),
        Json.bool (Gen.workerContinues true false), Json.bool (Gen.workerContinues true true)]),
      ("abortOnWorkerFailure", Json.bool Gen.abortOnWorkerFailure), ("producerStopsOnAbort", Json.bool Gen.producerStopsOnAbort),
      ("producerRechecksWhileFull", Json.bool Gen.producerRechecksWhileFull),
      ("flockShapeRecognised", Json.bool Gen.flockShapeRecognised), ("flockDelAtZero", Json.bool Gen.flockDelAtZero),
      ("loaderJoinsWritersFirst", Json.bool Gen.loaderJoinsWritersFirst), ("removeUnderGlock", Json.bool Gen.removeUnderGlock),
      ("popUnderGlock", Json.bool Gen.popUnderGlock), ("finaliseDecidedUnderLock", Json.bool Gen.finaliseDecidedUnderLock),
      ("decisionInsideRemoveBlock", Json.bool Gen.decisionInsideRemoveBlock),
      ("restoreJoinsLoadersOnFailure", Json.bool Gen.restoreJoinsLoadersOnFailure),
      ("queueFactor", jnat Gen.queueFactor), ("loaderFactor", jnat Gen.loaderFactor),
      ("slotWaitBounded", Json.bool Gen.slotWaitBounded), ("slotWaitTimeoutMs", jnat Gen.slotWaitTimeoutMs),
      ("unmodelledTimedWaits", Json.arr (Gen.unmodelledTimedWaits.map Json.str).toArray)])
  | "sched.accepts" =>
    match ← getStr j "system" with
    | "slots" => handleSlots j
    | "snapshot" => handleSnap j
    | "locks" => handleLocks j
    | "fin" => handleFin j
    | "life" => handleLife j
    | "lat" => handleLat j
    | s => throw s!"unknown system {s}"
  | _ => throw s!"unknown op {op}"

end Driver.HSched

def Driver.handleSched := Driver.HSched.handleSched