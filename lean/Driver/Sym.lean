import Driver.Util
open Lean Replicat
namespace Driver.HSym
/-- requests `sym.*` (see DESIGN.md Appendix A) -/
def handleSym (op : String) (j : Json) : Except String Json := do
  match op with
  | _ => throw s!"unknown op {op}"

end Driver.HSym

def Driver.handleSym := Driver.HSym.handleSym