import Driver.Util
import ReplicatModel.Sym
import ReplicatModel.SymBackend
open Lean Replicat Replicat.Sym
namespace Driver.HSym
abbrev STerm := Replicat.Sym.Term

/-! JSON form of terms: `null` = nil, `{"pub":n}`, `{"sec":n}`, `{"nonce":n}`, `{"key":n}`, `{"pair":[a,b]}`, `{"hash":t}`,
`{"mac":[k,t]}`, `{"kdf":[k,s,c]}`, `{"enc":[k,n,t]}`; input sugar `{"list":[t…]}` = nil-terminated pair chain. -/
partial def termOfJson (j : Json) : Except String STerm := do
  match j with
  | Json.null => pure .nil
  | _ =>
    match j.getObjVal? "pub" with
    | .ok v => pure (.pub (← v.getNat?))
    | _ =>
    match j.getObjVal? "sec" with
    | .ok v => pure (.sec (← v.getNat?))
    | _ =>
    match j.getObjVal? "nonce" with
    | .ok v => pure (.nonce (← v.getNat?))
    | _ =>
    match j.getObjVal? "key" with
    | .ok v => pure (.key (← v.getNat?))
    | _ =>
    match j.getObjVal? "hash" with
    | .ok v => pure (.hash (← termOfJson v))
    | _ =>
    match j.getObjVal? "list" with
    | .ok v => do
      let ts ← (← v.getArr?).toList.mapM termOfJson
      pure (encList id ts)
    | _ =>
    match j.getObjVal? "pair" with
    | .ok v =>
      match (← v.getArr?).toList with
      | [a, b] => pure (.pair (← termOfJson a) (← termOfJson b))
      | _ => throw "pair needs 2 arguments"
    | _ =>
    match j.getObjVal? "mac" with
    | .ok v =>
      match (← v.getArr?).toList with
      | [a, b] => pure (.mac (← termOfJson a) (← termOfJson b))
      | _ => throw "mac needs 2 arguments"
    | _ =>
    match j.getObjVal? "kdf" with
    | .ok v =>
      match (← v.getArr?).toList with
      | [a, b, c] => pure (.kdf (← termOfJson a) (← termOfJson b) (← termOfJson c))
      | _ => throw "kdf needs 3 arguments"
    | _ =>
    match j.getObjVal? "enc" with
    | .ok v =>
      match (← v.getArr?).toList with
      | [a, b, c] => pure (.enc (← termOfJson a) (← termOfJson b) (← termOfJson c))
      | _ => throw "enc needs 3 arguments"
    | _ => throw "bad term"

def termJson : STerm → Json
  | .pub n => Json.mkObj [("pub", jnat n)]
  | .sec n => Json.mkObj [("sec", jnat n)]
  | .nonce n => Json.mkObj [("nonce", jnat n)]
  | .key n => Json.mkObj [("key", jnat n)]
  | .nil => Json.null
  | .pair a b => Json.mkObj [("pair", Json.arr #[termJson a, termJson b])]
  | .hash t => Json.mkObj [("hash", termJson t)]
  | .mac k t => Json.mkObj [("mac", Json.arr #[termJson k, termJson t])]
  | .kdf k s c => Json.mkObj [("kdf", Json.arr #[termJson k, termJson s, termJson c])]
  | .enc k n t => Json.mkObj [("enc", Json.arr #[termJson k, termJson n, termJson t])]

def getTerm (j : Json) (k : String) : Except String STerm := do termOfJson (← j.getObjVal? k)

def getTerms (j : Json) (k : String) : Except String (List STerm) := do
  (← getArr j k).toList.mapM termOfJson

def parseRef (j : Json) : Except String Sym.Ref := do
  match (← (← j.getArr?).toList.mapM (·.getNat?)) with
  | [i, c, l, h] => pure ⟨i, c, l, h⟩
  | _ => throw "ref must be [index, counter, lo, hi]"

def parseSymFile (j : Json) : Except String Sym.FileRec := do
  pure ⟨← getTerm j "path", ← (← getArr j "refs").toList.mapM parseRef, ← getTerm j "digest", ← getTerm j "md"⟩

def parseData (j : Json) : Except String Sym.Data := do
  pure ⟨← getNat j "ts", ← (← getArr j "files").toList.mapM parseSymFile, ← getTerm j "note"⟩

def symErrJson : Sym.Err → Json
  | .decryption => Json.str "decryption"
  | .corrupted => Json.str "corrupted"
  | .missing => Json.str "missing"
  | .malformed => Json.str "malformed"

def pairsJson (l : List (STerm × STerm)) : Json := Json.arr (l.map (fun e => Json.arr #[termJson e.1, termJson e.2])).toArray

def parseSymOp (j : Json) : Except String Sym.Op := do
  match (← getStr j "kind") with
  | "add_key" => pure (.addKey (← getNat j "base") (← getBool j "shared") (← getTerm j "kdfcfg") (← getTerm j "shcfg") (← getTerm j "pw"))
  | "snapshot" => pure (.snapshot (← getNat j "user") (← getTerms j "chunks") (← parseData (← j.getObjVal? "data")))
  | "remove" => pure (.remove (← getTerms j "locs"))
  | k => throw s!"unknown op kind {k}"

/-- fixed symbolic keys of the `sym.restore` world -/
def worldProps (encrypted : Bool) : Props :=
  if encrypted then ⟨true, userKeyOf (.key 4) (.nonce 5), ⟨.pub 9, .key 0, .key 1, .key 2, .key 3⟩⟩
  else ⟨false, userKeyOf .nil .nil, noShared⟩

structure SnapDesc where
  table : List Nat
  data : Sym.Data

def snapStoredOf (p : Props) (s : Nat) (d : SnapDesc) : STerm :=
  snapshotStored p (.nonce (10000 + 2 * s)) (.nonce (10001 + 2 * s)) (encTable (d.table.map (fun i => digest (.sec i)))) (encData d.data)

def worldObj (p : Props) (snaps : List SnapDesc) (j : Json) : Except String STerm := do
  match (← j.getArr?).toList with
  | [Json.str "chunk", i] => do let i ← i.getNat?; pure (chunkObject p (.nonce (100 + i)) (.sec i))
  | [Json.str "snap", s] => do
    let s ← s.getNat?
    match snaps[s]? with
    | some d => pure (snapStoredOf p s d)
    | none => throw "unknown snapshot"
  | [Json.str "garbage", g] => do pure (.pub (1000000 + (← g.getNat?)))
  | [Json.str "config"] => pure (.pub 10)
  | _ => throw "bad object descriptor"

def worldLoc (p : Props) (snaps : List SnapDesc) (j : Json) : Except String STerm := do
  match (← j.getArr?).toList with
  | [Json.str "chunk", i] => do pure (chunkLoc p (digest (.sec (← i.getNat?))))
  | [Json.str "snap", s] => do
    let s ← s.getNat?
    match snaps[s]? with
    | some d => pure (snapLoc p (snapshotName (snapStoredOf p s d)))
    | none => throw "unknown snapshot"
  | [Json.str "snapalias", s, g] => do
    -- the name of snapshot `s` filed under a tag the adversary made up
    let s ← s.getNat?
    match snaps[s]? with
    | some d => pure (.pair prefixSnap (.pair (.pub (2000000 + (← g.getNat?))) (snapshotName (snapStoredOf p s d))))
    | none => throw "unknown snapshot"
  | [Json.str "other", g] => do pure (.pair (.pub 7) (.pub (← g.getNat?)))
  | [Json.str "config"] => pure configLoc
  | _ => throw "bad location descriptor"

def partsJson (ps : List Part) : Json := Json.arr (ps.map (fun x => Json.arr #[termJson x.1, jnat x.2.1, jnat x.2.2])).toArray

/-- requests `sym.*` (see DESIGN.md Appendix A) -/
def handleSym (op : String) (j : Json) : Except String Json := do
  match op with
  | "sym.public" =>
    let ts ← getTerms j "terms"
    pure (Json.mkObj [("public", Json.arr (ts.map (fun t => Json.bool (Public t))).toArray),
                      ("keyed", Json.arr (ts.map (fun t => Json.bool (nameKeyed t))).toArray)])
  | "sym.run" =>
    let i ← j.getObjVal? "init"
    let a : InitArgs := ⟨← getBool i "encrypted", ← getTerm i "cfg", ← getTerm i "kdfcfg", ← getTerm i "shcfg", ← getTerm i "pw"⟩
    -- `remove_at` = removal of the objects uploaded by the i-th uploads (index into the uploads so far, key files not counted):
    -- the harness cannot name the model's fresh values, so it names locations by the upload that created them
    let s ← (← getArr j "ops").toList.foldlM (init := initSt a) fun s oj => do
      match (← getStr oj "kind") with
      | "remove_at" =>
        let idx ← getNatList oj "idx"
        let ups := s.log.filter (fun e => match e.1 with | .pair pre _ => pre != prefixKey | _ => true)
        pure (step s (.remove (idx.filterMap (fun i => ups[i]?.map (·.1)))))
      | "snapshot_ev" =>
        -- a snapshot against an arbitrary backend (ReplicatModel/SymBackend.lean).  `evs`: {"chunk": t, "ans": bool|null} |
        -- {"vanish_at": [upload indices]} (resolved against the uploads emitted SO FAR, this snapshot's included)
        let view := match oj.getObjVal? "view" with | .ok (Json.bool v) => v | _ => s.encrypted
        let user ← getNat oj "user"
        let p := ((s.users[user]?).getD default).props view
        let (_, evs) ← (← getArr oj "evs").toList.foldlM (init := (({ s with encrypted := view } : St), ([] : List Ev))) fun acc ej => do
          let ev : Ev ← match ej.getObjVal? "vanish_at" with
            | .ok _ => do
              let idx ← getNatList ej "vanish_at"
              let ups := acc.1.log.filter (fun e => match e.1 with | .pair pre _ => pre != prefixKey | _ => true)
              pure (Ev.vanish (idx.filterMap (fun i => ups[i]?.map (·.1))))
            | _ => do
              let ans := match ej.getObjVal? "ans" with | .ok (Json.bool b) => some b | _ => none
              pure (Ev.chunk (← getTerm ej "chunk") ans)
          pure (evStep p acc.1 ev, acc.2 ++ [ev])
        pure (stepViewB s view (.snapshotEv user evs (← parseData (← oj.getObjVal? "data"))))
      | _ => do
        -- optional `view`: what the client that issued the command believed `encrypted` to be (absent = the repository's own flag)
        let op ← parseSymOp oj
        match oj.getObjVal? "view" with
        | .ok (Json.bool v) => pure (stepView s v op)
        | _ => pure (step s op)
    pure (Json.mkObj [("log", pairsJson s.log), ("uses", pairsJson s.uses), ("next", jnat s.next),
                      ("store", pairsJson s.store), ("users", jnat s.users.length)])
  | "sym.restore" =>
    let p := worldProps (← getBool j "encrypted")
    let snaps ← (← getArr j "snaps").toList.mapM fun x => do
      pure (⟨← getNatList x "table", ← parseData (← x.getObjVal? "data")⟩ : SnapDesc)
    let store ← (← getArr j "store").toList.mapM fun e => do
      match (← e.getArr?).toList with
      | [l, o] => pure ((← worldLoc p snaps l), (← worldObj p snaps o))
      | _ => throw "bad store entry"
    let target ← getNat j "target"
    let tname ← match snaps[target]? with
      | some d => pure (snapshotName (snapStoredOf p target d))
      | none => throw "unknown target"
    let loadR := loadAll p tname (snapEntries store)
    let chunkErrs : List Json := match loadR with
      | .error _ => []
      | .ok bodies =>
        let sel := selectFiles (isort newestFirst bodies) []
        (sel.flatMap fun x => (isort refLE x.2.refs).filterMap fun r =>
          match x.1[r.index]? with
          | none => some (Json.str "malformed")
          | some d => match fetchChunk p store d with
            | .error e => some (symErrJson e)
            | .ok _ => none)
    let base := [("load", match loadR with | .ok bs => jnat bs.length | .error e => symErrJson e),
                 ("chunk_errors", Json.arr chunkErrs.toArray)]
    match restore p store tname with
    | .ok out => pure (Json.mkObj (base ++ [("outcome", Json.str "ok"),
        ("files", Json.arr (out.map (fun w => Json.mkObj [("path", termJson w.1), ("parts", partsJson w.2)])).toArray)]))
    | .error e => pure (Json.mkObj (base ++ [("outcome", Json.str "error"), ("error", symErrJson e)]))
  | "sym.unlock" =>
    match unlock (← getTerm j "keyfile") (← getTerm j "pw") with
    | .ok (uk, sh) => pure (Json.mkObj [("outcome", Json.str "ok"), ("userkey", termJson uk), ("private", termJson (privateTerm sh))])
    | .error e => pure (Json.mkObj [("outcome", Json.str "error"), ("error", symErrJson e)])
  | "sym.load_snapshot" =>
    let p : Props := ⟨← getBool j "encrypted", ← getTerm j "userkey",
      ⟨.nil, ← getTerm j "shared_key", ← getTerm j "shared_params", ← getTerm j "mac_key", .nil⟩⟩
    match loadSnapshot p (← getTerm j "tag") (← getTerm j "name") (← getTerm j "stored") with
    | .error e => pure (Json.mkObj [("outcome", Json.str "error"), ("error", symErrJson e)])
    | .ok none => pure (Json.mkObj [("outcome", Json.str "skipped")])
    | .ok (some (table, d)) => pure (Json.mkObj [("outcome", Json.str "ok"), ("table", Json.arr (table.map termJson).toArray),
        ("data", match d with | some dd => termJson (encData dd) | none => Json.null), ("has_data", Json.bool d.isSome)])
  | "sym.verify_chunk" =>
    let p : Props := ⟨← getBool j "encrypted", .nil,
      ⟨.nil, ← getTerm j "shared_key", ← getTerm j "shared_params", ← getTerm j "mac_key", .nil⟩⟩
    let d ← getTerm j "digest"
    let loc := chunkLoc p d
    match verifyChunk p d (← getTerm j "obj") with
    | .ok m => pure (Json.mkObj [("outcome", Json.str "ok"), ("plain", termJson m), ("loc", termJson loc)])
    | .error e => pure (Json.mkObj [("outcome", Json.str "error"), ("error", symErrJson e), ("loc", termJson loc)])
  | "sym.b64" =>
    let bs ← getBytes j "bytes"
    let txt := B64.encode bs
    let back := B64.decode txt
    let extra ← match j.getObjVal? "text" with
      | .ok (Json.str s) => pure [("decoded", match B64.decode (s.toList.map Char.toNat) with
          | some b => Json.str (hex b) | none => Json.null)]
      | _ => pure []
    pure (Json.mkObj ([("text", Json.str (String.ofList (txt.map Char.ofNat))),
                       ("roundtrip", Json.bool (back == some bs)),
                       ("hint_key", Json.str Gen.bytesHintKey)] ++ extra))
  | "sym.type_reverse" =>
    -- value: {"kind": "obj1", "key": k, "text": s} | {"kind": "other"}
    match (← getStr j "kind") with
    | "obj1" =>
      let k ← getStr j "key"
      let s ← getStr j "text"
      match typeReverse (.obj1 k (.str (s.toList.map Char.toNat))) with
      | some (.bytes b) => pure (Json.mkObj [("result", Json.str "bytes"), ("bytes", Json.str (hex b))])
      | some _ => pure (Json.mkObj [("result", Json.str "unchanged")])
      | none => pure (Json.mkObj [("result", Json.str "invalid")])
    | _ => pure (Json.mkObj [("result", Json.str "unchanged")])
  | "sym.legacy" =>
    -- meta: [[key, value id]…]
    let m ← (← getArr j "meta").toList.mapM fun e => do
      match (← e.getArr?).toList with
      | [k, v] => pure ((← k.getStr?), (← v.getNat?))
      | _ => throw "bad meta entry"
    match restoreTimes m with
    | .ns a t => pure (Json.mkObj [("kind", Json.str "ns"), ("atime", jnat a), ("mtime", jnat t)])
    | .times a t => pure (Json.mkObj [("kind", Json.str "times"), ("atime", jnat a), ("mtime", jnat t)])
    | .keyError => pure (Json.mkObj [("kind", Json.str "key_error")])
  | _ => throw s!"unknown op {op}"

end Driver.HSym

/-! ## `sym.run_restore` — a history, then every reader on the store it produces (C14 history-level theorems)

Same request as `sym.run` (client views are not accepted here).  The history is executed with `runT`, i.e. together with the
record of what every snapshot command captured (`Taken`) and the admissibility `opOk` of every command (`wfHist`); then for
every snapshot taken and every key of the history: what `_load_snapshots` by the snapshot's name yields (`loadBodies`) and what
`restore` writes (`restoreMd`: path, parts, metadata record).  `recorded` is the right-hand side of `C14.restore_after_run`. -/
namespace Driver.HSym

def restoredJson (out : List Sym.Restored) : Json :=
  Json.arr (out.map (fun w => Json.mkObj [("path", termJson w.1), ("parts", partsJson w.2.1), ("md", termJson w.2.2)])).toArray

def bodiesJson (bs : List (List STerm × Option Sym.Data)) : Json :=
  Json.arr (bs.map (fun b => Json.mkObj [("table", Json.arr (b.1.map termJson).toArray), ("has_data", Json.bool b.2.isSome)])).toArray

def handleSymHist (op : String) (j : Json) : Except String Json := do
  match op with
  | "sym.run_restore" =>
    let i ← j.getObjVal? "init"
    let a : InitArgs := ⟨← getBool i "encrypted", ← getTerm i "cfg", ← getTerm i "kdfcfg", ← getTerm i "shcfg", ← getTerm i "pw"⟩
    let (st, bad, _) ← (← getArr j "ops").toList.foldlM (init := ((initSt a, ([] : List Taken)), ([] : List Nat), 0))
      fun (acc : (St × List Taken) × List Nat × Nat) oj => do
        let ((s, ts), bad, k) := acc
        let op ← match (← getStr oj "kind") with
          | "remove_at" => do
            let idx ← getNatList oj "idx"
            let ups := s.log.filter (fun e => match e.1 with | .pair pre _ => pre != prefixKey | _ => true)
            pure (Op.remove (idx.filterMap (fun i => ups[i]?.map (·.1))))
          | _ => do
            match oj.getObjVal? "view" with
            | .ok (Json.bool _) => throw "sym.run_restore does not take client views"
            | _ => parseSymOp oj
        pure (stepT (s, ts) op, if opOk s ts op then bad else bad ++ [k], k + 1)
    let s := st.1
    let ts := st.2
    let log := s.log
    let namesOk := log.all fun e1 => log.all fun e2 => e1.1 != e2.1 || sameUpToNonce e1.2 e2.2
    let storeNodup := nodupB (s.store.map (·.1))
    let snaps := ts.map fun t =>
      let present := (lookup s.store t.loc).isSome
      let by_ := s.users.map fun u =>
        let q := u.props s.encrypted
        let bodies := match loadBodies q t.name (snapEntries s.store) with
          | .ok bs => bodiesJson bs
          | .error e => symErrJson e
        let rest := match restoreMd q s.store t.name with
          | .ok out => Json.mkObj [("outcome", Json.str "ok"), ("files", restoredJson out)]
          | .error e => Json.mkObj [("outcome", Json.str "error"), ("error", symErrJson e)]
        Json.mkObj [("bodies", bodies), ("restore", rest), ("same_family", Json.bool (u.sh == t.p.sh))]
      Json.mkObj [("user", jnat t.user), ("present", Json.bool present), ("table", Json.arr (t.table.map termJson).toArray),
                  ("recorded", match recordedFiles t.contents t.data.files with | some out => restoredJson out | none => Json.null),
                  ("as_recorded", Json.bool (match recordedFiles t.contents t.data.files, restoreMd t.p s.store t.name with
                    | some out, .ok out' => out == out'
                    | _, _ => false)),
                  ("by", Json.arr by_.toArray)]
    pure (Json.mkObj [("wf", Json.bool bad.isEmpty), ("bad_ops", Json.arr (bad.map jnat).toArray), ("users", jnat s.users.length),
                      ("names_unique", Json.bool namesOk), ("store_is_map", Json.bool storeNodup),
                      ("snaps", Json.arr snaps.toArray)])
  | _ => handleSym op j

end Driver.HSym

def Driver.handleSym := Driver.HSym.handleSymHist