import Driver.Util
open Lean Replicat
namespace Driver.HSigV4Reads
open Replicat.SigV4

def lensOf (l : List Bytes) : Json := natArr (l.map (·.length))

def ruleOf (j : Json) (k : String) (dflt : StopRule) : Except String StopRule :=
  match j.getObjVal? k with
  | .ok v => do
    let n ← v.getNat?
    pure (stopRuleOfCode n)
  | .error _ => pure dflt

def natOr (j : Json) (k : String) (dflt : Nat) : Except String Nat :=
  match j.getObjVal? k with
  | .ok v => v.getNat?
  | .error _ => pure dflt

def ruleCode : StopRule → Nat
  | .emptyRead => 0
  | .shortRead => 1

/-- requests `sigv4r.*`: the read loops of `upload_stream` over read schedules.  Streams are given by their LENGTH (the loops do
not look at the bytes): the reply lists the length of every read, in order. -/
def handleSigV4Reads (op : String) (j : Json) : Except String Json := do
  match op with
  | "sigv4r.gen" =>
    pure (Json.mkObj [("digest_stop_rule", jnat Gen.s3DigestStopRule), ("body_stop_rule", jnat Gen.s3BodyStopRule),
      ("digest_read_size", jnat Gen.s3DigestReadSize), ("size_constants", natArr Gen.s3StreamSizeConstants),
      ("stream_rewind_to", match Gen.s3StreamRewindTo with | some p => jnat p | none => Json.null)])
  | "sigv4r.reads" =>
    -- one loop: `n` (default: the digest read size), `rule` (default: the digest loop's), `caps`, stream of `length` at `pos`
    let len ← getNat j "length"
    let pos ← natOr j "pos" 0
    let n ← natOr j "n" Gen.s3DigestReadSize
    let rule ← ruleOf j "rule" digestStopRule
    let caps ← getNatList j "caps"
    let reads := streamReads rule n caps ⟨List.replicate len 0, pos⟩
    pure (Json.mkObj [("reads", lensOf reads), ("consumed", jnat reads.flatten.length), ("rule", jnat (ruleCode rule)), ("n", jnat n)])
  | "sigv4r.upload" =>
    -- `upload_stream` as the code does it today: digest loop under `dcaps`, then the body iterator under `bcaps`
    let len ← getNat j "length"
    let pos ← natOr j "pos" 0
    let chunk ← getNat j "chunk"
    let dcaps ← getNatList j "dcaps"
    let bcaps ← getNatList j "bcaps"
    let s : Stream := ⟨List.replicate len 0, pos⟩
    let c : Crypto := ⟨fun k m => k ++ m, id, id⟩
    let dreads := streamReads digestStopRule Gen.s3DigestReadSize dcaps s
    -- `streamDigestSchedWith` on the reads just computed (its definition, with `hashed` shared)
    let hashed := dreads.flatten.length
    let s' : Stream := { s with pos := match Gen.s3StreamRewindTo with | some p => p | none => s.pos + hashed }
    let common := [("digest_reads", lensOf dreads), ("hashed", jnat hashed), ("hashed_from", jnat pos),
      ("position_after_digest", jnat s'.pos),
      ("digest_stop_rule", jnat (ruleCode digestStopRule)), ("body_stop_rule", jnat (ruleCode bodyStopRule)),
      ("digest_read_size", jnat Gen.s3DigestReadSize)]
    match j.getObjVal? "digest_only" with
    | .ok _ => pure (Json.mkObj common)
    | .error _ =>
      let breads := streamReads bodyStopRule chunk bcaps s'
      let p := uploadStreamSched c s (← natOr j "declared_length" len) chunk dcaps bcaps
      pure (Json.mkObj (common ++ [("body_reads", lensOf breads), ("body_parts", lensOf (breads.filter (fun p => !p.isEmpty))),
        ("body_len", jnat p.body.length), ("declared_length", jnat p.declaredLength), ("hashed_by_upload_model", jnat p.declaredDigest.length)]))
  | _ => throw s!"unknown op {op}"

end Driver.HSigV4Reads

def Driver.handleSigV4Reads := Driver.HSigV4Reads.handleSigV4Reads
