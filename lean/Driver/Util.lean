import Lean.Data.Json
import ReplicatModel
open Lean
namespace Driver

def hexVal (c : Char) : Option Nat :=
  if '0' ≤ c ∧ c ≤ '9' then some (c.toNat - '0'.toNat)
  else if 'a' ≤ c ∧ c ≤ 'f' then some (c.toNat - 'a'.toNat + 10)
  else if 'A' ≤ c ∧ c ≤ 'F' then some (c.toNat - 'A'.toNat + 10)
  else none

def unhex (s : String) : Except String Replicat.Bytes :=
  let rec go : List Char → List UInt8 → Except String (List UInt8)
    | [], acc => .ok acc.reverse
    | [_], _ => .error "odd hex length"
    | a :: b :: rest, acc =>
      match hexVal a, hexVal b with
      | some x, some y => go rest (UInt8.ofNat (x * 16 + y) :: acc)
      | _, _ => .error "bad hex digit"
  go s.toList []

def hexDigit (n : Nat) : Char := if n < 10 then Char.ofNat (48 + n) else Char.ofNat (87 + n)

def hex (bs : Replicat.Bytes) : String :=
  String.ofList (bs.foldr (fun b acc => hexDigit (b.toNat / 16) :: hexDigit (b.toNat % 16) :: acc) [])

def getNat (j : Json) (k : String) : Except String Nat := do
  let v ← j.getObjVal? k
  v.getNat?

def getInt (j : Json) (k : String) : Except String Int := do
  let v ← j.getObjVal? k
  v.getInt?

def getBool (j : Json) (k : String) : Except String Bool := do
  let v ← j.getObjVal? k
  v.getBool?

def getStr (j : Json) (k : String) : Except String String := do
  let v ← j.getObjVal? k
  v.getStr?

def getArr (j : Json) (k : String) : Except String (Array Json) := do
  let v ← j.getObjVal? k
  v.getArr?

def getBytes (j : Json) (k : String) : Except String Replicat.Bytes := do
  unhex (← getStr j k)

def getNatList (j : Json) (k : String) : Except String (List Nat) := do
  let a ← getArr j k
  a.toList.mapM (·.getNat?)

def natArr (l : List Nat) : Json := Json.arr (l.map (fun n => Json.num (JsonNumber.fromNat n))).toArray

def jnat (n : Nat) : Json := Json.num (JsonNumber.fromNat n)

def jint (n : Int) : Json := Json.num (JsonNumber.fromInt n)

end Driver
