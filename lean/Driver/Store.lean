import Driver.Util
import ReplicatModel.ObjCmd
import ReplicatModel.B2Location
open Lean Replicat Replicat.Store Replicat.Paging
namespace Driver.HStore
def jstr (s : List Char) : Json := Json.str (String.ofList s)

def getName (j : Json) (k : String) : Except String Replicat.Name := do
  pure (← getStr j k).toList

def parseOp (j : Json) : Except String Op := do
  match (← getStr j "op") with
  | "upload" => pure (.upload (← getName j "name") (← getBytes j "data"))
  | "upload_stream" => pure (.uploadStream (← getName j "name") (← getBytes j "data") (← getNat j "chunk"))
  | "delete" => pure (.delete (← getName j "name"))
  | "exists" => pure (.exists_ (← getName j "name"))
  | "download" => pure (.download (← getName j "name"))
  | "download_stream" => pure (.downloadStream (← getName j "name") (← getNat j "chunk") (← getBytes j "sink"))
  | "list" => pure (.list (← getName j "prefix"))
  | o => throw s!"unknown store op {o}"

def errStr : Err → String
  | .notFound => "notFound"
  | .forbidden => "forbidden"
  | .osError => "osError"
  | .http s c => s!"http:{s}:{c}"
  | .fuel => "fuel"
  | .unmodelled => "unmodelled"

/-- insertion sort on strings (canonical order of listings: the source is a set) -/
def sortStrs (l : List String) : List String := (l.toArray.qsort (· < ·)).toList

def retJson : Ret → Json
  | .unit => Json.mkObj [("unit", Json.bool true)]
  | .bool b => Json.mkObj [("bool", Json.bool b)]
  | .bytes d => Json.mkObj [("bytes", Json.str (hex d))]
  | .names l => Json.mkObj [("names", Json.arr ((sortStrs (l.map String.ofList)).map Json.str).toArray)]
  | .error e => Json.mkObj [("error", Json.str (errStr e))]

def mapJson (m : List (String × Bytes)) : Json :=
  let sorted := (m.toArray.qsort (fun a b => a.1 < b.1)).toList
  Json.arr (sorted.map (fun (n, d) => Json.arr #[Json.str n, Json.str (hex d)])).toArray

/-- run a history, collecting return values and, for listings, the number of list requests -/
def runWith {σ : Type} (step : σ → Op → σ × Ret) (reqs : σ → Replicat.Name → Nat) : σ → List Op → σ × List Json
  | s, [] => (s, [])
  | s, op :: ops =>
    let r := step s op
    let j := match op with
      | .list pfx => (retJson r.2).setObjVal! "requests" (jnat (reqs s pfx))
      | _ => retJson r.2
    let rest := runWith step reqs r.1 ops
    (rest.1, j :: rest.2)

/-- a timed S3 history (`skew` given): every op carries `client` / `server` = the two clocks, whole seconds since the epoch.
The number of list requests is reported only for listings that were served. -/
def runTimed (skew ps : Nat) : S3 → List Timed → S3 × List Json
  | s, [] => (s, [])
  | s, t :: ts =>
    let r := S3.stepT skew ps s t
    let j := match t.op, r.2 with
      | .list pfx, .names _ => (retJson r.2).setObjVal! "requests" (jnat (S3.listRequests ps s pfx))
      | _, _ => retJson r.2
    let rest := runTimed skew ps r.1 ts
    (rest.1, j :: rest.2)

def elemsOf (j : Json) : Except String (List Elem) := do
  (← j.getArr?).toList.mapM (fun e => do
    let a ← e.getArr?
    if h : a.size = 2 then pure ((← a[0].getStr?), (← a[1].getStr?).toList) else throw "element must be [tag, text]")

def optName (j : Json) : Except String (Option Replicat.Name) :=
  match j with
  | Json.null => pure none
  | Json.str s => pure (some s.toList)
  | _ => throw "expected string or null"

/-- `loc` of a B2 history: `{"buckets": [[id, name], …], "own": index, "restricted": bool, "ident": string}` -/
def parseB2Loc (j : Json) : Except String B2Loc := do
  let bs ← (← getArr j "buckets").toList.mapM (fun e => do
    let a ← e.getArr?
    if h : a.size = 2 then pure ({ id := (← a[0].getStr?).toList, name := (← a[1].getStr?).toList } : Bucket)
    else throw "bucket must be [id, name]")
  let i ← getNat j "own"
  match bs[i]? with
  | none => throw "own: no such bucket"
  | some own => pure { buckets := bs, own := own, restricted := (← getBool j "restricted"), ident := (← getName j "ident") }

/-- requests `store.*` (see DESIGN.md Appendix A) -/
def handleStore (op : String) (j : Json) : Except String Json := do
  match op with
  | "store.history" =>
    let adapter ← getStr j "adapter"
    let ops ← (← getArr j "ops").toList.mapM parseOp
    match adapter with
    | "spec" =>
      let (s, rs) := runWith MapStore.step (fun _ _ => 0) ([] : MapStore) ops
      pure (Json.mkObj [("rets", Json.arr rs.toArray), ("state", mapJson (s.map (fun (n, d) => (String.ofList n, d))))])
    | "s3" =>
      let ps ← getNat j "ps"
      match j.getObjVal? "skew" with
      | .ok sk =>
        let skew ← sk.getNat?
        let ts ← (← getArr j "ops").toList.mapM (fun o => do
          pure ({ client := (← getNat o "client"), server := (← getNat o "server"), op := (← parseOp o) } : Timed))
        let (s, rs) := runTimed skew ps ([] : S3) ts
        pure (Json.mkObj [("rets", Json.arr rs.toArray), ("state", mapJson (s.map (fun (n, d) => (String.ofList n, d))))])
      | .error _ =>
      let (s, rs) := runWith (S3.step ps) (S3.listRequests ps) ([] : S3) ops
      pure (Json.mkObj [("rets", Json.arr rs.toArray), ("state", mapJson (s.map (fun (n, d) => (String.ofList n, d))))])
    | "b2" =>
      let ps ← getNat j "ps"
      -- optional `loc`: the repository location (`B2.stepAt`); without it the location-free model
      let step ← (match j.getObjVal? "loc" with
        | .ok lj => do pure (B2.stepAt (← parseB2Loc lj) ps)
        | .error _ => pure (B2.step ps) : Except String (B2 → Op → B2 × Ret))
      let (s, rs) := runWith step (B2.listRequests ps) ([] : B2) ops
      let live := s.filterMap (fun (n, _) => (B2.visible s n).map (fun d => (String.ofList n, d)))
      let nver := s.map (fun (n, vs) => Json.arr #[Json.str (String.ofList n), jnat vs.length])
      pure (Json.mkObj [("rets", Json.arr rs.toArray), ("state", mapJson live), ("versions", Json.arr nver.toArray)])
    | "local" =>
      let root ← getName j "root"
      let (s, rs) := runWith (LocalFS.step root) (fun _ _ => 0) LocalFS.FS.empty ops
      let files := s.files.map (fun (p, d) => (String.ofList (joinSlash p), d))
      let dirs := sortStrs (s.dirs.map (fun p => String.ofList (joinSlash p)))
      pure (Json.mkObj [("rets", Json.arr rs.toArray), ("state", mapJson files), ("dirs", Json.arr (dirs.map Json.str).toArray)])
    | a => throw s!"unknown adapter {a}"
  | "store.pathlib" =>
    let root ← getName j "root"
    let rel ← getName j "rel"
    let sp := LocalFS.osSplit rel
    pure (Json.mkObj [("str", jstr (LocalFS.pparse root).str), ("joined", jstr (LocalFS.pjoin root rel).str),
                      ("split", Json.arr #[jstr sp.1, jstr sp.2]),
                      ("parts", Json.arr ((LocalFS.pparse root).parts.map jstr).toArray)])
  | "store.s3loop" =>
    -- pages: [[token|null, [[tag, text], …]], …]; unknown token → empty page
    let pages ← (← getArr j "pages").toList.mapM (fun p => do
      let a ← p.getArr?
      if h : a.size = 2 then pure ((← optName a[0]), (← elemsOf a[1])) else throw "page must be [token, elements]")
    let fuel ← getNat j "fuel"
    let respond : Option Replicat.Name → List Elem := fun t => ((pages.find? (·.1 = t)).map (·.2)).getD []
    match s3List respond fuel with
    | some l => pure (Json.mkObj [("names", Json.arr (l.map jstr).toArray),
                                  ("requests", jnat (s3Requests respond fuel ⟨Gen.s3LoopStartsTruncated, none⟩))])
    | none => pure (Json.mkObj [("fuel", Json.bool true)])
  | "store.b2loop" =>
    let pages ← (← getArr j "pages").toList.mapM (fun p => do
      let a ← p.getArr?
      if h : a.size = 3 then
        pure ((← optName a[0]), (⟨(← (← a[1].getArr?).toList.mapM (fun x => do pure (← x.getStr?).toList)), (← optName a[2])⟩ : B2Page))
      else throw "page must be [start, files, next]")
    let fuel ← getNat j "fuel"
    let respond : Option Replicat.Name → B2Page := fun t => ((pages.find? (·.1 = t)).map (·.2)).getD ⟨[], none⟩
    match b2List respond fuel with
    | some l => pure (Json.mkObj [("names", Json.arr (l.map jstr).toArray), ("requests", jnat (b2Requests respond fuel none))])
    | none => pure (Json.mkObj [("fuel", Json.bool true)])
  | "store.upload_states" =>
    -- the file table after each of the file-system steps of one upload (k = 0 … 4), after a prior history
    let root ← getName j "root"
    let ops ← (← getArr j "ops").toList.mapM parseOp
    let (fs, _) := runWith (LocalFS.step root) (fun _ _ => 0) LocalFS.FS.empty ops
    let n ← getName j "name"
    let d ← getBytes j "data"
    let rnd ← getName j "rnd"
    let states := (List.range 5).map (fun k =>
      mapJson ((LocalFS.uploadState fs (splitSlash n) rnd d k).files.map (fun (p, x) => (String.ofList (joinSlash p), x))))
    pure (Json.mkObj [("states", Json.arr states.toArray)])
  | "store.addr" =>
    let n ← getName j "name"
    pure (Json.mkObj [("s3dot", Json.bool (hasDotSegment n)),
                      ("b2", match b2Addr n with | some a => jstr a | none => Json.null)])
  | _ => throw s!"unknown op {op}"

/-! ## the object-level commands (`ObjCmd.lean`): requests `store.cmd.*` -/
open Replicat.ObjCmd in
/-- a path crosses the tie as its segments joined with `/` (no leading slash); the empty string is the empty path -/
def pathOf (s : String) : LocalFS.Path := if s.isEmpty then [] else splitSlash s.toList

def pathStr (p : LocalFS.Path) : String := String.ofList (joinSlash p)

def getTree (j : Json) (k : String) : Except String ObjCmd.Tree := do
  (← getArr j k).toList.mapM (fun e => do
    let a ← e.getArr?
    if h : a.size = 2 then pure (pathOf (← a[0].getStr?), (← unhex (← a[1].getStr?))) else throw "tree entry must be [path, hex]")

def treeJson (t : ObjCmd.Tree) : Json := mapJson (t.map (fun (p, d) => (pathStr p, d)))

def getStrList (j : Json) (k : String) : Except String (List String) := do
  (← getArr j k).toList.mapM (·.getStr?)

def optNat (j : Json) (k : String) : Except String (Option Nat) :=
  match j.getObjVal? k with
  | .ok Json.null => pure none
  | .ok v => do pure (some (← v.getNat?))
  | .error _ => pure none

/-- `keep`: null = no regular expression, otherwise the list of names on which `re.search` succeeds -/
def getKeep (j : Json) : Except String (Replicat.Name → Bool) :=
  match j.getObjVal? "keep" with
  | .ok (Json.arr a) => do
    let l ← a.toList.mapM (fun x => do pure (← x.getStr?).toList)
    pure (fun n => l.contains n)
  | _ => pure (fun _ => true)

/-- a command and the local tree it runs on -/
def parseCmd (j : Json) : Except String (ObjCmd.Cmd × ObjCmd.Tree) := do
  match (← getStr j "cmd") with
  | "upload" =>
    pure (.upload (pathOf (← getStr j "cwd")) ((← getStrList j "dirs").map pathOf) ((← getStrList j "paths").map pathOf) (← optNat j "rate_limit") (← getBool j "skip_existing"),
          (← getTree j "tree"))
  | "download" =>
    pure (.download (← getName j "prefix") (← getKeep j) (← optNat j "rate_limit") (← getBool j "skip_existing"), (← getTree j "dir"))
  | "list" => pure (.list (← getName j "prefix") (← getKeep j), [])
  | "delete" =>
    let names := (← getStrList j "names").map String.toList
    match j.getObjVal? "cache" with
    | .ok (Json.arr _) => pure (.delete names (← getBool j "confirm") (← getName j "answer") true, (← getTree j "cache"))
    | _ => pure (.delete names (← getBool j "confirm") (← getName j "answer") false, [])
  | c => throw s!"unknown command {c}"

def opKind : Op → String × Replicat.Name
  | .upload n _ => ("put", n)
  | .uploadStream n _ _ => ("put", n)
  | .delete n => ("del", n)
  | .exists_ n => ("exists", n)
  | .download n => ("get", n)
  | .downloadStream n _ _ => ("get", n)
  | .list p => ("list", p)

def outJson : ObjCmd.Out → Json
  | .none => Json.mkObj [("none", Json.bool true)]
  | .files l => Json.mkObj [("files", Json.arr ((sortStrs (l.map pathStr)).map Json.str).toArray)]
  | .names l => Json.mkObj [("names", Json.arr ((sortStrs (l.map String.ofList)).map Json.str).toArray)]

/-- the backend calls of a run, canonical: sorted `kind name` (the real calls run concurrently), stream chunk sizes apart -/
def traceJson (tr : List (Op × Ret)) : Json :=
  let rows := sortStrs (tr.map (fun (op, _) => (opKind op).1 ++ " " ++ String.ofList (opKind op).2))
  Json.arr (rows.map Json.str).toArray

def chunksJson (tr : List (Op × Ret)) : Json :=
  let cs := tr.filterMap (fun (op, _) => match op with | .uploadStream _ _ c => some c | .downloadStream _ c _ => some c | _ => none)
  natArr cs.eraseDups

def runCmds {σ : Type} (step : σ → Op → σ × Ret) (concurrent : Nat) : σ → List (ObjCmd.Cmd × ObjCmd.Tree) → σ × List Json
  | s, [] => (s, [])
  | s, (c, loc) :: rest =>
    let r := c.run step concurrent s loc
    let j := Json.mkObj [
      ("out", match r.res with | .ok o => outJson o | .error _ => Json.null),
      ("error", match r.res with | .ok _ => Json.null | .error e => Json.str (errStr e)),
      ("loc", treeJson r.loc), ("trace", traceJson r.tr), ("chunks", chunksJson r.tr)]
    let k := runCmds step concurrent r.st rest
    (k.1, j :: k.2)

def preload {σ : Type} (step : σ → Op → σ × Ret) (s : σ) (objs : List (Replicat.Name × Bytes)) : σ :=
  objs.foldl (fun s (n, d) => (step s (.upload n d)).1) s

/-- the backend call every pick of a schedule makes (`none` for a pick of a finished or unknown task) -/
def schedCalls (skip : Bool) : Spec → List ObjCmd.Task → List Replicat.Name → List String
  | _, _, [] => []
  | m, ts, n :: sched =>
    let k := match ts.find? (fun t => decide (t.name = n)) with
      | none => "none"
      | some t => match t.nextCall skip with
        | some op => (opKind op).1
        | none => "none"
    (k ++ " " ++ String.ofList n) :: schedCalls skip (ObjCmd.stepTask skip m ts n).1 (ObjCmd.stepTask skip m ts n).2 sched

/-- `store.cmd.run`: a scenario = initial objects + a list of commands, each with its local tree; the backend state chains -/
def handleCmd (op : String) (j : Json) : Except String Json := do
  match op with
  | "store.cmd.run" =>
    let adapter ← getStr j "adapter"
    let concurrent ← getNat j "concurrent"
    let objs ← (← getArr j "store").toList.mapM (fun e => do
      let a ← e.getArr?
      if h : a.size = 2 then pure ((← a[0].getStr?).toList, (← unhex (← a[1].getStr?))) else throw "object must be [name, hex]")
    let cmds ← (← getArr j "cmds").toList.mapM parseCmd
    match adapter with
    | "spec" =>
      let (s, rs) := runCmds MapStore.step concurrent (preload MapStore.step ([] : MapStore) objs) cmds
      pure (Json.mkObj [("results", Json.arr rs.toArray), ("state", mapJson (s.map (fun (n, d) => (String.ofList n, d))))])
    | "s3" =>
      let ps ← getNat j "ps"
      let (s, rs) := runCmds (S3.step ps) concurrent (preload (S3.step ps) ([] : S3) objs) cmds
      pure (Json.mkObj [("results", Json.arr rs.toArray), ("state", mapJson (s.map (fun (n, d) => (String.ofList n, d))))])
    | "b2" =>
      let ps ← getNat j "ps"
      let (s, rs) := runCmds (B2.step ps) concurrent (preload (B2.step ps) ([] : B2) objs) cmds
      let live := s.filterMap (fun (n, _) => (B2.visible s n).map (fun d => (String.ofList n, d)))
      pure (Json.mkObj [("results", Json.arr rs.toArray), ("state", mapJson live)])
    | "local" =>
      let root ← getName j "root"
      let (s, rs) := runCmds (LocalFS.step root) concurrent (preload (LocalFS.step root) LocalFS.FS.empty objs) cmds
      let files := s.files.map (fun (p, d) => (String.ofList (joinSlash p), d))
      let dirs := sortStrs (s.dirs.map (fun p => String.ofList (joinSlash p)))
      pure (Json.mkObj [("results", Json.arr rs.toArray), ("state", mapJson files), ("dirs", Json.arr (dirs.map Json.str).toArray)])
    | a => throw s!"unknown adapter {a}"
  | "store.cmd.schedule" =>
    -- the gathered upload tasks under an observed schedule (`runSchedule`): the call each pick makes, whether all tasks finish, the map afterwards
    let objs ← (← getArr j "store").toList.mapM (fun e => do
      let a ← e.getArr?
      if h : a.size = 2 then pure ((← a[0].getStr?).toList, (← unhex (← a[1].getStr?))) else throw "object must be [name, hex]")
    let its ← (← getArr j "items").toList.mapM (fun e => do
      let a ← e.getArr?
      if h : a.size = 2 then pure ((← a[0].getStr?).toList, (← unhex (← a[1].getStr?))) else throw "item must be [name, hex]")
    let skip ← getBool j "skip_existing"
    let sched := (← getStrList j "schedule").map String.toList
    let m0 : Spec := MapStore.abs (preload MapStore.step ([] : MapStore) objs)
    let r := ObjCmd.runSchedule skip m0 (ObjCmd.initTasks its) sched
    let names := ((objs.map (·.1)) ++ (its.map (·.1))).eraseDups
    let state := names.filterMap (fun n => (r.1 n).map (fun d => (String.ofList n, d)))
    pure (Json.mkObj [("calls", Json.arr ((schedCalls skip m0 (ObjCmd.initTasks its) sched).map Json.str).toArray),
                      ("done", Json.bool (r.2.all (fun t => t.phase = .done))), ("state", mapJson state)])
  | "store.cmd.name" =>
    -- the object name `upload_objects` derives for a file, given the working directory
    pure (Json.mkObj [("name", jstr (ObjCmd.objectName (pathOf (← getStr j "cwd")) (pathOf (← getStr j "file"))))])
  | "store.cmd.chunk" =>
    pure (Json.mkObj [("chunk", match ObjCmd.chunkSize (← getNat j "concurrent") (← optNat j "rate_limit") with
      | some c => jnat c | none => Json.null)])
  | _ => throw s!"unknown op {op}"

end Driver.HStore

def Driver.handleStore (op : String) (j : Lean.Json) : Except String Lean.Json :=
  if op.startsWith "store.cmd." then Driver.HStore.handleCmd op j else Driver.HStore.handleStore op j