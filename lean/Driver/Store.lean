import Driver.Util
open Lean Replicat
namespace Driver.HStore
/-- requests `store.*` (see DESIGN.md Appendix A) -/
def handleStore (op : String) (j : Json) : Except String Json := do
  match op with
  | _ => throw s!"unknown op {op}"

end Driver.HStore

def Driver.handleStore := Driver.HStore.handleStore