import Driver.Util
open Lean Replicat Replicat.Store Replicat.Paging
namespace Driver.HStore
def jstr (s : List Char) : Json := Json.str (String.ofList s)

def getName (j : Json) (k : String) : Except String Replicat.Name := do
  pure (← getStr j k).toList

def parseOp (j : Json) : Except String Op := do
  match (← getStr j "op") with
  | "upload" => pure (.upload (← getName j "name") (← getBytes j "data"))
  | "upload_stream" => pure (.uploadStream (← getName j "name") (← getBytes j "data") (← getNat j "chunk"))
  | "delete" => pure (.delete (← getName j "name"))
  | "exists" => pure (.exists_ (← getName j "name"))
  | "download" => pure (.download (← getName j "name"))
  | "download_stream" => pure (.downloadStream (← getName j "name") (← getNat j "chunk") (← getBytes j "sink"))
  | "list" => pure (.list (← getName j "prefix"))
  | o => throw s!"unknown store op {o}"

def errStr : Err → String
  | .notFound => "notFound"
  | .forbidden => "forbidden"
  | .osError => "osError"
  | .http s c => s!"http:{s}:{c}"
  | .fuel => "fuel"
  | .unmodelled => "unmodelled"

/-- insertion sort on strings (canonical order of listings: the source is a set) -/
def sortStrs (l : List String) : List String := (l.toArray.qsort (· < ·)).toList

def retJson : Ret → Json
  | .unit => Json.mkObj [("unit", Json.bool true)]
  | .bool b => Json.mkObj [("bool", Json.bool b)]
  | .bytes d => Json.mkObj [("bytes", Json.str (hex d))]
  | .names l => Json.mkObj [("names", Json.arr ((sortStrs (l.map String.ofList)).map Json.str).toArray)]
  | .error e => Json.mkObj [("error", Json.str (errStr e))]

def mapJson (m : List (String × Bytes)) : Json :=
  let sorted := (m.toArray.qsort (fun a b => a.1 < b.1)).toList
  Json.arr (sorted.map (fun (n, d) => Json.arr #[Json.str n, Json.str (hex d)])).toArray

/-- run a history, collecting return values and, for listings, the number of list requests -/
def runWith {σ : Type} (step : σ → Op → σ × Ret) (reqs : σ → Replicat.Name → Nat) : σ → List Op → σ × List Json
  | s, [] => (s, [])
  | s, op :: ops =>
    let r := step s op
    let j := match op with
      | .list pfx => (retJson r.2).setObjVal! "requests" (jnat (reqs s pfx))
      | _ => retJson r.2
    let rest := runWith step reqs r.1 ops
    (rest.1, j :: rest.2)

/-- a timed S3 history (`skew` given): every op carries `client` / `server` = the two clocks, whole seconds since the epoch.
The number of list requests is reported only for listings that were served. -/
def runTimed (skew ps : Nat) : S3 → List Timed → S3 × List Json
  | s, [] => (s, [])
  | s, t :: ts =>
    let r := S3.stepT skew ps s t
    let j := match t.op, r.2 with
      | .list pfx, .names _ => (retJson r.2).setObjVal! "requests" (jnat (S3.listRequests ps s pfx))
      | _, _ => retJson r.2
    let rest := runTimed skew ps r.1 ts
    (rest.1, j :: rest.2)

def elemsOf (j : Json) : Except String (List Elem) := do
  (← j.getArr?).toList.mapM (fun e => do
    let a ← e.getArr?
    if h : a.size = 2 then pure ((← a[0].getStr?), (← a[1].getStr?).toList) else throw "element must be [tag, text]")

def optName (j : Json) : Except String (Option Replicat.Name) :=
  match j with
  | Json.null => pure none
  | Json.str s => pure (some s.toList)
  | _ => throw "expected string or null"

/-- requests `store.*` (see DESIGN.md Appendix A) -/
def handleStore (op : String) (j : Json) : Except String Json := do
  match op with
  | "store.history" =>
    let adapter ← getStr j "adapter"
    let ops ← (← getArr j "ops").toList.mapM parseOp
    match adapter with
    | "spec" =>
      let (s, rs) := runWith MapStore.step (fun _ _ => 0) ([] : MapStore) ops
      pure (Json.mkObj [("rets", Json.arr rs.toArray), ("state", mapJson (s.map (fun (n, d) => (String.ofList n, d))))])
    | "s3" =>
      let ps ← getNat j "ps"
      match j.getObjVal? "skew" with
      | .ok sk =>
        let skew ← sk.getNat?
        let ts ← (← getArr j "ops").toList.mapM (fun o => do
          pure ({ client := (← getNat o "client"), server := (← getNat o "server"), op := (← parseOp o) } : Timed))
        let (s, rs) := runTimed skew ps ([] : S3) ts
        pure (Json.mkObj [("rets", Json.arr rs.toArray), ("state", mapJson (s.map (fun (n, d) => (String.ofList n, d))))])
      | .error _ =>
      let (s, rs) := runWith (S3.step ps) (S3.listRequests ps) ([] : S3) ops
      pure (Json.mkObj [("rets", Json.arr rs.toArray), ("state", mapJson (s.map (fun (n, d) => (String.ofList n, d))))])
    | "b2" =>
      let ps ← getNat j "ps"
      let (s, rs) := runWith (B2.step ps) (B2.listRequests ps) ([] : B2) ops
      let live := s.filterMap (fun (n, _) => (B2.visible s n).map (fun d => (String.ofList n, d)))
      let nver := s.map (fun (n, vs) => Json.arr #[Json.str (String.ofList n), jnat vs.length])
      pure (Json.mkObj [("rets", Json.arr rs.toArray), ("state", mapJson live), ("versions", Json.arr nver.toArray)])
    | "local" =>
      let root ← getName j "root"
      let (s, rs) := runWith (LocalFS.step root) (fun _ _ => 0) LocalFS.FS.empty ops
      let files := s.files.map (fun (p, d) => (String.ofList (joinSlash p), d))
      let dirs := sortStrs (s.dirs.map (fun p => String.ofList (joinSlash p)))
      pure (Json.mkObj [("rets", Json.arr rs.toArray), ("state", mapJson files), ("dirs", Json.arr (dirs.map Json.str).toArray)])
    | a => throw s!"unknown adapter {a}"
  | "store.pathlib" =>
    let root ← getName j "root"
    let rel ← getName j "rel"
    let sp := LocalFS.osSplit rel
    pure (Json.mkObj [("str", jstr (LocalFS.pparse root).str), ("joined", jstr (LocalFS.pjoin root rel).str),
                      ("split", Json.arr #[jstr sp.1, jstr sp.2]),
                      ("parts", Json.arr ((LocalFS.pparse root).parts.map jstr).toArray)])
  | "store.s3loop" =>
    -- pages: [[token|null, [[tag, text], …]], …]; unknown token → empty page
    let pages ← (← getArr j "pages").toList.mapM (fun p => do
      let a ← p.getArr?
      if h : a.size = 2 then pure ((← optName a[0]), (← elemsOf a[1])) else throw "page must be [token, elements]")
    let fuel ← getNat j "fuel"
    let respond : Option Replicat.Name → List Elem := fun t => ((pages.find? (·.1 = t)).map (·.2)).getD []
    match s3List respond fuel with
    | some l => pure (Json.mkObj [("names", Json.arr (l.map jstr).toArray),
                                  ("requests", jnat (s3Requests respond fuel ⟨Gen.s3LoopStartsTruncated, none⟩))])
    | none => pure (Json.mkObj [("fuel", Json.bool true)])
  | "store.b2loop" =>
    let pages ← (← getArr j "pages").toList.mapM (fun p => do
      let a ← p.getArr?
      if h : a.size = 3 then
        pure ((← optName a[0]), (⟨(← (← a[1].getArr?).toList.mapM (fun x => do pure (← x.getStr?).toList)), (← optName a[2])⟩ : B2Page))
      else throw "page must be [start, files, next]")
    let fuel ← getNat j "fuel"
    let respond : Option Replicat.Name → B2Page := fun t => ((pages.find? (·.1 = t)).map (·.2)).getD ⟨[], none⟩
    match b2List respond fuel with
    | some l => pure (Json.mkObj [("names", Json.arr (l.map jstr).toArray), ("requests", jnat (b2Requests respond fuel none))])
    | none => pure (Json.mkObj [("fuel", Json.bool true)])
  | "store.upload_states" =>
    -- the file table after each of the file-system steps of one upload (k = 0 … 4), after a prior history
    let root ← getName j "root"
    let ops ← (← getArr j "ops").toList.mapM parseOp
    let (fs, _) := runWith (LocalFS.step root) (fun _ _ => 0) LocalFS.FS.empty ops
    let n ← getName j "name"
    let d ← getBytes j "data"
    let rnd ← getName j "rnd"
    let states := (List.range 5).map (fun k =>
      mapJson ((LocalFS.uploadState fs (splitSlash n) rnd d k).files.map (fun (p, x) => (String.ofList (joinSlash p), x))))
    pure (Json.mkObj [("states", Json.arr states.toArray)])
  | "store.addr" =>
    let n ← getName j "name"
    pure (Json.mkObj [("s3dot", Json.bool (hasDotSegment n)),
                      ("b2", match b2Addr n with | some a => jstr a | none => Json.null)])
  | _ => throw s!"unknown op {op}"

end Driver.HStore

def Driver.handleStore := Driver.HStore.handleStore