import Driver.Util
import ReplicatModel.SlotQ
open Lean Replicat Replicat.SlotQ
namespace Driver.HSlotQ

def parseEv (s : String) : Except String Ev :=
  match s with
  | "request" => pure .request
  | "testFresh" => pure .testFresh
  | "testWoken" => pure .testWoken
  | "park" => pure .park
  | "putItem" => pure .putItem
  | "putWake:loop" => pure (.putWake true)
  | "putWake:foreign" => pure (.putWake false)
  | "sleep" => pure .sleep
  | _ => throw s!"bad event {s}"

/-- runs the micro-step machine as far as it accepts → (state, number of accepted events) -/
def runUpTo (σ : Q) : List Ev → Nat → Q × Nat × Bool
  | [], k => (σ, k, true)
  | e :: es, k => match step σ e with
    | none => (σ, k, false)
    | some σ' => runUpTo σ' es (k + 1)

/-- requests `slotq.*`:
`slotq.run` — `n`: slots in the queue at the start, `events`: the micro-steps observed on the real `asyncio` queue →
`accepted` (all events enabled when taken), `upto`, the final counts and `lostWakeup`; `onLoopOnly` = the extracted fact. -/
def handleSlotQ (op : String) (j : Json) : Except String Json := do
  match op with
  | "slotq.run" =>
    let n ← getNat j "n"
    let evs ← (← getArr j "events").toList.mapM fun e => do parseEv (← e.getStr?)
    let (σ, k, ok) := runUpTo (init n) evs 0
    pure (Json.mkObj [("accepted", Json.bool ok), ("upto", jnat k), ("items", jnat σ.items), ("held", jnat σ.held),
      ("fresh", jnat σ.fresh), ("sawEmpty", jnat σ.sawEmpty), ("parked", jnat σ.parked), ("ready", jnat σ.ready),
      ("lostWakeup", Json.bool (lostWakeup σ)), ("onLoopOnly", Json.bool Gen.slotQueueOnLoopOnly)])
  | _ => throw s!"unknown op {op}"

end Driver.HSlotQ

def Driver.handleSlotQ := Driver.HSlotQ.handleSlotQ
