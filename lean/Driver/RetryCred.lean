import Driver.Util
import ReplicatModel.RetryCred
open Lean Replicat
namespace Driver.HRetryCred
open Replicat.Retry Replicat.Cred

def parseEv (s : String) : Except String Ev :=
  match s with
  | "expire_account" => pure .expireAccount
  | "expire_upload" => pure .expireUpload
  | "expire_all" => pure .expireAll
  | "retire_pods" => pure .retirePods
  | _ => throw s!"unknown credential event {s}"

def parseMid (j : Json) : Except String (Option (Nat × Ev)) :=
  match j.getObjVal? "mid" with
  | .error _ => pure none
  | .ok Json.null => pure none
  | .ok m => do pure (some (← getNat m "after", ← parseEv (← getStr m "event")))

/-- `{"event": e}` or `{"op": o, "name": n, "data": hex, "bound": k, "mid": {"after": k, "event": e}}` -/
def parseStep (j : Json) : Except String Step :=
  match j.getObjVal? "event" with
  | .ok (Json.str e) => do pure (.ev (← parseEv e))
  | _ => do
    let o ← getStr j "op"
    let mid ← parseMid j
    match o with
    | "upload" => pure (.op (.upload (← getNat j "name") (← getBytes j "data")) mid)
    | "download" => pure (.op (.download (← getNat j "name")) mid)
    | "exists" => pure (.op (.exists (← getNat j "name")) mid)
    | "delete" => pure (.op (.delete (← getNat j "name")) mid)
    | "list" => pure (.op (.list (← getNat j "bound")) mid)
    | _ => throw s!"unknown session operation {o}"

def apiStr : Api → String
  | .authorize => "b2_authorize_account"
  | .listBuckets => "b2_list_buckets"
  | .getUploadUrl => "b2_get_upload_url"
  | .uploadFile => "b2_upload_file"
  | .download => "download_by_name"
  | .head => "head_by_name"
  | .hide => "b2_hide_file"
  | .listNames => "b2_list_file_names"

def errStr : Err → String
  | .os _ => "os"
  | .transport => "transport"
  | .status c _ => s!"status:{c}"
  | .auth => "auth"

def valJson : Val → Json
  | .unit => Json.null
  | .bytes b => Json.str (hex b)
  | .bool b => Json.bool b
  | .names l => natArr l

def resJson (r : OpRes) : Json :=
  let (o, v) := match r.out with
    | .ok v => ("ok", valJson v)
    | .err e => (errStr e, Json.null)
    | .fuel => ("fuel", Json.null)
  Json.mkObj [("outcome", Json.str o), ("value", v), ("requests", jnat r.requests), ("auths", jnat r.auths), ("sleeps", jnat r.sleeps),
    ("apis", Json.arr (r.apis.map (fun a => Json.str (apiStr a))).toArray)]

def boolField (j : Json) (k : String) (dflt : Bool) : Bool :=
  match j.getObjVal? k with
  | .ok (Json.bool b) => b
  | _ => dflt

def cfgJson (c : Cred.Cfg) : Json := Json.mkObj [
  ("credsFresh", Json.bool c.credsFresh), ("decorated", Json.bool c.decorated), ("requiresAuth", Json.bool c.requiresAuth),
  ("credsInAttempt", Json.bool Gen.retryB2UploadCredsInAttempt)]

/-- requests `retry.session*` -/
def handleRetryCred (op : String) (j : Json) : Except String Json := do
  match op with
  | "retry.sessioncfg" => pure (cfgJson cfgB2)
  | "retry.session" =>
    let fuel ← getNat j "fuel"
    let restricted := boolField j "restricted" false
    let c : Cred.Cfg := match j.getObjVal? "cfg" with
      | .ok o => { cfgB2 with credsFresh := boolField o "credsFresh" cfgB2.credsFresh }
      | .error _ => cfgB2
    let steps ← (← getArr j "steps").toList.mapM parseStep
    let rs := runSession c fuel steps (Sess.init restricted)
    pure (Json.mkObj [("results", Json.arr (rs.map resJson).toArray)])
  | _ => throw s!"unknown op {op}"

end Driver.HRetryCred

def Driver.handleRetryCred := Driver.HRetryCred.handleRetryCred
