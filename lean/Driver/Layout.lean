import Driver.Util
open Lean Replicat
namespace Driver

/-- requests `layout.* / restore.*` (see DESIGN.md Appendix A) -/
def handleLayout (op : String) (j : Json) : Except String Json := do
  match op with
  | _ => throw s!"unknown op {op}"

end Driver
