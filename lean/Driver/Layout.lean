import Driver.Util
import ReplicatModel.Layout
import ReplicatModel.Inflight
open Lean Replicat
namespace Driver.HLayout
def lexLE : List Nat → List Nat → Bool
  | [], _ => true
  | _ :: _, [] => false
  | a :: as, b :: bs => if a < b then true else if b < a then false else lexLE as bs

/-- `files.sort(key=lambda file: (file.stat().st_size, str(file)))` — paths as code-point lists -/
def sortKeyLE (a b : (Nat × List Nat) × Nat) : Bool :=
  if a.1.1 < b.1.1 then true else if b.1.1 < a.1.1 then false else lexLE a.1.2 b.1.2

def refJson (r : Ref) : Json := natArr [r.counter, r.lo, r.hi]

def getRefs (j : Json) (k : String) : Except String (List Ref) := do
  let a ← getArr j k
  a.toList.mapM fun x => do
    let l ← (← x.getArr?).toList.mapM (·.getNat?)
    match l with
    | [c, lo, hi] => pure ⟨c, lo, hi⟩
    | _ => throw "ref must be [counter, lo, hi]"

/-- requests `layout.*` / `restore.*` (see DESIGN.md Appendix A) -/
def handleLayout (op : String) (j : Json) : Except String Json := do
  match op with
  | "layout.records" =>
    -- files: [{"size": n, "path": [code points]}] in argument order; lens: chunk lengths; order: completion order of the chunks
    let align ← getNat j "align"
    let fs ← (← getArr j "files").toList.mapM fun x => do
      let sz ← getNat x "size"
      let p ← getNatList x "path"
      pure (sz, p)
    let lens ← getNatList j "lens"
    let order ← getNatList j "order"
    let sorted := (fs.zipIdx).mergeSort sortKeyLE
    let sizes := sorted.map (·.1.1)
    let lay := layout align sizes
    let spans := spansFrom 0 lens
    let recs := finalRecords sizes.length (records lay spans order)
    let perFile := (sorted.zipIdx).map fun (fi, k) =>
      let refs := lookupRec recs k
      let sp := lay[k]?.getD (0, 0)
      Json.mkObj [
        ("input_index", jnat fi.2),
        ("start", jnat sp.1), ("end", jnat sp.2),
        ("has_record", Json.bool refs.isSome),
        ("refs", Json.arr (((refs.getD []).mergeSort refLE).map refJson).toArray),
        ("tiling", Json.arr ((tiling (refs.getD [])).map (fun t => natArr [t.1, t.2.1, t.2.2])).toArray),
        ("size", jnat (planSize (refs.getD [])))]
    pure (Json.mkObj [("files", Json.arr perFile.toArray),
                      ("record_order", natArr (recs.map (fun e => (sorted[e.1]?.map (·.2)).getD 0))),
                      ("stream_length", jnat ((lay.getLast?.map (·.2)).getD 0))])
  | "layout.inflight" =>
    -- C14: as `layout.records`, but `_chunk_done (chunk j)` runs on the producer state in which the chunker had received
    -- `pieces[j]` pieces (blocks of `Gen.pieceSize` bytes / non-empty paddings): files started so far, the one being read
    -- ending where the read loop has advanced its record to
    let align ← getNat j "align"
    let fs ← (← getArr j "files").toList.mapM fun x => do
      let sz ← getNat x "size"
      let p ← getNatList x "path"
      pure (sz, p)
    let lens ← getNatList j "lens"
    let order ← getNatList j "order"
    let pieces ← getNatList j "pieces"
    let sorted := (fs.zipIdx).mergeSort sortKeyLE
    let sizes := sorted.map (·.1.1)
    let lay := layout align sizes
    let spans := spansFrom 0 lens
    let evs := Inflight.events align Gen.pieceSize sizes
    let tOf := fun (k : Nat) => Inflight.eventsForYields (pieces[k]?.getD 0) evs
    let stateOf := fun (k : Nat) => Inflight.stateAt align sizes (tOf k)
    let recs := finalRecords sizes.length (Inflight.recordsAt (fun k => (stateOf k).files) spans order)
    let causal := (List.range spans.length).all fun k => (spans[k]?.map (fun c => decide (c.2 ≤ (stateOf k).yielded))).getD true
    -- chunks attributed while the file they were (partly) cut from had not been read to its end yet (`.start` without `.finish`)
    let unfinished := ((List.range spans.length).filter fun k =>
      let pre := evs.take (tOf k)
      let started := (pre.filter fun e => e == Inflight.Ev.start).length
      let finished := (pre.filter fun e => e == Inflight.Ev.finish).length
      match spans[k]?, lay[started - 1]? with
      | some c, some f => decide (finished < started) && decide (max c.1 f.1 < min c.2 f.2)
      | _, _ => false).length
    -- … and among those: the record of that file still ended before its final end (three or more reads)
    let clipped := ((List.range spans.length).filter fun k => ((stateOf k).files.zip lay).any fun vf => decide (vf.1.2 < vf.2.2)).length
    let early := ((List.range spans.length).filter fun k => (stateOf k).files != lay).length
    let perFile := (sorted.zipIdx).map fun (fi, k) =>
      let refs := lookupRec recs k
      Json.mkObj [
        ("input_index", jnat fi.2),
        ("has_record", Json.bool refs.isSome),
        ("refs", Json.arr (((refs.getD []).mergeSort refLE).map refJson).toArray),
        ("tiling", Json.arr ((tiling (refs.getD [])).map (fun t => natArr [t.1, t.2.1, t.2.2])).toArray),
        ("size", jnat (planSize (refs.getD [])))]
    pure (Json.mkObj [("files", Json.arr perFile.toArray),
                      ("piece_lengths", natArr (evs.filterMap fun e => match e with
                        | .read n => if n != 0 then some n else none
                        | .pad n => if n != 0 then some n else none
                        | _ => none)),
                      ("block", jnat Gen.pieceSize),
                      ("end_advanced_in_read_loop", Json.bool Gen.streamEndAdvancedInReadLoop),
                      ("causal", Json.bool causal),
                      ("chunks_attributed_to_unfinished_file", jnat unfinished),
                      ("chunks_attributed_on_clipped_record", jnat clipped),
                      ("chunks_attributed_before_final_records", jnat early),
                      ("final_files", Json.bool ((Inflight.run evs).files == lay)),
                      ("stream_length", jnat (Inflight.run evs).yielded)])
  | "restore.apply" =>
    -- chunks: [hex] by counter-1; refs: [[counter,lo,hi]]; old: hex or null; order: permutation of plan positions
    let chunks ← (← getArr j "chunks").toList.mapM (fun x => do unhex (← x.getStr?))
    let refs ← getRefs j "refs"
    let old ← match j.getObjVal? "old" with
      | .ok (Json.str s) => (unhex s).map some
      | _ => pure none
    let order ← getNatList j "order"
    let pl := plan refs
    let ws := order.filterMap (fun k => pl[k]?)
    match restoreFile chunks old refs ws with
    | some b => pure (Json.mkObj [("result", Json.str (hex b)), ("plan", Json.arr (pl.map (fun e => natArr [e.1, e.2.1, e.2.2.1, e.2.2.2])).toArray)])
    | none => pure (Json.mkObj [("result", Json.null)])
  | "layout.flatten" =>
    let ex ← (← getArr j "expanded").toList.mapM (fun x => do (← x.getArr?).toList.mapM (·.getNat?))
    pure (Json.mkObj [("files", natArr (flattenArgs ex))])
  | _ => throw s!"unknown op {op}"

end Driver.HLayout

def Driver.handleLayout := Driver.HLayout.handleLayout