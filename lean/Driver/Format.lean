import Driver.Util
open Lean Replicat
namespace Driver.HFormat
/-- requests `format.*` -/
def handleFormat (op : String) (j : Json) : Except String Json := do
  match op with
  | _ => throw s!"unknown op {op}"

end Driver.HFormat

def Driver.handleFormat := Driver.HFormat.handleFormat