import Driver.Util
import ReplicatModel.Format
open Lean Replicat Replicat.Format
namespace Driver.HFormat
def parseReply (r : Except ParseErr (Str × Str)) : Json :=
  match r with
  | .ok (name, tag) => Json.mkObj [("name", Json.str (String.ofList name)), ("tag", Json.str (String.ofList tag)), ("error", Json.null)]
  | .error .notLocation => Json.mkObj [("error", Json.str "value_error")]
  | .error .index => Json.mkObj [("error", Json.str "index_error")]

/-- requests `format.*`: `format.chunk_location` / `format.snapshot_location` {name, tag} → {location};
`format.parse_chunk` / `format.parse_snapshot` {location} → {name, tag, error} -/
def handleFormat (op : String) (j : Json) : Except String Json := do
  match op with
  | "format.chunk_location" =>
    let name ← getStr j "name"
    let tag ← getStr j "tag"
    pure (Json.mkObj [("location", Json.str (String.ofList (getChunkLocation name.toList tag.toList)))])
  | "format.snapshot_location" =>
    let name ← getStr j "name"
    let tag ← getStr j "tag"
    pure (Json.mkObj [("location", Json.str (String.ofList (getSnapshotLocation name.toList tag.toList)))])
  | "format.parse_chunk" =>
    let loc ← getStr j "location"
    pure (parseReply (parseChunkLocation loc.toList))
  | "format.parse_snapshot" =>
    let loc ← getStr j "location"
    pure (parseReply (parseSnapshotLocation loc.toList))
  | _ => throw s!"unknown op {op}"

end Driver.HFormat

def Driver.handleFormat := Driver.HFormat.handleFormat