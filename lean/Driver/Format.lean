import Driver.Util
open Lean Replicat
namespace Driver

/-- requests `format.*` -/
def handleFormat (op : String) (j : Json) : Except String Json := do
  match op with
  | _ => throw s!"unknown op {op}"

end Driver
