import Driver.Sym
import ReplicatModel.SymSession
open Lean Replicat Replicat.Sym
/-! requests `symsess.*`: a plan of commands issued through ONE long-lived client object (`ReplicatModel/SymSession.lean`), in
the world of `sym.restore` (same descriptors for snapshots, locations and objects).
`symsess.run` : {encrypted, snaps, steps: [{cmd: "restore" | "list", target, store}]} →
  {dominates, steps: [reply of `sym.restore` for that step, computed by the client in the state the earlier steps left]} -/
namespace Driver.HSymSession
open Driver.HSym

def restoreReply (dom : Bool) (cl : Client) (p : Props) (store : Store) (tname : STerm) (isRestore : Bool) : Json :=
  let loadR := loadAll p tname (snapEntries store)
  let chunkErrs : List Json := match loadR with
    | .error _ => []
    | .ok bodies =>
      let sel := selectFiles (isort newestFirst bodies) []
      (sel.flatMap fun x => (isort refLE x.2.refs).filterMap fun r =>
        match x.1[r.index]? with
        | none => some (Json.str "malformed")
        | some d => match fetchChunkC dom cl p store d with
          | .error e => some (symErrJson e)
          | .ok _ => none)
  let base := [("load", match loadR with | .ok bs => jnat bs.length | .error e => symErrJson e),
               ("chunk_errors", Json.arr (if isRestore then chunkErrs.toArray else #[]))]
  let res : Outcome := if isRestore then restoreC dom cl p store tname else listC p store tname
  match res with
  | .ok out => Json.mkObj (base ++ [("outcome", Json.str "ok"),
      ("files", Json.arr (out.map (fun w => Json.mkObj [("path", termJson w.1), ("parts", partsJson w.2)])).toArray)])
  | .error e => Json.mkObj (base ++ [("outcome", Json.str "error"), ("error", symErrJson e)])

def handleSymSession (op : String) (j : Json) : Except String Json := do
  match op with
  | "symsess.run" =>
    let p := worldProps (← getBool j "encrypted")
    let dom := Gen.chunkDigestCheckDominates
    let snaps ← (← getArr j "snaps").toList.mapM fun x => do
      pure (⟨← getNatList x "table", ← parseData (← x.getObjVal? "data")⟩ : SnapDesc)
    let (_, replies) ← (← getArr j "steps").toList.foldlM (init := (Client.fresh, ([] : List Json))) fun (cl, acc) st => do
      let store ← (← getArr st "store").toList.mapM fun e => do
        match (← e.getArr?).toList with
        | [l, o] => pure ((← worldLoc p snaps l), (← worldObj p snaps o))
        | _ => throw "bad store entry"
      let target ← getNat st "target"
      let tname ← match snaps[target]? with
        | some d => pure (snapshotName (snapStoredOf p target d))
        | none => throw "unknown target"
      let isRestore := (← getStr st "cmd") == "restore"
      let reply := restoreReply dom cl p store tname isRestore
      let cl' := if isRestore then learn dom cl p store tname else cl
      pure (cl', acc ++ [reply])
    pure (Json.mkObj [("dominates", Json.bool dom), ("steps", Json.arr replies.toArray)])
  | "symsess.flags" => pure (Json.mkObj [("dominates", Json.bool Gen.chunkDigestCheckDominates)])
  | _ => throw s!"unknown op {op}"

end Driver.HSymSession

def Driver.handleSymSession := Driver.HSymSession.handleSymSession
