import Driver.Util
import ReplicatModel.IOStack
open Lean
namespace Driver
open Replicat.IOStack

namespace HIOStack

def optInt (j : Json) (k : String) : Except String (Option Int) :=
  match j.getObjVal? k with
  | .ok .null => .ok none
  | .ok v => do let i ← v.getInt?; pure (some i)
  | .error _ => .ok none

def parseOp (j : Json) : Except String Op := do
  let m ← getStr j "m"
  if m == "read" then pure (.read (← optInt j "n"))
  else if m == "write" then pure (.write (← getBytes j "d"))
  else if m == "seek" then pure (.seek (← getInt j "off") (← getNat j "whence"))
  else if m == "tell" then pure .tell
  else if m == "truncate" then pure (.truncate (← optInt j "n"))
  else throw s!"unknown method {m}"

def parseLayer (s : String) : Except String Layer :=
  if s == "tqdmReader" then pure .tqdmReader
  else if s == "tqdmWriter" then pure .tqdmWriter
  else if s == "callbackR" then pure (.callback false)
  else if s == "callbackW" then pure (.callback true)
  else if s == "limiter" then pure .limiter
  else throw s!"unknown layer {s}"

def parseFile (j : Json) : Except String File := do
  let k ← getStr j "kind"
  let kind ← if k == "bytesio" then pure Kind.bytesio else if k == "osfile" then pure Kind.osfile else throw "kind"
  pure { kind := kind, content := (← getBytes j "content"), pos := (← getNat j "pos"), cap := (← getNat j "cap") }

def resJson : Res → Json
  | .bytes b => Json.mkObj [("b", Json.str (hex b))]
  | .num n => Json.mkObj [("n", jnat n)]
  | .noMethod => Json.mkObj [("e", Json.str "noMethod")]
  | .invalid => Json.mkObj [("e", Json.str "invalid")]

def evJson : Ev → Json
  | .update n => Json.arr #[Json.str "update", jnat n]
  | .reset none => Json.arr #[Json.str "reset", Json.null]
  | .reset (some n) => Json.arr #[Json.str "reset", jnat n]
  | .pause w n => Json.arr #[Json.str "pause", jnat (if w then 1 else 0), jnat n]
  | .callback n => Json.arr #[Json.str "callback", jnat n]

def optNat : Option Nat → Json
  | none => Json.null
  | some n => jnat n

def common (j : Json) : Except String (List Layer × File × List Op) := do
  let ls ← (← getArr j "layers").toList.mapM (fun x => do parseLayer (← x.getStr?))
  let f ← parseFile j
  let ops ← match j.getObjVal? "ops" with
    | .ok (.arr a) => a.toList.mapM parseOp
    | _ => pure []
  pure (ls, f, ops)

def handleIOStack (op : String) (j : Json) : Except String Json := do
  let (ls, f, ops) ← common j
  if op == "iostack.run" then
    let r := runStack ls f ops
    let b := runBare ls f ops
    pure (Json.mkObj [("content", Json.str (hex r.1.content)), ("pos", jnat r.1.pos),
      ("results", Json.arr (r.2.1.map resJson).toArray), ("events", Json.arr (r.2.2.map evJson).toArray),
      ("count", jnat (trackerN 0 r.2.2)), ("total", optNat (trackerTotal none r.2.2)),
      ("bare_agrees", Json.bool (decide (b.1 = r.1 ∧ b.2 = r.2.1)))])
  else if op == "iostack.drain" then
    let cs ← getInt j "cs"
    let rewind ← getBool j "rewind"
    let pre := runStack ls f ops
    let d := if rewind then rewindDrain ls cs pre.1 else drain ls cs pre.1
    pure (Json.mkObj [("content", Json.str (hex d.file.content)), ("pos", jnat d.file.pos),
      ("pre_results", Json.arr (pre.2.1.map resJson).toArray),
      ("pieces", Json.arr (d.pieces.map (fun p => Json.str (hex p))).toArray), ("ended", Json.bool d.ended),
      ("events", Json.arr (d.events.map evJson).toArray)])
  else if op == "iostack.stacks" then
    pure (Json.mkObj [("sites", Json.arr (siteTable.map (fun p => Json.arr #[Json.str p.1, Json.arr (p.2.map Json.str).toArray])).toArray)])
  else throw s!"unknown op {op}"

end HIOStack

def handleIOStack (op : String) (j : Json) : Except String Json := HIOStack.handleIOStack op j

end Driver
