import Driver.Util
import Driver.Repo
import ReplicatModel.RepoListing
open Lean Replicat Replicat.Repo
/-! requests `repolist.*`: destructive commands over a listing that fails or is partial (ReplicatModel/RepoListing.lean) -/
namespace Driver.HRepoListing
open Driver.HRepo

def parseArea (s : String) : Except String Area :=
  match s with
  | "snaps" => pure .snaps
  | "chunks" => pure .chunks
  | a => throw s!"bad area {a}"

/-- `"fault": null | {"area": "snaps"|"chunks", "kind": "top"|"walkOpen"|"walkIter"|"raises", "lost": [names]}` -/
def parseFault (j : Json) : Except String (Option ScanFault) := do
  match j.getObjVal? "fault" with
  | .error _ => pure none
  | .ok Json.null => pure none
  | .ok f =>
    let area ← parseArea (← getStr f "area")
    let lost : List Repo.Name ← match f.getObjVal? "lost" with
      | .ok (Json.arr a) => a.toList.mapM parseName
      | _ => pure []
    let p : Repo.Name → Bool := fun n => lost.contains n
    match (← getStr f "kind") with
    | "top" => pure (some ⟨area, .top⟩)
    | "walkOpen" => pure (some ⟨area, .walkOpen p⟩)
    | "walkIter" => pure (some ⟨area, .walkIter p⟩)
    | "raises" => pure (some ⟨area, .raises p⟩)
    | k => throw s!"bad fault kind {k}"

/-- `"flags"` absent = the flags extracted from the source tree on this run -/
def parseFlags (j : Json) : Except String ListFlags := do
  match j.getObjVal? "flags" with
  | .ok (Json.obj _) =>
    let f ← j.getObjVal? "flags"
    pure ⟨← getBool f "walkOpen", ← getBool f "walkIter", ← getBool f "repo", ← getBool f "topSwallow"⟩
  | _ => pure ListFlags.gen

def flagsJson (F : ListFlags) : Json :=
  Json.mkObj [("walkOpen", Json.bool F.walkOpen), ("walkIter", Json.bool F.walkIter), ("repo", Json.bool F.repo),
              ("topSwallow", Json.bool F.topSwallow), ("safe", Json.bool F.safe)]

def lerrJson : LErr → Json
  | .listing => Json.str "listing"
  | .cmd e => errJson e

def handleRepoListing (op : String) (j : Json) : Except String Json := do
  let enc ← (getBool j "enc" <|> pure true)
  match op with
  | "repolist.step" =>
    let s ← parseStore (← j.getObjVal? "store")
    let o ← parseOp (← j.getObjVal? "cmd")
    let flt ← parseFault j
    let F ← parseFlags j
    let err : Json := match errL F enc flt s o with | none => Json.null | some e => lerrJson e
    pure (Json.mkObj [("store", storeJson (stepL F enc flt s o)), ("error", err), ("flags", flagsJson F),
                      ("fault_free_store", storeJson (step enc s o))])
  | "repolist.flags" => pure (flagsJson ListFlags.gen)
  | _ => throw s!"unknown op {op}"

end Driver.HRepoListing

def Driver.handleRepoListing := Driver.HRepoListing.handleRepoListing
