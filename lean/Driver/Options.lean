import Driver.Util
import ReplicatModel.Options
open Lean Replicat Replicat.Gen Replicat.Options
namespace Driver.HOptions
/-! requests `options.*` (DESIGN.md Appendix A): the model of `main()`'s option pipeline for one option row.
Values are whatever JSON the harness uses for Python values (`{"t": "str", "v": …}`); what the leaf functions
(`guess_type`, `parse_repository`, …) return on them is supplied in the request (`co`: computed by the REAL functions
in the harness), because the model is parametric in them. -/

def tyName : OptTy → String
  | .none => "none" | .parseRepository => "parseRepository" | .path => "path"
  | .naturalNumberCli => "naturalNumberCli" | .naturalNumberCfg => "naturalNumberCfg"
  | .readBytesCli => "readBytesCli" | .readBytesCfg => "readBytesCfg" | .fsencode => "fsencode"
  | .strEncode => "strEncode" | .checkBoolean => "checkBoolean" | .guessType => "guessType"
  | .convertLogLevel => "convertLogLevel" | .rateLimit => "rateLimit" | .parseList => "parseList"
  | .environb => "environb" | .other => "other"

def cliKindName : OptCliKind → String
  | .typed => "typed" | .constNone => "constNone" | .constTrue => "constTrue" | .multi => "multi" | .other => "other"

def fileKindName : OptFileKind → String
  | .plain => "plain" | .nullIfTrue => "nullIfTrue" | .other => "other"

def errName : Err → String
  | .argparse => "argparse" | .invalidConfig => "invalidConfig" | .configValue => "configValue" | .model => "model"

def missingMarker : Json := Json.str "<<no entry in the co table>>"

def isType (v : Json) (t : String) : Bool :=
  match v.getObjVal? "t" with
  | .ok (Json.str s) => s == t
  | _ => false

/-- the semantics carried by a request -/
def semOf (table : List (String × Option Json)) : Sem Json where
  co ty v :=
    match table.find? (fun e => e.1 == tyName ty ++ "|" ++ v.compress) with
    | some (_, r) => r
    | none => some missingMarker
  isStr v := isType v "str"
  truthy v := match v.getObjVal? "v" with
    | .ok (Json.bool b) => b
    | _ => false
  noneV := Json.mkObj [("t", Json.str "none")]
  trueV := Json.mkObj [("t", Json.str "bool"), ("v", Json.bool true)]

def getPairs (j : Json) (k : String) : Except String (List (Nat × Json)) := do
  match j.getObjVal? k with
  | .error _ => pure []
  | .ok Json.null => pure []
  | .ok v =>
    let a ← v.getArr?
    a.toList.mapM (fun p => do
      let pa ← p.getArr?
      match pa.toList with
      | [i, raw] => pure ((← i.getNat?), raw)
      | _ => throw "pair expected")

def getOptVal (j : Json) (k : String) : Option Json :=
  match j.getObjVal? k with
  | .ok Json.null => none
  | .ok v => some v
  | .error _ => none

def exceptJson (r : Except Err Json) : Json :=
  match r with
  | .ok v => Json.mkObj [("ok", v)]
  | .error e => Json.mkObj [("error", Json.str (errName e))]

def rowJson (r : OptRow) : Json :=
  Json.mkObj [
    ("dest", Json.str r.dest), ("scope", jnat r.scope), ("owner", Json.str r.owner),
    ("cli", Json.arr (r.cli.map (fun v => Json.mkObj [("flag", Json.str v.flag), ("flags", Json.arr (v.flags.map Json.str).toArray),
      ("kind", Json.str (cliKindName v.kind)), ("ty", Json.str (tyName v.ty)),
      ("group", match v.group with | some g => jnat g | none => Json.null), ("dflt", jnat v.dflt)])).toArray),
    ("env", match r.env with | some (n, ty) => Json.mkObj [("var", Json.str n), ("ty", Json.str (tyName ty))] | none => Json.null),
    ("file", Json.arr (r.file.map (fun f => Json.mkObj [("key", Json.str f.key), ("kind", Json.str (fileKindName f.kind)),
      ("ty", Json.str (tyName f.ty))])).toArray),
    ("inCfg", Json.bool r.inCfg), ("early", Json.bool r.early), ("builtinKind", jnat r.builtinKind)]

def findRow (owner dest : String) : Except String OptRow :=
  match optRows.find? (fun r => r.owner == owner && r.dest == dest) with
  | some r => pure r
  | none => throw s!"no row {owner}/{dest}"

/-- the row a request speaks about: a row of the generated table, or — when the request carries `custom` (options of a
backend that is not in the table: the synthetic custom backends of the harness) — the instance of the schema
`customBackendRow` with the given names -/
def rowOfRequest (j : Json) : Except String OptRow := do
  match j.getObjVal? "custom" with
  | .ok (Json.obj _) =>
    let c ← j.getObjVal? "custom"
    pure (customBackendRow (← getStr c "owner") (← getStr c "dest") (← getStr c "flag") (← getStr c "env") (← getStr c "key")
      (← (← c.getObjVal? "builtinKind").getNat?))
  | _ => findRow (← getStr j "owner") (← getStr j "dest")

/-- a class-declaration chain of a request: `[{"name": …, "kw": …|null, "attr": …|null}, …]`, the class first -/
def chainOfRequest (j : Json) : Except String (List BackendClass) := do
  let arr ← getArr j "chain"
  arr.toList.mapM (fun e => do
    let optStr (k : String) : Except String (Option String) :=
      match e.getObjVal? k with
      | .ok (Json.str s) => pure (some s)
      | _ => pure none
    pure ({ name := ← getStr e "name", kwShort := ← optStr "kw", attrShort := ← optStr "attr" } : BackendClass))

def ruleName : OptShortNameRule → String
  | .className => "className" | .ownAttr => "ownAttr" | .inheritedAttr => "inheritedAttr" | .other => "other"

def findCmd (name : String) : Except String OptCommand :=
  match optCommands.find? (fun c => c.name == name || c.aliases.contains name) with
  | some c => pure c
  | none => throw s!"no command {name}"

def handleOptions (op : String) (j : Json) : Except String Json := do
  match op with
  | "options.table" =>
    pure (Json.mkObj [
      ("rows", Json.arr (optRows.map rowJson).toArray),
      ("commands", Json.arr (optCommands.map (fun c => Json.mkObj [("name", Json.str c.name),
        ("aliases", Json.arr (c.aliases.map Json.str).toArray), ("setDefaults", Json.bool c.setDefaults),
        ("parents", Json.bool c.parents)])).toArray),
      ("fileMutex", Json.arr (optFileMutex.map (fun g => Json.arr (g.map Json.str).toArray)).toArray),
      ("steps", jnat optSteps.length)])
  | "options.resolve" =>
    let cmd ← findCmd (← getStr j "command")
    let row ← rowOfRequest j
    let coArr ← getArr j "co"
    let table ← coArr.toList.mapM (fun e => do
      let ea ← e.getArr?
      match ea.toList with
      | [ty, raw, res] => pure ((← ty.getStr?) ++ "|" ++ raw.compress, (if res.isNull then none else some res))
      | _ => throw "co entry: [ty, raw, result|null] expected")
    let sem := semOf table
    let builtin ← j.getObjVal? "builtin"
    let inp : Inputs Json := { cli := ← getPairs j "cli", env := getOptVal j "env", prof := ← getPairs j "prof",
                                dflt := ← getPairs j "dflt", builtin := builtin }
    let res := pipeline sem cmd row inp
    let resJ := match res with
      | .ok o => Json.mkObj [("ok", Json.mkObj [("final", o.final), ("atLoad", o.atLoad)])]
      | .error e => Json.mkObj [("error", Json.str (errName e))]
    -- the specification and the hypotheses of the theorems, when the inputs are "simple"
    let simple : Option (Simple Json) :=
      if inp.cli.length ≤ 1 && inp.prof.length ≤ 1 && inp.dflt.length ≤ 1 then
        some { cli := inp.cli.head?, env := inp.env, prof := inp.prof.head?, dflt := inp.dflt.head?, builtin := builtin }
      else none
    let extra := match simple with
      | some s => [("spec", exceptJson (spec sem row s)), ("valid", Json.bool (valid sem row s)),
                   ("fileOkProf", Json.bool (fileOk sem row s.prof)), ("fileOkDflt", Json.bool (fileOk sem row s.dflt))]
      | none => []
    pure (Json.mkObj ([("pipeline", resJ)] ++ extra))
  | "options.custom_row" =>
    -- the schema instance for one option of an arbitrary backend (as the model sees it)
    pure (rowJson (← rowOfRequest j))
  | "options.class_row" =>
    -- one option of a backend class given by its declaration chain: names derived by the model (`classBackendRow`)
    let chain ← chainOfRequest j
    let row := classBackendRow optShortNameRule chain (← getStr j "owner") (← getStr j "dest") (← (← j.getObjVal? "builtinKind").getNat?)
    pure (Json.mkObj [("rule", Json.str (ruleName optShortNameRule)),
      ("shortName", match shortNameOf optShortNameRule chain with | some s => Json.str s | none => Json.null),
      ("row", match row with | some r => rowJson r | none => Json.null)])
  | "options.two_flags" =>
    -- argparse's verdict on two flags of one sub-command
    let cmd ← findCmd (← getStr j "command")
    let fa ← getStr j "a"
    let fb ← getStr j "b"
    match (flagsOf cmd).find? (fun v => v.flags.contains fa), (flagsOf cmd).find? (fun v => v.flags.contains fb) with
    | some a, some b => pure (Json.mkObj [("rejected", Json.bool (match twoFlags a b with | .ok _ => false | .error _ => true))])
    | _, _ => throw "unknown flag"
  | _ => throw s!"unknown op {op}"

end Driver.HOptions

def Driver.handleOptions := Driver.HOptions.handleOptions