import Driver.Util
import ReplicatModel.Settings
open Lean Replicat Replicat.Gen Replicat.Settings
namespace Driver.HSettings
/-! requests `settings.*` (DESIGN.md Appendix A).

Typed values cross the tie as tagged arrays:
`["i", n] ["b", true] ["f", num, den] ["nan"] ["s", "text"] ["none"] ["m", [[key, value], …]]`. -/

def tagOf (j : Json) : Except String (String × Array Json) := do
  let a ← j.getArr?
  match a[0]? with
  | some t => pure (← t.getStr?, a)
  | none => throw "empty tagged value"

def parseVal (j : Json) : Except String (Option Val) := do
  let (t, a) ← tagOf j
  match t with
  | "i" => pure (some (.int (← (a[1]?.getD Json.null).getInt?)))
  | "b" => pure (some (.bool (← (a[1]?.getD Json.null).getBool?)))
  | "f" =>
    let n ← (a[1]?.getD Json.null).getInt?
    let d ← (a[2]?.getD Json.null).getNat?
    if d == 0 then throw "zero denominator" else pure (some (.float ((n : Rat) / (d : Rat))))
  | "nan" => pure (some .nan)
  | "s" => pure (some (.str (← (a[1]?.getD Json.null).getStr?)))
  | "none" => pure (some .none)
  | "m" => pure none
  | _ => throw s!"unknown value tag {t}"

def mapEntries (j : Json) : Except String (List (String × Json)) := do
  let (t, a) ← tagOf j
  if t != "m" then throw "not a mapping"
  let kvs ← (a[1]?.getD Json.null).getArr?
  kvs.toList.mapM (fun kv => do
    let p ← kv.getArr?
    pure (← (p[0]?.getD Json.null).getStr?, p[1]?.getD Json.null))

def parseArg (j : Json) : Except String Arg := do
  match ← parseVal j with
  | some v => pure (.val v)
  | none => pure .mapping

def parseV2 (j : Json) : Except String V2 := do
  match ← parseVal j with
  | some v => pure (.val v)
  | none => do
    let es ← mapEntries j
    pure (.args (← es.mapM (fun (k, v) => do pure (k, ← parseArg v))))

def parseV1 (j : Json) : Except String V1 := do
  match ← parseVal j with
  | some v => pure (.val v)
  | none => do
    let es ← mapEntries j
    pure (.m (← es.mapM (fun (k, v) => do pure (k, ← parseV2 v))))

def parseSettings (j : Json) : Except String (Option Settings) := do
  if j.isNull then pure none
  else
    let es ← mapEntries j
    pure (some (← es.mapM (fun (k, v) => do pure (k, ← parseV1 v))))

def valJson : Val → Json
  | .int i => Json.arr #[Json.str "i", jint i]
  | .bool b => Json.arr #[Json.str "b", Json.bool b]
  | .float q => Json.arr #[Json.str "f", jint q.num, jnat q.den]
  | .nan => Json.arr #[Json.str "nan"]
  | .str s => Json.arr #[Json.str "s", Json.str s]
  | .none => Json.arr #[Json.str "none"]

def argJson : Arg → Json
  | .val v => valJson v
  | .mapping => Json.arr #[Json.str "m"]

/-- `dict(args, name=type.__name__)` as a JSON object (the harness compares objects, not order) -/
def rowArgsJson (p : AdapterRow × Args) : Json :=
  Json.mkObj ((p.2.map (fun kv => (kv.1, argJson kv.2))) ++ [("name", valJson (.str p.1.name))])

def errName : Err → String
  | .replicatError => "replicat_error"
  | .lookupError => "lookup_error"
  | .typeError => "type_or_value_error"
  | .valueError => "type_or_value_error"
  | .overflowError => "type_or_value_error"
  | .attributeError => "attribute_error"
  | .keyError => "key_error"
  | .memoryError => "other(MemoryError)"
  | .other w => "model:" ++ w

def stateJson (st : St) (err : Option Err) (settings : Option Settings) : Json :=
  let cfg := match st.config with
    | none => Json.null
    | some c => Json.mkObj ([("hashing", rowArgsJson c.hashing), ("chunking", rowArgsJson c.chunking)] ++
        (match c.cipher with
         | none => []
         | some ci => [("encryption", Json.mkObj [("cipher", rowArgsJson ci)])]))
  let kdf := match st.key with
    | none => Json.null
    | some k => rowArgsJson (k.userKdf.row, k.userKdf.args)
  Json.mkObj [
    ("accept", Json.bool err.isNone),
    ("error", match err with | none => Json.null | some e => Json.str (errName e)),
    ("puts", Json.arr (st.puts.map Json.str).toArray),
    ("config", if err.isNone then cfg else Json.null),
    ("kdf", if err.isNone then kdf else Json.null),
    ("encrypted", Json.bool st.encrypted),
    ("usable", Json.bool (err.isNone && usable st)),
    ("why", Json.arr ((if err.isNone then unusableWhy st else []).map Json.str).toArray),
    ("checked_elsewhere", Json.bool (checkedElsewhere settings))]

def parseKeyOp (j : Json) : Except String (KeyOp Nat) := do
  let kind ← getStr j "kind"
  let kdf ← getNat j "kdf"
  match kind with
  | "independent" => pure (.independent (← getNat j "pw") kdf)
  | "shared" => pure (.shared (← getNat j "using") (← getNat j "using_pw") (← getNat j "pw") kdf)
  | "clone" => pure (.clone (← getNat j "using") (← getNat j "using_pw") kdf)
  | _ => throw s!"unknown key op {kind}"

def handleSettings (op : String) (j : Json) : Except String Json := do
  match op with
  | "settings.decide" =>
    let s ← parseSettings (← j.getObjVal? "settings")
    let pw ← getBool j "password"
    let (st, err) := runInit s pw
    pure (stateJson st err s)
  | "settings.addkey" =>
    -- the repository was created with `repo_settings` (must be acceptable); then add_key(settings, password, shared, unlocked)
    let rs ← parseSettings (← j.getObjVal? "repo_settings")
    let s ← parseSettings (← j.getObjVal? "settings")
    let pw ← getBool j "password"
    let shared ← getBool j "shared"
    let unlocked ← getBool j "unlocked"
    let (st, err) := runInit rs true
    match err, st.props with
    | none, some props =>
      match addKey s pw shared unlocked props with
      | .ok k => pure (Json.mkObj [("accept", Json.bool true), ("error", Json.null), ("kdf", rowArgsJson (k.userKdf.row, k.userKdf.args)),
                                   ("kdf_usable", Json.bool (kdfUsable (k.userKdf.row, k.userKdf.args))), ("uploads", Json.bool addKeyUploads)])
      | .error e => pure (Json.mkObj [("accept", Json.bool false), ("error", Json.str (errName e)), ("kdf", Json.null),
                                      ("kdf_usable", Json.bool false), ("uploads", Json.bool addKeyUploads)])
    | _, _ => throw "repo_settings are not accepted by the model"
  | "settings.keychain" =>
    -- symbolic key files: κ = Nat (an id per KDF parameter set), `valid` = ids the library accepts
    let valid ← getNatList j "valid"
    let init ← j.getObjVal? "init"
    let ops ← (← getArr j "ops").toList.mapM parseKeyOp
    let pws ← getNatList j "passwords"
    let ring := runKeyOps (fun k => valid.contains k) (initRing (← getNat init "pw") (← getNat init "kdf")) ops
    let keys := ring.keys.map (fun (k, p) => Json.mkObj [("family", jnat k.family), ("pw", jnat p), ("kdf", jnat k.kdf)])
    let matrix := ring.keys.map (fun (k, _) => Json.arr (pws.map (fun p => Json.bool (unlockKey k p).isSome)).toArray)
    pure (Json.mkObj [("keys", Json.arr keys.toArray), ("matrix", Json.arr matrix.toArray)])
  | "settings.table" =>
    pure (Json.mkObj [("adapters", Json.arr (adapterTable.map (fun r => Json.mkObj [
            ("name", Json.str r.name), ("kinds", Json.arr (r.kinds.map Json.str).toArray),
            ("params", Json.arr (r.params.map (fun p => Json.str p.1)).toArray), ("guards", jnat r.guards.length)])).toArray),
          ("stages", Json.arr (initStages.map (fun p => Json.str (reprStr p.1 ++ (if p.2 then "?" else "")))).toArray),
          ("kind_checks", Json.arr (kindChecks.map (fun p => Json.str (p.1 ++ ":" ++ p.2))).toArray),
          ("witness_hypotheses", Json.mkObj [
            ("blake2b_has_no_guard", Json.bool (guardCount "blake2b" == 0)),
            ("gclmulchunker_has_one_guard", Json.bool (guardCount "gclmulchunker" == 1)),
            ("hashing_kind_unchecked", Json.bool (!kindChecked "hashing")),
            ("chunking_kind_unchecked", Json.bool (!kindChecked "chunking"))]),
          ("d12_fixed_in_source", Json.bool d12FixedInSource),
          ("recognised", Json.bool settingsRecognised)])
  | _ => throw s!"unknown op {op}"

end Driver.HSettings

def Driver.handleSettings := Driver.HSettings.handleSettings