import Driver.Util
import ReplicatModel.Settings
import ReplicatModel.KeyFileIO
import ReplicatModel.SettingsCli
open Lean Replicat Replicat.Gen Replicat.Settings
namespace Driver.HSettings
/-! requests `settings.*` (DESIGN.md Appendix A).

Typed values cross the tie as tagged arrays:
`["i", n] ["b", true] ["f", num, den] ["nan"] ["s", "text"] ["none"] ["m", [[key, value], …]]`. -/

def tagOf (j : Json) : Except String (String × Array Json) := do
  let a ← j.getArr?
  match a[0]? with
  | some t => pure (← t.getStr?, a)
  | none => throw "empty tagged value"

def parseVal (j : Json) : Except String (Option Val) := do
  let (t, a) ← tagOf j
  match t with
  | "i" => pure (some (.int (← (a[1]?.getD Json.null).getInt?)))
  | "b" => pure (some (.bool (← (a[1]?.getD Json.null).getBool?)))
  | "f" =>
    let n ← (a[1]?.getD Json.null).getInt?
    let d ← (a[2]?.getD Json.null).getNat?
    if d == 0 then throw "zero denominator" else pure (some (.float ((n : Rat) / (d : Rat))))
  | "nan" => pure (some .nan)
  | "s" => pure (some (.str (← (a[1]?.getD Json.null).getStr?)))
  | "none" => pure (some .none)
  | "m" => pure none
  | _ => throw s!"unknown value tag {t}"

def mapEntries (j : Json) : Except String (List (String × Json)) := do
  let (t, a) ← tagOf j
  if t != "m" then throw "not a mapping"
  let kvs ← (a[1]?.getD Json.null).getArr?
  kvs.toList.mapM (fun kv => do
    let p ← kv.getArr?
    pure (← (p[0]?.getD Json.null).getStr?, p[1]?.getD Json.null))

def parseArg (j : Json) : Except String Arg := do
  match ← parseVal j with
  | some v => pure (.val v)
  | none => pure .mapping

def parseV2 (j : Json) : Except String V2 := do
  match ← parseVal j with
  | some v => pure (.val v)
  | none => do
    let es ← mapEntries j
    pure (.args (← es.mapM (fun (k, v) => do pure (k, ← parseArg v))))

def parseV1 (j : Json) : Except String V1 := do
  match ← parseVal j with
  | some v => pure (.val v)
  | none => do
    let es ← mapEntries j
    pure (.m (← es.mapM (fun (k, v) => do pure (k, ← parseV2 v))))

def parseSettings (j : Json) : Except String (Option Settings) := do
  if j.isNull then pure none
  else
    let es ← mapEntries j
    pure (some (← es.mapM (fun (k, v) => do pure (k, ← parseV1 v))))

def valJson : Val → Json
  | .int i => Json.arr #[Json.str "i", jint i]
  | .bool b => Json.arr #[Json.str "b", Json.bool b]
  | .float q => Json.arr #[Json.str "f", jint q.num, jnat q.den]
  | .nan => Json.arr #[Json.str "nan"]
  | .str s => Json.arr #[Json.str "s", Json.str s]
  | .none => Json.arr #[Json.str "none"]

def argJson : Arg → Json
  | .val v => valJson v
  | .mapping => Json.arr #[Json.str "m"]

/-- `dict(args, name=type.__name__)` as a JSON object (the harness compares objects, not order) -/
def rowArgsJson (p : AdapterRow × Args) : Json :=
  Json.mkObj ((p.2.map (fun kv => (kv.1, argJson kv.2))) ++ [("name", valJson (.str p.1.name))])

def errName : Err → String
  | .replicatError => "replicat_error"
  | .lookupError => "lookup_error"
  | .typeError => "type_or_value_error"
  | .valueError => "type_or_value_error"
  | .overflowError => "type_or_value_error"
  | .attributeError => "attribute_error"
  | .keyError => "key_error"
  | .memoryError => "other(MemoryError)"
  | .other w => "model:" ++ w

def stateJson (st : St) (err : Option Err) (settings : Option Settings) : Json :=
  let cfg := match st.config with
    | none => Json.null
    | some c => Json.mkObj ([("hashing", rowArgsJson c.hashing), ("chunking", rowArgsJson c.chunking)] ++
        (match c.cipher with
         | none => []
         | some ci => [("encryption", Json.mkObj [("cipher", rowArgsJson ci)])]))
  let kdf := match st.key with
    | none => Json.null
    | some k => rowArgsJson (k.userKdf.row, k.userKdf.args)
  Json.mkObj [
    ("accept", Json.bool err.isNone),
    ("error", match err with | none => Json.null | some e => Json.str (errName e)),
    ("puts", Json.arr (st.puts.map Json.str).toArray),
    ("config", if err.isNone then cfg else Json.null),
    ("kdf", if err.isNone then kdf else Json.null),
    ("encrypted", Json.bool st.encrypted),
    ("usable", Json.bool (err.isNone && usable st)),
    ("why", Json.arr ((if err.isNone then unusableWhy st else []).map Json.str).toArray),
    ("checked_elsewhere", Json.bool (checkedElsewhere settings))]

def parseKeyOp (j : Json) : Except String (KeyOp Nat) := do
  let kind ← getStr j "kind"
  let kdf ← getNat j "kdf"
  match kind with
  | "independent" => pure (.independent (← getNat j "pw") kdf)
  | "shared" => pure (.shared (← getNat j "using") (← getNat j "using_pw") (← getNat j "pw") kdf)
  | "clone" => pure (.clone (← getNat j "using") (← getNat j "using_pw") kdf)
  | _ => throw s!"unknown key op {kind}"

/-! key files on disk (`ReplicatModel/KeyFileIO.lean`) -/

def modeName : WriteMode → String
  | .truncate => "truncate" | .replace => "replace" | .inPlace => "inPlace" | .append => "append" | .exclusive => "exclusive"

def parseMode (s : String) : Except String WriteMode :=
  match s with
  | "truncate" => pure .truncate | "replace" => pure .replace | "inPlace" => pure .inPlace
  | "append" => pure .append | "exclusive" => pure .exclusive
  | _ => throw s!"unknown write mode {s}"

def optNat (j : Json) (k : String) : Except String (Option Nat) :=
  match j.getObjVal? k with
  | .ok v => if v.isNull then pure none else do pure (some (← v.getNat?))
  | .error _ => pure none

/-- the serialisation of "the next key handed out" — the harness passes the real files' serialised keys in production order -/
def serAt (sers : Array Replicat.Bytes) (i : Nat) : KeyFile Nat → Replicat.Bytes := fun _ => sers[i]?.getD []

def diskJson (d : KeyDisk Nat UInt8) : Json :=
  let paths := (d.files.map (·.1)).eraseDups.mergeSort (· ≤ ·)
  let indexOf (k : KeyFile Nat) : Json := match d.ring.keys.findIdx? (fun kp => kp.1.salt == k.salt) with
    | some i => jnat i | none => Json.null
  Json.mkObj [
    ("keys", jnat d.ring.keys.length),
    ("files", Json.arr (paths.map (fun p => Json.arr #[jnat p, Json.str (hex ((d.files.lookup p).getD []))])).toArray),
    ("holder", Json.arr (((d.holder.map (·.1)).eraseDups.mergeSort (· ≤ ·)).map (fun p =>
        Json.arr #[jnat p, match d.holder.lookup p with | some kp => indexOf kp.1 | none => Json.null])).toArray)]

def handleSettings (op : String) (j : Json) : Except String Json := do
  match op with
  | "settings.decide" =>
    let s ← parseSettings (← j.getObjVal? "settings")
    let pw ← getBool j "password"
    let (st, err) := runInit s pw
    pure (stateJson st err s)
  | "settings.addkey" =>
    -- the repository was created with `repo_settings` (must be acceptable); then add_key(settings, password, shared, unlocked)
    let rs ← parseSettings (← j.getObjVal? "repo_settings")
    let s ← parseSettings (← j.getObjVal? "settings")
    let pw ← getBool j "password"
    let shared ← getBool j "shared"
    let unlocked ← getBool j "unlocked"
    let (st, err) := runInit rs true
    match err, st.props with
    | none, some props =>
      match addKey s pw shared unlocked props with
      | .ok k => pure (Json.mkObj [("accept", Json.bool true), ("error", Json.null), ("kdf", rowArgsJson (k.userKdf.row, k.userKdf.args)),
                                   ("kdf_usable", Json.bool (kdfUsable (k.userKdf.row, k.userKdf.args))), ("uploads", Json.bool addKeyUploads)])
      | .error e => pure (Json.mkObj [("accept", Json.bool false), ("error", Json.str (errName e)), ("kdf", Json.null),
                                      ("kdf_usable", Json.bool false), ("uploads", Json.bool addKeyUploads)])
    | _, _ => throw "repo_settings are not accepted by the model"
  | "settings.keychain" =>
    -- symbolic key files: κ = Nat (an id per KDF parameter set), `valid` = ids the library accepts
    let valid ← getNatList j "valid"
    let init ← j.getObjVal? "init"
    let ops ← (← getArr j "ops").toList.mapM parseKeyOp
    let pws ← getNatList j "passwords"
    let ring := runKeyOps (fun k => valid.contains k) (initRing (← getNat init "pw") (← getNat init "kdf")) ops
    let keys := ring.keys.map (fun (k, p) => Json.mkObj [("family", jnat k.family), ("pw", jnat p), ("kdf", jnat k.kdf)])
    let matrix := ring.keys.map (fun (k, _) => Json.arr (pws.map (fun p => Json.bool (unlockKey k p).isSome)).toArray)
    pure (Json.mkObj [("keys", Json.arr keys.toArray), ("matrix", Json.arr matrix.toArray)])
  | "settings.keydisk" =>
    -- init (-o out | printed) + chain of add-key invocations, each printed or written to a path, over pre-existing files;
    -- the way the path is opened comes from the regenerated source facts unless the request overrides it
    let valid ← getNatList j "valid"
    let init ← j.getObjVal? "init"
    let mInit ← match j.getObjVal? "mode_init" with | .ok v => parseMode (← v.getStr?) | .error _ => pure keyWriteInit
    let mAdd ← match j.getObjVal? "mode_addkey" with | .ok v => parseMode (← v.getStr?) | .error _ => pure keyWriteAddKey
    let sers ← (← getArr j "ser").mapM (fun v => do unhex (← v.getStr?))
    let files0 ← (← getArr j "files0").toList.mapM (fun v => do
      let a ← v.getArr?
      pure ((← (a[0]?.getD Json.null).getNat?), (← unhex (← (a[1]?.getD Json.null).getStr?))))
    let ops ← (← getArr j "ops").toList.mapM (fun o => do pure ({ op := ← parseKeyOp o, out := ← optNat o "out" } : KeyOpAt Nat))
    let modes := Json.mkObj [("init", Json.str (modeName mInit)), ("add_key", Json.str (modeName mAdd)), ("after_checks", Json.bool keyWriteAfterChecks)]
    match initDisk mInit (serAt sers 0) files0 (← getNat init "pw") (← getNat init "kdf") (← optNat init "out") with
    | none => pure (Json.mkObj [("init_ok", Json.bool false), ("modes", modes)])
    | some d0 =>
      let d := ops.foldl (fun d o => stepDisk mAdd (serAt sers d.ring.keys.length) (fun k => valid.contains k) d o) d0
      pure ((diskJson d).mergeObj (Json.mkObj [("init_ok", Json.bool true), ("modes", modes)]))
  | "settings.table" =>
    pure (Json.mkObj [("adapters", Json.arr (adapterTable.map (fun r => Json.mkObj [
            ("name", Json.str r.name), ("kinds", Json.arr (r.kinds.map Json.str).toArray),
            ("params", Json.arr (r.params.map (fun p => Json.str p.1)).toArray), ("guards", jnat r.guards.length)])).toArray),
          ("stages", Json.arr (initStages.map (fun p => Json.str (reprStr p.1 ++ (if p.2 then "?" else "")))).toArray),
          ("kind_checks", Json.arr (kindChecks.map (fun p => Json.str (p.1 ++ ":" ++ p.2))).toArray),
          ("witness_hypotheses", Json.mkObj [
            ("blake2b_has_no_guard", Json.bool (guardCount "blake2b" == 0)),
            ("gclmulchunker_has_one_guard", Json.bool (guardCount "gclmulchunker" == 1)),
            ("hashing_kind_unchecked", Json.bool (!kindChecked "hashing")),
            ("chunking_kind_unchecked", Json.bool (!kindChecked "chunking"))]),
          ("d12_fixed_in_source", Json.bool d12FixedInSource),
          ("key_write", Json.mkObj [("init", Json.str (modeName keyWriteInit)), ("add_key", Json.str (modeName keyWriteAddKey)),
                                    ("after_checks", Json.bool keyWriteAfterChecks)]),
          ("recognised", Json.bool settingsRecognised)])
  | _ => throw s!"unknown op {op}"

end Driver.HSettings

/-! requests `settings.cli.*` — custom settings written on the command line (`ReplicatModel/SettingsCli.lean`).
Texts cross as JSON strings; a guess is a typed value (as above) or `["u"]` = outside the modelled fragment of `guess_type`;
a nested dict is `["m", [[key, sub], …]]` with the children IN INSERTION ORDER. -/
namespace Driver.HSettingsCli
open Replicat.SettingsCli Driver.HSettings

def strs (l : List Str) : Json := Json.arr (l.map (fun s => Json.str (String.ofList s))).toArray

def guessJson : Guess → Json
  | .val v => valJson v
  | .unmodelled => Json.arr #[Json.str "u"]

partial def treeJson : Tree Val → Json
  | .leaf v => valJson v
  | .node kids => Json.arr #[Json.str "m", Json.arr (kids.map (fun kv => Json.arr #[Json.str (String.ofList kv.1), treeJson kv.2])).toArray]

def getStrs (j : Json) (k : String) : Except String (List Str) := do
  (← getArr j k).toList.mapM (fun v => do pure (← v.getStr?).toList)

def outcomeJson : CliOutcome Val → Json
  | .noSettings => Json.mkObj [("outcome", Json.str "none")]
  | .unrecognised u => Json.mkObj [("outcome", Json.str "unrecognised"), ("unknown", strs u)]
  | .conflict => Json.mkObj [("outcome", Json.str "conflict")]
  | .settings t => Json.mkObj [("outcome", Json.str "settings"), ("tree", treeJson t)]
  | .unmodelled => Json.mkObj [("outcome", Json.str "unmodelled")]

def handle (op : String) (j : Json) : Except String Json := do
  match op with
  | "settings.cli.parse" =>
    let args ← getStrs j "args"
    let (m, u) := parseCliSettings args
    pure (Json.mkObj [
      ("mapping", Json.arr (m.map (fun kv => Json.arr #[Json.str (String.ofList kv.1), guessJson kv.2])).toArray),
      ("unknown", strs u),
      ("pairs", Json.arr ((cliPairs args).map (fun p => strs [p.1, p.2])).toArray),
      ("leftover", strs (cliLeftover args))])
  | "settings.cli.guess" =>
    let texts ← getStrs j "texts"
    pure (Json.mkObj [("values", Json.arr (texts.map (fun t => guessJson (guessType t))).toArray)])
  | "settings.cli.nest" =>
    -- a dict with scalar values, items in insertion order
    let flat ← (← getArr j "flat").toList.mapM (fun kv => do
      let a ← kv.getArr?
      let k ← (a[0]?.getD Json.null).getStr?
      match ← parseVal (a[1]?.getD Json.null) with
      | some v => pure (k.toList, v)
      | none => throw "settings.cli.nest: scalar values only")
    match flatToNested flat with
    | .ok t => pure (Json.mkObj [("conflict", Json.bool false), ("tree", treeJson t)])
    | .error _ => pure (Json.mkObj [("conflict", Json.bool true), ("tree", Json.null)])
  | "settings.cli.main" =>
    let action ← getStr j "action"
    let args ← getStrs j "args"
    pure (outcomeJson (cliMain action args))
  | "settings.cli.render" =>
    -- canonical command line of a settings dictionary (the rendering `cli_settings_equals_direct` is about)
    match ← parseSettings (← j.getObjVal? "settings") with
    | none => pure (Json.mkObj [("expressible", Json.bool false), ("args", Json.arr #[]), ("leaves", Json.arr #[])])
    | some s =>
      pure (Json.mkObj [
        ("expressible", Json.bool (cliExpressible s)),
        ("args", strs (renderSettings s)),
        ("leaves", Json.arr ((leavesOf s).map (fun l => Json.arr #[strs l.1, valJson l.2])).toArray)])
  | "settings.cli.table" =>
    pure (Json.mkObj [
      ("flag_prefix", Json.str (String.ofList cliFlagPrefix)),
      ("key_ops", Json.arr (cliKeyOps.map (fun o => Json.str (reprStr o))).toArray),
      ("coercion", Json.str cliCoercion),
      ("loop_recognised", Json.bool cliLoopRecognised),
      ("sep", Json.str (String.ofList [flatSep])),
      ("sorted", Json.bool flatSorted),
      ("conflict_catches", Json.arr (flatConflictCatches.map Json.str).toArray),
      ("conflict_raises", Json.str flatConflictRaises),
      ("descent_recognised", Json.bool flatDescentRecognised),
      ("title_words", strs guessTitleWords),
      ("guess_eval", Json.str guessEval),
      ("guess_catches", Json.arr (guessCatches.map Json.str).toArray),
      ("guess_recognised", Json.bool guessRecognised),
      ("guess_max_len", jnat guessMaxLen),
      ("main_chain", Json.arr (mainCliChain.map (fun c => Json.str (reprStr c))).toArray),
      ("main_actions", Json.arr (mainSettingsActions.map Json.str).toArray),
      ("main_passes", Json.arr (mainHandlerPassesSettings.map (fun p => Json.str (p.1 ++ "→" ++ p.2))).toArray),
      ("main_recognised", Json.bool mainChainRecognised)])
  | _ => throw s!"unknown op {op}"

end Driver.HSettingsCli

def Driver.handleSettings (op : String) (j : Json) : Except String Json :=
  if op.startsWith "settings.cli." then Driver.HSettingsCli.handle op j else Driver.HSettings.handleSettings op j
