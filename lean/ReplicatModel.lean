import ReplicatModel.Basic
import ReplicatModel.Generated
import ReplicatModel.Chunker
import ReplicatModel.Clmul
import ReplicatModel.Paging
import ReplicatModel.Store
import ReplicatModel.LocalFS
