import ReplicatModel.Basic
import ReplicatModel.Generated
import ReplicatModel.Chunker
import ReplicatModel.Clmul
import ReplicatModel.Sha256
import ReplicatModel.SigV4
