import ReplicatModel.Basic
import ReplicatModel.Generated
import ReplicatModel.Chunker
import ReplicatModel.Clmul
import ReplicatModel.ChunkerSync
import ReplicatModel.RateLimit
import ReplicatModel.Sha256
import ReplicatModel.SigV4
