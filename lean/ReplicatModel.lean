import ReplicatModel.Basic
import ReplicatModel.Generated
import ReplicatModel.Chunker
import ReplicatModel.Clmul
import ReplicatModel.ChunkerSync
import ReplicatModel.RateLimit
