import ReplicatModel.LocalFS
/-!
# The object-level commands of `replicat/repository.py`

`upload_objects(paths, rate_limit, skip_existing)`, `download_objects(path, object_prefix, object_regex, rate_limit,
skip_existing)`, `list_objects(object_prefix, object_regex)`, `delete_objects(object_paths, confirm)`.

Every command is a *program over a backend*: it is given the step function `step : σ → Op → σ × Ret` of any store model
(`MapStore.step`, `S3.step ps`, `B2.step ps`, `LocalFS.step root`, …), issues backend operations (`Op` of `Store.lean`),
reads their return values, and records the calls it made (`Run.tr`).  The local side is a flat table `Tree` (path ↦ bytes):
the files below the paths given to `upload_objects`, the directory `download_objects` writes into, the snapshot cache
directory `delete_objects` evicts from.

Mirrored from the code:
* `_flatten_resolve_paths`: a directory argument contributes every file below it (directories without any file below them
  are given as `dirs`), a file argument itself, a path that is neither raises (`resolve(strict=True)`: `FileNotFoundError`); repeats are dropped, first occurrence kept (`dict.fromkeys`);
  no files → the command returns `None` before anything else happens.
* the object name: `path.relative_to(os.path.commonpath([path, cwd])).as_posix()` (`objectName`: drop the longest common
  prefix of segments; `'.'` if nothing is left).
* `skip_existing` on upload: `exists(name)` is asked first and a true answer skips the upload; otherwise (and without the
  flag) `upload_stream(name, file, length, chunk)`.
* chunk size of the streamed transfers: `DEFAULT_STREAM_CHUNK_SIZE` without a rate limit, else
  `max(rate_limit // (concurrent * Gen.rateDivisor), Gen.objcmdChunkFloor)`.
* the selection of `download_objects` / `list_objects`: the names `list_files(object_prefix)` returns, minus those on which
  `object_re.search` is `None` — the regular expression is an arbitrary predicate `keep`.
* `download_objects`: no object → `None`; per object `base / name` (`LocalFS.relPath`, the pathlib join), `mkdir -p` of the
  parent, `open('xb' if skip_existing else 'wb')` (an existing file — or directory — under `xb` is `FileExistsError`, which is
  swallowed: the object is skipped and the backend is not asked), `download_stream(name, file, chunk)` into the empty file.
* `delete_objects`: `confirm` asks `input('Proceed? [y/n] ').lower() != 'y'` → return; per name `backend.delete`, then — iff a
  cache directory is configured — `Path(cache, name).unlink(missing_ok=True)`.

Abstractions (recorded as assumptions of the evidence): the `asyncio.gather` over files / objects is modelled in list order
and stops at the first error (the theorems of `Properties/C13.lean` show that on distinct names the resulting store and
directory do not depend on the order); the rate limiter and progress wrappers are transparent (C20); the local trees do not
change while a command runs; existing *empty* directories in the download / cache directory and symbolic links are outside
the flat table.
-/
namespace Replicat.ObjCmd
open Replicat Replicat.Store Replicat.Paging
open Replicat.LocalFS (Seg Path relPath)

/-! ## the local side: a flat table of regular files -/
abbrev Tree := List (Path × Bytes)

def Tree.get (t : Tree) (p : Path) : Option Bytes := alookup t p
def Tree.keys (t : Tree) : List Path := t.map (·.1)
def Tree.put (t : Tree) (p : Path) (d : Bytes) : Tree := ainsert t p d
def Tree.erase (t : Tree) (p : Path) : Tree := aerase t p

/-- `p` is a proper prefix of `q` (a proper ancestor directory) -/
def properPrefix (p q : Path) : Bool := p.isPrefixOf q && decide (p ≠ q)
/-- a regular file sits where `p` needs a directory (ENOTDIR / `mkdir` fails) -/
def Tree.blocked (t : Tree) (p : Path) : Bool := t.keys.any (fun q => properPrefix q p)
/-- some file lies strictly below `p`: `p` is a directory -/
def Tree.isDir (t : Tree) (p : Path) : Bool := t.keys.any (fun q => properPrefix p q)

/-! ## `_flatten_resolve_paths` -/

/-- `dict.fromkeys`: repeats dropped, first occurrence kept -/
def dedupFirst {α : Type} [DecidableEq α] : List α → List α
  | [] => []
  | x :: xs => x :: (dedupFirst xs).filter (fun y => decide (y ≠ x))

/-- one path argument: every file below a directory (`dirs`: the directories that exist without a file below them), a file
itself, otherwise `FileNotFoundError` -/
def flattenOne (t : Tree) (dirs : List Path) (p : Path) : Except Err (List Path) :=
  let below := t.keys.filter (fun q => properPrefix p q)
  if below ≠ [] then .ok below
  else if p ∈ dirs then .ok []
  else if (t.get p).isSome then .ok [p]
  else .error .notFound

def flatten (t : Tree) (dirs : List Path) : List Path → Except Err (List Path)
  | [] => .ok []
  | p :: ps =>
    match flattenOne t dirs p with
    | .error e => .error e
    | .ok a =>
      match flatten t dirs ps with
      | .error e => .error e
      | .ok b => .ok (a ++ b)

/-! ## names and chunk sizes -/

/-- what is left of `file` after the longest common prefix (of whole segments) with `cwd` -/
def dropCommon : Path → Path → Path
  | a :: p, b :: q => if a = b then dropCommon p q else a :: p
  | p, _ => p

/-- `path.relative_to(os.path.commonpath([path, cwd])).as_posix()` -/
def objectName (cwd file : Path) : Name :=
  let rel := dropCommon file cwd
  if rel = [] then dot else joinSlash rel

/-- chunk size of `upload_stream` / `download_stream`; `none`: no slot (`concurrent = 0`) or a zero rate limit, with which the
command cannot run (`ZeroDivisionError`) -/
def chunkSize (concurrent : Nat) : Option Nat → Option Nat
  | none => some Gen.streamChunk
  | some rl =>
    if concurrent = 0 ∨ rl = 0 then none
    else some (max (rl / (concurrent * Gen.rateDivisor)) Gen.objcmdChunkFloor)

/-! ## what a command run yields -/

/-- return value of a command -/
inductive Out
  | none                      -- `None`: nothing to do, aborted, or `delete_objects`
  | files (l : List Path)     -- `upload_objects`: `files`
  | names (l : List Name)     -- `download_objects`: `objects`, `list_objects`: `paths`
deriving Repr, DecidableEq

structure Run (σ : Type) where
  st : σ                      -- the backend afterwards
  loc : Tree                  -- the local side afterwards
  tr : List (Op × Ret)        -- the backend calls made, with what they returned
  res : Except Err Out

/-- a call that should return `None` -/
def retUnit : Ret → Option Err
  | .unit => none
  | .error e => some e
  | _ => some .unmodelled

variable {σ : Type}

/-! ## `upload_objects` -/

def uploadOne (step : σ → Op → σ × Ret) (skip : Bool) (chunk : Nat) (s : σ) (n : Name) (d : Bytes) :
    σ × List (Op × Ret) × Option Err :=
  if skip then
    let e := step s (.exists_ n)
    match e.2 with
    | .bool true => (e.1, [(.exists_ n, e.2)], none)
    | .bool false =>
      let u := step e.1 (.uploadStream n d chunk)
      (u.1, [(.exists_ n, e.2), (.uploadStream n d chunk, u.2)], retUnit u.2)
    | .error err => (e.1, [(.exists_ n, e.2)], some err)
    | _ => (e.1, [(.exists_ n, e.2)], some .unmodelled)
  else
    let u := step s (.uploadStream n d chunk)
    (u.1, [(.uploadStream n d chunk, u.2)], retUnit u.2)

def uploadLoop (step : σ → Op → σ × Ret) (skip : Bool) (chunk : Nat) : σ → List (Name × Bytes) → σ × List (Op × Ret) × Option Err
  | s, [] => (s, [], none)
  | s, (n, d) :: rest =>
    let o := uploadOne step skip chunk s n d
    match o.2.2 with
    | some e => (o.1, o.2.1, some e)
    | none =>
      let r := uploadLoop step skip chunk o.1 rest
      (r.1, o.2.1 ++ r.2.1, r.2.2)

/-- (object name, content) of the files to upload -/
def items (cwd : Path) (t : Tree) (files : List Path) : List (Name × Bytes) :=
  files.filterMap (fun f => (t.get f).map (fun d => (objectName cwd f, d)))

def uploadObjects (step : σ → Op → σ × Ret) (concurrent : Nat) (cwd : Path) (dirs paths : List Path) (rateLimit : Option Nat)
    (skip : Bool) (s : σ) (t : Tree) : Run σ :=
  match flatten t dirs paths with
  | .error e => ⟨s, t, [], .error e⟩
  | .ok fl =>
    let files := dedupFirst fl
    if files = [] then ⟨s, t, [], .ok .none⟩
    else
      match chunkSize concurrent rateLimit with
      | none => ⟨s, t, [], .error .unmodelled⟩
      | some chunk =>
        let r := uploadLoop step skip chunk s (items cwd t files)
        ⟨r.1, t, r.2.1, match r.2.2 with | some e => .error e | none => .ok (.files files)⟩

/-! ## `download_objects`, `list_objects` -/

def downloadOne (step : σ → Op → σ × Ret) (skip : Bool) (chunk : Nat) (s : σ) (dir : Tree) (n : Name) :
    σ × Tree × List (Op × Ret) × Option Err :=
  match relPath n with
  | none => (s, dir, [], some .unmodelled)                      -- absolute name or `..`: leaves the target directory
  | some p =>
    if dir.blocked p then (s, dir, [], some .osError)            -- `parent.mkdir(parents=True, exist_ok=True)` fails
    else if skip ∧ (p = [] ∨ dir.isDir p ∨ (dir.get p).isSome) then (s, dir, [], none)   -- `open('xb')`: FileExistsError, swallowed
    else if p = [] ∨ dir.isDir p then (s, dir, [], some .osError)                         -- `open('wb')` on a directory
    else
      let r := step s (.downloadStream n chunk [])
      match r.2 with
      | .bytes d => (r.1, dir.put p d, [(.downloadStream n chunk [], r.2)], none)
      | .error e => (r.1, dir.put p [], [(.downloadStream n chunk [], r.2)], some e)      -- the file was created / truncated
      | _ => (r.1, dir.put p [], [(.downloadStream n chunk [], r.2)], some .unmodelled)

def downloadLoop (step : σ → Op → σ × Ret) (skip : Bool) (chunk : Nat) : σ → Tree → List Name → σ × Tree × List (Op × Ret) × Option Err
  | s, dir, [] => (s, dir, [], none)
  | s, dir, n :: rest =>
    let o := downloadOne step skip chunk s dir n
    match o.2.2.2 with
    | some e => (o.1, o.2.1, o.2.2.1, some e)
    | none =>
      let r := downloadLoop step skip chunk o.1 o.2.1 rest
      (r.1, r.2.1, o.2.2.1 ++ r.2.2.1, r.2.2.2)

def downloadObjects (step : σ → Op → σ × Ret) (concurrent : Nat) (pfx : Name) (keep : Name → Bool) (rateLimit : Option Nat)
    (skip : Bool) (s : σ) (dir : Tree) : Run σ :=
  let l := step s (.list pfx)
  match l.2 with
  | .names ns =>
    let objects := ns.filter keep
    if objects = [] then ⟨l.1, dir, [(.list pfx, l.2)], .ok .none⟩
    else
      match chunkSize concurrent rateLimit with
      | none => ⟨l.1, dir, [(.list pfx, l.2)], .error .unmodelled⟩
      | some chunk =>
        let r := downloadLoop step skip chunk l.1 dir objects
        ⟨r.1, r.2.1, (.list pfx, l.2) :: r.2.2.1, match r.2.2.2 with | some e => .error e | none => .ok (.names objects)⟩
  | .error e => ⟨l.1, dir, [(.list pfx, l.2)], .error e⟩
  | _ => ⟨l.1, dir, [(.list pfx, l.2)], .error .unmodelled⟩

def listObjects (step : σ → Op → σ × Ret) (pfx : Name) (keep : Name → Bool) (s : σ) (loc : Tree) : Run σ :=
  let l := step s (.list pfx)
  ⟨l.1, loc, [(.list pfx, l.2)],
    match l.2 with
    | .names ns => .ok (.names (ns.filter keep))
    | .error e => .error e
    | _ => .error .unmodelled⟩

/-! ## `delete_objects` -/

/-- `not confirm or input(…).lower() == 'y'` -/
def proceeds (confirm : Bool) (answer : List Char) : Bool := !confirm || answer = ['y'] || answer = ['Y']

/-- `Path(cache_directory, name).unlink(missing_ok=True)` -/
def evict (cache : Tree) (n : Name) : Tree × Option Err :=
  match relPath n with
  | none => (cache, some .unmodelled)
  | some p =>
    if p = [] ∨ cache.blocked p ∨ cache.isDir p then (cache, some .osError)   -- EISDIR / ENOTDIR are not FileNotFoundError
    else (cache.erase p, none)

def deleteLoop (step : σ → Op → σ × Ret) (useCache : Bool) : σ → Tree → List Name → σ × Tree × List (Op × Ret) × Option Err
  | s, cache, [] => (s, cache, [], none)
  | s, cache, n :: rest =>
    let r := step s (.delete n)
    match retUnit r.2 with
    | some e => (r.1, cache, [(.delete n, r.2)], some e)
    | none =>
      let ev := if useCache then evict cache n else (cache, none)
      match ev.2 with
      | some e => (r.1, ev.1, [(.delete n, r.2)], some e)
      | none =>
        let k := deleteLoop step useCache r.1 ev.1 rest
        (k.1, k.2.1, (.delete n, r.2) :: k.2.2.1, k.2.2.2)

def deleteObjects (step : σ → Op → σ × Ret) (names : List Name) (confirm : Bool) (answer : List Char) (useCache : Bool)
    (s : σ) (cache : Tree) : Run σ :=
  if proceeds confirm answer then
    let k := deleteLoop step useCache s cache names
    ⟨k.1, k.2.1, k.2.2.1, match k.2.2.2 with | some e => .error e | none => .ok .none⟩
  else ⟨s, cache, [], .ok .none⟩

/-! ## the gathered upload tasks under a scheduler (map level)

`upload_objects` gathers one task per file; with `skip_existing` a task makes up to two backend calls (`exists`, then
`upload_stream` if the answer was `False`), and the calls of different tasks interleave.  `runSchedule` lets a scheduler pick,
call after call, the task (by object name) that makes its next backend call. -/

inductive Phase
  | todo        -- nothing asked yet
  | pending     -- `exists` answered `False`; the upload is still to come
  | done
deriving Repr, DecidableEq

structure Task where
  name : Name
  data : Bytes
  phase : Phase
deriving Repr, DecidableEq

/-- the backend call a task makes next (chunk size left open) -/
def Task.nextCall (skip : Bool) (t : Task) : Option Op :=
  match t.phase with
  | .todo => if skip then some (.exists_ t.name) else some (.uploadStream t.name t.data 1)
  | .pending => some (.uploadStream t.name t.data 1)
  | .done => none

/-- the next backend call of a task, at map level -/
def advance (skip : Bool) (m : Spec) (t : Task) : Spec × Task :=
  match t.phase with
  | .todo =>
    if skip then (if (m t.name).isSome then (m, { t with phase := .done }) else (m, { t with phase := .pending }))
    else (m.put t.name t.data, { t with phase := .done })
  | .pending => (m.put t.name t.data, { t with phase := .done })
  | .done => (m, t)

/-- the scheduler lets the task for object `n` make its next call -/
def stepTask (skip : Bool) (m : Spec) (ts : List Task) (n : Name) : Spec × List Task :=
  match ts.find? (fun t => decide (t.name = n)) with
  | none => (m, ts)
  | some t => ((advance skip m t).1, ts.map (fun u => if u.name = n then (advance skip m t).2 else u))

def runSchedule (skip : Bool) : Spec → List Task → List Name → Spec × List Task
  | m, ts, [] => (m, ts)
  | m, ts, n :: sched => runSchedule skip (stepTask skip m ts n).1 (stepTask skip m ts n).2 sched

def initTasks (l : List (Name × Bytes)) : List Task := l.map (fun e => ⟨e.1, e.2, .todo⟩)

/-! ## the four commands as one type -/
inductive Cmd
  | upload (cwd : Path) (dirs paths : List Path) (rateLimit : Option Nat) (skipExisting : Bool)
  | download (pfx : Name) (keep : Name → Bool) (rateLimit : Option Nat) (skipExisting : Bool)
  | list (pfx : Name) (keep : Name → Bool)
  | delete (names : List Name) (confirm : Bool) (answer : List Char) (useCache : Bool)

/-- run a command of a `Repository` with `concurrent` slots against the backend `step`, local side `loc` -/
def Cmd.run (step : σ → Op → σ × Ret) (concurrent : Nat) : Cmd → σ → Tree → Run σ
  | .upload cwd dirs paths rl skip, s, loc => uploadObjects step concurrent cwd dirs paths rl skip s loc
  | .download pfx keep rl skip, s, loc => downloadObjects step concurrent pfx keep rl skip s loc
  | .list pfx keep, s, loc => listObjects step pfx keep s loc
  | .delete names confirm answer useCache, s, loc => deleteObjects step names confirm answer useCache s loc

end Replicat.ObjCmd
